"""Demonstration for C12: GPT-NeoX assignment consistency over the 3-D topology.

Run as:
    PYTHONPATH=/tmp/wt/R9-C12 /venv/bin/python /tmp/wt/R9-C12/_out/demo.py

Exits 0 when every clause of the property holds for all the topologies and
cost dictionaries tried, non-zero (printing the first violations) otherwise.

DeepSpeed is not installed, so a tiny stand-in for
deepspeed.runtime.pipe.topology.PipeModelDataParallelTopology (same rank
layout: axes pipe, data, model with model the fastest varying) is put in
sys.modules before kfac.gpt_neox.assignment is imported, and
torch.distributed.new_group is replaced by a recorder.
"""

from __future__ import annotations

import collections
import itertools
import random
import sys
import types
from fractions import Fraction
from unittest import mock


# --------------------------------------------------------------------------
# stand-in for the DeepSpeed topology
# --------------------------------------------------------------------------
class PipeModelDataParallelTopology:
    axes = ('pipe', 'data', 'model')

    def __init__(self, num_pp: int, num_mp: int, num_dp: int) -> None:
        # NB: DeepSpeed's signature is (num_pp, num_mp, num_dp) while the
        # axes order is pipe, data, model.
        self.dims = {'pipe': num_pp, 'data': num_dp, 'model': num_mp}
        self.Coord = collections.namedtuple('ProcessCoord', self.axes)
        self.coords = [
            self.Coord(*c)
            for c in itertools.product(
                *[range(self.dims[a]) for a in self.axes],
            )
        ]

    def world_size(self) -> int:
        return len(self.coords)

    def get_dim(self, axis: str) -> int:
        return self.dims[axis]

    def get_coord(self, rank: int):
        return self.coords[rank]

    def get_axis_comm_lists(self, axis: str) -> list[list[int]]:
        others = [a for a in self.axes if a != axis]
        lists = []
        for fixed in itertools.product(*[range(self.dims[a]) for a in others]):
            key = dict(zip(others, fixed))
            lists.append(
                [
                    r
                    for r, c in enumerate(self.coords)
                    if all(getattr(c, a) == v for a, v in key.items())
                ],
            )
        return lists


def _install_stub() -> None:
    names = [
        'deepspeed',
        'deepspeed.runtime',
        'deepspeed.runtime.pipe',
        'deepspeed.runtime.pipe.topology',
    ]
    mods = {n: types.ModuleType(n) for n in names}
    for n in names:
        mods[n].__path__ = []  # type: ignore[attr-defined]
    mods['deepspeed'].runtime = mods['deepspeed.runtime']
    mods['deepspeed.runtime'].pipe = mods['deepspeed.runtime.pipe']
    mods['deepspeed.runtime.pipe'].topology = mods[
        'deepspeed.runtime.pipe.topology'
    ]
    mods[
        'deepspeed.runtime.pipe.topology'
    ].PipeModelDataParallelTopology = PipeModelDataParallelTopology
    sys.modules.update(mods)


_install_stub()

from kfac.gpt_neox.assignment import GPTNeoXAssignment  # noqa: E402


# --------------------------------------------------------------------------
# reference model (exact arithmetic)
# --------------------------------------------------------------------------
def reference_inv_workers(
    work: dict[str, dict[str, float]],
    stage_ranks: list[int],
) -> dict[str, int]:
    """Least-loaded greedy: heaviest layer first (ties: larger name first),
    to the least loaded stage rank (ties: lowest rank)."""
    summed = [
        (layer, sum(Fraction(c) for c in factors.values()))
        for layer, factors in work.items()
    ]
    summed.sort(key=lambda it: (it[1], it[0]), reverse=True)
    loads = [Fraction(0) for _ in stage_ranks]
    out = {}
    for layer, cost in summed:
        i = loads.index(min(loads))
        out[layer] = stage_ranks[i]
        loads[i] += cost
    return out


def check_topology(
    pp: int,
    dp: int,
    mp: int,
    work_of_stage: dict[int, dict[str, dict[str, float]]],
    errors: list[str],
) -> None:
    topo = PipeModelDataParallelTopology(pp, mp, dp)
    world = topo.world_size()
    tag = f'(pipe={pp}, data={dp}, model={mp})'

    assignments = {}
    created: dict[int, list[tuple[int, ...]]] = {}
    for rank in range(world):
        calls: list[tuple[int, ...]] = []

        def new_group(ranks=None, *a, _calls=calls, **k):
            _calls.append(tuple(ranks))
            return ('group', tuple(ranks))

        stage = topo.get_coord(rank).pipe
        with mock.patch('torch.distributed.new_group', new_group):
            assignments[rank] = GPTNeoXAssignment(
                # a fresh copy per rank, same content and key order
                {l: dict(f) for l, f in work_of_stage[stage].items()},
                local_rank=rank,
                topology=topo,
                data_parallel_group=('dp', rank),  # type: ignore
                model_parallel_group=('mp', rank),  # type: ignore
            )
        created[rank] = calls

    # groups created by all ranks in the same order
    for rank in range(1, world):
        if created[rank] != created[0]:
            errors.append(
                f'{tag}: rank {rank} created groups {created[rank]} but '
                f'rank 0 created {created[0]}',
            )

    for rank in range(world):
        c = topo.get_coord(rank)
        stage_ranks = [
            r for r in range(world) if topo.get_coord(r).pipe == c.pipe
        ]
        work = work_of_stage[c.pipe]
        expected = reference_inv_workers(work, stage_ranks)
        a = assignments[rank]
        for layer, factors in work.items():
            invs = {a.inv_worker(layer, f) for f in factors}
            if invs != {expected[layer]}:
                errors.append(
                    f'{tag} work={work}: rank {rank} has inverse worker(s) '
                    f'{sorted(invs)} for {layer}; least-loaded greedy over '
                    f'stage ranks {stage_ranks} gives {expected[layer]} '
                    f'(full expected map {expected})',
                )
                continue
            inv = expected[layer]
            ic = topo.get_coord(inv)

            # factor worker: own model-parallel group, inv worker's
            # data-parallel group
            fw = {a.factor_worker(layer, f) for f in factors}
            want_fw = [
                r
                for r in stage_ranks
                if topo.get_coord(r).data == c.data
                and topo.get_coord(r).model == ic.model
            ]
            if fw != set(want_fw):
                errors.append(
                    f'{tag}: rank {rank} factor worker {fw} for {layer}, '
                    f'expected {want_fw}',
                )

            # gradient source: own data-parallel group, same shard as us,
            # in the inverse worker's model-parallel group
            src = a.src_grad_worker(layer)
            want_src = [
                r
                for r in stage_ranks
                if topo.get_coord(r).model == c.model
                and topo.get_coord(r).data == ic.data
            ]
            if [src] != want_src:
                errors.append(
                    f'{tag}: rank {rank} grad source {src} for {layer}, '
                    f'expected {want_src}',
                )

            # gradient workers: exactly the inverse worker's model peers
            want_gw = c.data == ic.data
            if a.is_grad_worker(layer) != want_gw:
                errors.append(
                    f'{tag}: rank {rank} is_grad_worker({layer}) = '
                    f'{a.is_grad_worker(layer)}, expected {want_gw}',
                )


def main() -> int:
    errors: list[str] = []
    rng = random.Random(12)

    topologies = [
        (pp, dp, mp)
        for pp in (1, 2, 3)
        for dp in (1, 2, 3)
        for mp in (1, 2)
    ]

    def random_work(n_layers: int) -> dict[str, dict[str, float]]:
        # small integer (and a few dyadic) costs: plenty of ties, all exactly
        # representable, sums exact in double precision
        pool = [1, 1, 2, 2, 3, 4, 5, 6, 7, 0.5, 1.5]
        return {
            f'layer{i}': {'A': rng.choice(pool), 'G': rng.choice(pool)}
            for i in range(n_layers)
        }

    fixed = [
        {},
        {'l1': {'A': 1, 'G': 1}, 'l2': {'A': 1, 'G': 1}},
        {
            'l1': {'A': 10, 'G': 10},
            'l2': {'A': 1, 'G': 1},
            'l3': {'A': 1, 'G': 1},
        },
        # loads tie at 5 vs 3+2 before the last layer is placed
        {
            'w': {'A': 1, 'G': 1},
            'x': {'A': 1, 'G': 1},
            'y': {'A': 2, 'G': 1},
            'z': {'A': 3, 'G': 2},
        },
        # transformer-block like n**3 costs (h = 2): qkv, dense, h->4h, 4h->h
        {
            'qkv': {'A': 8, 'G': 216},
            'dense': {'A': 8, 'G': 8},
            'h_to_4h': {'A': 8, 'G': 512},
            '4h_to_h': {'A': 512, 'G': 8},
        },
    ]

    n_cases = 0
    for pp, dp, mp in topologies:
        works = list(fixed) + [
            random_work(rng.randint(1, 7)) for _ in range(25)
        ]
        for w in works:
            # every stage gets its own (renamed) layers
            per_stage = {}
            for s in range(pp):
                per_stage[s] = {f's{s}.{k}': dict(v) for k, v in w.items()}
            check_topology(pp, dp, mp, per_stage, errors)
            n_cases += 1

    if errors:
        print(f'C12 VIOLATED: {len(errors)} discrepancies, first few:')
        for e in errors[:6]:
            print('  -', e)
        return 1
    print(f'C12 holds on {n_cases} (topology, costs) cases')
    return 0


if __name__ == '__main__':
    sys.exit(main())
