"""D8 (C08): a bucket that receives tensors of different dtypes.

Two simulated ranks (harness/simdist); one float32 and one float64 tensor are
added to the same bucket.  Correct: each future resolves to the value, shape
AND dtype an unbucketed allreduce would give.  Exit 0 = holds, 1 = violated.
"""
import os, sys
sys.path.insert(0, os.path.dirname(os.path.dirname(os.path.abspath(__file__))))
sys.path.insert(0, os.environ.get('KFAC_REPO', '/repo'))
import warnings; warnings.filterwarnings('ignore')
import torch
from harness import simdist
from kfac.distributed import TorchDistributedCommunicator


def body(rank):
    comm = TorchDistributedCommunicator(bucket_cap_mb=1.0)
    a = torch.full((2, 2), 1.0 + rank, dtype=torch.float32)
    b = torch.full((3,), 0.1 * (rank + 1), dtype=torch.float64)
    fa = comm.allreduce_bucketed(a.clone())   # the communicator may reduce in place
    fb = comm.allreduce_bucketed(b.clone())
    comm.flush_allreduce_buckets()
    ra, rb = fa.wait(), fb.wait()
    ua = comm.allreduce(a.clone()).wait()
    ub = comm.allreduce(b.clone()).wait()
    return [(str(ra.dtype), str(ua.dtype), torch.equal(ra.to(ua.dtype), ua)), (str(rb.dtype), str(ub.dtype), torch.equal(rb.to(ub.dtype), ub))]


w = simdist.run_world(2, body, seed=0)
print(w.results, w.errors, w.exceptions)
ok = w.ok and all(x[0] == x[1] and x[2] for r in w.results.values() for x in r)
print('PROPERTY HOLDS' if ok else 'PROPERTY VIOLATED')
sys.exit(0 if ok else 1)
