"""D12 (C11): ColumnParallelLinear WITHOUT bias, model-parallel degree 2 (simdist + DeepSpeed stand-in).
Correct: step() completes and every rank holds its shard of the unsharded result.  Exit 0 = holds."""
import os, sys
sys.path.insert(0, os.path.dirname(os.path.dirname(os.path.abspath(__file__))))
from harness import common; common.setup_impl_path()
from harness import neoxrun
cfg = {'P': 1, 'D': 1, 'M': 2, 'layers': [('col', 4, 4, 0)], 'batch': 2, 'kl_clip': None, 'damping': 0.5, 'factor_decay': 0.5, 'allreduce_bucket_cap_mb': 0.0}
hist = [['train', 1]]
w = neoxrun.run(cfg, hist, seed=1)
print('ok' if w.ok else (w.deadlock, w.exceptions))
ok = w.ok
if ok:
    ref = neoxrun.reference(cfg, hist)
    for r in range(2):
        ew, eb = neoxrun.shard_of(cfg, 0, r, *ref[0]['after'][0])
        ok = ok and float((w.results[r][0]['after'][0][0] - ew).abs().max()) < 1e-9
print('PROPERTY HOLDS' if ok else 'PROPERTY VIOLATED'); sys.exit(0 if ok else 1)
