"""D4 (C08): two distinct groups of equal size share one allreduce bucket.

World of 3 (gloo, real processes).  Groups A={0,1}, B={1,2}.  Rank 1 adds one
tensor for A and one for B through allreduce_bucketed, ranks 0/2 add their one.
Correct behaviour: every future resolves to the sum inside the requested group.
Before the fix the bucket key is frozenset(range(size)) == {0,1} for both
groups, so rank 1 fuses both tensors into one allreduce on A: size mismatch /
hang.  Exit code 0 = property holds, 1 = violated.
"""
import multiprocessing, os, sys, socket
sys.path.insert(0, os.environ.get('KFAC_REPO', '/repo'))
import warnings; warnings.filterwarnings('ignore')

def worker(rank, port, q):
    import torch, torch.distributed as dist, datetime
    os.environ.update(MASTER_ADDR='127.0.0.1', MASTER_PORT=str(port), RANK=str(rank), WORLD_SIZE='3')
    dist.init_process_group('gloo', timeout=datetime.timedelta(seconds=8))
    from kfac.distributed import TorchDistributedCommunicator
    A = dist.new_group([0, 1]); B = dist.new_group([1, 2])
    comm = TorchDistributedCommunicator(bucket_cap_mb=1.0)
    futs = []
    if rank in (0, 1):
        futs.append(('A', comm.allreduce_bucketed(torch.full((2, 2), 10.0 + rank), group=A)))
    if rank in (1, 2):
        futs.append(('B', comm.allreduce_bucketed(torch.full((3,), 100.0 + rank), group=B)))
    comm.flush_allreduce_buckets()
    out = []
    try:
        for g, f in futs:
            t = f.wait() if hasattr(f, 'wait') else f
            out.append((g, t.flatten().tolist()))
        q.put((rank, 'ok', out))
    except Exception as e:  # noqa
        q.put((rank, 'error', repr(e)[:200]))

if __name__ == '__main__':
    s = socket.socket(); s.bind(('', 0)); port = s.getsockname()[1]; s.close()
    ctx = multiprocessing.get_context('fork'); q = ctx.Queue()
    ps = [ctx.Process(target=worker, args=(r, port, q)) for r in range(3)]
    [p.start() for p in ps]
    res = {}
    import queue, time
    t0 = time.time()
    while len(res) < 3 and time.time() - t0 < 25:
        try:
            r, st, o = q.get(timeout=1); res[r] = (st, o)
        except queue.Empty:
            pass
    for p in ps:
        p.join(1)
        if p.is_alive(): p.terminate()
    expect = {0: [('A', [21.0] * 4)], 1: [('A', [21.0] * 4), ('B', [203.0] * 3)], 2: [('B', [203.0] * 3)]}
    ok = all(res.get(r) == ('ok', expect[r]) for r in range(3))
    print(res)
    print('PROPERTY HOLDS' if ok else 'PROPERTY VIOLATED')
    sys.exit(0 if ok else 1)
