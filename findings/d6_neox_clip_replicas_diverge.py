"""D6 (C11/C07): GPT-NeoX preconditioned_grad reduce_scatters INTO the module's own gradient tensors, so on the
primary's model-parallel group the clip scale is computed from <V, V> instead of <V, D>, while the other data-parallel
replicas use <V, D>: data-parallel replicas end with different gradients.  data x model = 2 x 2, clipping active.
Correct: ranks with the same model-parallel index hold identical gradients.  Exit 0 = holds."""
import os, sys
sys.path.insert(0, os.path.dirname(os.path.dirname(os.path.abspath(__file__))))
from harness import common; common.setup_impl_path()
import torch
from harness import neoxrun
cfg = {'P': 1, 'D': 2, 'M': 2, 'layers': [('col', 4, 4, 1), ('row', 4, 2, 1)], 'batch': 2, 'kl_clip': 0.001, 'damping': 0.5, 'factor_decay': 0.5, 'allreduce_bucket_cap_mb': 0.0}
hist = [['train', 1]]
w = neoxrun.run(cfg, hist, seed=1)
ok = w.ok
if ok:
    for m in range(2):
        a, b = w.results[m][0]['after'], w.results[2 + m][0]['after']     # ranks (d=0, m) and (d=1, m)
        for (wa, ba), (wb, bb) in zip(a, b):
            same = torch.equal(wa, wb) and (ba is None or torch.equal(ba, bb))
            if not same:
                print('model-parallel index', m, ': data-parallel replicas differ, max |diff| =', float((wa - wb).abs().max()))
            ok = ok and same
print('PROPERTY HOLDS' if ok else 'PROPERTY VIOLATED'); sys.exit(0 if ok else 1)
