"""D9 (C09): a state saved at step boundary 0 (before any factor update) must load.

Exit 0 = holds, 1 = violated.
"""
import os, sys
sys.path.insert(0, os.environ.get('KFAC_REPO', '/repo'))
import warnings; warnings.filterwarnings('ignore')
import torch
from kfac.preconditioner import KFACPreconditioner
ok = True
for method in ('eigen', 'inverse'):
    m = torch.nn.Linear(3, 2)
    sd = KFACPreconditioner(m, compute_method=method).state_dict()
    p2 = KFACPreconditioner(m, compute_method=method)
    try:
        p2.load_state_dict(sd)
        m(torch.randn(4, 3)).sum().backward(); p2.step()
        print(method, 'loaded; steps =', p2.steps)
    except Exception as e:  # noqa
        ok = False; print(method, 'FAILED', repr(e)[:120])
print('PROPERTY HOLDS' if ok else 'PROPERTY VIOLATED')
sys.exit(0 if ok else 1)
