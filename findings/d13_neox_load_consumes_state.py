"""D13 (C18): GPTNeoXKFACPreconditioner.load_state_dict removes the factors from the CALLER's state dict
(`state_dict.pop('layers')`).  A state obtained from state_dict() and loaded once therefore no longer contains the factors: a
second load of the same object (a second roll-back, loading it into another instance, writing it to disk afterwards) silently
restores the step count only.  Correct: after load_state_dict(sd) the object sd is still the saved state, and loading it again
restores the saved factors.  simdist + DeepSpeed stand-in, 2 data-parallel ranks.  Exit 0 = holds."""
import os, sys
sys.path.insert(0, os.path.dirname(os.path.dirname(os.path.abspath(__file__))))
from harness import common; common.setup_impl_path()
import torch
from harness import neoxrun
from harness.props import C18
cfg = {'P': 1, 'D': 2, 'M': 1, 'layers': [('col', 2, 2, 1), ('row', 2, 3, 0)], 'batch': 2, 'kl_clip': None, 'damping': 0.5, 'factor_decay': 0.5,
       'allreduce_bucket_cap_mb': 0.0, 'inv_update_steps': 1, 'factor_update_steps': 1}
#        0             1          2             3 first roll-back (object itself) 4        5 second roll-back          6
hist = [['train', 1], ['save'], ['train', 1], ['load_same', 0, 1, 1], ['train', 1], ['load_same', 0, 1, 1], ['ckpt_check', 0]]
w = neoxrun.run(cfg, hist, seed=1, observe=C18.observe)
print('run ok' if w.ok else (w.deadlock, w.exceptions))
ok = w.ok
if ok:
    for r in range(2):
        saved, first, second = (w.results[r][i]['extra'] for i in (1, 3, 5))
        for li, (s, a, b) in enumerate(zip(saved, first, second)):
            e1 = torch.equal(s['A'], a['A']) and torch.equal(s['G'], a['G'])
            e2 = torch.equal(s['A'], b['A']) and torch.equal(s['G'], b['G'])
            print(f'rank {r} layer {li}: first load restores the saved factors: {e1}; second load of the same object: {e2}')
            ok = ok and e1 and e2
        unchanged = w.results[r][6]['unchanged']
        print(f'rank {r}: state object unchanged by load_state_dict: {unchanged}')
        ok = ok and unchanged
print('PROPERTY HOLDS' if ok else 'PROPERTY VIOLATED'); sys.exit(0 if ok else 1)
