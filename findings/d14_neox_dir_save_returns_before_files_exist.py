"""D14 (C18): GPTNeoXKFACPreconditioner.save_factors_to_dir synchronises BEFORE the inverse workers write their layer files but not
after, so state_dict() returns on a rank while other ranks' files do not exist yet; load_factors_from_dir silently skips a missing
file.  state_dict() immediately followed by load_state_dict() (directory mode, >= 2 data-parallel ranks) therefore restores only
some layers on a rank that runs ahead - without any error.  Correct: when state_dict() has returned on a rank, the directory holds one
file per layer, and loading restores every layer.  simdist (file I/O is a scheduling point) + DeepSpeed stand-in.  Exit 0 = holds."""
import os, shutil, sys, tempfile
sys.path.insert(0, os.path.dirname(os.path.dirname(os.path.abspath(__file__))))
from harness import common; common.setup_impl_path()
import torch
from harness import neoxrun
from harness.props import C18
ok = True
for pol in ('ahead', 'random', 'rr'):
    tmp = tempfile.mkdtemp(prefix='kv_d14_')
    cfg = {'P': 1, 'D': 2, 'M': 1, 'layers': [('col', 2, 2, 1), ('row', 2, 3, 0), ('col', 3, 2, 0)], 'batch': 2, 'kl_clip': None, 'damping': 0.5,
           'factor_decay': 0.5, 'allreduce_bucket_cap_mb': 0.0, 'inv_update_steps': 1, 'factor_update_steps': 1,
           'factor_checkpoint_dir': os.path.join(tmp, 'factors')}
    #        0             1             2 (more training: the live factors move on)   3 roll back at once after the second save
    hist = [['train', 1], ['save'], ['train', 1], ['save'], ['load_same', 1, 1]]
    C18.MARKS.clear()
    w = neoxrun.run(cfg, hist, seed=3, policy=pol, observe=C18.observe)
    C18.MARKS.clear()
    good = w.ok
    if w.ok:
        for r in range(2):
            saved, after = w.results[r][3]['extra'], w.results[r][4]['extra']
            for li, (s, a) in enumerate(zip(saved, after)):
                same = a['A'] is not None and torch.equal(s['A'], a['A']) and torch.equal(s['G'], a['G']) and a['sod']
                if not same:
                    good = False
        files = sorted(os.listdir(cfg['factor_checkpoint_dir']))
    print(f'schedule {pol}: run ok={w.ok}; every layer restored with second-order data on every rank: {good}')
    ok = ok and good
    shutil.rmtree(tmp, ignore_errors=True)
# the direct statement: when state_dict() returns on ANY rank, every layer file exists
tmp = tempfile.mkdtemp(prefix='kv_d14_')
import kfac.gpt_neox.preconditioner as gp
seen = []
orig = gp.GPTNeoXKFACPreconditioner.state_dict
def spy(self, *a, **k):
    out = orig(self, *a, **k)
    d = self.factor_checkpoint_dir
    seen.append(sorted(os.listdir(d)) if d and os.path.isdir(d) else None)
    return out
gp.GPTNeoXKFACPreconditioner.state_dict = spy
cfg = {'P': 1, 'D': 2, 'M': 1, 'layers': [('col', 2, 2, 1), ('row', 2, 3, 0), ('col', 3, 2, 0)], 'batch': 2, 'kl_clip': None, 'damping': 0.5, 'factor_decay': 0.5,
       'allreduce_bucket_cap_mb': 0.0, 'factor_checkpoint_dir': os.path.join(tmp, 'factors')}
w = neoxrun.run(cfg, [['train', 1], ['save']], seed=1, policy='ahead')
gp.GPTNeoXKFACPreconditioner.state_dict = orig
complete = all(x == ['0', '1', '2'] for x in seen)
print('files present when state_dict() returned, per rank:', seen, '-> complete:', complete)
ok = ok and w.ok and complete
shutil.rmtree(tmp, ignore_errors=True)
print('PROPERTY HOLDS' if ok else 'PROPERTY VIOLATED'); sys.exit(0 if ok else 1)
