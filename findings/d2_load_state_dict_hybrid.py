"""D2 (C03/C09/C13): load_state_dict(compute_inverses=True) under HYBRID-OPT.

World of 4 (gloo), grad_worker_fraction=0.5.  Train 2 steps, save, load into a
fresh preconditioner on every rank.  Correct: no rank raises/hangs, state is
restored, and only gradient workers of a layer hold its second-order data.
Exit 0 = holds, 1 = violated.
"""
import multiprocessing, os, sys, socket
sys.path.insert(0, os.environ.get('KFAC_REPO', '/repo'))
import warnings; warnings.filterwarnings('ignore')

def worker(rank, port, q):
    import torch, torch.distributed as dist, datetime, copy
    os.environ.update(MASTER_ADDR='127.0.0.1', MASTER_PORT=str(port), RANK=str(rank), WORLD_SIZE='4')
    dist.init_process_group('gloo', timeout=datetime.timedelta(seconds=8))
    from kfac.preconditioner import KFACPreconditioner
    try:
        torch.manual_seed(0)
        model = torch.nn.Sequential(torch.nn.Linear(3, 4), torch.nn.ReLU(), torch.nn.Linear(4, 2))
        p = KFACPreconditioner(model, grad_worker_fraction=0.5, allreduce_bucket_cap_mb=0)
        for _ in range(2):
            model.zero_grad(); model(torch.randn(4, 3)).sum().backward(); p.step()
        sd = copy.deepcopy(p.state_dict())
        p2 = KFACPreconditioner(model, grad_worker_fraction=0.5, allreduce_bucket_cap_mb=0)
        p2.load_state_dict(sd)
        held = {}
        for name, layer in p2._layers.values():
            held[name] = (layer.qa is not None, p2._assignment.is_grad_worker(name))
        ok = p2.steps == 2 and all(a == b for a, b in held.values())
        q.put((rank, 'ok' if ok else 'bad', held))
    except Exception as e:  # noqa
        q.put((rank, 'error', repr(e)[:160]))

if __name__ == '__main__':
    s = socket.socket(); s.bind(('', 0)); port = s.getsockname()[1]; s.close()
    ctx = multiprocessing.get_context('fork'); q = ctx.Queue()
    ps = [ctx.Process(target=worker, args=(r, port, q)) for r in range(4)]
    [p.start() for p in ps]
    res = {}
    import queue, time
    t0 = time.time()
    while len(res) < 4 and time.time() - t0 < 30:
        try:
            r, st, o = q.get(timeout=1); res[r] = (st, o)
        except queue.Empty:
            pass
    for p in ps:
        p.join(1)
        if p.is_alive(): p.terminate()
    ok = len(res) == 4 and all(v[0] == 'ok' for v in res.values())
    print(res)
    print('PROPERTY HOLDS' if ok else 'PROPERTY VIOLATED')
    sys.exit(0 if ok else 1)
