#!/bin/bash
# usage: tools/confirm_seed.sh <worktree-id> <seed-name> <check ids...>
# 1. confirm in the scratch worktree: tests pass with the change, demo fails with / passes without
# 2. copy patch+demo to /verif/seeded/<seed-name>/
# 3. apply to /repo, run the given checks (quick), undo.
set -u
WT=/tmp/wt/$1; NAME=$2; shift 2
OUT=/verif/seeded/$NAME; mkdir -p $OUT
cd $WT || exit 2
git diff -- kfac > /tmp/wt/_cur.diff
if ! diff -q /tmp/wt/_cur.diff _out/patch.diff >/dev/null; then echo "NOTE: worktree diff differs from patch.diff; using patch.diff"; git checkout -- kfac; git apply _out/patch.diff || exit 2; fi
echo "== tests with change"; T=$(/venv/bin/python -m pytest -q -p no:cacheprovider --timeout=900 2>&1 | tail -1); echo "$T"
echo "== demo with change"; PYTHONPATH=$WT timeout 300 /venv/bin/python _out/demo.py > /tmp/wt/_demo_with.txt 2>&1; DW=$?; tail -3 /tmp/wt/_demo_with.txt; echo "exit=$DW"
git stash -q
echo "== demo without change"; PYTHONPATH=$WT timeout 300 /venv/bin/python _out/demo.py > /tmp/wt/_demo_without.txt 2>&1; DO=$?; tail -2 /tmp/wt/_demo_without.txt; echo "exit=$DO"
git stash pop -q
cp _out/patch.diff _out/demo.py $OUT/; cp _out/notes.md $OUT/notes.md 2>/dev/null
echo "== my checks with change applied to /repo"
cd /verif
git -C /repo apply $OUT/patch.diff || { echo "patch does not apply to /repo"; exit 2; }
RES=""
for c in "$@"; do
  O=$(./check $c --tier quick 2>&1 | grep -E "^(VIOLATION|OK|KNOWN)" | head -3); echo "$c: $O"
  if echo "$O" | grep -q VIOLATION; then RES="$RES $c:caught"; else RES="$RES $c:missed"; fi
done
git -C /repo checkout -- .
for c in "$@"; do ./check $c --tier quick >/dev/null 2>&1 || echo "WARNING: $c does not pass on the restored tree"; done   # rewrite evidence from the clean tree
echo "tests_with_change: $T | demo_with_exit=$DW demo_without_exit=$DO | $RES" | tee $OUT/confirm.txt
