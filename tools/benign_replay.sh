#!/bin/bash
# all recorded harmless rewrites against the checks that depend on the simulated transport, after its eleventh-round change
# needs a scratch worktree of /repo at /tmp/wt/bn (git -C /repo worktree add -f /tmp/wt/bn HEAD); remove it afterwards; logs go to scratch/ (not committed)
cd /verif
export KFAC_REPO=/tmp/wt/bn VERIF_OUT_DIR=/tmp/verif_bn_out; mkdir -p $VERIF_OUT_DIR
for d in benign/*/; do
  n=$(basename $d)
  git -C $KFAC_REPO apply /verif/$d/patch.diff 2>/dev/null || { echo "$n: patch does not apply"; continue; }
  mkdir -p scratch/benign_replay/$n
  (for c in C02 C03 C05 C07 C08 C09 C11 C13 C14 C18; do echo "$c"; done | xargs -P 10 -I{} sh -c "./check {} --tier quick > scratch/benign_replay/$n/{}.log 2>&1; echo \"$n {} exit \$?\"") | grep -v "exit 0"
  git -C $KFAC_REPO checkout -- .
  echo "$n done"
done
echo finished
