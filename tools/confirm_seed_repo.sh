#!/bin/bash
# usage: tools/confirm_seed_repo.sh <seed-name> <check ids...>
# phase 2 of the confirmation (phase 1: tools/confirm_seed_wt.sh): apply seeded/<name>/patch.diff to /repo, run the given quick checks
# (in parallel: they read the same tree), undo.  Writes seeded/<name>/confirm.txt.  Evidence must be regenerated from the clean tree afterwards.
set -u
NAME=$1; shift
OUT=/verif/seeded/$NAME
cd /verif
git -C /repo diff --quiet || { echo "/repo has local changes; aborting"; exit 2; }
git -C /repo apply $OUT/patch.diff || { echo "patch does not apply to /repo"; exit 2; }
RES=$(for c in "$@"; do echo $c; done | xargs -P 6 -I{} sh -c 'if ./check {} --tier quick 2>&1 | grep -q "^VIOLATION"; then echo "{}:caught"; else echo "{}:missed"; fi' | sort | tr '\n' ' ')
git -C /repo checkout -- .
echo "$(cat $OUT/confirm_wt.txt) | $RES" | tee $OUT/confirm.txt
