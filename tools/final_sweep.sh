#!/bin/bash
# full regression of every recorded injected change, in seven shards on seven scratch worktrees
# needs scratch worktrees of /repo at /tmp/wt/sweep1..7 (git -C /repo worktree add -f /tmp/wt/sweepN HEAD); remove them afterwards; logs go to scratch/ (not committed)
cd /verif
shard() { n=$1; shift; for p in "$@"; do KFAC_REPO=/tmp/wt/sweep$n VERIF_OUT_DIR=/tmp/verif_sweep_out$n tools/reseed_all.sh $p; done > scratch/final_sweep_$n.log 2>&1; echo "shard $n exit $?" >> scratch/final_sweep_$n.log; }
shard 1 C01 C02 C03 &
shard 2 C04 C05 C06 &
shard 3 C07 C08 C09 &
shard 4 C10 C11 C12 &
shard 5 C13 C14 C15 &
shard 6 C16 C17 C18 &
shard 7 C19 C20 &
wait
