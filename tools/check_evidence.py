#!/usr/bin/env python3
"""Validate every evidence/*.json against the schema and the proof-level invariants (run before committing)."""
import glob, json, sys
import jsonschema
schema = json.load(open('/root/.vp/EVIDENCE.schema.json'))
bad = 0
for f in sorted(glob.glob('/verif/evidence/C*.json')):
    d = json.load(open(f))
    try:
        jsonschema.validate(d, schema)
    except Exception as e:  # noqa: BLE001
        print(f, 'SCHEMA', str(e)[:200]); bad += 1; continue
    c = d['coverage']
    if c.get('discharged') != c.get('obligations') or not c.get('obligations') or d.get('violations') or c.get('correspondences_broken'):
        print(f, 'INVALID', c.get('discharged'), c.get('obligations'), d.get('violations'), c.get('correspondences_broken')); bad += 1
print('evidence files ok' if not bad else f'{bad} bad evidence files')
sys.exit(1 if bad else 0)
