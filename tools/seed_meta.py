#!/usr/bin/env python3
"""tools/seed_meta.py <seed-name> <property> "<what it needs to manifest>" -> seeded/<name>/meta.json"""
import json, os, sys
name, prop, needs = sys.argv[1:4]
d = os.path.join(os.path.dirname(os.path.dirname(os.path.abspath(__file__))), 'seeded', name)
conf = open(os.path.join(d, 'confirm.txt')).read().strip()
caught = [x.split(':')[0] for x in conf.split('|')[-1].split() if x.endswith(':caught')]
missed = [x.split(':')[0] for x in conf.split('|')[-1].split() if x.endswith(':missed')]
json.dump({
    'breaks_property': prop,
    'needs_to_manifest': needs,
    'source': 'independent sub-agent given only the property text and a scratch worktree',
    'confirmed_by_me': {
        'in': 'scratch git worktree of /repo under /tmp (removed afterwards)',
        'existing_tests_with_change': conf.split('|')[0].split(':', 1)[1].strip(),
        'demo': 'demo.py exits non-zero with the change and 0 without: ' + conf.split('|')[1].strip(),
        'commands': ['/venv/bin/python -m pytest -q -p no:cacheprovider --timeout=900',
                     'PYTHONPATH=<worktree> /venv/bin/python demo.py   (with patch / after git stash)',
                     'git -C /repo apply patch.diff; ./check <id> --tier quick; git -C /repo checkout -- .'],
    },
    'checks_that_catch_it': caught, 'checks_run_that_miss_it': missed,
}, open(os.path.join(d, 'meta.json'), 'w'), indent=1)
print(open(os.path.join(d, 'meta.json')).read())
