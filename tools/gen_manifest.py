#!/usr/bin/env python3
"""Generate MANIFEST.json from the table below (keeps it schema-valid)."""
import json, os, subprocess
HERE = os.path.dirname(os.path.dirname(os.path.abspath(__file__)))

# id -> (built?, technique, level text, level note, design ref)
P = {
 'C17': (True, 'Coq proof of the greedy rule as a relation (verified boolean checker greedy_ok_b; balance invariants by induction over placements) + correspondence of KAISAAssignment.greedy_assignment (membership in the relation; exhaustive small scope + random large scope)',
         'Theorems for every assignment accepted by greedy_ok_b (hence every tie-break variant): completeness and confinement to one group, colocation, non-increasing processing order, least-loaded group / least-loaded worker at every placement, worker-load and group-load balance bounds by the largest item, for all disjoint groups and non-negative integer costs. Tie: the implementation output is accepted by the extracted checker on every generated case (fast path equality with the extracted deterministic greedy); purity checked by repeated calls, argument snapshots and different hash seeds.',
         'Coq kernel; extraction + driver; integer costs (float rounding of non-integer costs not modelled); processing order among tied layers fixed to the stable order. Closed under the global context.',
         'DESIGN.md §4 C17'),
 'C01': (True, 'Coq proof over the reals of the preconditioning identities (inverse and eigen method, pre-divided eigenvalues, PSD projection, uniqueness, weight|bias layout) for all dimensions + correspondence of step() with the IEEE-double reading of the same extracted terms',
         'Theorems over R for all m x n and all entries: with a right inverse of G+damping*I and a left inverse of A+damping*I, V = Ginv D Ainv solves (G+damping I) V (A+damping I) = D; with orthogonal Qg, Qa and damping > 0, V = Qg((Qg^T D Qa)/(dg+ x da+ + damping))Qa^T solves G+ V A+ + damping V = D where G+ = Qg diag(max(dg,0)) Qg^T; the pre-divided variant computes the same V; for non-negative eigenvalues G+ = Q diag(d) Q^T; the solution is unique; split/combine of the weight|bias layout are inverse to each other. Tie: single-process steps on Linear (2-d and N-d inputs) and Conv2d layers, both methods, pre-division, 3 dtypes axes, factors from real passes or injected with prescribed (also rank-deficient) spectra, plus multi-rank runs under simdist (worlds 2-4, all strategies, symmetric on/off): gradients after step() compared with nu*V computed by the extracted terms in IEEE doubles with float64 LAPACK oracles whose contracts (orthogonality, inverse residual) are checked; tolerance 64*eps32*kappa; independent oracle = float64 residual of the defining system.',
         'Coq kernel; standard-library real-number axioms (sig_forall_dec, sig_not_dec, functional_extensionality_dep); extraction + driver (IEEE-double instance of the arithmetic record); rounding not modelled (empirical tolerance); eigh/inv are oracles with run-time-checked contracts; second-order data staleness is C05.',
         'DESIGN.md §4 C01'),
 'C03': (True, 'Coq proof of deadlock-freedom and completion for every program that is a projection of one global collective order (Coll semantics, every interleaving, every wait placement) + verified global-order checker run on the call logs of the unmodified preconditioner under simdist',
         'Theorems (Coll: asynchronous issue, blocking wait, per-group FIFO matching): if the issues of every rank are the projection of one global instance list and every wait follows its issue, then in every state (any interleaving) some unfinished rank is enabled, no state is stuck before all ranks finish, every state can be run to completion, all members of a group issue the same sequence with equal metadata, nobody issues on a foreign group; the boolean checker proj_ok_b is sound (it constructs the global order; roots are members); crossed waits with per-group matching only do deadlock (Example). Tie: random K-FAC configurations x histories (construction, hooks, steps under constant/callable intervals, accumulation, bucketed/unbucketed, symmetric, state_dict/memory_usage on subsets, load_state_dict into a fresh object) x 3 schedules: logs accepted by the extracted checker, identical across schedules, runs complete with no mismatch/foreign group/non-member root/deadlock. PARTIAL: that the K-FAC control logic always produces such projections (kfac_proj for all configurations) is not a theorem; it is established per observed run.',
         'Coq kernel; extraction + driver; simdist fidelity to NCCL/gloo semantics; wait-after-issue holds by API construction; real transport time-outs outside the model. Closed under the global context.',
         'DESIGN.md §4 C03'),
 'C04': (True, 'Coq proof over the reals (symmetry and PSD of the batch moment, running-average closed form by induction, PSD of every reachable factor, rank-mean and union-batch laws, unscaling) + bit-exact correspondence of state_dict() factors with the IEEE-double reading of the extracted factor-update chain',
         'Theorems over R for all shapes, batch sizes and history lengths: the batch second moment sym(X^T X / rows) is symmetric PSD; the update is alpha*previous + (1-alpha)*M with identity as first previous, hence F_t = (prod alpha_i) I + sum_i (1-alpha_i)(prod_{j>i} alpha_j) M_i; every reachable factor is symmetric PSD for decay in (0,1]; averaging the per-rank updates equals updating with the rank mean; the moment of the union of W equally sized batches is the mean of the moments; dividing output gradients by a loss scale s divides G by s^2. Tie: every step of random runs (linear 2-d/N-d, conv geometries, accumulation, hook/no-hook, scaler, worlds 1-4, eval passes and non-update steps interleaved): factors from state_dict() on every rank vs the extracted chain fed the recorded layer inputs / output gradients: bit-for-bit on the dyadic-exact stream, tolerance 1e-5/1e-10 otherwise; plus symmetry, eigvalsh, dtype and eval-inertness oracles.',
         'Coq kernel; real-number axioms of the standard library; extraction + driver (IEEE doubles); simdist; rounding not modelled outside the exact stream; inputs/output gradients recorded by harness hooks; patch layout by C15; eval/off-step inertness checked, not proved here.',
         'DESIGN.md §4 C04'),
 'C06': (True, 'Coq proof of the rank grid (columns/rows partition, singleton intersections, gradient source) for all W = k*p and every assignment accepted by greedy_ok_b; PrimFloat model of the fraction rule with a vm_compute theorem for all W <= 4096; correspondence for every local rank',
         'Theorems for all p, k > 0 (W = k*p), all cost maps and every tie-break: columns and rows partition the world into equal duplicate-free parts, each row meets each column in exactly one rank, all inverse workers of a layer lie in one column, every rank has exactly one gradient source (in its row, in the layer column; itself when it is a gradient worker), broadcast flags; bounded theorem: for all W <= 4096 and k | W the IEEE-double computation on k/W yields k. Tie: one KAISAAssignment per local rank (all ranks for W <= 24/48), all public queries compared with the extracted kaisa_view of the implementation inverse assignment, which must be accepted by greedy_ok_b on the columns; equality of the inverse assignment and of the group-creation order across ranks; fraction handling of KAISAAssignment and KFACPreconditioner compared bit-exactly with the PrimFloat model evaluated inside Coq.',
         'Coq kernel incl. vm_compute; PrimFloat/PrimInt63 kernel primitives; extraction + driver; coqc evaluation of generated float cases; integer costs; fraction theorem bounded by W <= 4096 (named _partial).',
         'DESIGN.md §4 C06'),
 'C20': (True, 'Coq refinement proof (concrete insertion-ordered table vs abstract map name -> samples, for every history) + correspondence of kfac.tracing with the extracted model under a scripted integer clock',
         'Theorems for every history: a traced call returns/raises exactly what the wrapped function does; a returning call appends exactly one sample under its name and touches no other, a raising call none; the recorded samples are those of the abstract specification (calls that returned since the last clear); get_trace reports sum or (sum, count) of the last min(max_history, length) samples for max_history None or >= 1 and exactly the recorded names; clear empties. Tie: random histories (1-4 traced functions, shared __name__, identity-checked return objects and exceptions, exact argument pass-through, all (average, max_history) queries, clears) compared exactly with the extracted model and with an independent recomputation; sync=True checked under simdist. max_history=0 is the known finding D11.',
         'Coq kernel; extraction + driver; scripted clock injected by attribute assignment on kfac.tracing.time; simdist. Closed under the global context.',
         'DESIGN.md §4 C20'),
 'C19': (True, 'Coq proof over exact rationals (per-step specification, fold law over arbitrary histories, constructor refusal, exp_decay range/monotonicity/min formula) + correspondence of LambdaParamScheduler with the extracted model and of exp_decay_factor_averaging with a PrimFloat model',
         'Theorems for all subsets of scheduled parameters, all factor functions, all histories of scheduler steps (explicit or implicit) interleaved with preconditioner steps: each scheduled constant parameter is the left fold of old * f(step used) (truncated toward zero for the two intervals) of its own function only, unscheduled/callable parameters and the step count are untouched, construction is refused iff a scheduled parameter is callable; over Q: exp_decay = min(1 - 1/max(k,1), cap), within [0, cap], non-decreasing, 0 at steps 0 and 1, error for cap <= 0. Tie: random subsets with dyadic step-revealing factor tables, histories with real preconditioner.step() calls, all six properties read back after every call and compared exactly; exp_decay compared bit-for-bit with the binary64 model evaluated inside Coq.',
         'Coq kernel; PrimFloat primitives (float reading of exp_decay only); extraction + driver; IEEE-rounded monotonicity is checked on a sampled range, not proved.',
         'DESIGN.md §4 C19'),
 'C15': (True, 'Coq proof of the patch-extraction index arithmetic (any element type, all geometries) and, over the reals, of conv = patches x weights and of the adjoint identity characterising the combined gradient matrix + exact correspondence on integer tensors',
         'Theorems for all channel counts, rectangular kernels, strides, zero paddings, input sizes, batch sizes: extract_patches (pad, unfold, unfold, permute, view as composed by the helper) at feature c*kh*kw+i*kw+j of position (p,q) is the padded input at (c, p*sh+i, q*sw+j), height padding on dim 2 and width padding on dim 3; conv2d = patches x view(weight)^T + bias; <go, conv(w, bias, x)> = <GM[:, :F], view(w)> + <GM[:, F], bias> for GM = sum over samples and positions of outer products of output-gradient rows and [patch | 1] rows (same for Linear with N-d inputs); set/get of the combined gradient are mutually inverse. Tie (exact, integer tensors): _extract_patches vs extracted model and vs F.unfold; model conv_fwd vs F.conv2d; get_grad() after real autograd backward vs extracted grad_matrix / lin_grad_matrix and vs an autograd-independent outer-product sum; position-revealing set_grad/get_grad round trips; factor shapes vs advertised shapes; linear inputs of rank 2-4.',
         'Coq kernel; index theorems closed, adjoint identities use the standard-library real-number axioms; extraction + driver; F.conv2d/autograd are torch (spec validated against F.conv2d); dilation 1, groups 1.',
         'DESIGN.md §4 C15'),
 'C16': (True, 'Coq proof about a model of named_modules (memoised pre-order walk) and register_modules for every module graph and every pattern outcome table + correspondence on random module trees against an independent walk',
         'Theorems for all graphs (incl. shared instances), all skip outcome tables, all roots: the registered list is exactly the walked modules that are leaves, linear or conv2d (linear first), with all parameters requiring gradients and neither qualified name nor class name matched; every module instance occurs at most once in the walk and is registered at most once; exactly the registered modules get one forward-pre and one backward hook. Tie: random torch.nn trees (containers, shared instances, subclasses, unsupported/parameter-free/frozen leaves, None children, bare-leaf root, GPT-NeoX class-name variant) x random pattern lists; named_modules order, registered (name, module, kind) and hook counts of every module compared with the extracted model; independent oracle per the property text.',
         'Coq kernel; extraction + driver; re.search outcomes are inputs (regex engine is an oracle); completeness of the walk w.r.t. reachability is not proved (compared with torch on every tree); DeepSpeed stand-in for the GPT-NeoX import. Closed under the global context.',
         'DESIGN.md §4 C16'),
 'C07': (True, 'Coq proof over the reals of the clip scale (range, bound, tightness, zero case, min-sqrt formula, vg_sum = lr^2 * sum of inner products, weight|bias inner split, single scalar) + correspondence of the factor applied by step() with the IEEE-double reading of the extracted terms',
         'Theorems over R for all layers, shapes and values, 0 < kl: vg_sum = lr^2 * sum over layers of <V, D> (weight and bias parts), nu = min(1, sqrt(kl/|s|)) for s <> 0 and 1 for s = 0, 0 < nu <= 1, nu^2 |s| <= kl with equality when |s| > kl, final gradients = nu * V entrywise with one scalar, kl_clip=None yields no scale. Tie: worlds 1-4 under simdist, lr and kl_clip constant / callable / None, clipping active / inactive, 1-3 steps: the unclipped V comes from a twin run with kl_clip=None on identical state; the common ratio (computed jointly over layers, entries and ranks) must be one scalar and equal the extracted nu(vg_sum) evaluated in doubles on (V, D, lr, kl); independent float64 oracle for the inequality and the formula; constructor accepts None/positive/callable and rejects non-positive constants.',
         'Coq kernel; real-number axioms of the standard library; extraction + driver (IEEE doubles); simdist; sqrt and float32 accumulation compared with tolerance 2e-5; that one nu is shared by all ranks is checked, not proved from a machine model.',
         'DESIGN.md §4 C07'),
 'C08': (True, 'Coq proof of the bucket state machine (conservation by occurrence counting, capacity/key/dtype invariants over arbitrary operation sequences) and of value equivalence (slice of the reduced fused buffer = reduction of the tensor) + correspondence of TorchDistributedCommunicator under simdist',
         'Theorems for all operation sequences, capacities and group mixtures: every added tensor is pending or in exactly one emitted fused allreduce (with multiplicity), nothing is pending and no bucket open after a flush, every fused allreduce is non-empty, holds tensors of one group key and one dtype and is within the capacity unless it is a single tensor; for any rank set and any values of the advertised lengths the slice [offset, offset+numel) of the elementwise-reduced fused buffer equals the elementwise reduction of that tensor. Tie: random tensor sequences over world / halves / two distinct equal-size groups sharing a rank / singleton, 5 capacity regimes, average and symmetric flags, mixed dtypes, several fill/flush cycles, 4 schedule policies: every future compared bit-for-bit (value, shape, dtype) with the unbucketed allreduce and with exact integer sums; simdist log of fused allreduces (group, element count, order) compared with the extracted model.',
         'Coq kernel; extraction + driver; simdist; flatten/unflatten modelled as concatenation/slicing; packing by C14; int(cap_mb*1e6) read from the communicator. Model mirrors the code after fixes D4 and D8. Closed under the global context.',
         'DESIGN.md §4 C08'),
 'C12': (True, 'Coq proof of the 3-D coordinate algebra (rank <-> coordinates, groups by coordinates, unique intersections) for all P, D, M and of the stage greedy via the C17 relation + exhaustive small-scope correspondence for every rank',
         'Theorems for all D, M >= 1 (and P), all ranks, all cost maps: rank <-> (pipe, data, model) bijection; data/model/stage groups characterised by coordinates; every accepted inverse assignment (any tie-break) puts a layer on one rank of the stage by the least-loaded rule in non-increasing (cost, name) order with the balance bound; factor worker = unique rank in my model-parallel group and the inverse worker data-parallel group; gradient source = unique rank in my data-parallel group among the inverse worker model-parallel peers, same shard; gradient workers = exactly those peers; the reused peer group depends only on (D, M); after the repair of D5 every rank issues the same new_group sequence (old trace refuted for P=D=M=2). Tie: GPTNeoXAssignment built for every rank of every topology with P*D*M <= 24 (64 thorough) over the DeepSpeed topology stand-in with a new_group recorder; all queries compared with the extracted model, inverse assignment checked by neox_ok_b and for equality across a stage; independent oracle.',
         'Coq kernel; extraction + driver; DeepSpeed topology stand-in (modelled, not verified); integer costs; names mapped to string-order ranks. Closed under the global context.',
         'DESIGN.md §4 C12'),
 'C14': (True, 'Coq proof (induction over rows; any element type) + exhaustive-n correspondence of extracted model with get_triu/fill_triu + simdist guard runs',
         'Theorems for every n and element type: pack/unpack round trip, NoDup/completeness/length n(n+1)/2 of the index list, symmetry of any unpacked matrix, symmetric==dense communication for any elementwise combine, rejection of non-square shapes with no communication. Tie: extracted triu_idx / fill_index_matrix equal torch behaviour for every n<=128 (quick; 512 thorough), bit-exact round trips in 4 dtypes x 3 layouts, guard + element counts of the three communication functions under simdist.',
         'Coq kernel; extraction (ExtrOcamlBasic) + ocaml/driver.ml; simdist; torch.triu_indices/advanced indexing compared not verified. Closed under the global context.',
         'DESIGN.md §4 C14'),
}
ALL = ['C%02d' % i for i in range(1, 21)]
REASON_PENDING = 'check not built yet in this session (planned: DESIGN.md §6 build order); not claimed until its proof and correspondence run green'

def main():
    src = subprocess.run(['git', '-C', '/repo', 'log', '--format=%h %s', '1ab993a..HEAD'],
                         capture_output=True, text=True).stdout.strip().splitlines()
    checks, na = [], []
    for pid in ALL:
        if pid in P and P[pid][0]:
            _, tech, text, note, ref = P[pid]
            checks.append({
                'property_id': pid,
                'quick_cmd': f'./check {pid} --tier quick',
                'thorough_cmd': f'./check {pid} --tier thorough',
                'evidence_file': f'/verif/evidence/{pid}.json',
                'replay_cmd_template': f'./check {pid} --replay {{path}}',
                'engine': 'coq-proof+correspondence',
                'level_claimed': {'category': 'proof', 'text': text, 'design_ref': ref},
                'level_note': note,
                'technique': tech,
            })
        else:
            na.append({'property_id': pid, 'reason': P[pid][1] if pid in P else REASON_PENDING})
    m = {
        'version': 1,
        'setup_cmd': 'cd coq && coq_makefile -f _CoqProject -o Makefile && timeout 3000 make -j16 && cd ../ocaml && make',
        'hooks': {
            'guard': 'KFAC_PYTORCH_VERIF',
            'enable': 'no hooks are needed: the harness observes /repo from outside (attribute assignment on torch.distributed / time, public API); PYTHONPATH=/repo',
            'baseline_off_cmd': 'cd /repo && /venv/bin/python -m pytest -ra -q -p no:cacheprovider --timeout=900 --continue-on-collection-errors',
            'source_commits': [l.split()[0] for l in src],
            'add_only': True,
        },
        'engines': [{
            'name': 'coq-proof+correspondence', 'path': '/verif/check',
            'serves_properties': [c['property_id'] for c in checks],
            'kind_free_text': 'Coq 8.16.1 theorems about hand-written Gallina models (coq/), extracted to OCaml (ocaml/driver) and run against the implementation imported from /repo on the same inputs (harness/)',
        }],
        'checks': checks,
        'notes': 'source_commits are unguarded "fix:" repairs of genuine defects (see KNOWN_FINDINGS.txt, DESIGN.md §5); there are no hook commits.',
        'not_applicable': na,
    }
    json.dump(m, open(os.path.join(HERE, 'MANIFEST.json'), 'w'), indent=1)
    print('checks:', [c['property_id'] for c in checks])

if __name__ == '__main__':
    main()
