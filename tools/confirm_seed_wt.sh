#!/bin/bash
# usage: tools/confirm_seed_wt.sh <worktree-id> <seed-name>
# phase 1 of tools/confirm_seed.sh: everything that happens in the scratch worktree only (tests with the change, demo with / without),
# and the copy to /verif/seeded/<seed-name>/.  Does not touch /repo.  Writes seeded/<name>/confirm_wt.txt.
set -u
WT=/tmp/wt/$1; NAME=$2
OUT=/verif/seeded/$NAME; mkdir -p $OUT
cd $WT || exit 2
git checkout -q -- kfac; git apply _out/patch.diff || exit 2
T=$(/venv/bin/python -m pytest -q -p no:cacheprovider --timeout=900 2>&1 | tail -1)
PYTHONPATH=$WT timeout 600 /venv/bin/python _out/demo.py > /tmp/wt/_demo_with_$1.txt 2>&1; DW=$?
git diff -- kfac > /tmp/wt/_cur_$1.diff; git checkout -q -- kfac
PYTHONPATH=$WT timeout 600 /venv/bin/python _out/demo.py > /tmp/wt/_demo_without_$1.txt 2>&1; DO=$?
git apply /tmp/wt/_cur_$1.diff
cp _out/patch.diff _out/demo.py $OUT/; cp _out/notes.md $OUT/notes.md 2>/dev/null
echo "tests_with_change: $T | demo_with_exit=$DW demo_without_exit=$DO" | tee $OUT/confirm_wt.txt
