#!/bin/bash
# Regression over every recorded injected change: apply seeded/<name>/patch.diff to /repo, run the checks meta.json
# names as catching it (quick tier), revert, and report.  Ends with all evidence regenerated from the clean tree.
# usage: tools/reseed_all.sh [name-prefix]      (KFAC_REPO=<scratch worktree> runs the regression against a scratch copy instead of /repo,
# e.g. while other checks run against /repo; the harness imports kfac from $KFAC_REPO)
cd /verif
R=${KFAC_REPO:-/repo}
# a sweep against a scratch tree must not overwrite the committed evidence
if [ "$R" != "/repo" ]; then export VERIF_OUT_DIR=${VERIF_OUT_DIR:-/tmp/verif_sweep_out}; mkdir -p $VERIF_OUT_DIR; fi
git -C $R diff --quiet || { echo "$R has local changes; aborting"; exit 2; }
fail=0
touched=""
for d in seeded/${1:-}*/; do
  n=$(basename $d)
  checks=$(python3 -c "import json;print(' '.join(json.load(open('$d/meta.json'))['checks_that_catch_it']))")
  git -C $R apply /verif/$d/patch.diff || { echo "$n: patch does not apply"; fail=1; continue; }
  for c in $checks; do
    if ./check $c --tier quick 2>&1 | grep -q "^VIOLATION"; then echo "$n: $c caught"; else echo "$n: $c MISSED"; fail=1; fi
    touched="$touched $c"
  done
  git -C $R checkout -- .
done
for c in $(echo $touched | tr ' ' '\n' | sort -u); do ./check $c --tier quick > /dev/null 2>&1 || echo "WARNING: $c does not pass on the restored tree"; done
exit $fail
