"""Random K-FAC configurations and histories shared by the multi-rank checks."""
from __future__ import annotations

MODELS = [
    ([('linear', 3, 4, 1), ('relu',), ('linear', 4, 2, 0)], [3]),
    ([('linear', 2, 3, 0), ('tanh',), ('linear', 3, 3, 1), ('relu',), ('linear', 3, 2, 1)], [2]),
    ([('conv', 1, 2, [2, 2], [1, 1], [0, 0], 1), ('relu',), ('flatten',), ('linear', 8, 3, 1)], [1, 3, 3]),
    ([('linear', 4, 4, 1)], [4]),
    ([('conv', 2, 2, [3, 2], [2, 1], [1, 0], 0), ('flatten',), ('linear', 8, 2, 1), ('relu',), ('linear', 2, 2, 0)], [2, 4, 3]),
    ([('linear', 5, 2, 1), ('bn', 2), ('linear', 2, 3, 1)], [5]),
]


def divisors(W):
    return [k for k in range(1, W + 1) if W % k == 0]


def gen_cfg(rng, tier, worlds=(1, 2, 3, 4, 6, 8), allow_callable=True):
    W = rng.choice(worlds)
    k = rng.choice(divisors(W))
    model, in_shape = rng.choice(MODELS)
    method = rng.choice(['eigen', 'eigen', 'inverse'])
    prediv = rng.random() < 0.5
    colocate = True if (method == 'eigen' and prediv) else rng.random() < 0.6
    cfg = {
        'W': W, 'model': model, 'in_shape': in_shape, 'batch': rng.choice([2, 4]),
        'model_seed': rng.randrange(100), 'data_seed': rng.randrange(10 ** 6),
        'grad_worker_fraction': k / W, 'k': k,
        'compute_method': method, 'compute_eigenvalue_outer_product': prediv, 'colocate_factors': colocate,
        'allreduce_bucket_cap_mb': rng.choice([0.0, 0.0001, 25.0]),
        'symmetry_aware': rng.random() < 0.4,
        'update_factors_in_hook': rng.random() < 0.6,
        'accumulation_steps': rng.choice([1, 1, 2, 3]),
        'assignment_strategy': rng.choice(['compute', 'memory']),
        'damping': rng.choice([0.5, 0.25, 1.0]), 'factor_decay': rng.choice([0.5, 0.75, 1.0]),
        'kl_clip': rng.choice([None, 0.001, 100.0]), 'lr': rng.choice([0.5, 1.0]),
    }
    fus = rng.choice([1, 1, 2, 3])
    ius = rng.choice([1, 2, 3, 4])
    if allow_callable and rng.random() < 0.3:
        cfg['factor_update_steps'] = ['table', [rng.choice([1, 2, 3]) for _ in range(12)]]
    else:
        cfg['factor_update_steps'] = fus
    if allow_callable and rng.random() < 0.3:
        cfg['inv_update_steps'] = ['table', [rng.choice([1, 2, 3]) for _ in range(12)]]
    else:
        cfg['inv_update_steps'] = ius
    if allow_callable and rng.random() < 0.25:
        cfg['damping'] = ['table', [rng.choice([0.5, 0.25, 1.0, 2.0]) for _ in range(12)]]
    return cfg


def gen_history(rng, tier, cfg, length=None, with_ckpt=True):
    W = cfg['W']
    n = length or rng.randint(2, 6 if tier == 'quick' else 12)
    acc = cfg['accumulation_steps']
    hist = []
    for _ in range(n):
        x = rng.random()
        if x < 0.62 or not hist:
            hist.append(['train', acc])
        elif x < 0.72:
            hist.append(['eval'])
        elif x < 0.8 and with_ckpt:
            hist.append(['state_dict', None if rng.random() < 0.4 else sorted(rng.sample(range(W), rng.randint(0, W)))])
        elif x < 0.88:
            hist.append(['memory', None if rng.random() < 0.4 else sorted(rng.sample(range(W), rng.randint(0, W)))])
        elif x < 0.95 and with_ckpt:
            hist.append(['load'])
        else:
            hist.append(['train', acc])
    if not any(e[0] == 'train' for e in hist):
        hist.append(['train', acc])
    return hist
