"""simdist: an in-process simulated torch.distributed (DESIGN.md section 1.3).

One Python thread per rank, cooperatively scheduled: exactly one thread holds
the baton; it is passed at every collective call and at every Future.wait();
the next runnable rank is chosen by a seeded PRNG (policies: 'random', 'rr',
'ahead' = run one rank as far as possible, 'behind' = always the rank that has
run least).  Collectives are matched per group by sequence number, as
NCCL/gloo do.  Mismatching kind/numel/dtype/root, a call on a foreign group, a
root outside the group and deadlock (all unfinished ranks blocked) are
detected exactly, without time-outs, and reported with the schedule seed.

Installed by assigning attributes of torch.distributed / torch.futures; the
code under test is not modified.
"""
from __future__ import annotations

import random
import threading
import traceback
from typing import Any, Callable

import torch
import torch.distributed as dist

_tls = threading.local()
_WORLD: 'World | None' = None


class SimError(Exception):
    pass


class SimDeadlock(SimError):
    pass


class SimGroup(dist.ProcessGroup):
    """Group handle (isinstance(x, ProcessGroup) holds, as GPT-NeoX checks)."""

    def __init__(self, gid: int, ranks: tuple, rank: int):
        super().__init__(rank, len(ranks))
        self.gid = gid
        self.ranks = tuple(ranks)

    def __repr__(self):
        return f'SimGroup(gid={self.gid}, ranks={self.ranks})'


class SimFuture(torch.futures.Future):
    """Future whose wait() yields the baton.

    The result of an asynchronous collective reaches the output buffer - and the callbacks chained on its future with then() run - only
    when the future or one derived from it is OBSERVED (wait / value / done / add_done_callback): "the buffer is undefined until the
    work is waited for".  Code that drops the future and reads the buffer anyway therefore sees the old contents on every schedule."""

    def __init__(self, *a, **k):
        super().__init__()
        self._sd_done = False
        self._sd_value = None
        self._sd_cbs: list = []
        self._sd_owner = getattr(_tls, 'rank', None)
        self._sd_deferred = None      # completed but unobserved collective: closure that writes the buffer and fires the callbacks
        self._sd_parent = None        # the future this one was derived from with then()
        self._sd_eager = False        # an add_done_callback listener exists somewhere below: deliver at completion

    def _sd_flush(self):
        d, self._sd_deferred = self._sd_deferred, None
        if d is not None:
            d()

    def _sd_fire(self):
        cbs, self._sd_cbs = self._sd_cbs, []
        for cb in cbs:
            cb(self)

    def _sd_ready(self):
        if self._sd_done:
            return True
        p = self._sd_parent
        return p is not None and p._sd_ready()

    def _sd_force(self):
        if not self._sd_done and self._sd_parent is not None:
            self._sd_parent._sd_force()
        self._sd_flush()

    # -- torch.futures.Future API used by kfac --
    def done(self):
        if self._sd_ready():
            self._sd_force()
            return True
        return False

    def value(self):
        if not self._sd_ready():
            raise RuntimeError('value() on a future that is not done')
        self._sd_force()
        return self._sd_value

    def set_result(self, result):
        if self._sd_done:
            raise RuntimeError('set_result() called twice')
        self._sd_value = result
        self._sd_done = True
        w = _WORLD
        if w is not None:
            w.progress += 1
        self._sd_fire()

    def then(self, callback):
        child = SimFuture()
        child._sd_owner = self._sd_owner
        child._sd_parent = self

        def run(parent):
            child.set_result(callback(parent))

        if self._sd_done and self._sd_deferred is None:
            run(self)
        else:
            self._sd_cbs.append(run)      # pending, or completed but not observed yet: runs when the chain is observed
        return child

    def add_done_callback(self, callback):
        f = self
        while f is not None:
            f._sd_eager = True
            f = f._sd_parent
        if self._sd_ready():
            self._sd_force()
            callback(self)
        else:
            self._sd_cbs.append(callback)

    def wait(self):
        w = _WORLD
        if w is None:
            if not self._sd_ready():
                raise RuntimeError('wait() outside a simulated world')
            self._sd_force()
            return self._sd_value
        w.wait_until(self._sd_ready, ('future', id(self)))
        self._sd_force()
        return self._sd_value


class SimWork:
    def __init__(self, fut: SimFuture):
        self._fut = fut

    def get_future(self):
        return self._fut

    def wait(self, timeout=None):
        self._fut.wait()
        return True

    def is_completed(self):
        return self._fut.done()


class _Instance:
    __slots__ = ('gid', 'seq', 'kind', 'meta', 'contrib', 'futs', 'done', 'members', 'lazy')

    def __init__(self, gid, seq, kind, meta, members):
        self.gid = gid
        self.seq = seq
        self.kind = kind
        self.meta = meta
        self.members = members
        self.contrib: dict = {}
        self.futs: dict = {}
        self.lazy: dict = {}
        self.done = False


class World:
    def __init__(self, size: int, seed: int = 0, policy: str = 'random'):
        self.size = size
        self.rng = random.Random(seed)
        self.seed = seed
        self.policy = policy
        self.progress = 0
        self.log: list[tuple] = []          # (rank, kind, members, numel, dtype, root, seq)
        self.errors: list[str] = []          # protocol violations detected
        self.deadlock: str | None = None
        self.groups: list[tuple] = [tuple(range(size))]   # gid -> ranks; gid 0 = world
        self.newgroup_calls: dict[int, int] = {r: 0 for r in range(size)}
        self.newgroup_seq: list[tuple] = []  # k-th new_group call: (ranks, gid)
        self.opcount: dict[tuple, int] = {}  # (rank, gid) -> ops issued
        self.instances: dict[tuple, _Instance] = {}
        self.results: dict[int, Any] = {}
        self.exceptions: dict[int, str] = {}
        self.exc_objs: dict[int, BaseException] = {}
        self._sems = {r: threading.Semaphore(0) for r in range(size)}
        self._finished: set[int] = set()
        self._waiting: dict[int, tuple] = {}   # rank -> (predicate, last progress seen, tag)
        self._abort = False
        self.steps_run = {r: 0 for r in range(size)}
        self.handles: dict[tuple, SimGroup] = {}

    # ---- scheduling ------------------------------------------------------
    def _runnable(self, r: int) -> bool:
        if r in self._finished:
            return False
        if r in self._waiting:
            # completion callbacks run eagerly in the completing thread, so the
            # predicate (a future's done flag) is exact: wake a waiter only
            # when it can actually proceed
            return bool(self._waiting[r][0]())
        return True

    def _pick(self, me: int | None) -> int | None:
        cands = [r for r in range(self.size) if self._runnable(r)]
        if not cands:
            return None
        if self.policy == 'rr':
            start = 0 if me is None else (me + 1) % self.size
            for k in range(self.size):
                r = (start + k) % self.size
                if r in cands:
                    return r
        if self.policy == 'ahead':
            # keep running the same rank while it can; else lowest runnable
            if me is not None and me in cands:
                return me
            return cands[-1] if self.rng.random() < 0.5 else cands[0]
        if self.policy == 'behind':
            return min(cands, key=lambda r: (self.steps_run[r], r))
        return self.rng.choice(cands)

    def _switch(self, me: int) -> None:
        """Give the baton to the next rank (possibly me)."""
        nxt = self._pick(me)
        if nxt is None:
            # nobody can run: deadlock (me is necessarily waiting)
            blocked = {r: self._waiting[r][2] for r in self._waiting if r not in self._finished}
            self.deadlock = f'all unfinished ranks blocked: {blocked}'
            self._abort = True
            for r in range(self.size):
                if r != me:
                    self._sems[r].release()
            raise SimDeadlock(self.deadlock)
        self.steps_run[nxt] += 1
        if nxt != me:
            self._sems[nxt].release()
            self._sems[me].acquire()
            if self._abort:
                raise SimDeadlock(self.deadlock or 'aborted')

    def yield_point(self) -> None:
        self._switch(_tls.rank)

    def wait_until(self, pred: Callable[[], bool], tag) -> None:
        me = _tls.rank
        while not pred():
            self._waiting[me] = (pred, self.progress, tag)
            try:
                self._switch(me)
            finally:
                pass
        self._waiting.pop(me, None)

    # ---- running ----------------------------------------------------------
    def run(self, fn: Callable[[int], Any]) -> 'World':
        global _WORLD
        assert _WORLD is None, 'nested simulated worlds'
        _WORLD = self
        threads = []

        def body(rank: int):
            _tls.rank = rank
            self._sems[rank].acquire()
            try:
                if not self._abort:
                    self.results[rank] = fn(rank)
            except SimDeadlock as e:
                self.exceptions[rank] = f'SimDeadlock: {e}'
                self.exc_objs[rank] = e
            except BaseException as e:  # noqa: BLE001
                self.exceptions[rank] = f'{type(e).__name__}: {e}'
                self.exc_objs[rank] = e
                self.tracebacks = getattr(self, 'tracebacks', {})
                self.tracebacks[rank] = traceback.format_exc()
            finally:
                self._finished.add(rank)
                self._waiting.pop(rank, None)
                self.progress += 1
                if not self._abort:
                    nxt = self._pick(None)
                    if nxt is not None:
                        self.steps_run[nxt] += 1
                        self._sems[nxt].release()
                    elif len(self._finished) < self.size:
                        blocked = {r: self._waiting[r][2] for r in self._waiting}
                        self.deadlock = f'all unfinished ranks blocked: {blocked}'
                        self._abort = True
                        for r in range(self.size):
                            self._sems[r].release()

        try:
            for r in range(self.size):
                t = threading.Thread(target=body, args=(r,), daemon=True)
                threads.append(t)
                t.start()
            first = self._pick(None)
            self.steps_run[first] += 1
            self._sems[first].release()
            for t in threads:
                t.join(600)
                if t.is_alive():
                    self.deadlock = self.deadlock or 'thread did not finish (simulator time-out)'
        finally:
            _WORLD = None
        return self

    @property
    def ok(self) -> bool:
        return not self.errors and not self.deadlock and not self.exceptions

    # ---- groups -----------------------------------------------------------
    def resolve(self, group) -> tuple[int, tuple] | None:
        """-> (gid, ranks) or None when the caller is not a member."""
        if group is None or group is dist.GroupMember.WORLD:
            return 0, self.groups[0]
        if isinstance(group, SimGroup):
            return group.gid, group.ranks
        return None   # NON_GROUP_MEMBER or anything else

    def handle(self, gid: int, rank: int) -> SimGroup:
        key = (gid, rank)
        if key not in self.handles:
            ranks = self.groups[gid]
            self.handles[key] = SimGroup(gid, ranks, ranks.index(rank))
        return self.handles[key]

    # ---- collectives ------------------------------------------------------
    def issue(self, kind: str, group, meta: tuple, payload, numel: int, dtype: str,
              root: int | None, async_op: bool = False) -> SimFuture | None:
        me = _tls.rank
        res = self.resolve(group)
        if res is None:
            self.errors.append(f'rank {me} called {kind} on a group it is not a member of')
            self.log.append((me, kind, None, numel, dtype, root, -1))
            return None
        gid, ranks = res
        if me not in ranks:
            self.errors.append(f'rank {me} called {kind} on foreign group {ranks}')
            self.log.append((me, kind, ranks, numel, dtype, root, -1))
            return None
        if root is not None and root not in ranks:
            self.errors.append(f'rank {me}: {kind} root {root} not in group {ranks}')
        seq = self.opcount.get((me, gid), 0)
        self.opcount[(me, gid)] = seq + 1
        self.log.append((me, kind, ranks, numel, dtype, root, seq))
        inst = self.instances.get((gid, seq))
        if inst is None:
            inst = _Instance(gid, seq, kind, meta, ranks)
            self.instances[(gid, seq)] = inst
        elif (inst.kind, inst.meta) != (kind, meta):
            self.errors.append(
                f'mismatched collective #{seq} on group {ranks}: rank {me} issued '
                f'{kind}{meta} but another member issued {inst.kind}{inst.meta}')
        fut = SimFuture()
        inst.contrib[me] = payload
        inst.futs[me] = fut
        inst.lazy[me] = bool(async_op)
        self.progress += 1
        if len(inst.contrib) == len(ranks) and not inst.done:
            inst.done = True
            self._complete(inst)
        return fut

    def _complete(self, inst: _Instance) -> None:
        ranks = inst.members
        k = inst.kind

        def deliver(r, write, result):
            fut = inst.futs[r]
            if inst.lazy.get(r) and not fut._sd_eager:
                # asynchronous and not (yet) observed: the buffer keeps its old contents and the then()-chain stays unevaluated
                fut._sd_value = result
                fut._sd_done = True
                self.progress += 1
                fut._sd_deferred = lambda: (write(), fut._sd_fire())
            else:
                write()
                fut.set_result(result)
        try:
            if k == 'all_reduce':
                total = None
                for r in ranks:
                    t = inst.contrib[r]
                    total = t.clone() if total is None else total + t
                for r in ranks:
                    deliver(r, lambda r=r: inst.contrib[r].copy_(total), [inst.contrib[r]])
            elif k == 'broadcast':
                src = inst.meta[-1]
                data = inst.contrib[src].clone()
                for r in ranks:
                    deliver(r, lambda r=r: inst.contrib[r].copy_(data), [inst.contrib[r]])
            elif k == 'all_gather':
                vals = [inst.contrib[r][1].clone() for r in ranks]
                for r in ranks:
                    outs = inst.contrib[r][0]
                    deliver(r, lambda outs=outs: [o.copy_(v) for o, v in zip(outs, vals)], outs)
            elif k == 'reduce_scatter':
                n = len(ranks)
                sums = []
                for j in range(n):
                    s = None
                    for r in ranks:
                        c = inst.contrib[r][1][j]
                        s = c.clone() if s is None else s + c
                    sums.append(s)
                for j, r in enumerate(ranks):
                    deliver(r, lambda j=j, r=r: inst.contrib[r][0].copy_(sums[j]), inst.contrib[r][0])
            elif k == 'all_gather_object':
                objs = [inst.contrib[r][1] for r in ranks]
                for r in ranks:
                    lst = inst.contrib[r][0]
                    for j, o in enumerate(objs):
                        lst[j] = o
                    inst.futs[r].set_result(None)
            elif k in ('barrier', 'new_group'):
                for r in ranks:
                    inst.futs[r].set_result(None)
            else:
                raise SimError(f'unknown collective {k}')
        except Exception as e:  # shape mismatch etc.
            self.errors.append(f'collective {k} #{inst.seq} on {ranks} failed: {type(e).__name__}: {e}')
            for r in ranks:
                if not inst.futs[r].done():
                    inst.futs[r].set_result(None)


def _w() -> World:
    if _WORLD is None:
        raise RuntimeError('simdist: no simulated world is running')
    return _WORLD


# ---------------------------------------------------------------------------
# torch.distributed API
# ---------------------------------------------------------------------------
def _is_initialized():
    return _WORLD is not None and hasattr(_tls, 'rank')


def _get_rank(group=None):
    w = _w()
    if group is None or group is dist.GroupMember.WORLD:
        return _tls.rank
    res = w.resolve(group)
    if res is None or _tls.rank not in res[1]:
        return -1
    return res[1].index(_tls.rank)


def _get_world_size(group=None):
    w = _w()
    if group is None or group is dist.GroupMember.WORLD:
        return w.size
    res = w.resolve(group)
    if res is None or _tls.rank not in res[1]:
        return -1
    return len(res[1])


def _get_process_group_ranks(group):
    w = _w()
    res = w.resolve(group)
    if res is None:
        raise ValueError('Invalid process group specified')
    return list(res[1])


def _new_group(ranks=None, timeout=None, backend=None, pg_options=None, **kw):
    w = _w()
    me = _tls.rank
    members = tuple(range(w.size)) if ranks is None else tuple(sorted(ranks))
    k = w.newgroup_calls[me]
    w.newgroup_calls[me] = k + 1
    if k < len(w.newgroup_seq):
        prev, gid = w.newgroup_seq[k]
        if prev != members:
            w.errors.append(
                f'new_group call #{k}: rank {me} passed {members} but another rank passed {prev}')
            w.groups.append(members)
            gid = len(w.groups) - 1
    else:
        w.groups.append(members)
        gid = len(w.groups) - 1
        w.newgroup_seq.append((members, gid))
    # new_group is a world collective: every rank must enter, with the same
    # members, in the same order (checked above by call index); it does not block.
    w.log.append((me, 'new_group', members, len(members), 'group', None, k))
    w.yield_point()
    if me in members:
        return w.handle(gid, me)
    return dist.GroupMember.NON_GROUP_MEMBER


def _finish(fut, async_op):
    w = _w()
    if fut is None:
        return None
    if async_op:
        w.yield_point()
        return SimWork(fut)
    fut.wait()
    return None


def _need_contiguous(w, kind, *tensors):
    # the raw transports read the underlying buffer (gloo) or refuse (NCCL): a strided view is never a valid collective argument
    for t in tensors:
        if torch.is_tensor(t) and not t.is_contiguous():
            w.errors.append(f'rank {_tls.rank}: {kind} called with a non-contiguous tensor (shape {tuple(t.shape)}, stride {t.stride()})')


def _all_reduce(tensor, op=None, group=None, async_op=False):
    w = _w()
    _need_contiguous(w, 'all_reduce', tensor)
    fut = w.issue('all_reduce', group, ('all_reduce', tensor.numel(), str(tensor.dtype)),
                  tensor, tensor.numel(), str(tensor.dtype), None, async_op=async_op)
    return _finish(fut, async_op)


def _broadcast(tensor, src=None, group=None, async_op=False, group_src=None):
    w = _w()
    _need_contiguous(w, 'broadcast', tensor)
    fut = w.issue('broadcast', group, ('broadcast', tensor.numel(), str(tensor.dtype), src),
                  tensor, tensor.numel(), str(tensor.dtype), src, async_op=async_op)
    return _finish(fut, async_op)


def _all_gather(tensor_list, tensor, group=None, async_op=False):
    w = _w()
    _need_contiguous(w, 'all_gather', tensor, *tensor_list)
    fut = w.issue('all_gather', group, ('all_gather', tensor.numel(), str(tensor.dtype)),
                  (tensor_list, tensor), tensor.numel(), str(tensor.dtype), None, async_op=async_op)
    return _finish(fut, async_op)


def _reduce_scatter(output, input_list, op=None, group=None, async_op=False):
    w = _w()
    _need_contiguous(w, 'reduce_scatter', output, *input_list)
    fut = w.issue('reduce_scatter', group, ('reduce_scatter', output.numel(), str(output.dtype)),
                  (output, input_list), output.numel(), str(output.dtype), None, async_op=async_op)
    return _finish(fut, async_op)


def _all_gather_object(object_list, obj, group=None):
    w = _w()
    fut = w.issue('all_gather_object', group, ('all_gather_object',), (object_list, obj), 0, 'object', None)
    return _finish(fut, False)


def _barrier(group=None, async_op=False, device_ids=None):
    w = _w()
    fut = w.issue('barrier', group, ('barrier',), None, 0, 'none', None)
    return _finish(fut, async_op)


_PATCHES = {
    'is_initialized': _is_initialized,
    'get_rank': _get_rank,
    'get_world_size': _get_world_size,
    'new_group': _new_group,
    'all_reduce': _all_reduce,
    'broadcast': _broadcast,
    'all_gather': _all_gather,
    'reduce_scatter': _reduce_scatter,
    'all_gather_object': _all_gather_object,
    'barrier': _barrier,
    'get_process_group_ranks': _get_process_group_ranks,
}
_saved: dict = {}


def install() -> None:
    if _saved:
        return
    for k, v in _PATCHES.items():
        _saved[k] = getattr(dist, k, None)
        setattr(dist, k, v)
    _saved['Future'] = torch.futures.Future
    torch.futures.Future = SimFuture


def uninstall() -> None:
    if not _saved:
        return
    torch.futures.Future = _saved.pop('Future')
    for k, v in list(_saved.items()):
        if v is None:
            delattr(dist, k)
        else:
            setattr(dist, k, v)
    _saved.clear()


def run_world(size: int, fn: Callable[[int], Any], seed: int = 0, policy: str = 'random') -> World:
    """Run fn(rank) on `size` simulated ranks; returns the finished World."""
    install()
    w = World(size, seed, policy)
    import os
    saved = {k: os.environ.get(k) for k in ('LOCAL_RANK', 'LOCAL_WORLD_SIZE')}
    os.environ['LOCAL_RANK'] = '0'; os.environ['LOCAL_WORLD_SIZE'] = '1'
    # file I/O is a scheduling point: another rank may run between "the barrier returned" and "my file is written",
    # and between "I look for the file" and "it is there" (a shared file system orders nothing by itself)
    orig_save, orig_load = torch.save, torch.load

    def _save(*a, **k):
        if _WORLD is not None and hasattr(_tls, 'rank'):
            _WORLD.yield_point()
        return orig_save(*a, **k)

    def _load(*a, **k):
        if _WORLD is not None and hasattr(_tls, 'rank'):
            _WORLD.yield_point()
        return orig_load(*a, **k)
    torch.save, torch.load = _save, _load
    try:
        return w.run(fn)
    finally:
        torch.save, torch.load = orig_save, orig_load
        for k, v in saved.items():
            if v is None:
                os.environ.pop(k, None)
            else:
                os.environ[k] = v


def comm_log(w: World, rank: int | None = None, kinds=None) -> list[tuple]:
    out = []
    for e in w.log:
        if rank is not None and e[0] != rank:
            continue
        if kinds is not None and e[1] not in kinds:
            continue
        out.append(e)
    return out
