"""Drive the unmodified KFACPreconditioner through a history of public-API
events on W simulated ranks (harness/simdist) or in a single process.

history events (the same list on every rank, SPMD):
  ['train', nmicro(, nprobe)] zero_grad, (nprobe train-mode forward passes under no_grad, never back-propagated,) nmicro forward/backward passes in train mode,
                             DDP-style gradient averaging (world all_reduce), preconditioner.step()
  ['eval']                   forward/backward in eval mode (no step)
  ['state_dict', ranks|None] state_dict() on the listed ranks (None = all)
  ['memory', ranks|None]     memory_usage() on the listed ranks
  ['load']                   state_dict() -> deepcopy -> load_state_dict() into a freshly constructed
                             preconditioner (same model), which replaces the old one
  ['reset_batch']
  ['attempt', nmicro]        nmicro train-mode passes, then reset_batch() instead of step(): an abandoned iteration
  ['sched', step|None]       LambdaParamScheduler.step(step)
"""
from __future__ import annotations

import copy
import hashlib

import torch


def _gen(*key) -> torch.Generator:
    h = int(hashlib.sha1(repr(key).encode()).hexdigest()[:12], 16)
    return torch.Generator().manual_seed(h)


def make_model(spec, seed=0, dtype=torch.float32, nest_from=None):
    """nest_from = i: the modules from position i on are wrapped in a nested Sequential (same function, same parameter order; the
    registered names become '0', ..., 'i.0', 'i.1', ... - one name may then be a suffix of another)"""
    layers = []
    for s in spec:
        if s[0] == 'linear':
            layers.append(torch.nn.Linear(s[1], s[2], bias=bool(s[3])))
        elif s[0] == 'conv':
            layers.append(torch.nn.Conv2d(s[1], s[2], kernel_size=tuple(s[3]), stride=tuple(s[4]), padding=tuple(s[5]), bias=bool(s[6])))
        elif s[0] == 'relu':
            layers.append(torch.nn.ReLU())
        elif s[0] == 'tanh':
            layers.append(torch.nn.Tanh())
        elif s[0] == 'flatten':
            layers.append(torch.nn.Flatten())
        elif s[0] == 'bn':
            layers.append(torch.nn.BatchNorm1d(s[1]))
        else:
            raise ValueError(s)
    if nest_from is not None and 0 < nest_from < len(layers):
        layers = layers[:nest_from] + [torch.nn.Sequential(*layers[nest_from:])]
    m = torch.nn.Sequential(*layers).to(dtype)
    g = _gen('init', seed)
    with torch.no_grad():
        for p in m.parameters():
            p.copy_(((torch.randint(-4, 5, p.shape, generator=g).to(torch.float64)) / 4).to(dtype))
    return m


def batch(cfg, ev, micro, rank, dtype):
    """Input batch of one rank for one pass: small integers (exact arithmetic)."""
    g = _gen('x', cfg.get('data_seed', 0), ev, micro, rank)
    shape = [cfg.get('batch', 4)] + list(cfg['in_shape'])
    x = torch.randint(-2, 3, shape, generator=g).to(dtype)
    return x


def loss_weights(cfg, out_shape, ev, micro, rank, dtype):
    g = _gen('w', cfg.get('data_seed', 0), ev, micro, rank)
    return torch.randint(-2, 3, out_shape, generator=g).to(dtype)


def resolve_callable(v):
    """hyper-parameters given as ['table', [v0, v1, ...]] become callables of the step"""
    if isinstance(v, list) and v and v[0] == 'table':
        tbl = v[1]
        return lambda s, tbl=tbl: tbl[min(s, len(tbl) - 1)]
    return v


def scale_at(cfg, ev):
    """loss scale in force during event ev: constant, or ['table', [...]] indexed by the event (dynamic loss scaling)"""
    v = cfg.get('grad_scale')
    if isinstance(v, list) and v and v[0] == 'table':
        return v[1][ev % len(v[1])]
    return v or 1.0


def build_precond(model, cfg, scale_holder=None):
    from kfac.preconditioner import KFACPreconditioner
    kw = {}
    for k in ('factor_update_steps', 'inv_update_steps', 'damping', 'factor_decay', 'kl_clip', 'lr'):
        if k in cfg:
            kw[k] = resolve_callable(cfg[k])
    for k in ('accumulation_steps', 'allreduce_bucket_cap_mb', 'colocate_factors', 'compute_method',
              'compute_eigenvalue_outer_product', 'grad_worker_fraction', 'symmetry_aware', 'update_factors_in_hook',
              'assignment_strategy', 'skip_layers'):
        if k in cfg:
            kw[k] = cfg[k]
    for k in ('factor_dtype', 'inv_dtype'):
        if k in cfg and cfg[k] is not None:
            kw[k] = getattr(torch, cfg[k])
    if cfg.get('grad_scale'):
        if scale_holder is not None:
            kw['grad_scaler'] = lambda h=scale_holder: h['s']
        else:
            kw['grad_scaler'] = lambda s=scale_at(cfg, 0): s
    if 'kl_clip' in cfg and cfg['kl_clip'] is None:
        kw['kl_clip'] = None
    return KFACPreconditioner(model, **kw)


def rank_body(cfg, history, W, observe=None, single_union=False, pre_step=None, setup=None):
    """Returns the function executed by every rank.  With single_union=True (W must
    be 1) every pass is fed the concatenation of the batches of `cfg['union_of']` ranks."""
    dist = torch.distributed
    dtype = getattr(torch, cfg.get('model_dtype', 'float32'))

    def body(rank):
        model = make_model(cfg['model'], cfg.get('model_seed', 0), dtype)
        holder = {'s': scale_at(cfg, 0)}
        p = build_precond(model, cfg, holder)
        sched = None
        if cfg.get('sched'):
            from kfac.scheduler import LambdaParamScheduler
            sched = LambdaParamScheduler(p, **{k + '_lambda': resolve_callable(v) for k, v in cfg['sched'].items()})
        obs = []
        scale = holder['s']
        if setup is not None:
            setup(rank, model, p)

        def one_pass(ev, micro):
            if single_union:
                xs = [batch(cfg, ev, micro, r, dtype) for r in range(cfg['union_of'])]
                x = torch.cat(xs, 0)
            else:
                x = batch(cfg, ev, micro, rank, dtype)
            out = model(x)
            if single_union:
                ws = [loss_weights(cfg, [cfg.get('batch', 4)] + list(out.shape[1:]), ev, micro, r, dtype) for r in range(cfg['union_of'])]
                wts = torch.cat(ws, 0)
            else:
                wts = loss_weights(cfg, list(out.shape), ev, micro, rank, dtype)
            (out * wts).sum().mul(holder['s']).backward()

        for ev, e in enumerate(history):
            kind = e[0]
            holder['s'] = scale = scale_at(cfg, ev)
            if kind == 'train':
                model.train()
                model.zero_grad()
                for pi in range(e[2] if len(e) > 2 else 0):
                    # train-mode forward passes that are never followed by a backward pass (a probe under no_grad): the layer inputs
                    # of these passes are accumulated into A, while G only sees the passes that are back-propagated
                    with torch.no_grad():
                        if single_union:
                            model(torch.cat([batch(cfg, ev, 1000 + pi, r, dtype) for r in range(cfg['union_of'])], 0))
                        else:
                            model(batch(cfg, ev, 1000 + pi, rank, dtype))
                for mi in range(e[1]):
                    one_pass(ev, mi)
                if scale != 1.0:
                    for q in model.parameters():
                        if q.grad is not None:
                            q.grad.div_(scale)
                if single_union:
                    # the same averaged gradients the W ranks see after DDP averaging
                    for q in model.parameters():
                        if q.grad is not None:
                            q.grad.div_(cfg['union_of'])
                if W > 1:
                    for q in model.parameters():
                        if q.grad is not None:
                            if cfg.get('ddp_via_all_gather'):
                                # same averaging, but distinguishable from K-FAC's own all_reduce calls in the log
                                parts = [torch.empty_like(q.grad) for _ in range(W)]
                                dist.all_gather(parts, q.grad.contiguous())
                                q.grad.copy_(sum(parts))
                            else:
                                dist.all_reduce(q.grad)
                            q.grad.div_(W)
                pre = pre_step(rank, ev, model, p) if pre_step is not None else None
                p.step()
                if pre_step is not None:
                    obs.append(('pre', ev, pre))
            elif kind == 'eval':
                model.eval()
                one_pass(ev, 0)
                model.train()
            elif kind == 'attempt':
                # an abandoned iteration: micro-batches are accumulated, then everything pending is discarded (no step)
                model.train()
                model.zero_grad()
                for mi in range(e[1]):
                    one_pass(ev, mi)
                p.reset_batch()
            elif kind == 'state_dict':
                if e[1] is None or rank in e[1]:
                    p.state_dict(include_factors=(e[2] if len(e) > 2 else True))
            elif kind == 'memory':
                if e[1] is None or rank in e[1]:
                    p.memory_usage()
            elif kind == 'load':
                sd = copy.deepcopy(p.state_dict(include_factors=(e[1] if len(e) > 1 else True)))
                if len(e) > 3 and e[3] == 'negA':
                    # a checkpoint whose A factors are negative definite (public load_state_dict accepts any factors): with explicit
                    # inverses the preconditioner becomes indefinite and lr^2 sum <V, D> negative
                    for fs in sd['layers'].values():
                        fs['A'] = -2.0 * torch.eye(fs['A'].shape[0], dtype=fs['A'].dtype)
                # drop the old preconditioner's hooks (generic torch hook tables), then build a fresh one
                for m in model.modules():
                    m._forward_pre_hooks.clear(); m._backward_hooks.clear()
                p2 = build_precond(model, cfg, holder)
                p2.load_state_dict(sd, compute_inverses=(e[2] if len(e) > 2 else True))
                p = p2
                if sched is not None:
                    from kfac.scheduler import LambdaParamScheduler
                    sched = LambdaParamScheduler(p, **{k + '_lambda': resolve_callable(v) for k, v in cfg['sched'].items()})
            elif kind == 'load_nofac':
                # a checkpoint without factors restored into the live object (step counter and constant hyperparameters only): nothing
                # can be inverted, so no collective is implied and the call is legal on any subset of the ranks
                if e[1] is None or rank in e[1]:
                    import warnings
                    with warnings.catch_warnings():
                        warnings.simplefilter('ignore')
                        p.load_state_dict(copy.deepcopy(p.state_dict(include_factors=False)))
            elif kind == 'reset_batch':
                p.reset_batch()
            elif kind == 'sched':
                sched.step(e[1])
            else:
                raise ValueError(e)
            if observe is not None:
                obs.append(observe(rank, ev, e, model, p))
        return obs
    return body


def run(cfg, history, W, seed=0, policy='random', observe=None, pre_step=None, setup=None):
    from harness import simdist
    return simdist.run_world(W, rank_body(cfg, history, W, observe, pre_step=pre_step, setup=setup), seed=seed, policy=policy)


def run_single(cfg, history, observe=None, union_of=None, pre_step=None):
    """Single-process run (torch.distributed not initialised)."""
    from harness import simdist
    simdist.install()      # dist.is_initialized() is False outside a simulated world
    c = dict(cfg)
    if union_of:
        c['union_of'] = union_of
    c['grad_worker_fraction'] = 1.0
    return rank_body(c, history, 1, observe, single_union=bool(union_of), pre_step=pre_step)(0)


def grads(model):
    return [None if q.grad is None else q.grad.detach().clone() for q in model.parameters()]
