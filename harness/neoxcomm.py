"""Tie for Model/NeoxComm.v (theorem neox_comm_proj): the per-rank sequence of data collectives of a GPT-NeoX run
under simdist must EQUAL the extracted neox_issues (unbucketed factor allreduces, factor updates in the hooks)."""
from __future__ import annotations

from harness import common

KIND = {'all_reduce': 1, 'broadcast': 2, 'all_gather': 3, 'reduce_scatter': 4}
DT = {'torch.float16': 1, 'torch.bfloat16': 2, 'torch.float32': 3, 'torch.float64': 4}


def model_args(cfg, hist):
    from harness.props import C18
    P, D, M = cfg.get('P', 1), cfg['D'], cfg['M']
    if cfg.get('allreduce_bucket_cap_mb', 25.0) > 0 or not cfg.get('update_factors_in_hook', True) or cfg.get('accumulation_steps', 1) != 1 \
            or cfg.get('factor_update_steps', 1) != 1:
        return None
    nl = len(cfg['layers'])
    names = [str(i) for i in range(nl)]
    dims = [((l[1] + l[3]), l[2]) for l in cfg['layers']]
    rl = C18.roles(cfg, names, dims)
    B = cfg.get('batch', 2)
    stages = []
    for p in range(P):
        r0 = p * D * M
        stages.append([[0 if l[0] == 'row' else 1, l[1], l[2], int(l[3]), B, rl[r0][names[i]][0]] for i, l in enumerate(cfg['layers'])])
    user = []
    for kind, nin, nout, hb in cfg['layers']:
        user.append(nout * nin // M)
        if hb:
            user.append(nout // M if kind == 'col' else nout)
    evs = []
    for e in hist:
        if e[0] == 'train':
            for _ in range(e[1]):
                for li in range(nl):
                    evs += [['fwd', li], ['bwd', li]]
            evs.append(['user', user])
            evs.append(['step'])
        elif e[0] in ('state_dict', 'save'):
            pass                      # all_gather_object / barrier / new_group only: not data collectives
        else:
            return None
    xdt = 'torch.' + cfg.get('dtype', 'float64')
    fdt = 'torch.' + cfg['factor_dtype'] if cfg.get('factor_dtype') else xdt
    return [P, D, M, int(cfg.get('symmetry_aware', False)), [DT[fdt], DT[xdt]], stages, evs]


def compare(cfg, hist, w):
    margs = model_args(cfg, hist)
    if margs is None:
        return None, 0
    members, per_rank, order = common.run_model([('neox_comm', margs)])[0]
    W = cfg.get('P', 1) * cfg['D'] * cfg['M']
    for r in range(W):
        obs = [(tuple(x[2]), KIND[x[1]], x[3], DT.get(x[4], 0), 0 if x[5] is None else x[5] + 1) for x in w.log if x[0] == r and x[1] in KIND]
        exp = [(tuple(members[g]), k, n, dt, root) for g, k, n, dt, root in per_rank[r]]
        if obs != exp:
            i = next((j for j, (a, b) in enumerate(zip(obs, exp)) if a != b), min(len(obs), len(exp)))
            return (f'rank {r}: collective #{i} observed {obs[i] if i < len(obs) else None} but the model issues '
                    f'{exp[i] if i < len(exp) else None} (observed {len(obs)}, model {len(exp)} collectives)'), len(order)
    return None, len(order)
