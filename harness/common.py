"""Shared machinery for the per-property checks (see DESIGN.md section 1.2).

Every check
  1. builds the Coq development (full .vo build) and re-compiles
     Properties/<id>.v to capture `Print Assumptions`;
  2. builds the extracted OCaml model + driver;
  3. runs the implementation imported from /repo's working tree and the
     extracted model on the same cases and compares them;
  4. on disagreement runs the property oracle, shrinks, writes a replay file
     and prints a VIOLATION line (known findings are printed as KNOWN-FINDING);
  5. writes evidence/<id>.json.
"""
from __future__ import annotations

import hashlib
import json
import os
import re
import subprocess
import sys
import time

VERIF = os.path.dirname(os.path.dirname(os.path.abspath(__file__)))
REPO = os.environ.get('KFAC_REPO', '/repo')
# regression sweeps against scratch trees (tools/reseed_all.sh) write their evidence / replays elsewhere: VERIF_OUT_DIR=<dir>
_OUT = os.environ.get('VERIF_OUT_DIR')
OUT_EVIDENCE = os.path.join(_OUT or VERIF, 'evidence')
OUT_REPLAYS = os.path.join(_OUT or VERIF, 'replays')
COQ = os.path.join(VERIF, 'coq')
OCAML = os.path.join(VERIF, 'ocaml')
DRIVER = os.path.join(OCAML, 'driver')
FORBIDDEN = re.compile(
    r'\b(Admitted|admit|Axiom|Axioms|Parameter|Parameters|Conjecture|Conjectures|'
    r'Hypothesis|Hypotheses|Variable|Variables)\b|Unset Guard|bypass_check|'
    r'type-in-type|Admit Obligations|impredicative-set|Unset Universe Checking|'
    r'Unset Positivity',
)


def setup_impl_path() -> None:
    """Make `import kfac` resolve to /repo's current working tree."""
    if REPO not in sys.path:
        sys.path.insert(0, REPO)
    stubs = os.path.join(VERIF, 'harness', 'stubs')
    if os.path.isdir(stubs) and stubs not in sys.path:
        sys.path.insert(1, stubs)
    os.environ.setdefault('PYTHONHASHSEED', '0')
    import warnings

    warnings.filterwarnings('ignore')
    os.environ.setdefault('OMP_NUM_THREADS', '1')
    try:
        import torch

        torch.set_num_threads(1)      # many rank threads: avoid intra-op thread-pool contention
    except Exception:  # noqa: BLE001
        pass


# --------------------------------------------------------------------------
# Coq / OCaml build
# --------------------------------------------------------------------------
class BuildError(Exception):
    def __init__(self, what: str, log: str):
        super().__init__(what)
        self.what = what
        self.log = log


def _run(cmd, cwd, timeout):
    p = subprocess.run(
        cmd, cwd=cwd, stdout=subprocess.PIPE, stderr=subprocess.STDOUT,
        text=True, timeout=timeout,
    )
    return p.returncode, p.stdout


def scan_forbidden() -> list[str]:
    """Admitted/Axiom/... anywhere in the development (Section-local
    Variable/Hypothesis are allowed only inside a Section)."""
    bad = []
    for root, _, files in os.walk(COQ):
        for f in files:
            if not f.endswith('.v'):
                continue
            path = os.path.join(root, f)
            depth = 0
            in_comment = 0
            for ln, line in enumerate(open(path), 1):
                code = line
                # strip comments (nesting-aware, line granular)
                out = ''
                i = 0
                while i < len(code):
                    if code.startswith('(*', i):
                        in_comment += 1; i += 2; continue
                    if code.startswith('*)', i) and in_comment:
                        in_comment -= 1; i += 2; continue
                    if not in_comment:
                        out += code[i]
                    i += 1
                code = out
                if re.match(r'\s*Section\b', code):
                    depth += 1
                if re.match(r'\s*End\b', code) and depth:
                    depth -= 1
                for m in FORBIDDEN.finditer(code):
                    tok = m.group(0)
                    if tok in ('Variable', 'Variables', 'Hypothesis', 'Hypotheses') and depth > 0:
                        continue
                    if tok in ('Context',):
                        continue
                    bad.append(f'{os.path.relpath(path, VERIF)}:{ln}: {tok}')
    return bad


def build_coq() -> None:
    mk, cp = os.path.join(COQ, 'Makefile'), os.path.join(COQ, '_CoqProject')
    if not os.path.exists(mk) or os.path.getmtime(cp) > os.path.getmtime(mk):      # new files listed since the last coq_makefile
        rc, out = _run(['coq_makefile', '-f', '_CoqProject', '-o', 'Makefile'], COQ, 120)
        if rc:
            raise BuildError('coq_makefile', out)
    rc, out = _run(['make', '-j16'], COQ, 3000)
    if rc:
        raise BuildError('coq build', out[-4000:])


def build_ocaml() -> None:
    rc, out = _run(['make'], OCAML, 600)
    if rc:
        raise BuildError('ocaml build', out[-4000:])


def property_obligations(pid: str) -> dict:
    """Re-compile Properties/<pid>.v, parse Print Assumptions."""
    src = os.path.join(COQ, 'Properties', f'{pid}.v')
    text = open(src).read()
    theorems = re.findall(r'^\s*(?:Theorem)\s+(\w+)', text, re.M)
    examples = re.findall(r'^\s*(?:Example)\s+(\w+)', text, re.M)
    rc, out = _run(['coqc', '-Q', '.', 'KV', f'Properties/{pid}.v'], COQ, 1200)
    if rc:
        raise BuildError(f'Properties/{pid}.v', out[-4000:])
    # Print Assumptions output: either "Closed under the global context" or
    # "Axioms:" followed by "name : type" lines (indented continuation lines).
    axioms: list[str] = []
    closed = 0
    blocks = re.split(r'^(?=Closed under the global context|Axioms:)', out, flags=re.M)
    for b in blocks:
        if b.startswith('Closed under'):
            closed += 1
        elif b.startswith('Axioms:'):
            for line in b.splitlines()[1:]:
                m = re.match(r'^([A-Za-z_][\w.\']*)\s*(?::|$)', line)   # the type may start on the next line
                if m and m.group(1) not in axioms:
                    axioms.append(m.group(1))
    return {
        'theorems': theorems, 'examples': examples, 'closed_blocks': closed,
        'axioms': axioms, 'raw': out[-3000:],
    }


# --------------------------------------------------------------------------
# Extracted model
# --------------------------------------------------------------------------
def _dump(x) -> str:
    return json.dumps(x, separators=(',', ':'))


def run_model(cases: list[tuple[str, object]], timeout: int = 1800) -> list:
    """Run the extracted model on (command, argument) pairs."""
    if not cases:
        return []
    inp = '\n'.join(f'{c} {_dump(a)}' for c, a in cases) + '\n'
    env = dict(os.environ)
    p = subprocess.run(
        ['bash', '-c', f'ulimit -s unlimited 2>/dev/null; exec {DRIVER}'],
        input=inp, stdout=subprocess.PIPE, stderr=subprocess.PIPE, text=True,
        timeout=timeout, env=env,
    )
    if p.returncode:
        raise BuildError('driver run', p.stderr[-2000:])
    lines = p.stdout.splitlines()
    if len(lines) != len(cases):
        raise BuildError('driver run', f'{len(lines)} results for {len(cases)} cases')
    return [json.loads(l) for l in lines]


def run_model_sharded(cases, shards: int = 16, timeout: int = 3000) -> list:
    if len(cases) < 64 or shards <= 1:
        return run_model(cases, timeout)
    from concurrent.futures import ThreadPoolExecutor

    chunks = [cases[i::shards] for i in range(shards)]
    with ThreadPoolExecutor(shards) as ex:
        outs = list(ex.map(lambda c: run_model(c, timeout), chunks))
    res = [None] * len(cases)
    for s, out in enumerate(outs):
        for k, o in enumerate(out):
            res[s + k * shards] = o
    return res


def coq_eval(body: str, tag: str = 'cases', timeout: int = 900) -> str:
    """Evaluate Gallina terms inside Coq (vm_compute): writes a scratch .v file
    next to the development, runs coqc, returns stdout.  Used where the model
    uses primitive floats (not extracted)."""
    import tempfile
    d = tempfile.mkdtemp(prefix='kvcases_')
    path = os.path.join(d, f'{tag}.v')
    with open(path, 'w') as fh:
        fh.write(body)
    try:
        rc, out = _run(['coqc', '-Q', COQ, 'KV', path], d, timeout)
    finally:
        import shutil
    if rc:
        shutil.rmtree(d, ignore_errors=True)
        raise BuildError('coq_eval ' + tag, out[-3000:])
    shutil.rmtree(d, ignore_errors=True)
    return out


# --------------------------------------------------------------------------
# Results, evidence, violations
# --------------------------------------------------------------------------
def case_hash(x) -> str:
    return hashlib.sha1(_dump(x).encode()).hexdigest()[:16]


class Failure:
    """One disagreement between model and implementation, or one input on
    which the property oracle rejects the implementation."""

    def __init__(self, *, what: str, case, model=None, impl=None,
                 oracle_rejects: bool, correspondence: str, theorems: list[str],
                 signature: str = '', oracle: str = ''):
        self.what = what
        self.case = case
        self.model = model
        self.impl = impl
        self.oracle_rejects = oracle_rejects
        self.correspondence = correspondence
        self.theorems = theorems
        self.signature = signature
        self.oracle = oracle


class Coverage:
    def __init__(self, rule: str):
        self.rule = rule
        self.evaluations = 0
        self.nontrivial: set[str] = set()
        self.samples: list = []
        self.validated = 0
        self.dist: dict[str, dict] = {}
        self.extra: dict = {}
        self.exhaustive = False

    def add(self, case, nontrivial: bool, validated: bool = True, sample_cap: int = 4):
        self.evaluations += 1
        if validated:
            self.validated += 1
        if nontrivial:
            self.nontrivial.add(case_hash(case))
        if len(self.samples) < sample_cap:
            self.samples.append(case)

    def count(self, key: str, value) -> None:
        d = self.dist.setdefault(key, {})
        d[str(value)] = d.get(str(value), 0) + 1


def load_known() -> list[dict]:
    path = os.path.join(VERIF, 'KNOWN_FINDINGS.txt')
    out = []
    if not os.path.exists(path):
        return out
    for line in open(path):
        line = line.strip()
        m = re.match(r'^known:\s+property=(\S+)\s+key=(\S+)\s+(.*)$', line)
        if m:
            out.append({'property': m.group(1), 'key': m.group(2), 'text': m.group(3)})
    return out


def finish(pid: str, tier: str, seed: int, t0: float, cov: Coverage | None,
           failures: list[Failure], obligations: dict | None,
           correspondences: list[str], trusted: list[str],
           build_error: BuildError | None = None, notes: str = '') -> int:
    """Write evidence, print VIOLATION / KNOWN-FINDING lines, return exit code."""
    os.makedirs(OUT_EVIDENCE, exist_ok=True)
    os.makedirs(OUT_REPLAYS, exist_ok=True)
    known = [k for k in load_known() if k['property'] == pid]
    exit_code = 0
    violations = 0
    printed_known: set[str] = set()
    n_replay = 0

    if build_error is not None:
        n_replay += 1
        path = os.path.join(OUT_REPLAYS, f'{pid}-{tier}-build.json')
        json.dump({
            'property': pid, 'tier': tier, 'seed': seed,
            'broken': build_error.what, 'log': build_error.log,
            'note': 'the proof development / extracted model no longer checks; '
                    'the property is no longer shown to hold',
        }, open(path, 'w'), indent=1)
        print(f'VIOLATION property={pid} replay={path} no-failing-input-found')
        violations += 1
        exit_code = 1

    broken_corr = []
    failures = sorted(failures, key=lambda f: not f.oracle_rejects)
    for f in failures:
        hit = next((k for k in known if f.signature and k['key'] == f.signature), None)
        if hit is not None:
            if hit['key'] not in printed_known:
                print(f"KNOWN-FINDING: property={pid} key={hit['key']} {hit['text']}")
                printed_known.add(hit['key'])
            continue
        violations += 1
        exit_code = 1
        if f.correspondence not in broken_corr:
            broken_corr.append(f.correspondence)
        if n_replay >= 5:
            continue
        n_replay += 1
        path = os.path.join(OUT_REPLAYS, f'{pid}-{tier}-{n_replay}.json')
        json.dump({
            'property': pid, 'tier': tier, 'seed': seed, 'what': f.what,
            'case': f.case, 'model_predicted': f.model, 'implementation_did': f.impl,
            'oracle': f.oracle, 'oracle_rejects_implementation': f.oracle_rejects,
            'correspondence_broken': f.correspondence,
            'theorems_whose_tie_it_carried': f.theorems,
            'replay_cmd': f'./check {pid} --replay {path}',
        }, open(path, 'w'), indent=1, default=str)
        tail = '' if f.oracle_rejects else ' no-failing-input-found'
        print(f'VIOLATION property={pid} replay={path}{tail}')

    n_thm = len(obligations['theorems']) if obligations else 0
    n_obl = n_thm + len(correspondences)
    discharged = 0
    if obligations and build_error is None:
        discharged = n_thm + sum(1 for c in correspondences if c not in broken_corr)
    tb = list(trusted)
    if obligations:
        if obligations['axioms']:
            tb.append('Print Assumptions axioms: ' + ', '.join(obligations['axioms']))
        else:
            tb.append('Print Assumptions: Closed under the global context '
                      f"({obligations['closed_blocks']} theorems)")
    coverage = {
        'obligations': max(n_obl, 1),
        'discharged': discharged,
        'checker_cmd': f'make -C coq && cd coq && coqc -Q . KV Properties/{pid}.v',
        'trusted_base': tb,
        'theorems': obligations['theorems'] if obligations else [],
        'nonvacuity_examples': obligations['examples'] if obligations else [],
        'correspondences': correspondences,
        'correspondences_broken': broken_corr,
    }
    if cov is not None:
        coverage.update({
            'evaluations': cov.evaluations,
            'distinct_nontrivial': len(cov.nontrivial),
            'rule': cov.rule,
            'samples': cov.samples[:6],
            'traces_validated_against_impl': cov.validated,
            'input_distribution': cov.dist,
            'exhaustive': cov.exhaustive,
        })
        coverage.update(cov.extra)
    if notes:
        coverage['explanation'] = notes
    ev = {
        'property_id': pid, 'tier': tier, 'seed': seed, 'level': 'proof',
        'coverage': coverage,
        'assumptions': tb,
        'wall_s': round(time.time() - t0, 2),
        'violations': violations,
        'known_findings_printed': sorted(printed_known),
    }
    with open(os.path.join(OUT_EVIDENCE, f'{pid}.json'), 'w') as fh:
        json.dump(ev, fh, indent=1, default=str)
    if exit_code == 0:
        ne = cov.evaluations if cov else 0
        print(f'OK property={pid} tier={tier} theorems={n_thm} '
              f'correspondences={len(correspondences)} cases={ne} '
              f'nontrivial={len(cov.nontrivial) if cov else 0} wall={ev["wall_s"]}s')
    return exit_code
