"""Tie for the communication generator Model/KfacComm.v (theorem kfac_comm_proj):
the per-rank sequences of data collectives observed under simdist must EQUAL the
extracted kfac_issues of the same configuration and history, for every rank."""
from __future__ import annotations

from harness import common, kfacrun


def layer_table(cfg):
    """names and factor dimensions (A, G) of the registered layers, in registration order, from the model spec"""
    names, dims = [], []
    for i, s in enumerate(cfg['model']):
        if s[0] == 'linear':
            names.append(str(i)); dims.append((s[1] + int(bool(s[3])), s[2]))
        elif s[0] == 'conv':
            names.append(str(i)); dims.append((s[1] * s[3][0] * s[3][1] + int(bool(s[6])), s[2]))
    return names, dims


def inverse_workers(cfg, names, dims):
    """from a public KAISAAssignment built with the arguments KFACPreconditioner passes (its correctness is C06 / C17)"""
    from kfac.assignment import KAISAAssignment
    cost = (lambda n: n ** 3) if cfg.get('assignment_strategy', 'compute') == 'compute' else (lambda n: n ** 2)
    work = {n: {'A': cost(d[0]), 'G': cost(d[1])} for n, d in zip(names, dims)}
    colocate = cfg['colocate_factors'] or cfg['k'] == 1
    a = KAISAAssignment(work, local_rank=0, world_size=cfg['W'], grad_worker_fraction=cfg['k'] / cfg['W'],
                        group_func=lambda r: tuple(sorted(r)), colocate_factors=colocate)
    return [(a.inv_worker(n, 'A'), a.inv_worker(n, 'G')) for n in names]


DT = {'torch.float16': 1, 'torch.bfloat16': 2, 'torch.float32': 3, 'torch.float64': 4}


def hp_spec(v):
    if isinstance(v, list) and v and v[0] == 'table':
        return ['t', [int(x) for x in v[1]]]
    return ['c', int(v)]


def model_args(cfg, hist):
    """arguments of the driver command kfac_comm for a kfacrun configuration and coarse history; None if not expressible"""
    import torch
    W, k = cfg['W'], cfg['k']
    names, dims = layer_table(cfg)
    wk = inverse_workers(cfg, names, dims)
    meth = 2 if cfg['compute_method'] == 'inverse' else (1 if cfg['compute_eigenvalue_outer_product'] else 0)
    if meth == 1 and any(a != g for a, g in wk):
        return None
    dtype = getattr(torch, cfg.get('model_dtype', 'float32'))
    fdtype = getattr(torch, cfg['factor_dtype']) if cfg.get('factor_dtype') else dtype
    fsz = torch.empty(0, dtype=fdtype).element_size()
    # dtype tags: factors (factor_dtype or the dtype of the activations), second-order data (inv_dtype), gradients (parameters)
    dts = [DT[str(fdtype)], DT['torch.' + (cfg.get('inv_dtype') or 'float32')], DT[str(dtype)]]
    model = kfacrun.make_model(cfg['model'], cfg.get('model_seed', 0), dtype)
    user = [q.numel() for q in model.parameters()]
    hevs, nsave = [], 0
    for e in hist:
        if e[0] == 'train':
            for _ in range(e[1]):
                hevs += [['fwd', 1], ['bwd', 1]]
            if W > 1:
                hevs.append(['user', user])
            hevs.append(['step'])
        elif e[0] == 'eval':
            hevs += [['fwd', 0], ['bwd', 0]]
        elif e[0] == 'memory':
            hevs.append(['flush'])
        elif e[0] == 'load':
            hevs += [['save', 1], ['fresh'], ['load', nsave, 1]]
            nsave += 1
        elif e[0] == 'load_nofac':
            hevs += [['save', 0], ['load', nsave, 1]]     # Model/Kfac.v: a checkpoint without factors yields no ComputeInv, whoever loads it
            nsave += 1
        elif e[0] == 'state_dict':
            pass
        else:
            return None
    capmb = cfg.get('allreduce_bucket_cap_mb', 25.0)
    if capmb > 0:
        sym = cfg['symmetry_aware']
        per_update = sum((n * (n + 1) // 2 if sym else n * n) * fsz for d in dims for n in d)
        cap = min(int(capmb * 1000 * 1000), per_update * (len(hevs) + 1) + 1)   # brun_cap_irrelevant: a capacity above everything ever added
    else:
        cap = -1
    players = [[d[0], d[1], a, g] for d, (a, g) in zip(dims, wk)]
    return [W, k, meth, int(cfg['symmetry_aware']), fsz, dts, players, cap, int(cfg['update_factors_in_hook']), int(cfg['accumulation_steps']),
            hp_spec(cfg.get('factor_update_steps', 1)), hp_spec(cfg.get('inv_update_steps', 1)), hevs]


KIND = {'all_reduce': 1, 'broadcast': 2}


def observed(w, W):
    """per-rank data collectives of a simdist world as (members, kind, numel, dtype tag, root + 1)"""
    out = [[] for _ in range(W)]
    for (rank, kind, grp, numel, dtype, root, seq) in w.log:
        if kind in KIND and grp is not None:
            out[rank].append((tuple(grp), KIND[kind], numel, DT.get(dtype, 0), 0 if root is None else root + 1))
    return out


def expected(margs):
    members, per_rank, order = common.run_model([('kfac_comm', margs)])[0]
    return [[(tuple(members[g]), kind, n, dt, root) for g, kind, n, dt, root in l] for l in per_rank], len(order)


def compare(cfg, hist, w):
    """-> (None | description of the first difference, number of collectives compared)"""
    margs = model_args(cfg, hist)
    if margs is None:
        return None, 0
    exp, n = expected(margs)
    obs = observed(w, cfg['W'])
    for r in range(cfg['W']):
        if obs[r] != exp[r]:
            i = next((j for j, (a, b) in enumerate(zip(obs[r], exp[r])) if a != b), min(len(obs[r]), len(exp[r])))
            return (f'rank {r}: collective #{i} observed {obs[r][i] if i < len(obs[r]) else None} but the model issues '
                    f'{exp[r][i] if i < len(exp[r]) else None} (observed {len(obs[r])}, model {len(exp[r])} collectives)'), n
    return None, n
