"""Drive the unmodified GPTNeoXKFACPreconditioner on a pipe x data x model
topology under simdist, with the DeepSpeed stand-in (harness/stubs) and
Megatron-style sharded linear layers, next to an unsharded single-process
reference (KFACPreconditioner, eigen method).

Layers: a list of ('col' | 'row', n_in, n_out, has_bias).  Megatron contract:
  col (ColumnParallelLinear, parallelism 'output'): weight row block (out/M x in), bias shard, input replicated,
      output (and its gradient) sharded along the last dimension;
  row (RowParallelLinear, parallelism 'input'): weight column block (out x in/M), bias replicated, input sharded,
      output gradient replicated.
Every layer is driven independently (its own input and output-gradient weights), which is all K-FAC sees.
"""
from __future__ import annotations

import copy
import hashlib

import torch


class ColumnParallelLinear(torch.nn.Linear):
    """Mock of Megatron's ColumnParallelLinear holding one shard."""


class RowParallelLinear(torch.nn.Linear):
    """Mock of Megatron's RowParallelLinear holding one shard."""


def _gen(*key):
    h = int(hashlib.sha1(repr(key).encode()).hexdigest()[:12], 16)
    return torch.Generator().manual_seed(h)


def full_weights(cfg):
    """integer-valued full (unsharded) weights and biases, identical on every rank"""
    out = []
    for li, (kind, nin, nout, hb) in enumerate(cfg['layers']):
        g = _gen('w', cfg.get('model_seed', 0), li)
        w = torch.randint(-3, 4, (nout, nin), generator=g).to(torch.float64) / 2
        b = torch.randint(-3, 4, (nout,), generator=g).to(torch.float64) / 2 if hb else None
        out.append((w, b))
    return out


def data(cfg, li, step, micro, d):
    """full input (B x n_in) and full output-gradient weights (B x n_out) of data-parallel replica d"""
    kind, nin, nout, hb = cfg['layers'][li]
    g = _gen('x', cfg.get('data_seed', 0), li, step, micro, d)
    B = cfg.get('batch', 2)
    x = torch.randint(-2, 3, (B, nin), generator=g).to(torch.float64)
    wts = torch.randint(-2, 3, (B, nout), generator=g).to(torch.float64)
    if cfg.get('correlated') and nin >= 2:
        # input features strongly correlated across the model-parallel halves (second half = first half + small dyadic noise)
        h = nin // 2
        x[:, h:2 * h] = x[:, :h] + torch.randint(-1, 2, (B, h), generator=g).to(torch.float64) / 8
    return x, wts


def coord(cfg, r):
    D, M = cfg['D'], cfg['M']
    return r // (D * M), (r // M) % D, r % M


def _resolve(v):
    """['table', [v0, v1, ...]] becomes a callable of the step"""
    if isinstance(v, list) and v and v[0] == 'table':
        tbl = v[1]
        return lambda s, tbl=tbl: tbl[min(s, len(tbl) - 1)]
    return v


def build_precond(model, cfg, dp_group, mp_group, pp_group=None):
    from kfac.gpt_neox.preconditioner import GPTNeoXKFACPreconditioner
    kw = {}
    for k in ('factor_update_steps', 'inv_update_steps', 'damping', 'factor_decay', 'kl_clip', 'lr', 'accumulation_steps',
              'allreduce_bucket_cap_mb', 'update_factors_in_hook', 'factor_checkpoint_dir', 'symmetry_aware'):
        if k in cfg:
            kw[k] = _resolve(cfg[k])
    if 'kl_clip' in cfg and cfg['kl_clip'] is None:
        kw['kl_clip'] = None
    for k in ('inv_dtype', 'factor_dtype'):
        if cfg.get(k):
            kw[k] = getattr(torch, cfg[k])
    if cfg.get('grad_scale'):
        # a static loss scale (a power of two: scaling and unscaling are exact), as AMP applies
        kw['grad_scaler'] = lambda s=float(cfg['grad_scale']): s
    import warnings
    with warnings.catch_warnings():
        warnings.simplefilter('ignore')
        return GPTNeoXKFACPreconditioner(model, data_parallel_group=dp_group, model_parallel_group=mp_group,
                                         pipeline_parallel_group=pp_group, **kw)


def rank_body(cfg, history, observe=None):
    """history events: ['train', nmicro] | ['save'] | ['load', k, compute_inverses] (fresh object) | ['load_same', k, compute_inverses] | ['state_dict']"""
    from deepspeed.pipe import PipelineModule
    from deepspeed.runtime.pipe.topology import PipeModelDataParallelTopology
    dist = torch.distributed
    P, D, M = cfg.get('P', 1), cfg['D'], cfg['M']
    dtype = getattr(torch, cfg.get('dtype', 'float64'))

    def body(rank):
        p_, d_, m_ = coord(cfg, rank)
        topo = PipeModelDataParallelTopology(num_pp=P, num_mp=M, num_dp=D)
        # every rank creates every group, in the same order (as Megatron's mpu does)
        dp_group = mp_group = None
        for ranks in topo.get_axis_comm_lists('data'):
            g = dist.new_group(ranks)
            if rank in ranks:
                dp_group = g
        for ranks in topo.get_axis_comm_lists('model'):
            g = dist.new_group(ranks)
            if rank in ranks:
                mp_group = g
        pp_group = None
        if cfg.get('explicit_pipe_group'):
            # the pipe-axis group (ranks sharing the data and model coordinates), as GPT-NeoX passes it; NOT the stage peers
            for ranks in topo.get_axis_comm_lists('pipe'):
                g = dist.new_group(ranks)
                if rank in ranks:
                    pp_group = g
        fw = full_weights(cfg)
        mods = []
        for li, (kind, nin, nout, hb) in enumerate(cfg['layers']):
            w, b = fw[li]
            if kind == 'col':
                m = ColumnParallelLinear(nin, nout // M, bias=bool(hb)).to(dtype)
                with torch.no_grad():
                    m.weight.copy_(w[m_ * (nout // M):(m_ + 1) * (nout // M), :].to(dtype))
                    if hb:
                        m.bias.copy_(b[m_ * (nout // M):(m_ + 1) * (nout // M)].to(dtype))
            else:
                m = RowParallelLinear(nin // M, nout, bias=bool(hb)).to(dtype)
                with torch.no_grad():
                    m.weight.copy_(w[:, m_ * (nin // M):(m_ + 1) * (nin // M)].to(dtype))
                    if hb:
                        m.bias.copy_(b.to(dtype))
            mods.append(m)
        # layers of the stage: all layers live on every stage here (each stage has its own copy; P > 1 only multiplies stages)
        model = PipelineModule(layers=mods, topology=topo, index_offset=(p_ * len(mods) if cfg.get('global_layer_names') else 0))
        pc = build_precond(model, cfg, dp_group, mp_group, pp_group)
        ckpts = []
        snaps = []
        obs = []
        step = 0
        for ev, e in enumerate(history):
            if e[0] == 'train':
                for q in model.parameters():
                    q.grad = None
                for mi in range(e[1]):
                    for li, (kind, nin, nout, hb) in enumerate(cfg['layers']):
                        x, wts = data(cfg if len(e) < 3 else dict(cfg, data_seed=cfg.get('data_seed', 0) + e[2]), li, step, mi, d_)
                        if kind == 'col':
                            xin = x.to(dtype)
                            w_l = wts[:, m_ * (nout // M):(m_ + 1) * (nout // M)].to(dtype)
                        else:
                            xin = x[:, m_ * (nin // M):(m_ + 1) * (nin // M)].to(dtype)
                            w_l = wts.to(dtype)
                        if cfg.get('seq'):
                            # the GPT-NeoX activation layout [seq, batch, hidden]: the same rows, three dimensions
                            xin = xin.reshape(cfg['seq'], -1, xin.shape[-1]); w_l = w_l.reshape(cfg['seq'], -1, w_l.shape[-1])
                        out = mods[li](xin.clone().requires_grad_(True))
                        (out * w_l).sum().mul(float(cfg.get('grad_scale') or 1.0)).backward()
                if cfg.get('grad_scale'):
                    for q in model.parameters():
                        q.grad.div_(float(cfg['grad_scale']))          # unscale before averaging / preconditioning
                # DDP-style averaging over the data-parallel group
                if D > 1:
                    for q in model.parameters():
                        dist.all_reduce(q.grad, group=dp_group); q.grad.div_(D)
                before = [(m.weight.grad.detach().clone(), None if m.bias is None else m.bias.grad.detach().clone()) for m in mods]
                pc.step()
                after = [(m.weight.grad.detach().clone(), None if m.bias is None else m.bias.grad.detach().clone()) for m in mods]
                step += 1
                obs.append({'ev': ev, 'kind': 'train', 'before': before, 'after': after})
            elif e[0] == 'sd_nofactors':
                if rank in e[1]:
                    pc.state_dict(include_factors=False)
                obs.append({'ev': ev, 'kind': 'sd_nofactors'})
            elif e[0] == 'state_dict':
                sd = pc.state_dict()
                obs.append({'ev': ev, 'kind': 'state_dict', 'sd': copy.deepcopy(sd)})
            elif e[0] == 'save':
                ckpts.append(copy.deepcopy(pc.state_dict()))
                snaps.append(copy.deepcopy(ckpts[-1]))
                obs.append({'ev': ev, 'kind': 'save', 'sd': ckpts[-1]})
            elif e[0] == 'load':
                for m in model.modules():
                    m._forward_pre_hooks.clear(); m._backward_hooks.clear()
                pc = build_precond(model, cfg, dp_group, mp_group, pp_group)
                from harness import simdist
                mark = sum(1 for x in simdist._WORLD.log if x[0] == rank)      # collectives of the constructor end here
                pc.load_state_dict(copy.deepcopy(ckpts[e[1]]), compute_inverses=bool(e[2]))
                obs.append({'ev': ev, 'kind': 'load', 'log_mark': mark})
            elif e[0] == 'ckpt_check':
                def same(a, b):
                    if isinstance(a, dict):
                        return isinstance(b, dict) and a.keys() == b.keys() and all(same(a[k_], b[k_]) for k_ in a)
                    if torch.is_tensor(a):
                        return torch.is_tensor(b) and a.dtype == b.dtype and torch.equal(a, b)
                    return a == b
                obs.append({'ev': ev, 'kind': 'ckpt_check', 'unchanged': same(ckpts[e[1]], snaps[e[1]])})
            elif e[0] == 'load_same':
                # roll back: load an earlier state into the SAME (already used) preconditioner; the data stream follows the restored step count
                from harness import simdist
                mark = sum(1 for x in simdist._WORLD.log if x[0] == rank)
                # e[3] = 1: the state object itself is handed over (no copy): it must still be the saved state afterwards ('ckpt_check')
                pc.load_state_dict(ckpts[e[1]] if len(e) > 3 and e[3] else copy.deepcopy(ckpts[e[1]]), compute_inverses=bool(e[2]))
                step = pc.steps
                obs.append({'ev': ev, 'kind': 'load', 'log_mark': mark})
            if observe is not None:
                obs[-1]['extra'] = observe(rank, ev, e, model, pc)
        return obs
    return body


def run(cfg, history, seed=0, policy='random', observe=None):
    from harness import simdist
    W = cfg.get('P', 1) * cfg['D'] * cfg['M']
    return simdist.run_world(W, rank_body(cfg, history, observe), seed=seed, policy=policy)


def reference(cfg, history):
    """Single-process KFACPreconditioner (eigen) on the unsharded layers fed the union of the data-parallel batches
    and the averaged gradients; returns per train event the combined gradients after the step and the factors."""
    from harness import simdist
    from kfac.preconditioner import KFACPreconditioner
    simdist.install()
    dtype = getattr(torch, cfg.get('dtype', 'float64'))
    D = cfg['D']
    fw = full_weights(cfg)
    mods = []
    for (kind, nin, nout, hb), (w, b) in zip(cfg['layers'], fw):
        m = torch.nn.Linear(nin, nout, bias=bool(hb)).to(dtype)
        with torch.no_grad():
            m.weight.copy_(w.to(dtype))
            if hb:
                m.bias.copy_(b.to(dtype))
        mods.append(m)
    model = torch.nn.Sequential(*mods)
    kw = {k: _resolve(cfg[k]) for k in ('factor_update_steps', 'inv_update_steps', 'damping', 'factor_decay', 'lr', 'accumulation_steps',
                              'update_factors_in_hook') if k in cfg}
    kw['kl_clip'] = cfg.get('kl_clip', 0.001)
    for k in ('inv_dtype', 'factor_dtype'):
        if cfg.get(k):
            kw[k] = getattr(torch, cfg[k])
    pc = KFACPreconditioner(model, compute_method='eigen', compute_eigenvalue_outer_product=False, **kw)
    out = []
    step = 0
    for e in history:
        if e[0] != 'train':
            continue
        model.zero_grad()
        for mi in range(e[1]):
            for li, m in enumerate(mods):
                xs, ws = zip(*[data(cfg, li, step, mi, d) for d in range(D)])
                x = torch.cat(xs, 0).to(dtype); wts = torch.cat(ws, 0).to(dtype)
                o = m(x.clone().requires_grad_(True))
                (o * wts).sum().backward()
        for q in model.parameters():
            q.grad.div_(D)
        before = [(m.weight.grad.detach().clone(), None if m.bias is None else m.bias.grad.detach().clone()) for m in mods]
        pc.step()
        after = [(m.weight.grad.detach().clone(), None if m.bias is None else m.bias.grad.detach().clone()) for m in mods]
        sd = pc.state_dict()
        out.append({'before': before, 'after': after, 'factors': [(sd['layers'][n]['A'].clone(), sd['layers'][n]['G'].clone()) for n in sd['layers']]})
        step += 1
    return out


def shard_of(cfg, li, m_, full_w, full_b):
    """the shard of a full (weight, bias) gradient that model-parallel rank m_ must hold"""
    kind, nin, nout, hb = cfg['layers'][li]
    M = cfg['M']
    if kind == 'col':
        w = full_w[m_ * (nout // M):(m_ + 1) * (nout // M), :]
        b = None if full_b is None else full_b[m_ * (nout // M):(m_ + 1) * (nout // M)]
    else:
        w = full_w[:, m_ * (nin // M):(m_ + 1) * (nin // M)]
        b = full_b
    return w, b
