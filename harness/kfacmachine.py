"""Lock-step execution of fine-grained histories on the unmodified
KFACPreconditioner and on the extracted control machine (Model/Kfac.v).

history events:
  ['pass', training]         one forward + backward pass through the model (gradients accumulate)
  ['step']                   (DDP-style gradient averaging when W > 1) preconditioner.step(), then zero_grad
  ['reset']                  preconditioner.reset_batch()
  ['save', include_factors]  sd_k = deepcopy(state_dict(include_factors)); checkpoints are numbered in order
  ['load', k, compute]       a freshly constructed preconditioner (old hooks dropped) loads checkpoint k
  ['sched']                  LambdaParamScheduler.step()
"""
from __future__ import annotations

import copy
import json

import numpy as np
import torch

from harness import common, kfacrun
from harness.props.C01 import combined_grad, model_cases, unhex, EPS32

PARAMS = ['factor_update_steps', 'inv_update_steps', 'damping', 'factor_decay', 'kl_clip', 'lr']


def impl_body(cfg, history, W):
    dist = torch.distributed
    dtype = getattr(torch, cfg.get('model_dtype', 'float32'))

    def body(rank):
        model = kfacrun.make_model(cfg['model'], cfg.get('model_seed', 0), dtype, nest_from=cfg.get('nest_from'))
        p = kfacrun.build_precond(model, cfg)
        mods = [m for m in model.modules() if isinstance(m, (torch.nn.Linear, torch.nn.Conv2d))]

        def mk_sched(pp):
            if not cfg.get('sched'):
                return None
            from kfac.scheduler import LambdaParamScheduler
            return LambdaParamScheduler(pp, **{k + '_lambda': kfacrun.resolve_callable(v) for k, v in cfg['sched'].items()})
        sched = mk_sched(p)
        ckpts = []
        obs = []
        npass = 0
        for ev, e in enumerate(history):
            rec = {'error': None}
            try:
                if e[0] == 'pass':
                    model.train(bool(e[1]))
                    x = kfacrun.batch(cfg, npass, 0, rank, dtype)          # data depends on the pass index, not on the event index
                    # optional mixed precision: activations (hence factors, when factor_dtype is None) are bfloat16, weights stay float32
                    with torch.autocast('cpu', dtype=torch.bfloat16, enabled=bool(cfg.get('autocast'))):
                        out = model(x)
                    out = out.to(dtype)
                    (out * kfacrun.loss_weights(cfg, list(out.shape), npass, 0, rank, dtype)).sum().backward()
                    model.train(True)
                    npass += 1
                elif e[0] == 'step':
                    if W > 1:
                        for q in model.parameters():
                            if q.grad is not None:
                                dist.all_reduce(q.grad); q.grad.div_(W)
                    rec['D'] = [combined_grad(m) for m in mods]
                    rec['damping_before'] = p.damping
                    p.step()
                    rec['after'] = [combined_grad(m) for m in mods]
                    model.zero_grad()
                elif e[0] == 'reset':
                    p.reset_batch()
                elif e[0] == 'save':
                    # 'hold_state': the caller keeps the returned object alive (no copy at save time): it must still be the saved state later
                    sd_ = p.state_dict(include_factors=bool(e[1]))
                    ckpts.append(sd_ if cfg.get('hold_state') else copy.deepcopy(sd_))
                    rec['saved_keys'] = sorted(ckpts[-1].keys())
                elif e[0] == 'load':
                    for m in model.modules():
                        m._forward_pre_hooks.clear(); m._backward_hooks.clear()
                    # the fresh preconditioner is constructed with DIFFERENT constant hyper-parameters:
                    # loading must restore the saved ones (callables are not part of the state and stay)
                    fresh = dict(cfg)
                    for nme, f in (('damping', 2.0), ('factor_decay', 0.5), ('lr', 3.0), ('kl_clip', 2.0)):
                        if nme in fresh and isinstance(fresh[nme], (int, float)) and fresh[nme] is not None:
                            fresh[nme] = fresh[nme] * f
                    if 'kl_clip' in fresh and fresh['kl_clip'] is None:
                        fresh['kl_clip'] = 0.01          # a saved None (no clipping) must be restored too
                    for nme in ('factor_update_steps', 'inv_update_steps'):
                        if isinstance(fresh.get(nme, 1), int):
                            fresh[nme] = fresh.get(nme, 1) + 1
                    p = kfacrun.build_precond(model, fresh)
                    p.load_state_dict(copy.deepcopy(ckpts[e[1]]), compute_inverses=bool(e[2]))
                    sched = mk_sched(p)
                elif e[0] == 'sched':
                    sched.step()
            except Exception as ex:  # noqa: BLE001
                rec['error'] = f'{type(ex).__name__}: {ex}'[:200]
                obs.append(rec)
                break
            rec['steps'] = p.steps
            rec['params'] = [getattr(p, n) for n in PARAMS]
            # with several ranks a factor getter would wait for a bucketed allreduce that is only
            # flushed by step(): observe the state only at step boundaries (as the property does)
            if W == 1 or e[0] in ('step', 'load', 'save'):
                sd = p.state_dict()
                rec['factors'] = [(None if sd['layers'][n]['A'] is None else sd['layers'][n]['A'].detach().clone(),
                                   None if sd['layers'][n]['G'] is None else sd['layers'][n]['G'].detach().clone()) for n in sd['layers']]
                rec['factor_dtypes'] = [(None if a is None else str(a.dtype), None if g is None else str(g.dtype)) for a, g in rec['factors']]
                rec['sd_scalars'] = {k: v for k, v in sd.items() if k != 'layers'}
            else:
                rec['factors'] = None
            obs.append(rec)
        return obs
    return body


def run_impl(cfg, history, W=1, seed=0, policy='random'):
    from harness import simdist
    if W == 1:
        simdist.install()
        return {0: impl_body(cfg, history, 1)(0)}, None
    w = simdist.run_world(W, impl_body(cfg, history, W), seed=seed, policy=policy)
    return w.results, w


def hp_spec(v):
    if isinstance(v, list) and v and v[0] == 'table':
        return ['t', [int(x) for x in v[1]]]
    return ['c', int(v)]


def model_events(cfg, history, sched_vals):
    """translate harness events to model events; sched_vals: per 'sched' event the new (fus, ius) or None"""
    out = []
    si = 0
    for e in history:
        if e[0] == 'pass':
            out += [['fwd', int(bool(e[1]))], ['bwd', int(bool(e[1]))]]
        elif e[0] == 'step':
            out.append(['step'])
        elif e[0] == 'reset':
            out.append(['reset'])
        elif e[0] == 'save':
            out.append(['save', int(bool(e[1]))])
        elif e[0] == 'load':
            out += [['fresh'], ['load', e[1], int(bool(e[2]))]]       # load into a freshly constructed preconditioner
        elif e[0] == 'sched':
            f, i = sched_vals[si]; si += 1
            if f is not None:
                out.append(['setfus', f])
            if i is not None:
                out.append(['setius', i])
    return out


def run_model(cfg, history, sched_vals):
    mev = model_events(cfg, history, sched_vals)
    tr = common.run_model([('kfac_run', [int(cfg.get('update_factors_in_hook', True)), int(cfg.get('accumulation_steps', 1)),
                                         hp_spec(cfg.get('factor_update_steps', 1)), hp_spec(cfg.get('inv_update_steps', 1)), mev])])[0]
    # regroup per harness event
    out = []
    k = 0
    si = 0
    prev = {'fa': 'none', 'fg': 'none', 'inv': 'none', 'steps': 0}
    for e in history:
        n = 2 if e[0] in ('pass', 'load') else 1
        if e[0] == 'sched':
            f, i = sched_vals[si]; si += 1
            n = (f is not None) + (i is not None)
        acts = []
        last = None
        for _ in range(n):
            acts += tr[k][0]; last = tr[k]; k += 1
        if last is not None:
            prev = {'fa': last[1], 'fg': last[2], 'inv': last[3], 'steps': last[4]}
        out.append(dict(prev, acts=acts))
    return out


def sched_values(cfg, history):
    """values the scheduler will write into the two intervals (int(old * factor(step))), computed from the cfg tables"""
    vals = []
    if not cfg.get('sched'):
        return [(None, None) for e in history if e[0] == 'sched']
    fus = cfg.get('factor_update_steps', 1); ius = cfg.get('inv_update_steps', 1)
    steps = 0
    for e in history:
        if e[0] == 'step':
            steps += 1
        elif e[0] == 'load':
            return None   # not combined with the scheduler by the generators
        elif e[0] == 'sched':
            f = i = None
            if 'factor_update_steps' in cfg['sched']:
                fus = int(fus * kfacrun.resolve_callable(cfg['sched']['factor_update_steps'])(steps)); f = fus
            if 'inv_update_steps' in cfg['sched']:
                ius = int(ius * kfacrun.resolve_callable(cfg['sched']['inv_update_steps'])(steps)); i = ius
            vals.append((f, i))
    return vals


def predicted_gradients(cfg, snap, pre_act, D, damping_at, dstep):
    """V predicted by the model's Precondition action: second-order data computed from the factor
    versions (fa, fg) with the damping of step s_step (inverse / pre-divided eigen) or of the
    current step (plain eigen), via the extracted pre_* terms"""
    _, fa, fg, sstep, _ = pre_act
    out = []
    method = cfg.get('compute_method', 'eigen')
    prediv = cfg.get('compute_eigenvalue_outer_product', True)
    lam = damping_at[sstep] if (method == 'inverse' or prediv) else damping_at[dstep]
    A = snap.get(('A', json.dumps(fa))); G = snap.get(('G', json.dumps(fg)))
    if A is None or G is None:
        return None, None
    st = {'A': [a.double().numpy() for a in A], 'G': [g.double().numpy() for g in G], 'D': D, 'lam': lam}
    cm = {'method': method, 'prediv': prediv}
    args, info = model_cases(cm, st)
    Vs = [unhex(v) for v in common.run_model(args)]
    return Vs, info


def expected_params(cfg, history):
    """Independent expectation of the six hyper-parameter properties after every event (from the
    configuration tables and the scheduler's multiplicative factors), and of the damping at every step index."""
    vals = {n: cfg.get(n, {'factor_update_steps': 1, 'inv_update_steps': 1, 'damping': 0.001, 'factor_decay': 0.95,
                           'kl_clip': 0.001, 'lr': 0.1}[n]) for n in PARAMS}
    init = dict(vals)
    saved = []
    steps = 0
    out = []

    def at(v, st):
        if isinstance(v, list) and v and v[0] == 'table':
            return v[1][min(st, len(v[1]) - 1)]
        return v
    for e in history:
        if e[0] == 'step':
            steps += 1
        elif e[0] == 'sched':
            for n, tbl in cfg.get('sched', {}).items():
                f = at(tbl, steps)
                vals[n] = int(vals[n] * f) if n.endswith('_steps') else vals[n] * f
        elif e[0] == 'save':
            saved.append((steps, {n: v for n, v in vals.items() if not isinstance(v, list)}))
        elif e[0] == 'load':
            st, consts = saved[e[1]]
            vals = dict(init); vals.update(consts); steps = st
        out.append(({n: at(vals[n], steps) for n in PARAMS}, steps, dict(vals)))
    return out


def damping_at_step(cfg, exp, ev_index, step):
    """damping the configuration prescribes for step index `step`, as of event ev_index"""
    v = exp[ev_index][2]['damping']
    if isinstance(v, list):
        return v[1][min(step, len(v[1]) - 1)]
    return v
