"""C03 — all ranks issue matching collectives and no rank ever stalls."""
from __future__ import annotations

import json
import random

from harness import common
from harness.common import Coverage, Failure

CORRESPONDENCES = [
    'the per-rank sequence of data collectives (group members, kind, element count, dtype, root) of the unmodified KFACPreconditioner under '
    'simdist == extracted KfacComm.kfac_issues (the rank-dependent guards of step / load_state_dict / hooks, the bucket machine of C08, '
    'the control machine of C05) for every rank, configuration and history',
    'per-rank issue logs of the unmodified KFACPreconditioner (simdist) are accepted by the verified checker proj_ok_b '
    '(one global collective order exists), are identical under >= 3 schedules, and every run completes without '
    'mismatch / foreign group / non-member root / deadlock',
]
TRUSTED = [
    'Coq 8.16.1 kernel (coqc); extraction with ExtrOcamlBasic only; ocaml/driver.ml; ocamlopt',
    'harness/simdist.py: fidelity of the simulated torch.distributed (per-group FIFO matching, async issue, blocking wait) '
    'to NCCL/gloo is assumed; real transport time-outs and CUDA streams are outside the model',
    'that every wait follows its issue (hypothesis Hwait) holds by construction of the future-returning API and is '
    'checked structurally by simdist (a future exists only after its issue)',
    'kfac_comm_proj covers the data collectives of hooks, step(), load_state_dict() and memory_usage(); the new_group calls of '
    'the constructor is covered per observed run by the verified checker proj_ok_b only; GPT-NeoX group creation by C12 '
    '(new_group_same_order); GPT-NeoX traffic by neox_comm_proj with the exact-log tie run in C11 (unbucketed) and by proj_ok_b on the logs of every C11 / C18 run',
    'inverse workers given to the model come from a public KAISAAssignment built with the same arguments (C06 / C17); '
    'dtype equality of matching collectives is checked by simdist (not modelled: inst.idtype = 0)',
]
THEOREMS = ['proj_ok_sound', 'members_issue_same_sequence', 'no_foreign_group', 'no_deadlock', 'every_execution_completes',
            'kfac_comm_proj', 'kfac_never_stalls', 'neox_comm_proj', 'neox_never_stalls', 'queries_silent_at_step_boundary', 'factorless_load_is_silent', 'own_factorless_state_is_noop', 'generator_dtypes', 'neox_generator_dtypes']
NOTES = ('kfac_comm_proj proves, for every KAISA grid, method, layer table, bucket capacity and history, that the K-FAC programs are '
         'projections of one global order (hence never stall, kfac_never_stalls); the tie checks that the generator IS what the code issues. '
         'Constructor new_group calls and GPT-NeoX communication are covered per observed run by proj_ok_b (proj_ok_sound).')

KINDS = {'all_reduce': 1, 'broadcast': 2, 'all_gather': 3, 'reduce_scatter': 4, 'all_gather_object': 5, 'barrier': 6, 'new_group': 7}


def encode_logs(w, W):
    """simdist log -> (members, per-rank instance lists) for proj_ok_b"""
    gids = {tuple(range(W)): 0}
    members = [list(range(W))]
    dts = {}
    logs = [[] for _ in range(W)]
    for (rank, kind, grp, numel, dtype, root, seq) in w.log:
        if kind == 'new_group':
            # a world collective whose metadata is the member list
            key = tuple(grp)
            if key not in gids:
                gids[key] = len(members); members.append(list(key))
            logs[rank].append([0, KINDS[kind], gids[key], 0, 0])
            continue
        if grp is None:
            continue
        key = tuple(grp)
        if key not in gids:
            gids[key] = len(members); members.append(list(key))
        d = dts.setdefault(dtype, len(dts))
        logs[rank].append([gids[key], KINDS.get(kind, 9), numel, d, 0 if root is None else root + 1])
    return members, logs


def check_proj(queue, correspondence, cov):
    """run the verified global-order checker on the (case, (members, logs)) pairs of other harnesses (GPT-NeoX runs)"""
    outs = common.run_model_sharded([('proj_ok', [members, [[list(x) for x in l] for l in logs]]) for _, (members, logs) in queue])
    fails = []
    for (case, (members, logs)), o in zip(queue, outs):
        if o == 0:
            fails.append(Failure(what='no global collective order exists for the observed per-rank logs (proj_ok_b = false)', case=case,
                                 model='proj_ok_b = true', impl='rejected', oracle_rejects=False, correspondence=correspondence,
                                 theorems=['proj_ok_sound', 'no_deadlock'], oracle='simdist found no stall under the explored schedule'))
    cov.extra['logs_accepted_by_proj_ok_b'] = len(queue) - len(fails)
    return fails


def run(tier, seed, rng):
    from harness import kfacrun, kfacgen, kfaccomm
    gen_checked = 0
    cov = Coverage('random configurations (world 1-8, every divisor as gradient-worker count, both methods, pre-division, '
                   'colocation, bucket capacities 0 / tiny / 25 MB, symmetric, hook / no-hook, accumulation 1-3, constant or '
                   'callable intervals) x random histories (train / eval iterations, state_dict and memory_usage on all ranks or '
                   'a subset, load_state_dict into a fresh object, factor-less load_state_dict into the live object on one rank / a subset / all ranks) x 3 schedules; non-trivial = 1 < k < W (some rank is not a '
                   'member of a group that carries traffic) and >= 2 steps; distinct by hash')
    failures: list[Failure] = []
    n = 120 if tier == 'quick' else 1200
    pols = ['random', 'ahead', 'behind', 'rr']
    margs, keep = [], []
    for k in range(n):
        cfg = kfacgen.gen_cfg(rng, tier)
        # dtype combinations: parameters, factors and second-order data may each be float32 or float64
        if rng.random() < 0.3:
            cfg['model_dtype'] = 'float64'
        if rng.random() < 0.25:
            cfg['inv_dtype'] = rng.choice(['float32', 'float64'])
        if rng.random() < 0.2:
            cfg['factor_dtype'] = rng.choice(['float32', 'float64'])
        if k % 6 == 4:
            cfg['factor_dtype'] = 'bfloat16'; cfg['model_dtype'] = 'float32'
        hist = kfacgen.gen_history(rng, tier, cfg)
        W = cfg['W']
        if k % 4 == 2 and W > 1:
            # a factor-less checkpoint restored into the live object after factors exist, on one rank, a random subset or all ranks:
            # "load_state_dict ... on a subset where no collective is implied"
            at = next(i for i, e in enumerate(hist) if e[0] == 'train') + 1
            who = [None, [rng.randrange(W)], sorted(rng.sample(range(W), rng.randint(1, W - 1)))][(k // 4) % 3]
            hist.insert(rng.randint(at, len(hist)), ['load_nofac', who])
            if hist[-1][0] != 'train':
                hist.append(['train', cfg['accumulation_steps']])
        case = {'cfg': cfg, 'history': hist}
        nontriv = 1 < cfg['k'] < W and sum(1 for e in hist if e[0] == 'train') >= 2
        cov.add(case, nontriv, sample_cap=2)
        cov.count('W', W); cov.count('strategy', 'COMM' if cfg['k'] == W else 'MEM' if cfg['k'] == 1 else 'HYBRID')
        cov.count('bucket_cap', cfg['allreduce_bucket_cap_mb']); cov.count('hook', cfg['update_factors_in_hook'])
        for e in hist:
            cov.count('event', e[0])
        seqs = []
        bad = None
        w0 = None
        for si, pol in enumerate(pols[:3]):
            w = kfacrun.run(cfg, hist, W, seed=seed + 7 * k + si, policy=pol)
            w0 = w0 or w
            if not w.ok:
                bad = (pol, seed + 7 * k + si, f'errors={w.errors[:2]} deadlock={w.deadlock} exceptions={dict(list(w.exceptions.items())[:2])}')
                break
            members, logs = encode_logs(w, W)
            seqs.append(([[tuple(x) for x in l] for l in logs], members))
        if bad:
            failures.append(Failure(what=f'schedule {bad[0]} (seed {bad[1]}): {bad[2]}'[:600], case=dict(case, policy=bad[0], seed=bad[1]),
                                    impl=bad[2][:600], oracle_rejects=True, correspondence=CORRESPONDENCES[0], theorems=THEOREMS,
                                    oracle='simdist: mismatch / foreign group / non-member root / deadlock / exception'))
            continue
        # (a) issue order is control flow, not timing.  Group ids may be numbered differently: compare by members.
        def canon(seq):
            logs, members = seq
            return [[(tuple(members[x[0]]), x[1], tuple(members[x[2]]) if x[1] == 7 else x[2], x[4]) for x in l] for l in logs]
        if any(canon(s) != canon(seqs[0]) for s in seqs[1:]):
            failures.append(Failure(what='the sequence of issued collectives depends on the schedule', case=case, impl='differs',
                                    oracle_rejects=True, correspondence=CORRESPONDENCES[0], theorems=THEOREMS,
                                    oracle='equal per-rank issue sequences under all schedules'))
            continue
        # (c) the observed data collectives are exactly what the proved generator issues
        diff, ncmp = kfaccomm.compare(cfg, hist, w0)
        gen_checked += ncmp
        if diff:
            failures.append(Failure(what='observed collectives differ from KfacComm.kfac_issues: ' + diff[:400], case=case, impl=diff[:600],
                                    model='KfacComm.kfac_issues', oracle_rejects=False, correspondence=CORRESPONDENCES[0],
                                    theorems=['kfac_comm_proj', 'kfac_never_stalls'],
                                    oracle='simdist found no stall under the explored schedules and proj_ok_b is evaluated separately'))
        logs, members = seqs[0]
        margs.append(('proj_ok', [members, [[list(x) for x in l] for l in logs]]))
        keep.append((case, sum(len(l) for l in logs)))
    outs = common.run_model_sharded(margs)
    tot = 0
    for (case, nl), o in zip(keep, outs):
        tot += nl
        if o == 0:
            failures.append(Failure(what='no global collective order exists for the observed per-rank logs (proj_ok_b = false)',
                                    case=case, model='proj_ok_b = true', impl='rejected', oracle_rejects=False,
                                    correspondence=CORRESPONDENCES[0], theorems=THEOREMS,
                                    oracle='simdist found no stall under the explored schedules'))
    # ---- the simulated transport against the real one (gloo, forked processes): same call logs, same gradients ----
    from harness import realdist
    nreal = nskip = 0
    # (skipped when the simulated runs have already established a violation: a stalling change would only make the real processes time out)
    for k in range(0 if failures else (6 if tier == 'quick' else 60)):
        cfg = kfacgen.gen_cfg(rng, tier, worlds=(2, 2, 3, 4), allow_callable=False)
        hist = [['train', cfg['accumulation_steps']] for _ in range(rng.randint(1, 3))]
        d = realdist.compare(cfg, hist, seed=seed + k)
        if d is None:
            nskip += 1
            continue
        nreal += 1
        cov.add({'kind': 'real-gloo', 'cfg': cfg, 'history': hist}, 1 < cfg['k'] < cfg['W'], sample_cap=1); cov.count('kind', 'real-gloo')
        if d:
            failures.append(Failure(what='simulated and real (gloo) transport disagree: ' + '; '.join(d[:2])[:400], case={'kind': 'real-gloo', 'cfg': cfg, 'history': hist, 'seed': seed + k},
                                    impl=d[:6], model='harness/simdist.py', oracle_rejects=False, correspondence=CORRESPONDENCES[1], theorems=[],
                                    oracle='torch.distributed with the gloo backend on forked processes'))
    cov.extra['real_gloo_runs_compared'] = nreal
    cov.extra['real_gloo_runs_skipped'] = nskip
    cov.extra['collectives_checked'] = tot
    cov.extra['collectives_compared_with_generator'] = gen_checked
    cov.extra['schedules_per_case'] = 3
    return cov, failures


def replay(path):
    from harness import kfacrun
    d = json.load(open(path))
    c = d['case']
    w = kfacrun.run(c['cfg'], c['history'], c['cfg']['W'], seed=c.get('seed', 0), policy=c.get('policy', 'random'))
    print('errors:', w.errors[:3], '\ndeadlock:', w.deadlock, '\nexceptions:', w.exceptions)
    return 0 if w.ok else 1
