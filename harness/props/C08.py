"""C08 — bucketed allreduce is equivalent to per-tensor allreduce."""
from __future__ import annotations

import json

from harness import common
from harness.common import Coverage, Failure

CORRESPONDENCES = [
    'TorchDistributedCommunicator.allreduce_bucketed/flush under simdist: every future == unbucketed allreduce of the same '
    'tensor in the same group (value, shape, dtype; bit-for-bit)',
    'fused all_reduce calls seen by simdist (group, element count, order) == instances emitted by the extracted Bucket.brun',
]
TRUSTED = [
    'Coq 8.16.1 kernel (coqc); extraction with ExtrOcamlBasic only; ocaml/driver.ml; ocamlopt',
    'harness/simdist.py (simulated torch.distributed, seeded schedules)',
    'flatten/unflatten (torch._utils) are modelled as concatenation/slicing; triangular packing by C14',
    'bucket_cap_bytes = int(cap_mb * 1e6) is read from the communicator, the float conversion is not modelled',
]
THEOREMS = ['each_tensor_once', 'flush_leaves_nothing', 'capacity_and_keys_respected', 'bucket_transparent', 'brun_cap_irrelevant']
NOTES = 'Model mirrors the repaired code (bucket key = member ranks, D4; new bucket on dtype change, D8).'

DT = {'float32': (4, 0), 'float64': (8, 1), 'float16': (2, 2)}


def gen_case(rng, tier):
    W = rng.choice([2, 3, 4, 5])
    ranks = list(range(W))
    groups = [ranks]                                # world (passed as None)
    if W >= 3:
        groups.append(ranks[:2]); groups.append(ranks[1:3])       # two distinct groups of equal size sharing rank 1
    if W >= 4:
        groups.append(ranks[2:4]); groups.append(ranks[:W // 2]); groups.append(ranks[W // 2:])
    groups.append([rng.randrange(W)])               # singleton
    uniq = []
    for g in groups:
        if g not in uniq:
            uniq.append(g)
    groups = uniq
    n = rng.randint(1, 14 if tier == 'quick' else 40)
    ops = []
    mixed = rng.random() < 0.25
    base_dt = rng.choice(['float32', 'float64'])
    sizes = []
    for t in range(n):
        gi = rng.randrange(len(groups)) if rng.random() < 0.6 else 0
        sym = rng.random() < 0.3
        if sym:
            k = rng.randint(1, 6)
            shape = [k, k]
        else:
            shape = rng.choice([[], [1], [3], [2, 3], [9, 9], [4, 1, 2], [5], [0], [0, 3]])   # incl. zero-element tensors: in a bucket but 0 bytes
        dt = rng.choice(['float32', 'float64', 'float16']) if mixed else base_dt
        ops.append(['add', gi, shape, dt, int(rng.random() < 0.5), int(sym), t])
        numel = 1
        for s in shape:
            numel *= s
        sizes.append((shape[0] * (shape[0] + 1) // 2 if sym else numel) * DT[dt][0])
        if rng.random() < 0.15:
            ops.append(['flush'])
    ops.append(['flush'])
    capsel = rng.choice(['zero', 'one-1', 'mid', 'huge', 'exact2'])
    ms = max(sizes)
    cap = {'zero': 1, 'one-1': max(1, ms - 1), 'mid': ms + sum(sizes) // max(2, len(sizes)), 'huge': 25_000_000,
           'exact2': sizes[0] + (sizes[1] if len(sizes) > 1 else 0)}[capsel]
    return {'W': W, 'groups': groups, 'ops': ops, 'cap_bytes': cap, 'capsel': capsel, 'mixed': mixed}


def run_case(c, seed, policy):
    import torch
    from harness import simdist
    from kfac.distributed import TorchDistributedCommunicator
    W, groups, ops = c['W'], c['groups'], c['ops']

    def tensor(rank, op):
        _, gi, shape, dt, avg, sym, tid = op
        numel = 1
        for s in shape:
            numel *= s
        t = (torch.arange(numel, dtype=torch.float64) + 1 + 100 * tid + 1000 * rank).reshape(shape)
        if sym:
            t = torch.triu(t) + torch.triu(t, 1).t()
        return t.to(getattr(torch, dt))

    def body(rank):
        handles = []
        for g in groups:
            handles.append(None if g == list(range(W)) else torch.distributed.new_group(g))
        comm = TorchDistributedCommunicator(bucket_cap_mb=c['cap_bytes'] / 1e6)
        capb = comm.bucket_cap_bytes
        futs = []
        for op in ops:
            if op[0] == 'flush':
                comm.flush_allreduce_buckets()
                continue
            _, gi, shape, dt, avg, sym, tid = op
            if rank not in groups[gi]:
                continue
            f = comm.allreduce_bucketed(tensor(rank, op).clone(), average=bool(avg), group=handles[gi], symmetric=bool(sym))
            futs.append((op, f))
        pend = {tuple(sorted(k)): (v is not None) for k, v in comm._allreduce_buckets.items()} if hasattr(comm, '_allreduce_buckets') else {}
        mark = len([e for e in simdist._WORLD.log if e[0] == rank])
        outs = []
        for op, f in futs:
            r = f.wait() if hasattr(f, 'wait') else f
            _, gi, shape, dt, avg, sym, tid = op
            u = comm.allreduce(tensor(rank, op).clone(), average=bool(avg), group=handles[gi], symmetric=bool(sym))
            u = u.wait() if hasattr(u, 'wait') else u
            same = (list(r.shape) == list(u.shape) and r.dtype == u.dtype and torch.equal(r, u))
            exact = None
            if not avg and dt != 'float16':      # float16 cannot hold the rank-revealing integers exactly
                want = sum(tensor(q, op).to(torch.float64) for q in groups[gi])
                exact = torch.equal(r.to(torch.float64), want.to(getattr(torch, dt)).to(torch.float64))
            outs.append((tid, same, exact, list(r.shape), str(r.dtype), list(u.shape), str(u.dtype)))
        return {'outs': outs, 'cap': capb, 'mark': mark, 'open_after_flush': any(pend.values())}

    w = simdist.run_world(W, body, seed=seed, policy=policy)
    return w


def model_ops(c, rank, cap):
    out = []
    for op in c['ops']:
        if op[0] == 'flush':
            out.append(['flush'])
            continue
        _, gi, shape, dt, avg, sym, tid = op
        if rank not in c['groups'][gi]:
            continue
        numel = 1
        for s in shape:
            numel *= s
        if sym:
            numel = shape[0] * (shape[0] + 1) // 2
        out.append(['add', len(c['groups'][gi]), gi, tid, numel, DT[dt][0], DT[dt][1]])
    # the extracted model counts bytes in unary naturals: a capacity above the total
    # of all tensors behaves like total + 1 (no bucket can ever overflow)
    total = sum(o[4] * o[5] for o in out if o[0] == 'add')
    return [min(cap, total + 1), out]


def run(tier, seed, rng):
    cov = Coverage('random sequences of 1-14 (40 thorough) tensors (scalars to 9x9, float16/32/64, position- and rank-revealing '
                   'contents), groups = world / halves / two distinct equal-size groups sharing a rank / singleton, capacities '
                   'below one tensor / between / above all, average and symmetric flags, several fill/flush cycles, seeded '
                   'schedules; non-trivial = a bucket with >= 2 tensors and an overflow (>= 2 fused instances on one group); distinct by hash')
    failures: list[Failure] = []
    n = 600 if tier == 'quick' else 6000
    pols = ['random', 'rr', 'ahead', 'behind']
    for k in range(n):
        c = gen_case(rng, tier)
        pol = pols[k % 4]
        w = run_case(c, seed + k, pol)
        case = dict(c, seed=seed + k, policy=pol)
        probs = []
        if not w.ok:
            probs.append(f'simdist: errors={w.errors[:2]} deadlock={w.deadlock} exceptions={dict(list(w.exceptions.items())[:2])}')
        cap = None
        for r, res in w.results.items():
            cap = res['cap']
            if res['open_after_flush']:
                probs.append(f'rank {r}: a bucket is still open after the final flush')
            for tid, same, exact, rs, rd, us, ud in res['outs']:
                if not same:
                    probs.append(f'rank {r} tensor {tid}: bucketed ({rs},{rd}) != unbucketed ({us},{ud}) or values differ')
                if exact is False:
                    probs.append(f'rank {r} tensor {tid}: value is not the exact sum over the group')
        # log accounting vs model
        mdiffs = []
        nontriv = False
        if w.ok and cap is not None:
            mo = common.run_model([('bucket_run', model_ops(c, r, cap)) for r in range(c['W'])])
            for r in range(c['W']):
                em, st = mo[r]
                mine = [e for e in w.log if e[0] == r and e[1] == 'all_reduce'][:len(em)] if True else []
                log_b = [e for e in w.log if e[0] == r and e[1] == 'all_reduce']
                log_b = log_b[:len(em)]
                got = [(sorted(e[2]), e[3]) for e in log_b]
                want = [(sorted(c['groups'][key]), sum(x[2] for x in offs)) for key, offs in em]
                if got != want:
                    mdiffs.append(f'rank {r}: fused allreduces {got[:4]} vs model {want[:4]}')
                per_key = {}
                for key, offs in em:
                    per_key[key] = per_key.get(key, 0) + 1
                    if len(offs) >= 2:
                        nontriv = nontriv or per_key[key] >= 2 or any(v >= 2 for v in per_key.values())
                # each tensor exactly once; bytes <= cap unless single (oracle on the log itself)
                tids = [x[0] for key, offs in em for x in offs]
                if len(tids) != len(set(tids)):
                    mdiffs.append(f'rank {r}: a tensor occurs in two fused instances')
        cov.add({k2: case[k2] for k2 in ('W', 'groups', 'ops', 'cap_bytes', 'seed', 'policy')}, nontriv, sample_cap=2)
        cov.count('W', c['W']); cov.count('cap', c['capsel']); cov.count('mixed_dtype', c['mixed']); cov.count('policy', pol)
        if probs:
            failures.append(Failure(what='; '.join(probs[:3])[:500], case=case, impl=probs[:8], oracle_rejects=True,
                                    correspondence=CORRESPONDENCES[0], theorems=THEOREMS,
                                    oracle='differential against the unbucketed path + exact integer sums + nothing pending'))
        elif mdiffs:
            failures.append(Failure(what='; '.join(mdiffs[:3])[:500], case=case, impl=mdiffs[:8], model='Bucket.brun',
                                    oracle_rejects=False, correspondence=CORRESPONDENCES[1], theorems=THEOREMS,
                                    oracle='values accepted'))
    return cov, failures


def replay(path):
    d = json.load(open(path))
    c = d['case']
    w = run_case(c, c.get('seed', 0), c.get('policy', 'random'))
    print('errors', w.errors, 'deadlock', w.deadlock, 'exceptions', w.exceptions)
    bad = not w.ok
    for r, res in w.results.items():
        for o in res['outs']:
            if not o[1] or o[2] is False:
                print('rank', r, o); bad = True
    print('fails' if bad else 'holds')
    return 1 if bad else 0
