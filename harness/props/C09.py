"""C09 — checkpoints round-trip and resuming is equivalent to never stopping."""
from __future__ import annotations

import json

import numpy as np

from harness import common
from harness.common import Coverage, Failure

CORRESPONDENCES = [
    'state_dict() -> deepcopy -> load_state_dict() into a freshly constructed preconditioner at EVERY step boundary, on every rank '
    '(simdist): restored steps / scalars / factors bit-identical; the continued run reproduces the uninterrupted gradients bit-for-bit '
    'whenever the reference machine (Kfac.krun with Fresh; Load) names the same factor versions and damping, and otherwise the gradients '
    'computed from the restored factors; errors exactly where the machine predicts them',
]
TRUSTED = [
    'Coq 8.16.1 kernel (coqc); extraction with ExtrOcamlBasic only; ocaml/driver.ml; ocamlopt; harness/simdist.py',
    'torch.save / torch.load serialisation is not exercised (state is passed in memory, deep-copied)',
    'bit-for-bit equality relies on the same kernels seeing the same bits in both runs (same process, one thread per rank)',
]
THEOREMS = ['save_is_read_only', 'save_load_restores', 'resume_equivalent_same_data', 'resume_equivalent_next_refresh', 'resume_recomputed', 'load_comm_guarded', 'load_comm_none_mem_opt', 'save_and_plain_load_are_silent', 'resume_equivalent_over_any_history', 'load_forgets_the_target']
NOTES = 'Model mirrors the code after fixes D2 (placement of the recomputation at load) and D9 (state saved before the first factor update).'


def gen(rng, tier, k=0):
    from harness import kfacgen
    cfg = kfacgen.gen_cfg(rng, tier, worlds=(1, 2, 2, 4), allow_callable=False)
    cfg['kl_clip'] = None
    cfg['factor_decay'] = rng.choice([0.5, 0.75])
    cfg['factor_update_steps'] = rng.choice([1, 2, 3])
    cfg['inv_update_steps'] = rng.choice([1, 2, 3, 4])
    if rng.random() < 0.4:
        cfg['damping'] = ['table', [0.25 + 0.125 * ((5 * s) % 7) for s in range(12)]]
    if k % 3 == 1:
        # mixed precision (autocast): the factors are bfloat16 while the weights are float32; a round trip must keep values AND dtype
        cfg['autocast'] = True; cfg['model_dtype'] = 'float32'; cfg.pop('factor_dtype', None)
    if k % 3 == 0:
        # every third configuration: a step-dependent damping that is baked into the second-order data and inverses reused across
        # steps, so that a checkpoint off the inverse interval distinguishes "damping of the restored step" from any other
        cfg['damping'] = ['table', [0.25 + 0.125 * ((5 * s) % 7) for s in range(12)]]
        cfg['inv_update_steps'] = rng.choice([2, 3])
        if rng.random() < 0.5:
            cfg['compute_method'] = 'inverse'
        else:
            cfg['compute_method'] = 'eigen'; cfg['compute_eigenvalue_outer_product'] = True; cfg['colocate_factors'] = True
    if k % 3 == 2:
        # nested containers: the registered names are '0', ..., 'i.0', 'i.1', ... - one name is a suffix of another; every layer must
        # get back ITS OWN factors (in half of these cases all layers have equal shapes, so a mix-up raises no error)
        if rng.random() < 0.5:
            cfg['model'] = [('linear', 3, 3, 1), ('tanh',), ('linear', 3, 3, 1), ('relu',), ('linear', 3, 3, 1)]; cfg['in_shape'] = [3]
            cfg['nest_from'] = 2
        else:
            reg = [i for i, s_ in enumerate(cfg['model']) if s_[0] in ('linear', 'conv')]
            if len(reg) >= 2:
                cfg['nest_from'] = reg[-1]
    nsteps = rng.randint(2, 4 if tier == 'quick' else 6)
    base = []
    for _ in range(nsteps):
        base += [['pass', 1]] * cfg['accumulation_steps'] + [['step']]
    return cfg, base, nsteps


def boundaries(base):
    """indices in `base` right after each step, plus 0 (before anything)"""
    return [0] + [i + 1 for i, e in enumerate(base) if e[0] == 'step']


def run(tier, seed, rng):
    import torch
    from harness import kfacmachine
    from harness.props.C05 import verify
    cov = Coverage('short runs (2-4 steps quick, up to 6 thorough) under simdist, worlds 1/2/4, COMM/HYBRID/MEM, both methods +- pre-division, '
                   'interval pairs incl. non-multiples, constant or callable damping; EVERY step boundary (incl. before the first update) as '
                   'checkpoint position, with/without factors, compute_inverses on/off; non-trivial = checkpoint at a boundary whose next '
                   'step is NOT an inverse-update step; distinct by hash')
    failures: list[Failure] = []
    n = 14 if tier == 'quick' else 120
    for k in range(n):
        cfg, base, nsteps = gen(rng, tier, k)
        W = cfg['W']
        resA, wA = kfacmachine.run_impl(cfg, base, W, seed=seed + k)
        if wA is not None and not wA.ok:
            failures.append(Failure(what=f'uninterrupted run failed: {wA.errors[:1]} {wA.deadlock} {wA.exceptions}'[:400], case={'cfg': cfg, 'history': base},
                                    oracle_rejects=True, correspondence=CORRESPONDENCES[0], theorems=THEOREMS, oracle='run completes'))
            continue
        moA = kfacmachine.run_model(cfg, base, [])
        # --- a state kept in memory (not copied) and loaded LATER must still be the state of its boundary ---
        bs_ = [b for b in boundaries(base) if 0 < b < len(base)]
        if bs_:
            b = rng.choice(bs_)
            cfgh = dict(cfg, hold_state=True)
            hist = base[:b] + [['save', 1]] + base[b:] + [['load', 0, 0]]
            case = {'cfg': cfgh, 'history': hist, 'boundary_after_steps': sum(1 for e in base[:b] if e[0] == 'step'), 'kind': 'held-state', 'seed': seed + k}
            resH, wH = kfacmachine.run_impl(cfgh, hist, W, seed=seed + k)
            cov.add(case, True, sample_cap=1); cov.count('held_state_rewind', 1)
            probs = []
            if wH is not None and (wH.errors or wH.deadlock):
                probs.append(f'simdist: {wH.errors[:2]} {wH.deadlock}')
            for r in range(W):
                rh, ra = resH.get(r), resA.get(r)
                if rh is None or ra is None or rh[-1]['error']:
                    probs.append(f'rank {r}: {None if rh is None else rh[-1]["error"]}')
                    continue
                ref, got = ra[b - 1], rh[-1]
                if got['steps'] != ref['steps']:
                    probs.append(f'rank {r}: steps after loading the held state = {got["steps"]}, saved at {ref["steps"]}')
                for li, ((a, g), (pa, pg)) in enumerate(zip(got['factors'], ref['factors'])):
                    if a is None or pa is None or not (torch.equal(a, pa) and torch.equal(g, pg)):
                        probs.append(f'rank {r} layer {li}: a state dict kept in memory was changed by later training (loaded factors differ from those of its boundary)')
            if probs:
                failures.append(Failure(what='; '.join(probs[:3])[:500], case=case, impl=probs[:6], model='Kfac: Save is read-only (save_is_read_only)',
                                        oracle_rejects=True, correspondence=CORRESPONDENCES[0], theorems=THEOREMS,
                                        oracle='loading a saved state restores the factors of the boundary it was saved at'))
        for b in boundaries(base):
            for incl, comp in ((1, 1), (1, 0), (0, 1)) if tier == 'thorough' or rng.random() < 0.5 else ((1, 1),):
                hist = base[:b] + [['save', incl], ['load', 0, comp]] + base[b:]
                case = {'cfg': cfg, 'history': hist, 'boundary_after_steps': sum(1 for e in base[:b] if e[0] == 'step'),
                        'include_factors': incl, 'compute_inverses': comp, 'seed': seed + k}
                moB = kfacmachine.run_model(cfg, hist, [])
                # continuing without second-order data at a step that does not refresh it is a documented user error
                # (the reference machine reports it): the history is cut before that step
                cut = next((i for i, m in enumerate(moB) if any(a[0] == 'err' for a in m['acts'])), None)
                if cut is not None:
                    hist = hist[:cut]
                    while hist and hist[-1][0] == 'pass':
                        hist.pop()
                    moB = moB[:len(hist)]
                    case['history'] = hist
                    cov.count('cut_before_predicted_error', 1)
                resB, wB = kfacmachine.run_impl(cfg, hist, W, seed=seed + k)
                st_at = case['boundary_after_steps']
                fus, ius = cfg['factor_update_steps'], cfg['inv_update_steps']
                cov.add(case, st_at % ius != 0 and incl == 1, sample_cap=2)
                cov.count('W', W); cov.count('boundary', st_at); cov.count('incl/comp', f'{incl}/{comp}')
                cov.count('strategy', 'COMM' if cfg['k'] == W else 'MEM' if cfg['k'] == 1 else 'HYBRID')
                probs = []
                if wB is not None and (wB.errors or wB.deadlock):
                    probs.append(f'simdist: {wB.errors[:2]} {wB.deadlock}')
                for r in range(W):
                    rb, ra = resB.get(r), resA.get(r)
                    if rb is None or ra is None:
                        probs.append(f'rank {r}: no result ({None if wB is None else wB.exceptions.get(r)})')
                        continue
                    # errors only where the machine predicts them
                    p5, _, _ = verify(cfg, hist, rb, moB, [], tolmul=(4000.0 if cfg.get('autocast') else 1.0))   # bfloat16 factors: eps = 2^-8
                    probs += [f'rank {r}: {x}' for x in p5[:2]]
                    if len(rb) <= b + 1 or rb[b + 1]['error']:
                        continue
                    after_load = rb[b + 1]
                    ref = ra[b - 1] if b > 0 else None
                    # (1) round trip
                    want_steps = st_at
                    if after_load['steps'] != want_steps:
                        probs.append(f'rank {r}: steps after load = {after_load["steps"]}, saved at {want_steps}')
                    if ref is not None:
                        if after_load['sd_scalars'] != ref['sd_scalars']:
                            probs.append(f'rank {r}: scalar state after load {after_load["sd_scalars"]} != saved {ref["sd_scalars"]}')
                        if incl:
                            for li, ((a, g), (pa, pg)) in enumerate(zip(after_load['factors'], ref['factors'])):
                                if not (torch.equal(a, pa) and torch.equal(g, pg)):
                                    probs.append(f'rank {r} layer {li}: factors after load differ from the saved ones')
                                elif a.dtype != pa.dtype or g.dtype != pg.dtype:
                                    probs.append(f'rank {r} layer {li}: factors restored as {a.dtype}/{g.dtype}, saved as {pa.dtype}/{pg.dtype}')
                    # (2) continuation
                    for j in range(b, len(base)):
                        if base[j][0] != 'step' or j + 2 >= len(hist):
                            continue
                        ea, eb = ra[j], rb[j + 2] if len(rb) > j + 2 else None
                        if eb is None or eb['error'] or ea['error']:
                            break
                        pa = [a for a in moA[j]['acts'] if a[0] == 'pre']
                        pb = [a for a in moB[j + 2]['acts'] if a[0] == 'pre']
                        if pa and pb:
                            from harness.kfacmachine import expected_params, damping_at_step
                            method, prediv = cfg['compute_method'], cfg['compute_eigenvalue_outer_product']
                            dep = (method == 'inverse' or prediv)
                            da = damping_at_step(cfg, expected_params(cfg, base), 0, pa[0][3]) if dep else 0
                            db = damping_at_step(cfg, expected_params(cfg, base), 0, pb[0][3]) if dep else 0
                            same = pa[0][1] == pb[0][1] and pa[0][2] == pb[0][2] and da == db
                            if same:
                                for li, (x, y) in enumerate(zip(ea['after'], eb['after'])):
                                    if not np.array_equal(x, y):
                                        probs.append(f'rank {r}: step {moA[j]["steps"] - 1} layer {li}: resumed gradients differ from the uninterrupted '
                                                     f'run although the second-order data is computed from the same factors and damping')
                if probs:
                    failures.append(Failure(what=probs[0][:500], case=case, model='Kfac.krun (Fresh; Load)', impl=probs[:6], oracle_rejects=True,
                                            correspondence=CORRESPONDENCES[0], theorems=THEOREMS,
                                            oracle='bit-for-bit round trip and continuation against the uninterrupted run'))
    # a state with a different number of layers is rejected
    from kfac.preconditioner import KFACPreconditioner
    m1 = torch.nn.Sequential(torch.nn.Linear(2, 2), torch.nn.Linear(2, 2)); m2 = torch.nn.Linear(2, 2)
    p1 = KFACPreconditioner(m1); p2 = KFACPreconditioner(m2)
    try:
        p2.load_state_dict(p1.state_dict())
        failures.append(Failure(what='a state with a different number of layers was accepted', case={'kind': 'layer_count'}, oracle_rejects=True,
                                correspondence=CORRESPONDENCES[0], theorems=[], oracle='ValueError'))
    except ValueError:
        pass
    m3 = torch.nn.Sequential(torch.nn.Linear(2, 2), torch.nn.ReLU(), torch.nn.Linear(2, 2), torch.nn.ReLU(), torch.nn.Linear(2, 2))
    m4 = torch.nn.Sequential(torch.nn.Linear(2, 2), torch.nn.ReLU(), torch.nn.Linear(2, 2))
    p3 = KFACPreconditioner(m3); p4 = KFACPreconditioner(m4)
    for src, dst, what in ((p3, p4, 'more layers than the target (names a superset)'), (p4, p3, 'fewer layers than the target')):
        try:
            dst.load_state_dict(src.state_dict())
            failures.append(Failure(what=f'a state with {what} was accepted', case={'kind': 'layer_count', 'what': what}, oracle_rejects=True,
                                    correspondence=CORRESPONDENCES[0], theorems=[], oracle='ValueError'))
        except ValueError:
            pass
    cov.add({'kind': 'layer_count'}, True)
    return cov, failures


def replay(path):
    from harness import kfacmachine
    d = json.load(open(path))
    c = d['case']
    if c.get('kind') == 'layer_count':
        return 1
    res, w = kfacmachine.run_impl(c['cfg'], c['history'], c['cfg']['W'], seed=c.get('seed', 0))
    for r, obs in res.items():
        print('rank', r, [o['error'] for o in obs if o['error']])
    print(d['what'])
    return 1
