"""C15 — layer helpers keep factors, gradients and weights in one consistent layout."""
from __future__ import annotations

import json

import numpy as np

from harness import common
from harness.common import Coverage, Failure

CORRESPONDENCES = [
    'Conv2dModuleHelper._extract_patches == extracted extract_patches (exact, integer tensors) and conv_fwd spec == F.conv2d',
    'ModuleHelper.get_grad() after a real autograd backward == extracted grad_matrix / lin_grad_matrix (sum of outer products of '
    'output-gradient rows and [patch | 1] rows); set_grad(get_grad()) and get_grad(set_grad(M)) are identities; factor shapes == advertised shapes',
]
TRUSTED = [
    'Coq 8.16.1 kernel (coqc); real-number axioms for the adjoint identities; index theorems are closed',
    'extraction with ExtrOcamlBasic only; ocaml/driver.ml (IEEE doubles; all tensors are small integers so arithmetic is exact); ocamlopt',
    'F.conv2d / autograd correctness is torch\'s; the model\'s conv_fwd is validated against F.conv2d on the same integer inputs',
]
THEOREMS = ['patches_are_windows', 'pad_spec', 'conv_is_patch_matmul', 'adjoint_identity', 'linear_adjoint_identity', 'set_get_id']
NOTES = 'dilation 1, groups 1, zero padding only (as the helper supports).'


def fl(t):
    return [[float(v).hex() for v in row] for row in t]


def nest(t):
    """torch tensor -> nested lists of hex floats"""
    if t.dim() == 1:
        return [float(v).hex() for v in t.tolist()]
    return [nest(x) for x in t]


def unhex(x):
    if isinstance(x, str):
        return float.fromhex(x)
    return [unhex(v) for v in x]


def gen_geom(rng):
    C, O = rng.randint(1, 3), rng.randint(1, 3)
    kh, kw = rng.randint(1, 3), rng.randint(1, 3)
    sh, sw = rng.randint(1, 3), rng.randint(1, 3)
    ph, pw = rng.randint(0, 2), rng.randint(0, 2)
    H = rng.randint(max(1, kh - 2 * ph), 7); W = rng.randint(max(1, kw - 2 * pw), 7)
    H = max(H, kh - 2 * ph, 1); W = max(W, kw - 2 * pw, 1)
    B = rng.randint(1, 2)
    return [B, C, H, W, O, kh, kw, sh, sw, ph, pw]


def run(tier, seed, rng):
    import torch
    import torch.nn.functional as F
    from kfac.layers.modules import Conv2dModuleHelper, LinearModuleHelper
    cov = Coverage('random conv geometries (C, O <= 3, kernels <= 3x3 rectangular, strides <= 3, paddings <= 2 asymmetric, H, W <= 7 incl. '
                   'sizes not divisible by the stride, B <= 2, bias on/off) and linear layers with inputs of rank 2-4, integer tensors; '
                   'non-trivial = rectangular kernel or asymmetric padding/stride or C, O >= 2; distinct by hash')
    failures: list[Failure] = []
    n = 400 if tier == 'quick' else 6000
    convs = []
    for _ in range(n):
        g = gen_geom(rng)
        convs.append((g, rng.random() < 0.5, rng.randrange(1 << 30)))
    margs = []
    impl = []
    for g, hb, sd in convs:
        B, C, H, W, O, kh, kw, sh, sw, ph, pw = g
        gen = torch.Generator().manual_seed(sd)
        x = torch.randint(-3, 4, (B, C, H, W), generator=gen).double()
        if sd % 3 == 1:
            x = x.contiguous(memory_format=torch.channels_last)
        elif sd % 3 == 2:
            x = x.permute(0, 2, 3, 1).contiguous().permute(0, 3, 1, 2)      # values unchanged, stored NHWC, handed over as a view
        m = torch.nn.Conv2d(C, O, (kh, kw), stride=(sh, sw), padding=(ph, pw), bias=hb).double()
        with torch.no_grad():
            m.weight.copy_(torch.randint(-3, 4, m.weight.shape, generator=gen).double())
            if hb:
                m.bias.copy_(torch.randint(-3, 4, m.bias.shape, generator=gen).double())
        helper = Conv2dModuleHelper(m)
        try:
            if sd % 2 == 0:
                # the helper is stateless: an earlier call on a LARGER input of the same batch size (multi-resolution
                # training) must not influence what it returns for x
                xbig = torch.randint(-3, 4, (B, C, H + 2, W + 1), generator=gen).double()
                helper._extract_patches(xbig.clone()); helper.get_a_factor(xbig.clone())
            patches = helper._extract_patches(x.clone())
            got = {}
            m.register_full_backward_hook(lambda mod, gi, go, got=got: got.__setitem__('go', go[0].detach().clone()))
            xin = x.clone().requires_grad_(True)
            out = m(xin)
            wts = torch.randint(-3, 4, out.shape, generator=gen).double()
            (out * wts).sum().backward()
            gm = helper.get_grad().detach().clone()
            x_in, go_in = x.clone(), got['go'].clone()
            a_f = helper.get_a_factor(x_in); g_f = helper.get_g_factor(go_in)
            if not (torch.equal(x_in, x) and torch.equal(go_in, got['go'])):
                failures.append(Failure(what='conv get_a_factor / get_g_factor modified the tensor it was given (activations / output gradients are still needed by autograd)',
                                        case={'kind': 'conv', 'geom': g, 'bias': hb, 'seed': sd}, oracle_rejects=True, correspondence=CORRESPONDENCES[0], theorems=THEOREMS,
                                        oracle='factor helpers are read-only on their arguments'))
            # position revealing set/get round trip
            # (thirds: not representable in any narrower float type - the round trip must not pass through one)
            M = (torch.arange(gm.numel(), dtype=torch.float64).reshape(gm.shape) + 1) / 3
            helper.set_grad(M.clone())
            back = helper.get_grad().detach().clone()
            if gm.dtype != m.weight.dtype or back.dtype != m.weight.dtype or m.weight.grad.dtype != m.weight.dtype:
                failures.append(Failure(what=f'conv get_grad() has dtype {gm.dtype} / {back.dtype}, the parameters {m.weight.dtype}', case={'kind': 'conv', 'geom': g, 'bias': hb, 'seed': sd},
                                        oracle_rejects=True, correspondence=CORRESPONDENCES[0], theorems=THEOREMS, oracle='the combined gradient has the dtype of the parameters'))
        except Exception as e:  # noqa: BLE001
            failures.append(Failure(what=f'helper raised {type(e).__name__}: {e}'[:300], case={'kind': 'conv', 'geom': g, 'bias': hb, 'seed': sd},
                                    oracle_rejects=True, correspondence=CORRESPONDENCES[0], theorems=THEOREMS,
                                    oracle='a valid geometry must be accepted'))
            impl.append(None)
            continue
        wflat = m.weight.grad.reshape(O, -1).clone()
        bflat = m.bias.grad.clone() if hb else None
        # oracle: outer-product sum from F.unfold patches (pure torch)
        un = F.unfold(x, (kh, kw), padding=(ph, pw), stride=(sh, sw))           # (B, C*kh*kw, L)
        gof = got['go'].reshape(B, O, -1)
        ora = torch.einsum('bol,bfl->of', gof, un)
        if hb:
            ora = torch.cat([ora, gof.sum(dim=(0, 2)).reshape(-1, 1)], 1)
        impl.append({'patches': patches, 'go': got['go'], 'gm': gm, 'ashape': tuple(a_f.shape), 'gshape': tuple(g_f.shape),
                     'adv_a': tuple(helper.a_factor_shape), 'adv_g': tuple(helper.g_factor_shape), 'M': M, 'back': back,
                     'wflat': wflat, 'bflat': bflat, 'oracle': ora, 'out': out.detach(), 'unfold': un, 'x': x,
                     'w': m.weight.detach(), 'b': m.bias.detach() if hb else torch.zeros(O, dtype=torch.float64)})
        margs.append(('extract_patches', [g, nest(x)]))
        margs.append(('conv_grad_matrix', [g, int(hb), nest(got['go']), nest(x)]))
        margs.append(('conv_fwd', [g, nest(m.weight.detach()), nest(impl[-1]['b']), nest(x)]))
    outs = common.run_model_sharded(margs)
    k = -1
    for (g, hb, sd), im in zip(convs, impl):
        if im is None:
            continue
        k += 1
        B, C, H, W, O, kh, kw, sh, sw, ph, pw = g
        try:
            mp = torch.tensor(unhex(outs[3 * k]), dtype=torch.float64).reshape(im['patches'].shape) if im['patches'].numel() else im['patches']
        except RuntimeError:
            mp = torch.zeros(0)
        mg = torch.tensor(unhex(outs[3 * k + 1]), dtype=torch.float64).reshape(im['gm'].shape)
        mo = torch.tensor(unhex(outs[3 * k + 2]), dtype=torch.float64).reshape(im['out'].shape)
        case = {'kind': 'conv', 'geom': g, 'bias': hb, 'seed': sd}
        cov.add(case, kh != kw or ph != pw or sh != sw or (C >= 2 and O >= 2), sample_cap=2)
        cov.count('kernel', f'{kh}x{kw}'); cov.count('padding', f'{ph},{pw}'); cov.count('stride', f'{sh},{sw}'); cov.count('bias', hb)
        probs, diffs = [], []
        F_ = C * kh * kw
        if not torch.equal(im['gm'], im['oracle']):
            probs.append('get_grad() != sum of outer products of output-gradient rows and [F.unfold patch | 1] rows')
        if im['ashape'] != im['adv_a'] or im['gshape'] != im['adv_g'] or im['adv_a'] != (F_ + hb, F_ + hb) or im['adv_g'] != (O, O):
            probs.append(f'factor shapes {im["ashape"]}, {im["gshape"]} vs advertised {im["adv_a"]}, {im["adv_g"]}')
        if not torch.equal(im['back'], im['M']):
            probs.append('get_grad(set_grad(M)) != M')
        if not torch.equal(im['wflat'], im['M'][:, :F_]) or (hb and not torch.equal(im['bflat'], im['M'][:, F_])):
            probs.append('set_grad wrote weight / bias columns to the wrong place')
        pu = im['patches'].reshape(B, -1, F_).permute(0, 2, 1) if im['patches'].numel() else im['unfold']
        if not torch.equal(pu, im['unfold']):
            probs.append('_extract_patches disagrees with F.unfold')
        if not torch.equal(mp, im['patches']):
            diffs.append('_extract_patches != model extract_patches')
        if not torch.equal(mg, im['gm']):
            diffs.append('get_grad() != model grad_matrix')
        if not torch.equal(mo, im['out']):
            diffs.append('model conv_fwd != F.conv2d (specification mismatch)')
        if probs or diffs:
            failures.append(Failure(what='; '.join(probs + diffs)[:400], case=case, model=None, impl=None, oracle_rejects=bool(probs),
                                    correspondence=CORRESPONDENCES[0 if any('patch' in d for d in probs + diffs) else 1], theorems=THEOREMS,
                                    oracle='autograd-independent outer-product sum from F.unfold patches; round trips; shapes'))
    # ---- linear layers, inputs of rank 2-4 ----
    lins, largs, limpl = [], [], []
    for _ in range(n // 2):
        nin, nout = rng.randint(1, 5), rng.randint(1, 5)
        lead = [rng.randint(1, 3) for _ in range(rng.randint(1, 3))]
        hb = rng.random() < 0.5
        sd = rng.randrange(1 << 30)
        gen = torch.Generator().manual_seed(sd)
        m = torch.nn.Linear(nin, nout, bias=hb).double()
        with torch.no_grad():
            m.weight.copy_(torch.randint(-3, 4, m.weight.shape, generator=gen).double())
        helper = LinearModuleHelper(m)
        x = torch.randint(-3, 4, lead + [nin], generator=gen).double()
        got = {}
        m.register_full_backward_hook(lambda mod, gi, go, got=got: got.__setitem__('go', go[0].detach().clone()))
        out = m(x.clone().requires_grad_(True))
        (out * torch.randint(-3, 4, out.shape, generator=gen).double()).sum().backward()
        gm = helper.get_grad().detach().clone()
        # set/get round trip with values no narrower float type represents, and the dtype of the combined gradient
        Ml = (torch.arange(gm.numel(), dtype=torch.float64).reshape(gm.shape) + 1) / 3
        wsave, bsave = m.weight.grad.clone(), (m.bias.grad.clone() if hb else None)
        helper.set_grad(Ml.clone())
        backl = helper.get_grad().detach().clone()
        m.weight.grad = wsave
        if hb:
            m.bias.grad = bsave
        if gm.dtype != m.weight.dtype or backl.dtype != m.weight.dtype or not torch.equal(backl, Ml):
            failures.append(Failure(what=f'linear set_grad/get_grad round trip is not exact or changes dtype ({gm.dtype}, {backl.dtype}; max diff {float((backl.double() - Ml).abs().max()):.2e})',
                                    case={'kind': 'linear', 'nin': nin, 'nout': nout, 'lead': lead, 'bias': hb, 'seed': sd}, oracle_rejects=True,
                                    correspondence=CORRESPONDENCES[1], theorems=THEOREMS, oracle='set_grad(M); get_grad() == M, in the dtype of the parameters'))
        rows = x.numel() // nin
        a2, g2 = x.reshape(rows, nin), got['go'].reshape(rows, nout)
        ora = g2.t() @ (torch.cat([a2, torch.ones(rows, 1, dtype=torch.float64)], 1) if hb else a2)
        x_in, go_in = x.clone(), got['go'].clone()
        a_f = helper.get_a_factor(x_in); g_f = helper.get_g_factor(go_in)
        if not (torch.equal(x_in, x) and torch.equal(go_in, got['go'])):
            failures.append(Failure(what='linear get_a_factor / get_g_factor modified the tensor it was given', case={'kind': 'linear', 'nin': nin, 'nout': nout, 'lead': lead, 'bias': hb, 'seed': sd},
                                    oracle_rejects=True, correspondence=CORRESPONDENCES[1], theorems=THEOREMS, oracle='factor helpers are read-only on their arguments'))
        lins.append((nin, nout, lead, hb, sd)); limpl.append((gm, ora, tuple(a_f.shape), tuple(g_f.shape), tuple(helper.a_factor_shape), tuple(helper.g_factor_shape)))
        largs.append(('lin_grad_matrix', [rows, nin, nout, int(hb), nest(g2), nest(a2)]))
    louts = common.run_model_sharded(largs)
    for (nin, nout, lead, hb, sd), (gm, ora, ash, gsh, adva, advg), mo in zip(lins, limpl, louts):
        case = {'kind': 'linear', 'nin': nin, 'nout': nout, 'lead': lead, 'bias': hb, 'seed': sd}
        cov.add(case, len(lead) >= 2, sample_cap=2)
        cov.count('linear_input_rank', len(lead) + 1)
        mg = torch.tensor(unhex(mo), dtype=torch.float64).reshape(gm.shape)
        probs = []
        if not torch.equal(gm, ora):
            probs.append('linear get_grad() != sum of outer products')
        if ash != adva or gsh != advg or adva != (nin + hb, nin + hb) or advg != (nout, nout):
            probs.append(f'linear factor shapes {ash}, {gsh} vs advertised {adva}, {advg}')
        if probs or not torch.equal(mg, gm):
            failures.append(Failure(what='; '.join(probs or ['linear get_grad() != model lin_grad_matrix']), case=case, oracle_rejects=bool(probs),
                                    correspondence=CORRESPONDENCES[1], theorems=THEOREMS, oracle='outer-product sum; shapes'))
    return cov, failures


def replay(path):
    d = json.load(open(path))
    print('case:', d['case'], '\n', d['what'])
    return 1
