"""C18 — GPT-NeoX checkpoints gather and restore every layer factor."""
from __future__ import annotations

import json
import os
import shutil
import tempfile

from harness import common
from harness.common import Coverage, Failure

CORRESPONDENCES = [
    'GPTNeoXKFACPreconditioner.state_dict / load_state_dict (in-memory and directory mode) under simdist + DeepSpeed stand-in: the state '
    'returned on every rank == extracted NeoxCkpt.gathered of the factors held by the layers (inverse worker\'s copy), files == one per '
    'layer, after load into fresh objects exactly the ranks NeoxCkpt.load / recomputes name hold the factors / second-order data, all '
    'ranks issue the same collectives, and the continued run equals the uninterrupted one where the model predicts it',
]
TRUSTED = [
    'Coq 8.16.1 kernel (coqc); extraction with ExtrOcamlBasic only; ocaml/driver.ml; ocamlopt; harness/simdist.py',
    'DeepSpeed / Megatron stand-ins (harness/stubs, harness/neoxrun.py); all_gather_object pickling is simulated by object passing',
    'inverse / factor workers are obtained by constructing a public GPTNeoXAssignment with the same arguments (its correctness is C12)',
    'factors held by a rank are read through the public KFACBaseLayer.state_dict() of the layer objects found by a reflective walk',
]
THEOREMS = ['gathered_state_complete', 'gathered_state_sound', 'dir_one_file_per_layer', 'load_restores_on_factor_workers', 'recompute_on_factor_workers', 'neox_resume_restores_m1', 'neox_rollback_restores_m1', 'dir_save_complete_when_returned']
NOTES = ('Resume equivalence is claimed for model-parallel degree 1; for M > 1 the replicated factor is not restored on ranks that are not '
         'factor workers (known finding D7, Example neox_resume_refuted).')


def gen(rng, tier, k=None):
    D, M = rng.choice([(1, 1), (2, 1), (4, 1), (1, 2), (2, 2), (2, 1), (4, 2) if tier == 'thorough' else (2, 2)])
    many = (k % 6 == 2) if k is not None else rng.random() < 0.15
    layers = []
    for _ in range(rng.randint(11, 13) if many else rng.randint(1, 3)):      # > 10 layers: names '10', '11' end with '0', '1'
        kind = rng.choice(['col', 'row'])
        nin = M * rng.randint(1, 2) if kind == 'row' else rng.randint(1, 3)
        nout = M * rng.randint(1, 2) if kind == 'col' else rng.randint(1, 3)
        layers.append((kind, nin, nout, int(rng.random() < 0.6)))
    cfg = {'P': 1, 'D': D, 'M': M, 'layers': layers, 'batch': 2, 'model_seed': rng.randrange(100), 'data_seed': rng.randrange(10 ** 6),
           'damping': 0.5, 'factor_decay': rng.choice([0.5, 0.75]), 'lr': 1.0, 'kl_clip': None, 'allreduce_bucket_cap_mb': rng.choice([0.0, 25.0]),
           'factor_update_steps': 1, 'inv_update_steps': 1, 'accumulation_steps': 1}
    pre = rng.randint(1, 3)
    post = rng.randint(1, 2)
    comp = int(rng.random() < 0.7)
    dirmode = rng.random() < 0.4 and not (many and k is not None and k % 12 == 2)
    hist = [['train', 1]] * pre + [['save'], ['load', 0, comp]] + [['train', 1]] * post
    if rng.random() < 0.35:
        hist = [['sd_nofactors', [0]]] + hist          # a query without factors on rank 0 only, before anything else
    base = [['train', 1]] * (pre + post)
    return cfg, hist, base, pre, comp, dirmode


MARKS: dict = {}


def observe(rank, ev, e, model, pc):
    from harness.props.C13 import objects_of
    from kfac.layers.base import KFACBaseLayer
    from harness import simdist
    out = []
    own = [x for x in simdist._WORLD.log if x[0] == rank]
    MARKS.setdefault(id(simdist._WORLD), {}).setdefault(rank, []).append(len(own))
    for L in objects_of(pc, KFACBaseLayer):
        sd = L.state_dict()
        out.append({'A': None if sd['A'] is None else sd['A'].detach().clone(), 'G': None if sd['G'] is None else sd['G'].detach().clone(),
                    'sod': getattr(L, 'qa', None) is not None})
    return out


def roles(cfg, names, dims):
    """inverse worker and factor worker of every layer for every rank, from a public GPTNeoXAssignment"""
    from deepspeed.runtime.pipe.topology import PipeModelDataParallelTopology
    import kfac.gpt_neox.assignment as ga
    P, D, M = cfg['P'], cfg['D'], cfg['M']
    topo = PipeModelDataParallelTopology(num_pp=P, num_mp=M, num_dp=D)
    work = {n: {'A': d[0] ** 3, 'G': d[1] ** 3} for n, d in zip(names, dims)}
    saved = ga.dist.new_group
    ga.dist.new_group = lambda ranks=None, **k: ('new', tuple(ranks or ()))
    try:
        out = []
        for r in range(P * D * M):
            a = ga.GPTNeoXAssignment(work, local_rank=r, topology=topo, data_parallel_group='DP', model_parallel_group='MP')
            out.append({n: (a.inv_worker(n, 'A'), a.factor_worker(n, 'A')) for n in names})
        return out
    finally:
        ga.dist.new_group = saved


def rollback_case(rng, tier, seed, k):
    """Loading an earlier state into an ALREADY USED preconditioner (roll-back) must restore the factors and recompute the second-order
    data exactly as loading it into a fresh one does: the continued gradients of the two runs must be bit-identical.  Model-parallel
    degree 1 (for M > 1 the fresh object lacks the replicated factors: D7)."""
    import torch
    from harness import neoxrun
    dirmode = (k // 5) % 2 == 1            # every second roll-back case uses a checkpoint directory, with several data-parallel ranks
    D = rng.choice([2, 4]) if dirmode else rng.choice([1, 2, 4])
    layers = []
    for _ in range(rng.randint(1, 3)):
        kind = rng.choice(['col', 'row'])
        layers.append((kind, rng.randint(1, 3), rng.randint(1, 3), int(rng.random() < 0.6)))
    ius = rng.choice([2, 3])
    cfg = {'P': 1, 'D': D, 'M': 1, 'layers': layers, 'batch': 2, 'model_seed': rng.randrange(100), 'data_seed': rng.randrange(10 ** 6),
           'damping': 0.5, 'factor_decay': rng.choice([0.5, 0.75]), 'lr': 1.0, 'kl_clip': None, 'allreduce_bucket_cap_mb': rng.choice([0.0, 25.0]),
           'factor_update_steps': 1, 'inv_update_steps': ius, 'accumulation_steps': 1}
    pre = rng.choice([s for s in range(1, 2 * ius) if s % ius != 0])
    extra, post = rng.randint(1, 3), rng.randint(1, 2)
    tmp = None
    if dirmode:
        tmp = tempfile.mkdtemp(prefix='kv_c18_')
        cfg['factor_checkpoint_dir'] = os.path.join(tmp, 'factors')
    nocopy = int(not dirmode and rng.random() < 0.6)
    hist_a = [['train', 1]] * pre + [['save']] + [['train', 1]] * extra + [['load_same', 0, 1, nocopy]] + [['train', 1]] * post + [['ckpt_check', 0]]
    hist_b = [['train', 1]] * pre + [['save'], ['load', 0, 1]] + [['train', 1]] * post
    case = {'cfg': dict(cfg), 'history': hist_a, 'seed': seed + k, 'dir_mode': dirmode, 'kind': 'rollback', 'fresh_history': hist_b}
    probs = []
    try:
        wa = neoxrun.run(cfg, hist_a, seed=seed + k)
        wb = neoxrun.run(cfg, hist_b, seed=seed + k)
        if not (wa.ok and wb.ok):
            probs.append(f'run failed: {wa.errors[:1]} {wa.deadlock} {dict(list(wa.exceptions.items())[:2])} {dict(list(wb.exceptions.items())[:2])}'[:400])
        else:
            for r in range(D):
                if not wa.results[r][-1]['unchanged']:
                    probs.append(f'rank {r}: the state object passed to load_state_dict was changed by the training that followed '
                                 f'(it no longer holds the factors of the step it was saved at)')
            if dirmode and D > 1:
                # a second save into the same directory, then a load AT ONCE on a rank that runs ahead: once state_dict() has returned on a
                # rank every layer file of THIS save exists (file I/O is a scheduling point of the simulated world), so every layer comes back
                hist_c = [['train', 1]] * pre + [['save']] + [['train', 1]] * extra + [['save'], ['load_same', 1, 1]]
                for pol in ('ahead', 'random'):
                    MARKS.clear()
                    wc = neoxrun.run(cfg, hist_c, seed=seed + k, policy=pol, observe=observe)
                    MARKS.clear()
                    if not wc.ok:
                        probs.append(f'run failed (save, save, load at once; schedule {pol}): {wc.errors[:1]} {wc.deadlock} {dict(list(wc.exceptions.items())[:1])}'[:300])
                        continue
                    for r in range(D):
                        sv, af = wc.results[r][-2]['extra'], wc.results[r][-1]['extra']
                        for li, (s_, a_) in enumerate(zip(sv, af)):
                            if a_['A'] is None or not (torch.equal(s_['A'], a_['A']) and torch.equal(s_['G'], a_['G'])):
                                probs.append(f'rank {r} layer {li} (schedule {pol}): a load right after state_dict() returned did not restore the factors just saved '
                                             f'(the layer file of this save did not exist yet?)')
            if not dirmode:
                hist_d = ([['train', 1]] * pre + [['save'], ['train', 1], ['save'], ['load_same', 0, 1], ['train', 1, 7], ['save']])
                MARKS.clear()
                wd = neoxrun.run(cfg, hist_d, seed=seed + k, observe=observe)
                MARKS.clear()
                if not wd.ok:
                    probs.append(f'run failed (save, roll back, retrain, save): {wd.errors[:1]} {wd.deadlock} {dict(list(wd.exceptions.items())[:1])}'[:300])
                else:
                    for r in range(D):
                        sd_, held_ = wd.results[r][-1]['sd'], wd.results[r][-1]['extra']
                        for i in range(len(cfg['layers'])):
                            s_ = sd_['layers'].get(str(i))
                            if s_ is None or not (torch.equal(s_['A'], held_[i]['A'].cpu()) and torch.equal(s_['G'], held_[i]['G'].cpu())):
                                probs.append(f'rank {r} layer {i}: a state saved after rolling back and retraining on other data does not hold the factors held now '
                                             f'(the step count had been reached before with other factors)')
            for j in range(post):
                for r in range(D):
                    ga = wa.results[r][pre + 1 + extra + 1 + j]['after']; gb = wb.results[r][pre + 2 + j]['after']
                    if not all(torch.equal(x[0], y[0]) and (x[1] is None or torch.equal(x[1], y[1])) for x, y in zip(ga, gb)):
                        probs.append(f'continued step {j} rank {r}: gradients after loading into the used preconditioner differ from those after '
                                     f'loading the same state into a fresh one (second-order data not recomputed from the restored factors?)')
    finally:
        if tmp:
            shutil.rmtree(tmp, ignore_errors=True)
    return case, probs


def pipe_case(rng, tier, seed, k):
    """Two pipeline stages with globally indexed layer names (as DeepSpeed names them): the state saved on ANY rank contains the
    factors of the layers of BOTH stages, exactly as held on the owning stage."""
    import torch
    from harness import neoxrun
    D = rng.choice([1, 2])
    layers = []
    for _ in range(rng.randint(1, 2)):
        kind = rng.choice(['col', 'row'])
        layers.append((kind, rng.randint(1, 3), rng.randint(1, 3), int(rng.random() < 0.6)))
    cfg = {'P': 2, 'D': D, 'M': 1, 'layers': layers, 'batch': 2, 'model_seed': rng.randrange(100), 'data_seed': rng.randrange(10 ** 6),
           'damping': 0.5, 'factor_decay': 0.5, 'lr': 1.0, 'kl_clip': None, 'allreduce_bucket_cap_mb': rng.choice([0.0, 25.0]),
           'factor_update_steps': 1, 'inv_update_steps': 1, 'accumulation_steps': 1, 'global_layer_names': True}
    hist = [['train', 1]] * rng.randint(1, 2) + [['save']]
    case = {'cfg': dict(cfg), 'history': hist, 'seed': seed + k, 'dir_mode': False, 'kind': 'pipeline'}
    probs = []
    MARKS.clear()
    w = neoxrun.run(cfg, hist, seed=seed + k, observe=observe)
    MARKS.clear()
    W, nl = 2 * D, len(layers)
    if not w.ok:
        probs.append(f'run failed: {w.errors[:1]} {w.deadlock} {dict(list(w.exceptions.items())[:2])}'[:400])
    else:
        held = {r: w.results[r][-1]['extra'] for r in range(W)}
        for r in range(W):
            sd = w.results[r][-1]['sd']
            want = sorted(str(i) for i in range(2 * nl))
            if sorted(sd.get('layers', {}).keys()) != want:
                probs.append(f'rank {r} (stage {neoxrun.coord(cfg, r)[0]}): saved state has layers {sorted(sd.get("layers", {}).keys())}, expected those of both stages {want}')
                continue
            for p in range(2):
                owner = next(q for q in range(W) if neoxrun.coord(cfg, q)[0] == p)
                for i in range(nl):
                    s_ = sd['layers'][str(p * nl + i)]
                    if not (torch.equal(s_['A'], held[owner][i]['A'].cpu()) and torch.equal(s_['G'], held[owner][i]['G'].cpu())):
                        probs.append(f'rank {r}: saved factors of layer {p * nl + i} are not those held on stage {p}')
    return case, probs


def run(tier, seed, rng):
    import torch
    from harness import neoxrun
    cov = Coverage('data x model in {1,2,4} x {1,2}, 1-3 column/row-parallel layers, checkpoint after 1-3 steps, in-memory and directory mode, '
                   'compute_inverses on/off, 1-2 continued steps; non-trivial = D > 1 (several ranks hold a layer) and >= 2 layers; distinct by hash')
    failures: list[Failure] = []
    from harness.props import C03
    projq = []
    n = 40 if tier == 'quick' else 400
    for k in range(n):
        if k % 10 == 3:
            case, probs = pipe_case(rng, tier, seed, k)
            cov.add(case, True, sample_cap=2); cov.count('kind', 'pipeline')
            if probs:
                failures.append(Failure(what='; '.join(probs[:3])[:500], case=case, impl=probs[:8], model='NeoxCkpt', oracle_rejects=True,
                                        correspondence=CORRESPONDENCES[0], theorems=THEOREMS,
                                        oracle='the state on every rank contains every layer of every stage, as held by its inverse worker'))
            continue
        if k % 5 == 4:
            case, probs = rollback_case(rng, tier, seed, k)
            cov.add(case, case['cfg']['D'] > 1 and len(case['cfg']['layers']) >= 2, sample_cap=2)
            cov.count('kind', 'rollback'); cov.count('dir', case['dir_mode'])
            if probs:
                failures.append(Failure(what='; '.join(probs[:3])[:500], case=case, impl=probs[:8], model='NeoxCkpt', oracle_rejects=True,
                                        correspondence=CORRESPONDENCES[0], theorems=THEOREMS,
                                        oracle='loading into a used preconditioner == loading into a fresh one (factors restored, second-order data recomputed)'))
            continue
        cfg, hist, base, pre, comp, dirmode = gen(rng, tier, k)
        D, M = cfg['D'], cfg['M']
        W = D * M
        tmp = None
        if dirmode:
            tmp = tempfile.mkdtemp(prefix='kv_c18_')
            cfg['factor_checkpoint_dir'] = os.path.join(tmp, 'factors')
        case = {'cfg': {a: b for a, b in cfg.items()}, 'history': hist, 'seed': seed + k, 'dir_mode': dirmode}
        try:
            MARKS.clear()
            w = neoxrun.run(cfg, hist, seed=seed + k, observe=observe)
            marks = next(iter(MARKS.values()), {})
            MARKS.clear()
            cfg_b = {a: b for a, b in cfg.items() if a != 'factor_checkpoint_dir'}
            wb = neoxrun.run(cfg_b, base, seed=seed + k, observe=observe)
            cov.add(case, D > 1 and len(cfg['layers']) >= 2, sample_cap=2)
            if w.ok:
                projq.append((case, C03.encode_logs(w, W)))
            cov.count('DxM', f'{D}x{M}'); cov.count('dir', dirmode); cov.count('compute_inverses', comp); cov.count('pre_steps', pre)
            probs, d7, diffs = [], [], []
            if not w.ok or not wb.ok:
                probs.append(f'run failed: {w.errors[:1]} {w.deadlock} {dict(list(w.exceptions.items())[:2])}'[:400])
            else:
                off = 1 if hist[0][0] == 'sd_nofactors' else 0
                isave, iload = pre + off, pre + 1 + off
                held = [w.results[r][isave]['extra'] for r in range(W)]
                nl = len(cfg['layers'])
                names = [str(i) for i in range(nl)]          # DeepSpeed names pipeline layers by their global index
                both = lambda h: h['A'] is not None and h['G'] is not None   # a rank may hold only one of the two factors of a sharded layer
                dims = [(1, 1)] * nl
                for i in range(nl):
                    for r in range(W):
                        if both(held[r][i]):
                            dims[i] = (held[r][i]['A'].shape[0], held[r][i]['G'].shape[0])
                rl = roles(cfg, names, dims)
                # --- model ---
                stage_layers = [[[i, rl[r][names[i]][0]] for i in range(nl)] for r in range(W)]
                heldt = [[[i, 1000 * r + i] for i in range(nl) if both(held[r][i])] for r in range(W)]
                fws = [[[i, rl[r][names[i]][1]] for i in range(nl)] for r in range(W)]
                m_saved, m_after, m_recomp = common.run_model([('neox_ckpt', [W, stage_layers, heldt, fws, comp])])[0]
                # --- saved state on every rank ---
                if not dirmode:
                    for r in range(W):
                        sd = w.results[r][isave]['sd']
                        if sorted(sd.get('layers', {}).keys()) != sorted(names[i] for i, _ in m_saved):
                            probs.append(f'rank {r}: saved state has layers {sorted(sd.get("layers", {}).keys())}, expected {[names[i] for i, _ in m_saved]}')
                            continue
                        for i, tok in m_saved:
                            src = tok // 1000
                            a, g = sd['layers'][names[i]]['A'], sd['layers'][names[i]]['G']
                            if not (torch.equal(a, held[src][i]['A'].cpu()) and torch.equal(g, held[src][i]['G'].cpu())):
                                probs.append(f'rank {r}: saved factors of {names[i]} are not those held by its inverse worker (rank {src})')
                            elif a.dtype != held[src][i]['A'].dtype or g.dtype != held[src][i]['G'].dtype:
                                probs.append(f'rank {r}: saved factors of {names[i]} have dtype {a.dtype}/{g.dtype}, the inverse worker holds {held[src][i]["A"].dtype}/{held[src][i]["G"].dtype}')
                else:
                    fdir = cfg['factor_checkpoint_dir']
                    files = sorted(os.listdir(fdir)) if os.path.isdir(fdir) else []
                    if files != sorted(names[i] for i, _ in m_saved):
                        probs.append(f'directory mode: files {files}, expected one per layer {[names[i] for i, _ in m_saved]}')
                    else:
                        for i, tok in m_saved:
                            src = tok // 1000
                            sdl = torch.load(os.path.join(fdir, names[i]))
                            if not (torch.equal(sdl['A'], held[src][i]['A']) and torch.equal(sdl['G'], held[src][i]['G'])
                                    and sdl['A'].dtype == held[src][i]['A'].dtype and sdl['G'].dtype == held[src][i]['G'].dtype):
                                probs.append(f'directory mode: file {names[i]} does not contain the factors of its inverse worker (rank {src})')
                # --- after load into fresh objects ---
                after = [w.results[r][iload]['extra'] for r in range(W)]
                for r in range(W):
                    want = dict((i, tok) for i, tok in m_after[r])
                    for i in range(nl):
                        has = both(after[r][i])
                        if has != (i in want):
                            diffs.append(f'rank {r} layer {i}: holds factors after load = {has}, model says {i in want}')
                        elif has:
                            src = want[i] // 1000
                            if not (torch.equal(after[r][i]['A'], held[src][i]['A']) and torch.equal(after[r][i]['G'], held[src][i]['G'])
                                    and after[r][i]['A'].dtype == held[src][i]['A'].dtype and after[r][i]['G'].dtype == held[src][i]['G'].dtype):
                                probs.append(f'rank {r} layer {i}: restored factors differ from the saved ones')
                        if after[r][i]['sod'] != (i in m_recomp[r]):
                            diffs.append(f'rank {r} layer {i}: second-order data after load = {after[r][i]["sod"]}, model says {i in m_recomp[r]}')
                # --- all ranks take part in the same collectives while saving / loading ---
                CODE = {'barrier': 6, 'new_group': 7, 'all_gather_object': 5}
                m_save, m_load = common.run_model([('neox_ckpt_comm', [int(dirmode)])])[0]
                for r in range(W):
                    own = [x for x in w.log if x[0] == r]
                    mk = marks[r]
                    sv = [CODE.get(x[1], x[1]) for x in own[mk[isave - 1]:mk[isave]]]
                    lm = w.results[r][iload]['log_mark']          # the constructor of the fresh preconditioner is not part of load_state_dict
                    ld = [CODE.get(x[1], x[1]) for x in own[lm:mk[iload]]]
                    if sv != m_save:
                        probs.append(f'rank {r}: collectives while saving {sv}, model {m_save}')
                    if ld != m_load:
                        probs.append(f'rank {r}: collectives while loading {ld}, model {m_load}')
                    if any(x[2] is not None and len(x[2]) != W for x in own[mk[isave - 1]:mk[isave]] + own[lm:mk[iload]] if x[1] != 'new_group'):
                        probs.append(f'rank {r}: a checkpoint collective ran on a sub-group')
                # --- continuation vs the uninterrupted run ---
                for j in range(len(base) - pre):
                    for r in range(W):
                        ga = w.results[r][iload + 1 + j]['after']; gb = wb.results[r][pre + j]['after']
                        same = all(torch.equal(x[0], y[0]) and (x[1] is None or torch.equal(x[1], y[1])) for x, y in zip(ga, gb))
                        if not same:
                            (d7 if M > 1 else probs).append(f'continued step {j} rank {r}: gradients differ from the uninterrupted run')
            if probs or diffs:
                failures.append(Failure(what='; '.join((probs + diffs)[:3])[:500], case=case, impl=(probs + diffs)[:8], model='NeoxCkpt', oracle_rejects=bool(probs),
                                        correspondence=CORRESPONDENCES[0], theorems=THEOREMS,
                                        oracle='saved == inverse worker factors; restored == saved; same collectives; continuation == uninterrupted run'))
            if d7:
                failures.append(Failure(what=d7[0][:400], case=case, impl=d7[:4], model='neox_resume_refuted', oracle_rejects=True,
                                        correspondence=CORRESPONDENCES[0], theorems=['load_restores_on_factor_workers'], signature='neox-resume-M>1',
                                        oracle='continuation == uninterrupted run'))
        finally:
            if tmp:
                shutil.rmtree(tmp, ignore_errors=True)
    failures += C03.check_proj(projq, CORRESPONDENCES[0], cov)
    return cov, failures


def replay(path):
    d = json.load(open(path))
    print(d['case']); print(d['what'])
    return 1
