"""C02 — distributed work placement is semantically transparent."""
from __future__ import annotations

import json

import numpy as np

from harness import common
from harness.common import Coverage, Failure
from harness.props.C01 import combined_grad, model_cases, unhex, EPS32

CORRESPONDENCES = [
    'gradients left on every rank after each step (simdist; every world size, divisor, co-location, heuristic, bucket capacity, '
    'symmetry setting, method) == gradients of rank 0 bit-for-bit == single-process K-FAC on the union batch (factors bit-for-bit on the '
    'dyadic-exact float64 stream with power-of-two world sizes; gradients within 1e-4; float32 factors within 1e-5) == extracted pre_* terms evaluated on the '
    'single-process factors and the averaged gradient',
]
TRUSTED = [
    'Coq 8.16.1 kernel (coqc); extraction with ExtrOcamlBasic only; ocaml/driver.ml; ocamlopt; harness/simdist.py',
    'the system theorem is about a lock-step data-level model with abstract data; the rank-mean law it assumes is proved for real '
    'matrices entrywise in C04; value-preserving communication is justified by C03 (schedule independence), C08, C14',
    'DDP gradient averaging before step() is a documented precondition and is emulated by the harness; equal per-rank batch sizes',
    'the single-process reference is fed the per-rank batches concatenated and the averaged gradients',
]
THEOREMS = ['multi_equals_single', 'ranks_agree_placement_irrelevant', 'kaisa_is_wf', 'kaisa_transparent', 'kaisa_transparent_real_matrices']
NOTES = 'Rounding as in C01 outside the exact stream.'


def gen(rng, tier, k):
    from harness import kfacgen
    exact = k % 2 == 0
    cfg = kfacgen.gen_cfg(rng, tier, worlds=(1, 2, 4, 8) if exact else (2, 3, 4, 6, 8), allow_callable=False)
    while any(s_[0] == 'bn' for s_ in cfg['model']):      # batch statistics of a union batch differ from per-rank ones: not K-FAC's concern
        cfg['model'], cfg['in_shape'] = rng.choice(kfacgen.MODELS[:5])
    if exact:
        # relu-only integer models, float64 everywhere, power-of-two sizes, dyadic decay: every operation that feeds the
        # second-order computation is exact, so multi-rank and single-process runs see identical bits
        model, in_shape = rng.choice([kfacgen.MODELS[0], kfacgen.MODELS[2], kfacgen.MODELS[3]])
        cfg.update(model=model, in_shape=in_shape, batch=rng.choice([2, 4]), model_dtype='float64', factor_dtype='float64',
                   inv_dtype='float64', accumulation_steps=rng.choice([1, 2]), factor_decay=rng.choice([0.5, 0.75]))
    if exact and (k // 2) % 3 == 0:
        cfg['compute_method'] = 'inverse'; cfg['compute_eigenvalue_outer_product'] = False
        cfg['inv_dtype'] = 'bfloat16'
    cfg['kl_clip'] = rng.choice([None, None, 0.01])
    if rng.random() < 0.5:          # refresh everything every step: stale second-order data on any rank shows within a short history
        cfg['factor_update_steps'] = 1; cfg['inv_update_steps'] = 1
    if k % 8 in (3, 5):
        cfg['damping'] = ['table', [0.5, 0.125, 1.0, 0.25, 2.0, 0.0625, 0.5, 1.0]]
        cfg['inv_update_steps'] = 2; cfg['factor_update_steps'] = 1
        if k % 8 == 3:
            cfg['compute_method'] = 'eigen'; cfg['compute_eigenvalue_outer_product'] = True; cfg['colocate_factors'] = True
    if k % 8 == 7:
        # singular factors: no identity prior (the running average starts with weight 0, as exp_decay_factor_averaging does) and fewer
        # rows than features - the decomposition returns eigenvalues around zero of either sign; eigenvalues kept separate and broadcast
        # to several gradient workers: every rank must precondition with the same (clamped) values
        cfg['W'] = 2; cfg['k'] = 2; cfg['grad_worker_fraction'] = 1.0
        cfg['model'], cfg['in_shape'] = kfacgen.MODELS[1]; cfg['batch'] = 1
        cfg['compute_method'] = 'eigen'; cfg['compute_eigenvalue_outer_product'] = False
        cfg['factor_decay'] = ['table', [0.0, 0.0, 0.5, 0.5, 0.5, 0.5, 0.5, 0.5]]
        cfg['factor_update_steps'] = 1; cfg['inv_update_steps'] = 1; cfg['damping'] = 0.001
        exact = False; cfg['singular'] = True
    cfg['exact'] = exact
    nsteps = rng.randint(2, 4 if tier == 'quick' else 5)
    hist = [['train', cfg['accumulation_steps']] for _ in range(nsteps)]
    return cfg, hist


def run(tier, seed, rng):
    import torch
    from harness import kfacrun
    cov = Coverage('random configurations: world 1-8 (every divisor as gradient-worker count), co-location on/off, COMPUTE/MEMORY heuristic, '
                   'bucket capacities 0 / tiny / 25 MB, symmetric on/off, eigen / eigen+prediv / inverse, interval pairs {1,2,3}x{1..4}, 2-5 steps, '
                   '4 schedule policies; exact stream (float64, integer data) and general stream; non-trivial = 1 < k < W; distinct by hash')
    failures: list[Failure] = []
    n = 80 if tier == 'quick' else 800
    pols = ['random', 'rr', 'ahead', 'behind']
    worst_single = 0.0
    for k in range(n):
        cfg, hist = gen(rng, tier, k)
        W = cfg['W']
        mods_of = lambda model: [m for m in model if isinstance(m, (torch.nn.Linear, torch.nn.Conv2d))]
        obs = lambda r, ev, e, model, p: ([combined_grad(m) for m in mods_of(model)],
                                          [(p.state_dict()['layers'][nme]['A'].double().numpy(), p.state_dict()['layers'][nme]['G'].double().numpy())
                                           for nme in p.state_dict()['layers']], p.damping)
        pre = lambda r, ev, model, p: [combined_grad(m) for m in mods_of(model)]
        w = kfacrun.run(cfg, hist, W, seed=seed + k, policy=pols[k % 4], observe=obs)
        case = {'cfg': cfg, 'history': hist, 'seed': seed + k, 'policy': pols[k % 4]}
        cov.add(case, 1 < cfg['k'] < W, sample_cap=2)
        cov.count('W', W); cov.count('strategy', 'COMM' if cfg['k'] == W else 'MEM' if cfg['k'] == 1 else 'HYBRID')
        cov.count('stream', 'exact' if cfg['exact'] else 'general'); cov.count('bucket', cfg['allreduce_bucket_cap_mb'])
        cov.count('method', cfg['compute_method'] + ('+prediv' if cfg['compute_method'] == 'eigen' and cfg['compute_eigenvalue_outer_product'] else ''))
        if not w.ok:
            failures.append(Failure(what=f'run failed: {w.errors[:1]} {w.deadlock} {w.exceptions}'[:400], case=case, oracle_rejects=True,
                                    correspondence=CORRESPONDENCES[0], theorems=THEOREMS, oracle='run completes'))
            continue
        ref = kfacrun.run_single(cfg, hist, observe=obs, union_of=W, pre_step=pre)
        ref_pre = [x for x in ref if isinstance(x, tuple) and len(x) == 3 and x[0] == 'pre']
        ref_obs = [x for x in ref if not (isinstance(x, tuple) and len(x) == 3 and x[0] == 'pre')]
        probs = []
        for si in range(len(hist)):
            g0 = w.results[0][si][0]
            for r in range(1, W):
                gr = w.results[r][si][0]
                if any(not np.array_equal(a, b) for a, b in zip(g0, gr)):
                    probs.append(f'step {si}: gradients of rank {r} differ from rank 0')
            gs = ref_obs[si][0]
            for li, (a, b) in enumerate(zip(g0, gs)):
                err = float(np.abs(a - b).max()) / max(float(np.abs(b).max()), 1e-30)
                # the factors are bit-identical on the exact stream, but the second-order computation is not exact
                # arithmetic (and the memory layout of broadcast eigenvectors differs from locally computed ones),
                # so the comparison with the single-process run is tolerance-based: 1e-9 in float64, 5e-3 in float32
                # (the implementation always decomposes / inverts in float32, and symmetric communication mirrors the upper triangle)
                tolb = 1e-4
                if cfg.get('singular'):
                    continue      # singular factors with damping 1e-3: the solve is ill-conditioned (null-space components are amplified 1000-fold and the
                                  # eigenvectors of a degenerate eigenvalue are arbitrary), so two runs need not agree; the RANKS of one run must, bit for bit
                worst_single = max(worst_single, err / tolb)
                if err > tolb:
                    probs.append(f'step {si} layer {li}: multi-rank gradient differs from single-process K-FAC on the union batch (rel {err:.2e} > {tolb:.0e})')
            for r in range(W):
                for li, ((a1, g1), (a2, g2)) in enumerate(zip(w.results[r][si][1], ref_obs[si][1])):
                    if cfg['exact']:
                        if not (np.array_equal(a1, a2) and np.array_equal(g1, g2)):
                            probs.append(f'step {si} layer {li} rank {r}: factors differ from single-process K-FAC on the union batch (exact stream: must be bit-identical)')
                    else:
                        fe = max(float(np.abs(a1 - a2).max()) / max(float(np.abs(a2).max()), 1e-30), float(np.abs(g1 - g2).max()) / max(float(np.abs(g2).max()), 1e-30))
                        if fe > 1e-5:
                            probs.append(f'step {si} layer {li} rank {r}: factors differ from single-process K-FAC on the union batch (rel {fe:.2e})')
        # extracted model on the single-process factors and the averaged gradient (refresh every step only)
        if cfg['inv_update_steps'] == 1 and cfg['factor_update_steps'] == 1 and cfg['kl_clip'] is None and cfg.get('inv_dtype') != 'bfloat16' and not cfg.get('singular'):
            cm = {'method': cfg['compute_method'], 'prediv': cfg['compute_eigenvalue_outer_product']}
            for si in range(len(hist)):
                D = ref_pre[si][2]
                st = {'A': [f[0] for f in ref_obs[si][1]], 'G': [f[1] for f in ref_obs[si][1]], 'D': D, 'lam': ref_obs[si][2]}
                args, info = model_cases(cm, st)
                Vs = [unhex(v) for v in common.run_model(args)]
                for li, (V, (contract, kappa)) in enumerate(zip(Vs, info)):
                    for r in range(W):
                        aft = w.results[r][si][0][li]
                        tol = 64 * EPS32 * max(kappa, 1.0) + 1e-6
                        rel = float(np.linalg.norm(aft - V) / max(np.linalg.norm(V), 1e-30))
                        if contract <= 1e-8 and rel > tol:
                            probs.append(f'step {si} layer {li} rank {r}: gradient differs from the extracted model on the single-process factors (rel {rel:.2e} > {tol:.1e})')
        if probs:
            failures.append(Failure(what=probs[0][:500], case=case, impl=probs[:6], model='single-process reference / extracted pre_*',
                                    oracle_rejects=True, correspondence=CORRESPONDENCES[0], theorems=THEOREMS,
                                    oracle='metamorphic: equal across ranks; equal to single-process K-FAC on the union batch'))
    cov.extra['max_rel_diff_to_single_over_tol'] = round(worst_single, 4)
    return cov, failures


def replay(path):
    from harness import kfacrun
    d = json.load(open(path))
    c = d['case']
    w = kfacrun.run(c['cfg'], c['history'], c['cfg']['W'], seed=c['seed'], policy=c['policy'])
    print('ok' if w.ok else (w.errors, w.exceptions))
    print(d['what'])
    return 1
