"""C14 — triangular packing of symmetric matrices is lossless (DESIGN.md §4 C14)."""
from __future__ import annotations

import json

from harness import common
from harness.common import Coverage, Failure

CORRESPONDENCES = [
    'triu_idx == torch.triu_indices order used by kfac.distributed.get_triu',
    'fill_index_matrix == kfac.distributed.fill_triu on arange',
    'sym_comm_outcome == shape guard / element count of allreduce, broadcast, allreduce_bucketed',
    'symmetric communication == dense communication (values, shape, dtype)',
]
TRUSTED = [
    'Coq 8.16.1 kernel (coqc); no native_compute',
    'extraction with ExtrOcamlBasic only; ocaml/driver.ml (parser/printer glue); ocamlopt',
    'harness/simdist.py (simulated torch.distributed) for the communication part',
    'torch.triu_indices / advanced indexing are torch kernels: compared with the model for every n in range, not verified',
]
NOTES = ('Theorems hold for every n and element type. The tie compares get_triu/fill_triu '
         'with the extracted model for every n in the stated range and runs the three '
         'communication functions under simdist.')
THEOREMS = ['triu_roundtrip', 'triu_nodup_complete', 'triu_len', 'fill_symmetric', 'get_fill',
            'symmetric_comm_equals_dense', 'nonsquare_rejected_first', 'square_sends_triangle']


def _impl_positions(n):
    import torch
    from kfac.distributed import get_triu, fill_triu
    i = torch.arange(n).view(-1, 1).expand(n, n)
    j = torch.arange(n).view(1, -1).expand(n, n)
    lo, hi = torch.minimum(i, j), torch.maximum(i, j)
    M = (lo * n + hi).to(torch.float64)          # position revealing, symmetric
    packed = get_triu(M)
    idx = [[int(v) // n, int(v) % n] for v in packed.tolist()] if n else []
    L = n * (n + 1) // 2
    filled = fill_triu((n, n), torch.arange(L, dtype=torch.float64))
    return idx, [[int(x) for x in row] for row in filled.tolist()]


def _roundtrip_oracle(n, dtype, layout, rng):
    """Property oracle, independent of the model: fill(get(x)) == x bit-for-bit."""
    import torch
    from kfac.distributed import get_triu, fill_triu
    g = torch.Generator().manual_seed(rng.randrange(1 << 30))
    if layout == 'strided':
        base = torch.randn(2 * n, 2 * n, generator=g, dtype=torch.float64)
        base = ((base + base.t()) / 2).to(dtype)
        x = base[::2, ::2]
        x = torch.triu(x) + torch.triu(x, 1).t()
        big = torch.zeros(2 * n, 2 * n, dtype=dtype)
        big[::2, ::2] = x
        x = big[::2, ::2]
    elif layout == 'extreme':
        # values on which any arithmetic (instead of pure data movement) is visible:
        # near the dtype's range limits, subnormals, signed zeros, infinities
        fi = torch.finfo(dtype)
        pool = torch.tensor([fi.max, -fi.max, 0.9 * fi.max, -0.75 * fi.max, fi.tiny, -fi.tiny, fi.tiny / 4,
                             0.0, -0.0, float('inf'), float('-inf'), 1.0, -3.0, fi.eps], dtype=torch.float64).to(dtype)
        idx = torch.randint(0, pool.numel(), (n, n), generator=g)
        x = pool[idx]
        iu = torch.triu_indices(n, n, 1)
        x[iu[1], iu[0]] = x[iu[0], iu[1]]
    else:
        x = torch.randn(n, n, generator=g, dtype=torch.float64).to(dtype)
        x = torch.triu(x) + torch.triu(x, 1).t()
        if layout == 'transposed':
            x = x.t()
    ity = {2: torch.int16, 4: torch.int32, 8: torch.int64}[x.element_size()]
    assert torch.equal(x.contiguous().view(ity), x.t().contiguous().view(ity))
    y = fill_triu(tuple(x.shape), get_triu(x))
    ok = (y.dtype == x.dtype and tuple(y.shape) == tuple(x.shape)
          and torch.equal(y.contiguous().view(ity), x.contiguous().view(ity)))   # bit-for-bit
    return ok


SHAPES = [[1], [4], [2, 3], [3, 2], [1, 2], [2, 2, 2], [3, 3, 1], [1, 1, 1], [0, 3], [2, 2], [3, 3], [1, 1], [5, 5], [4, 4]]


def _guard_cases(tier):
    cases = []
    for fn in ('allreduce', 'broadcast', 'allreduce_bucketed'):
        for shape in SHAPES:
            for sym in (0, 1):
                for gsize in (1, 2, 3):
                    cases.append({'fn': fn, 'shape': shape, 'sym': sym, 'gsize': gsize})
    # a malformed tensor offered to a bucket that already holds pending tensors and that it would overflow:
    # it must be rejected before anything is communicated, and the pending tensors must survive
    for shape in ([40, 3], [40], [3, 40], [12, 2, 2]):
        for gsize in (2, 3):
            cases.append({'fn': 'allreduce_bucketed', 'shape': shape, 'sym': 1, 'gsize': gsize, 'pending': 1})
    return cases


def _run_guard(case, seed):
    """Run one communication function on every member of a group of `gsize`
    ranks inside a world of 3; returns per-rank outcome + comm log."""
    import torch
    from harness import simdist
    from kfac.distributed import TorchDistributedCommunicator, NonSquareTensorError

    gsize, shape, sym, fn = case['gsize'], case['shape'], bool(case['sym']), case['fn']
    numel = 1
    for s in shape:
        numel *= s

    def body(rank):
        grp = torch.distributed.new_group(list(range(gsize)))
        if rank >= gsize:
            return ('nonmember',)
        comm = TorchDistributedCommunicator(bucket_cap_mb=0.001 if case.get('pending') else 1.0)
        pend = None
        if case.get('pending'):
            p8 = torch.arange(64, dtype=torch.float32).reshape(8, 8) + 1000 * rank
            p8 = torch.triu(p8) + torch.triu(p8, 1).t()
            pend = comm.allreduce_bucketed(p8, group=grp, symmetric=True)
        t = (torch.arange(numel, dtype=torch.float32).reshape(shape) + 1000 * rank)
        if len(shape) == 2 and shape[0] == shape[1]:
            t = torch.triu(t) + torch.triu(t, 1).t()
        try:
            if fn == 'allreduce':
                r = comm.allreduce(t, group=grp, symmetric=sym)
            elif fn == 'broadcast':
                r = comm.broadcast(t, src=0, group=grp, symmetric=sym)
            else:
                r = comm.allreduce_bucketed(t, group=grp, symmetric=sym)
                comm.flush_allreduce_buckets()
        except NonSquareTensorError:
            if pend is not None:
                before = sum(1 for e in simdist._WORLD.log if e[0] == rank and e[1] != 'new_group')
                comm.flush_allreduce_buckets()
                got = pend.wait()
                want = sum((torch.arange(64, dtype=torch.float32).reshape(8, 8) + 1000 * q) for q in range(gsize))
                want = torch.triu(want) + torch.triu(want, 1).t()
                return ('raise_nonsquare', before, bool(torch.equal(got, want)))
            return ('raise_nonsquare',)
        same = r is t
        if hasattr(r, 'wait'):
            r = r.wait()
        return ('value', same, list(r.shape), str(r.dtype), r.reshape(-1).tolist())

    w = simdist.run_world(3, body, seed=seed, policy='random')
    log = [e for e in w.log if e[1] != 'new_group']
    return w, log


def run(tier, seed, rng):
    import torch
    cov = Coverage(
        'n enumerated exhaustively over the stated range (positions of get_triu / fill_triu '
        'vs extracted model); a case is non-trivial when n >= 3 (positions), when the shape '
        'guard sees a group of size > 1 (guard), or when n >= 2 (value cases: symmetric vs dense results of allreduce / broadcast / '
        'bucketed allreduce, bucket caps 1 MB / 400 B / 100 B); distinct by hash')
    failures: list[Failure] = []
    nmax_full = 96 if tier == 'quick' else 128
    nmax_idx = 128 if tier == 'quick' else 512

    # (a) positions
    ns_full = list(range(0, nmax_full + 1))
    ns_idx = [n for n in range(nmax_full + 1, nmax_idx + 1)]
    if tier == 'thorough':
        ns_idx = [n for n in ns_idx if n % 3 == 0 or n in (511, 512)]
    cases = [('triu_idx', n) for n in ns_full + ns_idx] + [('fill_index_matrix', n) for n in ns_full]
    outs = common.run_model_sharded(cases)
    m_idx = {n: o for (c, n), o in zip(cases, outs) if c == 'triu_idx'}
    m_fill = {n: o for (c, n), o in zip(cases, outs) if c == 'fill_index_matrix'}
    for n in ns_full + ns_idx:
        idx, filled = _impl_positions(n)
        case = {'kind': 'positions', 'n': n}
        cov.add(case, n >= 3)
        cov.count('kind', 'positions')
        bad = None
        if idx != m_idx[n]:
            bad = ('get_triu order', m_idx[n][:8], idx[:8], CORRESPONDENCES[0])
        elif n in m_fill and filled != m_fill[n]:
            bad = ('fill_triu positions', m_fill[n][:4], filled[:4], CORRESPONDENCES[1])
        if bad:
            orc = all(_roundtrip_oracle(n, torch.float64, 'contiguous', rng) for _ in range(3)) if n else True
            failures.append(Failure(what=bad[0], case=case, model=bad[1], impl=bad[2],
                                    oracle_rejects=not orc, correspondence=bad[3], theorems=THEOREMS[:5],
                                    oracle='fill_triu(get_triu(x)) == x on random symmetric x'))
    cov.exhaustive = True

    # (b) round trip values: every dtype, three layouts
    dts = [torch.float16, torch.bfloat16, torch.float32, torch.float64]
    ns = list(range(1, 33)) if tier == 'quick' else list(range(1, 65)) + [96, 128, 200, 256]
    for n in ns:
        for dt in dts:
            for layout in ('contiguous', 'transposed', 'strided', 'extreme'):
                case = {'kind': 'roundtrip', 'n': n, 'dtype': str(dt), 'layout': layout}
                ok = _roundtrip_oracle(n, dt, layout, rng)
                cov.add(case, n >= 2)
                cov.count('kind', 'roundtrip')
                cov.count('dtype', str(dt))
                if not ok:
                    failures.append(Failure(what='round trip not exact', case=case, oracle_rejects=True,
                                            correspondence=CORRESPONDENCES[1], theorems=['triu_roundtrip'],
                                            oracle='fill_triu(get_triu(x)) == x'))

    # (c) shape guard + element counts under simdist
    gcases = _guard_cases(tier)
    mouts = common.run_model([('sym_comm_outcome', [c['gsize'], c['sym'], c['shape']]) for c in gcases])
    for k, (case, mo) in enumerate(zip(gcases, mouts)):
        w, log = _run_guard(case, seed + k)
        cov.add(dict(case, kind='guard'), case['gsize'] > 1)
        cov.count('kind', 'guard')
        cov.count('guard_model_outcome', mo if isinstance(mo, str) else mo[0])
        members = list(range(case['gsize']))
        impl = None
        problems = []
        if w.errors or w.deadlock or w.exceptions:
            problems.append(f'simdist: {w.errors} {w.deadlock} {w.exceptions}')
        for r in members:
            res = w.results.get(r)
            if res is None:
                continue
            if mo == 'raise_nonsquare':
                if res[0] != 'raise_nonsquare':
                    problems.append(f'rank {r}: expected NonSquareTensorError, got {res[0]}')
                if case.get('pending'):
                    if len(res) > 1 and res[1] != 0:
                        problems.append(f'rank {r}: {res[1]} collective(s) issued before the malformed tensor was rejected (pending bucket flushed)')
                    if len(res) > 2 and not res[2]:
                        problems.append(f'rank {r}: the tensors pending in the bucket were lost or corrupted by the rejected request')
                elif log:
                    problems.append(f'communication before rejection: {log[:2]}')
            elif mo == 'return_input':
                if res[0] != 'value' or not res[1]:
                    problems.append(f'rank {r}: expected the input tensor back, got {res[:2]}')
                if log:
                    problems.append(f'communication in a group of one: {log[:2]}')
            else:
                want = mo[1]
                mine = [e for e in log if e[0] == r]
                if res[0] != 'value':
                    problems.append(f'rank {r}: {res[0]}')
                elif len(mine) != 1 or mine[0][3] != want:
                    problems.append(f'rank {r}: expected one collective of {want} elements, log {mine}')
                elif res[2] != case['shape'] or res[3] != 'torch.float32':
                    problems.append(f'rank {r}: result shape/dtype {res[2:4]}')
        if problems:
            # oracle: the property text itself (rejected before any communication)
            sq = len(case['shape']) == 2 and case['shape'][0] == case['shape'][1]
            orc_rej = (case['sym'] and not sq and case['gsize'] > 1 and
                       ((bool(log) and not case.get('pending')) or any(len(w.results.get(r, ('x',))) > 1 and w.results[r][1] != 0 for r in members) or any(w.results.get(r, ('x',))[0] != 'raise_nonsquare' for r in members)))
            failures.append(Failure(what='; '.join(problems)[:400], case=dict(case, kind='guard', seed=seed + k),
                                    model=mo, impl={str(r): w.results.get(r, ('?',))[:4] for r in members},
                                    oracle_rejects=bool(orc_rej), correspondence=CORRESPONDENCES[2],
                                    theorems=['nonsquare_rejected_first', 'square_sends_triangle'],
                                    oracle='non-square / non-2-D + symmetric => NonSquareTensorError and empty comm log'))

    # (d) symmetric == dense on integer-valued symmetric contents
    from harness import simdist
    from kfac.distributed import TorchDistributedCommunicator
    vcases = []
    for W in (2, 3, 4):
        for n in ([1, 2, 3, 5, 8] if tier == 'quick' else [1, 2, 3, 4, 5, 8, 13, 21, 34]):
            for fn in ('allreduce', 'allreduce_avg', 'allreduce_avg_raw', 'broadcast', 'allreduce_bucketed', 'allreduce_bucketed_avg_raw', 'two_results'):
                for dt in ('float32', 'float64'):
                    vcases.append({'kind': 'sym_vs_dense', 'W': W, 'n': n, 'fn': fn, 'dtype': dt})
            # bucket caps below the size of one packed triangle / of two of them: a tensor that overflows the pending bucket, and one
            # that alone exceeds the cap, take other branches of allreduce_bucketed than a tensor that fits
            for cap in (0.0001, 0.0004):
                for fn in ('allreduce_bucketed', 'allreduce_bucketed_avg_raw', 'bucketed_seq'):
                    vcases.append({'kind': 'sym_vs_dense', 'W': W, 'n': n, 'fn': fn, 'dtype': 'float32', 'cap': cap})
            if W >= 3:
                # a sub-group that does not contain rank 0: the source's global rank differs from its index in the group
                for src in (1, W - 1):
                    vcases.append({'kind': 'sym_vs_dense', 'W': W, 'n': n, 'fn': 'broadcast_sub', 'dtype': 'float32', 'src': src})
    for k, case in enumerate(vcases):
        W, n, fn = case['W'], case['n'], case['fn']
        dt = getattr(torch, case['dtype'])

        def body(rank, sym):
            comm = TorchDistributedCommunicator(bucket_cap_mb=case.get('cap', 1.0))
            base = torch.arange(n * n, dtype=dt).reshape(n, n) * (rank + 1) + 7 * rank
            t = torch.triu(base) + torch.triu(base, 1).t()

            def traw():     # arbitrary (non-integer) symmetric contents, the same on both paths; simdist reduces in rank order on both
                g = torch.Generator().manual_seed(1000 * n + rank)
                x = torch.randn(n, n, generator=g, dtype=torch.float64).to(dt) * 50
                return torch.triu(x) + torch.triu(x, 1).t()
            if fn == 'allreduce':
                r = comm.allreduce(t, symmetric=sym)
            elif fn == 'allreduce_avg':
                r = comm.allreduce(t * W, symmetric=sym, average=True)
            elif fn == 'allreduce_avg_raw':
                # the mean of values that are NOT multiples of the group size: the same arithmetic (sum, then one scaling) on
                # both paths gives the same bits; scaling every term before the sum would not
                r = comm.allreduce(traw(), symmetric=sym, average=True)
            elif fn == 'allreduce_bucketed_avg_raw':
                r = comm.allreduce_bucketed(traw(), symmetric=sym, average=True)
                comm.flush_allreduce_buckets()
            elif fn == 'broadcast':
                buf = t if rank == W - 1 else torch.arange(n * n, dtype=dt).reshape(n, n) - 3.0      # receivers: arbitrary, NOT symmetric scratch
                r = comm.broadcast(buf, src=W - 1, symmetric=sym)
            elif fn == 'two_results':
                # two results of equal shape and dtype but different contents, BOTH still held when they are compared
                r1 = comm.allreduce(t.clone(), symmetric=sym)          # (the dense allreduce works in place: every call gets its own input)
                r1 = r1.wait() if hasattr(r1, 'wait') else r1
                r2 = comm.broadcast(t * 3 + 1, src=0, symmetric=sym)
                r2 = r2.wait() if hasattr(r2, 'wait') else r2
                r3 = comm.allreduce_bucketed(t + 2, symmetric=sym)
                comm.flush_allreduce_buckets()
                r3 = r3.wait() if hasattr(r3, 'wait') else r3
                return [(list(x.shape), str(x.dtype), x.reshape(-1).tolist()) for x in (r1, r2, r3)]
            elif fn == 'bucketed_seq':
                # several requests of different sizes against one small bucket: some fit, some overflow it, some exceed the cap alone
                m = max(1, n // 2)
                ins = [t.clone(), t[:m, :m].clone() + 1, t * 2 + 3, t[:1, :1].clone(), t + 5]
                rs = [comm.allreduce_bucketed(x, symmetric=sym, average=(i == 2)) for i, x in enumerate(ins)]
                comm.flush_allreduce_buckets()
                rs = [x.wait() if hasattr(x, 'wait') else x for x in rs]
                return [(list(x.shape), str(x.dtype), x.reshape(-1).tolist()) for x in rs]
            elif fn == 'broadcast_sub':
                grp = torch.distributed.new_group(list(range(1, W)))
                if rank == 0:
                    return None
                r = comm.broadcast(t, src=case['src'], group=grp, symmetric=sym)
            else:
                r = comm.allreduce_bucketed(t, symmetric=sym)
                comm.flush_allreduce_buckets()
            r = r.wait() if hasattr(r, 'wait') else r
            return (list(r.shape), str(r.dtype), r.reshape(-1).tolist())

        ws = simdist.run_world(W, lambda r: body(r, True), seed=seed + k)
        wd = simdist.run_world(W, lambda r: body(r, False), seed=seed + k)
        cov.add(case, n >= 2)
        cov.count('kind', 'sym_vs_dense')
        if not (ws.ok and wd.ok) or ws.results != wd.results:
            failures.append(Failure(what='symmetric and dense communication differ', case=dict(case, seed=seed + k),
                                    model='equal results', impl={'sym': str(ws.results)[:300], 'dense': str(wd.results)[:300],
                                                                 'errors': [ws.errors, ws.exceptions, wd.errors]},
                                    oracle_rejects=True, correspondence=CORRESPONDENCES[3],
                                    theorems=['symmetric_comm_equals_dense'],
                                    oracle='symmetric result == dense result bit-for-bit'))
    cov.extra['n_range_positions'] = [0, nmax_idx]
    cov.extra['n_range_fill_matrix'] = [0, nmax_full]
    return cov, failures


def replay(path):
    import random
    d = json.load(open(path))
    case = d['case']
    print('replaying', case)
    common.setup_impl_path()
    if case.get('kind') == 'positions':
        idx, filled = _impl_positions(case['n'])
        m = common.run_model([('triu_idx', case['n']), ('fill_index_matrix', case['n'])])
        ok = idx == m[0] and filled == m[1]
    elif case.get('kind') == 'roundtrip':
        import torch
        ok = _roundtrip_oracle(case['n'], getattr(torch, case['dtype'].split('.')[1]), case['layout'], random.Random(1))
    elif case.get('kind') == 'guard':
        w, log = _run_guard(case, case.get('seed', 0))
        print(w.results, log, w.errors)
        ok = False
    else:
        ok = False
    print('holds' if ok else 'fails')
    return 0 if ok else 1
