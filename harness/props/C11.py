"""C11 — model-parallel sharding is transparent to GPT-NeoX preconditioning."""
from __future__ import annotations

import json

import numpy as np

from harness import common
from harness.common import Coverage, Failure
from harness.props.C01 import hexm, hexv, unhex, EPS32

CORRESPONDENCES = [
    'GPTNeoXKFACPreconditioner under simdist + DeepSpeed stand-in: after every step each rank holds its shard of the gradient the '
    'unsharded layer receives from single-process K-FAC (eigen) on the union batch, factors (gathered state_dict) equal the unsharded '
    'factors, replicas agree; and == extracted Shard.neox_precondition (assemble, pre_eigen, split) in IEEE doubles',
    'the per-rank sequence of all_gather / all_reduce / reduce_scatter / broadcast calls (group members, kind, element count, root) of the '
    'GPT-NeoX run == extracted NeoxComm.neox_issues (unbucketed runs), and proj_ok_b accepts the full logs of every run',
]
TRUSTED = [
    'Coq 8.16.1 kernel (coqc); real-number axioms for the reduce_scatter identity; index theorems closed',
    'extraction with ExtrOcamlBasic only; ocaml/driver.ml; ocamlopt; harness/simdist.py',
    'DeepSpeed (PipelineModule, PipeModelDataParallelTopology) and Megatron (Column/RowParallelLinear) are stand-ins: the real '
    'libraries cannot be installed here; the harness feeds every rank the shards the Megatron contract prescribes',
    'clipping at model-parallel degree > 1 is the known finding D10 (clip scale from local shards); transparency is claimed with clipping off or M = 1',
]
THEOREMS = ['split_gather_id', 'gather_split_id', 'reduce_scatter_as_scatter', 'assembled_is_unsharded',
            'sharded_precondition_is_unsharded', 'clip_sharded_refuted', 'sharded_factor_is_unsharded']
NOTES = 'Model mirrors the code after fixes D6 (fresh receive buffers) and D12 (column-parallel without bias).'


def gen(rng, tier, k=None):
    tops = [(1, 1, 1), (1, 2, 1), (1, 1, 2), (1, 2, 2), (1, 4, 1), (1, 1, 4), (1, 2, 4), (1, 4, 2)]
    if tier == 'thorough':
        tops += [(2, 2, 2), (2, 1, 2), (2, 2, 1), (1, 4, 4)]
    P, D, M = rng.choice(tops)
    forced = k is not None and k % 7 == 3
    if forced:
        # stratum: model-parallel degree 1, a layer WITHOUT bias, second-order data in the gradient dtype, clipping active - the
        # preconditioned gradient must not alias the module's gradient (no converting copy separates them in this combination)
        P, D, M = rng.choice([(1, 1, 1), (1, 2, 1), (1, 4, 1)])
    layers = []
    for _ in range(rng.randint(1, 3)):
        kind = rng.choice(['col', 'row'])
        nin = M * rng.randint(1, 2) if kind == 'row' else rng.randint(1, 4)
        nout = M * rng.randint(1, 2) if kind == 'col' else rng.randint(1, 4)
        layers.append((kind, nin, nout, int(rng.random() < 0.6)))
    cfg = {'P': P, 'D': D, 'M': M, 'layers': layers, 'batch': rng.choice([2, 4]), 'model_seed': rng.randrange(100), 'data_seed': rng.randrange(10 ** 6),
           'damping': rng.choice([0.5, 0.25, 1.0]), 'factor_decay': rng.choice([0.5, 0.75]), 'lr': 1.0,
           'kl_clip': rng.choice([None, None, 0.001]),
           'allreduce_bucket_cap_mb': rng.choice([0.0, 25.0]), 'factor_update_steps': 1, 'inv_update_steps': rng.choice([1, 1, 2]),
           'accumulation_steps': 1}
    if rng.random() < 0.35 or forced:         # second-order data in the dtype of the gradients (no converting copy between them)
        cfg['inv_dtype'] = 'float64'
    if forced:
        cfg['kl_clip'] = 0.001
        i = rng.randrange(len(layers))
        cfg['layers'][i] = layers[i][:3] + (0,)
    if rng.random() < 0.5:
        cfg['explicit_pipe_group'] = True
    if rng.random() < 0.4:
        cfg['grad_scale'] = rng.choice([1024.0, 65536.0, 0.5])       # loss scaling must leave the factors (hence everything) unchanged
    if k is not None and k % 7 == 5:
        # stratum: inputs correlated across the model-parallel halves, small damping, clipping that binds, row-parallel layers:
        # the per-rank partial sums <V, D> of a positive quadratic form then have both signs
        P, D, M = 1, rng.choice([1, 2]), 2
        cfg.update(P=P, D=D, M=M, correlated=True, damping=rng.choice([0.001, 0.01]), kl_clip=0.001, factor_decay=0.0625, batch=4)
        cfg['layers'] = [('row', 2 * rng.randint(1, 2), rng.randint(1, 2), 0) for _ in range(rng.randint(1, 2))]
    if k is not None and k % 3 == 1:
        # stratum: activations in the GPT-NeoX layout [seq, batch, hidden] with seq > 1 and batch > 1 (the factors are those of the
        # same rows presented as a matrix)
        cfg['batch'] = 4; cfg['seq'] = 2       # (row counts stay powers of two: the factor comparison with the unsharded layer is exact)
    hist = [['train', 1] for _ in range(rng.randint(1, 3))]
    if rng.random() < 0.3 and not cfg.get('correlated'):          # a damping schedule with inverses reused across steps: the CURRENT damping must be used (plain eigen path)
        cfg['damping'] = ['table', [rng.choice([0.5, 0.25, 1.0, 2.0]) for _ in range(6)]]
        cfg['inv_update_steps'] = 2
        hist = [['train', 1] for _ in range(rng.randint(2, 4))]
    if rng.random() < 0.5:
        hist.append(['state_dict'])
    return cfg, hist


def run(tier, seed, rng):
    import torch
    from harness import neoxrun
    cov = Coverage('data x model decompositions in {1,2,4} x {1,2,4} (pipe 2 in the thorough tier), column- and row-parallel layers, bias '
                   'on/off, bucketed or not, clipping off / active, 1-3 steps, activations as [rows, hidden] or [seq, batch, hidden], exact integer data in float64; non-trivial = M > 1 and D > 1; distinct by hash')
    failures: list[Failure] = []
    from harness.props import C03
    from harness import neoxcomm
    projq = []
    gen_checked = 0
    n = 50 if tier == 'quick' else 500
    worst = 0.0
    for k in range(n):
        cfg, hist = gen(rng, tier, k)
        P, D, M = cfg['P'], cfg['D'], cfg['M']
        W = P * D * M
        w = neoxrun.run(cfg, hist, seed=seed + k, policy=rng.choice(['random', 'rr', 'ahead']))
        case = {'cfg': cfg, 'history': hist, 'seed': seed + k}
        cov.add(case, M > 1 and D > 1, sample_cap=2)
        cov.count('DxM', f'{D}x{M}'); cov.count('P', P); cov.count('clip', cfg['kl_clip'] is not None); cov.count('activations', '3-D' if cfg.get('seq') else '2-D')
        for l in cfg['layers']:
            cov.count('layer', f'{l[0]}{"+b" if l[3] else ""}')
        if not w.ok:
            failures.append(Failure(what=f'run failed: {w.errors[:1]} {w.deadlock} {dict(list(w.exceptions.items())[:2])}'[:500], case=case,
                                    oracle_rejects=True, correspondence=CORRESPONDENCES[0], theorems=THEOREMS, oracle='run completes on every rank'))
            continue
        projq.append((case, C03.encode_logs(w, W)))
        gdiff, gn = neoxcomm.compare(cfg, hist, w)
        gen_checked += gn
        if gdiff:
            failures.append(Failure(what='observed collectives differ from NeoxComm.neox_issues: ' + gdiff[:400], case=case, impl=gdiff[:600],
                                    model='NeoxComm.neox_issues', oracle_rejects=False, correspondence=CORRESPONDENCES[1], theorems=['neox_comm_proj'],
                                    oracle='the run completed under simdist and proj_ok_b is evaluated separately'))
        ref = neoxrun.reference(cfg, hist)
        probs, clipprobs, diffs = [], [], []
        trains = [i for i, e in enumerate(hist) if e[0] == 'train']
        clip_mp = cfg['kl_clip'] is not None and M > 1
        if clip_mp and w.ok:
            # the regime of the known finding D10 (clip scale from LOCAL shards).  What the code is known to do there is still checked, so
            # that any OTHER deviation is reported: on every rank the final gradients are c_r * V_r with
            # c_r = min(1, sqrt(kl / |lr^2 sum over the rank's own shards <V, D>|)), V_r from a twin run without clipping
            kl_ = cfg['kl_clip']
            wn = neoxrun.run(dict(cfg, kl_clip=None), hist, seed=seed + k, policy='rr')
            if wn.ok:
                for si, ev in enumerate(trains):
                    for r in range(W):
                        Vs, Ds, As = wn.results[r][ev]['after'], w.results[r][ev]['before'], w.results[r][ev]['after']
                        s_r = 0.0
                        for (vw, vb), (dw, db) in zip(Vs, Ds):
                            s_r += float((vw.double() * dw.double()).sum()) * cfg['lr'] ** 2
                            if vb is not None:
                                s_r += float((vb.double() * db.double()).sum()) * cfg['lr'] ** 2
                        c_r = 1.0 if s_r == 0.0 else min(1.0, (kl_ / abs(s_r)) ** 0.5)
                        for li, ((vw, vb), (aw, ab)) in enumerate(zip(Vs, As)):
                            sc = max(float(vw.abs().max()), 1e-12)
                            e_ = float((aw - c_r * vw).abs().max()) / sc
                            if vb is not None:
                                e_ = max(e_, float((ab - c_r * vb).abs().max()) / max(float(vb.abs().max()), sc))
                            if e_ > 1e-9:
                                probs.append(f'step {si} rank {r} layer {li}: with clipping and model-parallel degree {M} the gradients are not min(1, sqrt(kl/|s_local|)) = {c_r:.6g} '
                                             f'times the unclipped ones (local s = {s_r:.6g}, rel {e_:.2e}): a deviation beyond the known finding D10')
        for si, ev in enumerate(trains):
            for r in range(W):
                p_, d_, m_ = neoxrun.coord(cfg, r)
                ob = w.results[r][ev]
                for li in range(len(cfg['layers'])):
                    ew, eb = neoxrun.shard_of(cfg, li, m_, *ref[si]['after'][li])
                    gw, gb = ob['after'][li]
                    fw_, fb_ = ref[si]['after'][li]                    # scale by the whole unsharded result: a shard may be exactly zero
                    sc = max(float(fw_.abs().max()), 0.0 if fb_ is None else float(fb_.abs().max()), 1e-12)
                    err = float((gw - ew).abs().max()) / sc
                    if gb is not None:
                        err = max(err, float((gb - eb).abs().max()) / sc)
                    if not clip_mp:
                        worst = max(worst, err)
                    if err > 1e-6:
                        (clipprobs if clip_mp else probs).append(
                            f'step {si} rank {r} layer {li} ({cfg["layers"][li][0]}): gradient shard differs from the unsharded result (rel {err:.2e})')
            # replicas: same model-parallel index => identical; replicated parameters identical across model-parallel peers
            for r in range(W):
                p_, d_, m_ = neoxrun.coord(cfg, r)
                r0 = (p_ * D + 0) * M + m_
                for li, ((a, b), (a0, b0)) in enumerate(zip(w.results[r][ev]['after'], w.results[r0][ev]['after'])):
                    if not torch.equal(a, a0) or (b is not None and not torch.equal(b, b0)):
                        (clipprobs if clip_mp and False else probs).append(f'step {si}: data-parallel replicas {r0} and {r} hold different gradients for layer {li}')
                rp = (p_ * D + d_) * M
                for li, l in enumerate(cfg['layers']):
                    if l[0] == 'row' and l[3]:
                        b, b0 = w.results[r][ev]['after'][li][1], w.results[rp][ev]['after'][li][1]
                        if not torch.equal(b, b0):
                            (clipprobs if clip_mp else probs).append(f'step {si}: replicated bias of row-parallel layer {li} differs between model-parallel peers {rp} and {r}')
            # extracted model on the shards (clipping off, refresh every step)
            if cfg['kl_clip'] is None and cfg['inv_update_steps'] == 1:
                for li, (kind, nin, nout, hb) in enumerate(cfg['layers']):
                    A, G = [x.double().numpy() for x in ref[si]['factors'][li]]
                    da, Qa = np.linalg.eigh(A); dg, Qg = np.linalg.eigh(G)
                    ranks_mp = [(0 * D + 0) * M + j for j in range(M)]
                    wgs = [hexm(w.results[r][ev]['before'][li][0].double().numpy()) for r in ranks_mp]
                    bgs = [hexv(w.results[r][ev]['before'][li][1].double().numpy()) if hb else [] for r in ranks_mp]
                    mo = common.run_model([('neox_precondition', ['input' if kind == 'row' else 'output', M, nout, nin, hb, hexm(Qg), hexv(dg),
                                                                 hexm(Qa), hexv(da), float(cfg['damping']).hex(), wgs, bgs, 0])])[0]
                    vscale = max([float(np.linalg.norm(unhex(x))) for x in mo] + [1e-12])   # a shard may be exactly zero: relative to the whole result
                    for j, r in enumerate(ranks_mp):
                        V = unhex(mo[j])
                        gw, gb = w.results[r][ev]['after'][li]
                        got = gw.double().numpy()
                        if hb:
                            got = np.concatenate([got, gb.double().numpy().reshape(-1, 1)], axis=1)
                        dap, dgp = np.maximum(da, 0), np.maximum(dg, 0)
                        kappa = (dgp.max() * dap.max() + cfg['damping']) / (dgp.min() * dap.min() + cfg['damping'])
                        rel = float(np.linalg.norm(got - V) / vscale)
                        # the implementation decomposes the factors in float32 (backward error ~ n * eps32 * |factor|), the model gets a float64 decomposition
                        if rel > 64 * max(len(da), len(dg)) * EPS32 * max(kappa, 1) + 1e-6:
                            diffs.append(f'step {si} layer {li} model-parallel rank {j}: differs from extracted neox_precondition (rel {rel:.2e})')
        # factors (gathered state) equal the unsharded ones
        for i, e in enumerate(hist):
            if e[0] == 'state_dict':
                for r in range(W):
                    sd = w.results[r][i]['sd']
                    names = list(sd['layers'].keys())
                    if len(names) != len(cfg['layers']):
                        probs.append(f'rank {r}: gathered state has {len(names)} layers, expected {len(cfg["layers"])}')
                        continue
                    for li, nme in enumerate(sorted(names, key=lambda s_: int(s_.split('.')[-1]))):
                        A, G = ref[len(trains) - 1]['factors'][li]
                        if not (torch.equal(sd['layers'][nme]['A'].double(), A.double()) and torch.equal(sd['layers'][nme]['G'].double(), G.double())):
                            probs.append(f'rank {r}: factors of layer {li} differ from those of the unsharded layer')
        if probs or diffs:
            failures.append(Failure(what='; '.join((probs + diffs)[:3])[:500], case=case, impl=(probs + diffs)[:8], model='unsharded reference / Shard.neox_precondition',
                                    oracle_rejects=bool(probs), correspondence=CORRESPONDENCES[0], theorems=THEOREMS,
                                    oracle='unsharded single-process run as metamorphic reference'))
        if clipprobs:
            failures.append(Failure(what=clipprobs[0][:500], case=case, impl=clipprobs[:6], model='clip_sharded_refuted', oracle_rejects=True,
                                    correspondence=CORRESPONDENCES[0], theorems=['clip_sharded_refuted'], signature='neox-clip-M>1',
                                    oracle='unsharded single-process run with clipping'))
    failures += C03.check_proj(projq, CORRESPONDENCES[0], cov)
    cov.extra['max_rel_err_vs_unsharded'] = worst
    cov.extra['collectives_compared_with_neox_generator'] = gen_checked
    return cov, failures


def replay(path):
    from harness import neoxrun
    d = json.load(open(path))
    c = d['case']
    w = neoxrun.run(c['cfg'], c['history'], seed=c['seed'])
    print('ok' if w.ok else (w.errors, w.deadlock, w.exceptions))
    print(d['what'])
    return 1
