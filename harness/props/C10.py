"""C10 — a step touches nothing but the gradients of registered layers."""
from __future__ import annotations

import json
import re

from harness import common
from harness.common import Coverage, Failure

CORRESPONDENCES = [
    'full snapshots (every parameter value, buffer, gradient value / shape / dtype / device / contiguity) before and after '
    'KFACPreconditioner.step() == extracted Frame.step_env prediction (only gradients of registered layers change; metadata preserved)',
    'eval-mode forward/backward passes leave state_dict() and memory_usage() unchanged; attaching a preconditioner does not change '
    'the model outputs or autograd gradients (bit-for-bit against a twin model without K-FAC)',
]
TRUSTED = [
    'Coq 8.16.1 kernel (coqc); extraction with ExtrOcamlBasic only; ocaml/driver.ml; ocamlopt',
    'which modules are registered is determined by an independent walk (as in C16)',
    '"finite whenever its inputs are finite" is monitored on the runs, not proved (no floating-point range analysis)',
    'non-interference of the hooks with autograd is observed, not proved',
]
THEOREMS = ['step_frame', 'meta_preserved', 'eval_inert']
NOTES = 'The theorems are frame lemmas over the model\'s explicit write-set; the strength of this check is the snapshot comparison.'


def build(rng):
    import torch
    nn = torch.nn

    class Scale(nn.Module):          # unsupported module with a parameter
        def __init__(self):
            super().__init__(); self.s = nn.Parameter(torch.tensor(1.5))
        def forward(self, x):
            return x * self.s

    class Res(nn.Module):            # residual block: the conv's output gradient is shared with the skip branch
        def __init__(self, c, o1):
            super().__init__(); self.conv = nn.Conv2d(c, c if not o1 else 1, 3, padding=1); self.o1 = o1
        def forward(self, x):
            y = self.conv(x)
            return x + (y if not self.o1 else y.expand_as(x))

    class MaskedLinear(nn.Linear):   # subclass of a supported layer: class-name patterns are searched anywhere in the name
        pass

    class GatedLinear(nn.Linear):    # a supported type that is NOT a leaf: it owns parameters and holds a child layer
        def __init__(self, n):
            super().__init__(n, n); self.gate = nn.Linear(n, n)
        def forward(self, x):
            return super().forward(x) * torch.sigmoid(self.gate(x))

    kind = rng.choice(['mlp', 'conv', 'conv_o1', 'shared'])
    if kind == 'mlp':
        a, b, c = rng.randint(2, 5), rng.randint(2, 5), rng.randint(1, 4)
        layers = [('fc1', nn.Linear(a, b)), ('bn', nn.BatchNorm1d(b)), ('act', nn.ReLU()), ('scale', Scale()),
                  ('fc2', nn.Linear(b, b, bias=rng.random() < 0.5)), ('ln', nn.LayerNorm(b))] + ([('gated', GatedLinear(b))] if rng.random() < 0.5 else []) + [
                  ('head', (MaskedLinear if rng.random() < 0.5 else nn.Linear)(b, c))]
        x_shape = [rng.randint(2, 5), a]
    elif kind == 'conv':
        c = rng.randint(1, 3)
        layers = [('conv1', nn.Conv2d(c, 2, 3, padding=1)), ('bn', nn.BatchNorm2d(2)), ('act', nn.ReLU()),
                  ('conv2', nn.Conv2d(2, 2, (1, 3), padding=(0, 1), bias=False)), ('flat', nn.Flatten()), ('fc', nn.Linear(2 * 4 * 4, 3))]
        x_shape = [rng.randint(1, 3), c, 4, 4]
    elif kind == 'conv_o1':
        # a first-layer conv with ONE output channel, and a residual sum around a one-channel conv
        layers = [('conv1', nn.Conv2d(2, 1, 3, padding=1)), ('act', nn.ReLU()), ('res', Res(1, True)), ('bn', nn.BatchNorm2d(1)),
                  ('flat', nn.Flatten()), ('fc', nn.Linear(16, 2))]
        x_shape = [rng.randint(1, 3), 2, 4, 4]
    else:
        a = rng.randint(2, 4)
        shared = nn.Linear(a, a)
        layers = [('fc_in', nn.Linear(a, a)), ('s1', shared), ('act', nn.Tanh()), ('s2', shared), ('scale', Scale()), ('out', nn.Linear(a, 2))]
        x_shape = [rng.randint(2, 4), a]
    from collections import OrderedDict
    model = nn.Sequential(OrderedDict(layers))
    # freeze some parameters
    frozen = []
    for name, m in layers:
        if isinstance(m, (nn.Linear, nn.Conv2d)) and rng.random() < 0.2:
            ps = list(m.parameters()); q = rng.choice(ps); q.requires_grad_(False); frozen.append(name)
    skip = rng.sample(['fc2', '^conv2', 'head$', 'LayerNorm', 's1', 'Conv2d$', 'dLinear', 'onv2'], rng.choice([0, 0, 1, 2]))
    return kind, model, x_shape, skip, frozen


def registered_modules(model, skip):
    import torch
    seen, out = set(), []
    for name, m in model.named_modules():
        if id(m) in seen:
            continue
        seen.add(id(m))
        if any(c is not None for c in m._modules.values()):
            continue
        if not isinstance(m, (torch.nn.Linear, torch.nn.Conv2d)):
            continue
        if not all(p.requires_grad for p in m.parameters()):
            continue
        if any(re.search(p, name) for p in skip) or any(re.search(p, m.__class__.__name__) for p in skip):
            continue
        out.append(m)
    return out


def snapshot(model):
    import torch
    ps = []
    for n, p in model.named_parameters():
        g = p.grad
        ps.append((n, p.detach().clone(), None if g is None else (g.detach().clone(), tuple(g.shape), str(g.dtype), str(g.device), g.is_contiguous())))
    bs = [(n, b.detach().clone()) for n, b in model.named_buffers()]
    return ps, bs


def run(tier, seed, rng):
    import copy
    import torch
    from kfac.preconditioner import KFACPreconditioner
    cov = Coverage('random runnable module trees mixing supported layers (Linear, Conv2d incl. one output channel, shared instances) with '
                   'unsupported parametrised ones (BatchNorm, LayerNorm, custom Scale), skip patterns, frozen parameters, float32/float64 '
                   'parameters x factor / inverse dtypes x both methods; non-trivial = at least one registered and one unregistered '
                   'parametrised module; distinct by hash')
    failures: list[Failure] = []
    n = 120 if tier == 'quick' else 1200
    for k in range(n):
        torch.manual_seed(seed + k)
        kind, model, x_shape, skip, frozen = build(rng)
        dt = rng.choice([torch.float32, torch.float32, torch.float64])
        model = model.to(dt)
        twin = copy.deepcopy(model)
        kw = dict(skip_layers=skip, compute_method=rng.choice(['eigen', 'inverse']),
                  compute_eigenvalue_outer_product=rng.random() < 0.5,
                  inv_dtype=rng.choice([torch.float32, torch.float64]), kl_clip=rng.choice([None, 0.001]),
                  factor_update_steps=rng.choice([1, 2]), inv_update_steps=rng.choice([1, 2]))
        fd = rng.choice([None, torch.float32, torch.float64])
        if fd is not None:
            kw['factor_dtype'] = fd
        case = {'kind': kind, 'x_shape': x_shape, 'skip': skip, 'frozen': frozen, 'dtype': str(dt),
                'kw': {a: str(b) for a, b in kw.items()}, 'seed': seed + k}
        probs, diffs = [], []
        try:
            p = KFACPreconditioner(model, **kw)
            reg = registered_modules(model, skip)
            reg_params = {}
            for li, m in enumerate(reg):
                reg_params[id(m.weight)] = (li, 0)
                if getattr(m, 'bias', None) is not None:
                    reg_params[id(m.bias)] = (li, 1)
            nsteps = rng.randint(1, 3)
            for st in range(nsteps):
                g = torch.Generator().manual_seed(seed + 31 * k + st)
                x = torch.randn(x_shape, generator=g, dtype=torch.float64).to(dt)
                # --- registration transparency: outputs and autograd gradients equal a twin model without K-FAC ---
                model.zero_grad(); twin.zero_grad()
                y = model(x); y2 = twin(x)
                wts = torch.randn(y.shape, generator=g, dtype=torch.float64).to(dt)
                (y * wts).sum().backward(); (y2 * wts).sum().backward()
                if not torch.equal(y, y2):
                    probs.append(f'step {st}: model output changed by registering K-FAC')
                for (n1, q1), (n2, q2) in zip(model.named_parameters(), twin.named_parameters()):
                    if (q1.grad is None) != (q2.grad is None) or (q1.grad is not None and not torch.equal(q1.grad, q2.grad)):
                        probs.append(f'step {st}: autograd gradient of {n1} changed by registering K-FAC')
                before_p, before_b = snapshot(model)
                p.step()
                after_p, after_b = snapshot(model)
                # --- model prediction ---
                ents = []
                names = []
                for (nme, val, gr), q in zip(before_p, [q for _, q in model.named_parameters()]):
                    l, b = reg_params.get(id(q), (-1, 0))
                    dtc = {'torch.float32': 0, 'torch.float64': 1, 'torch.float16': 2}
                    if gr is None:
                        ents.append([l, b, len(ents), -1, [], 0, 0, 1])
                    else:
                        ents.append([l, b, len(ents), 500 + len(ents), list(gr[1]), dtc[gr[2]], 0, int(gr[4])])
                    names.append(nme)
                mo = common.run_model([('frame_step', [0, ents, list(range(len(before_b)))])])[0]
                m_params, m_bufs, m_touched = mo
                for i, ((nme, v0, g0), (_, v1, g1)) in enumerate(zip(before_p, after_p)):
                    if not torch.equal(v0, v1):
                        probs.append(f'step {st}: parameter {nme} changed')
                    changed = (g0 is None) != (g1 is None) or (g0 is not None and not torch.equal(g0[0], g1[0]))
                    if changed and not m_touched[i]:
                        probs.append(f'step {st}: gradient of {nme} (not a registered layer) changed')
                    if g0 is not None and g1 is not None:
                        if g0[1:4] != g1[1:4]:
                            probs.append(f'step {st}: gradient of {nme} changed shape/dtype/device: {g0[1:4]} -> {g1[1:4]}')
                        if m_touched[i] and not g1[4]:
                            probs.append(f'step {st}: gradient of {nme} is not contiguous after the step')
                        if not torch.isfinite(g1[0]).all():
                            probs.append(f'step {st}: gradient of {nme} is not finite')
                        if m_touched[i] and not changed and float(g0[0].abs().max()) > 0:
                            diffs.append(f'step {st}: gradient of registered {nme} did not change')
                for (nme, b0), (_, b1) in zip(before_b, after_b):
                    if not torch.equal(b0, b1):
                        probs.append(f'step {st}: buffer {nme} changed by step()')
                # --- eval-mode passes leave all K-FAC state unchanged ---
                sd0 = copy.deepcopy(p.state_dict()); mu0 = dict(p.memory_usage())
                model.eval(); twin.eval()
                ye = model(x); (ye * wts).sum().backward()
                model.train(); twin.train()
                sd1 = p.state_dict(); mu1 = dict(p.memory_usage())
                same = mu0 == mu1 and sd0['steps'] == sd1['steps']
                for nme in sd0['layers']:
                    for key in ('A', 'G'):
                        a, b = sd0['layers'][nme][key], sd1['layers'][nme][key]
                        same = same and ((a is None and b is None) or (a is not None and b is not None and torch.equal(a, b)))
                if not same:
                    probs.append(f'step {st}: an eval-mode pass changed the K-FAC state')
            # --- behavioural form: an eval-mode pass BETWEEN two accumulated micro-batches must not shift anything ---
            ma, mb = copy.deepcopy(twin), copy.deepcopy(twin)
            kw2 = dict(kw); kw2['accumulation_steps'] = 2; kw2['factor_update_steps'] = 1; kw2['inv_update_steps'] = 1
            pa, pb = KFACPreconditioner(ma, **kw2), KFACPreconditioner(mb, **kw2)
            g = torch.Generator().manual_seed(seed + 77 * k)
            xs = [torch.randn(x_shape, generator=g, dtype=torch.float64).to(dt) for _ in range(3)]
            for mm, pp, with_eval in ((ma, pa, False), (mb, pb, True)):
                mm.train(); mm.zero_grad()
                for j in (0, 1):
                    yy = mm(xs[j]); (yy * wts).sum().backward()
                    if with_eval and j == 0:
                        mm.eval()
                        xe = xs[2].clone().requires_grad_(True)
                        torch.autograd.grad((mm(xe) * wts).sum(), xe)     # backward without touching parameter gradients
                        mm.train()
                pp.step()
            sda, sdb = pa.state_dict(), pb.state_dict()
            for nme in sda['layers']:
                for key in ('A', 'G'):
                    a, b = sda['layers'][nme][key], sdb['layers'][nme][key]
                    if (a is None) != (b is None) or (a is not None and not torch.equal(a, b)):
                        probs.append(f'an eval-mode pass between two accumulated micro-batches changed factor {key} of {nme}')
            for (n1, q1), (n2, q2) in zip(ma.named_parameters(), mb.named_parameters()):
                if (q1.grad is None) != (q2.grad is None) or (q1.grad is not None and not torch.equal(q1.grad, q2.grad)):
                    probs.append(f'an eval-mode pass between two accumulated micro-batches changed the preconditioned gradient of {n1}')
            nreg = len(reg)
            nun = sum(1 for m in model.modules() if not any(True for _ in m.children()) and list(m.parameters()) and m not in reg)
            cov.add(case, nreg >= 1 and nun >= 1, sample_cap=3)
            cov.count('kind', kind); cov.count('dtype', str(dt)); cov.count('registered', nreg); cov.count('skip', len(skip))
        except Exception as e:  # noqa: BLE001
            probs.append(f'raised {type(e).__name__}: {e}'[:300])
        if probs or diffs:
            failures.append(Failure(what='; '.join((probs + diffs)[:3])[:500], case=case, impl=(probs + diffs)[:8], model='Frame.step_env',
                                    oracle_rejects=bool(probs), correspondence=CORRESPONDENCES[0 if any('step' in p and ('gradient' in p or 'parameter' in p or 'buffer' in p) for p in probs) else 1],
                                    theorems=THEOREMS, oracle='the snapshots themselves (property text)'))
    # ---- "finite whenever its inputs are finite", at the edge of the factor dtype's range: float16 factors, thousands of rows per
    # pass, activations of magnitude ~4 (rows * mean(a^2) is above the float16 maximum, every entry of the batch second moment is not) ----
    for k in range(4 if tier == 'quick' else 24):
        torch.manual_seed(seed + 5000 + k)
        nin, nout = rng.randint(2, 8), rng.randint(2, 6)
        B, T = rng.choice([(16, 512), (8, 1024), (32, 512)])
        method = rng.choice(['eigen', 'inverse'])
        model = torch.nn.Sequential(torch.nn.Linear(nin, nout), torch.nn.Tanh(), torch.nn.Linear(nout, 2))
        case = {'kind': 'fp16-range', 'nin': nin, 'nout': nout, 'rows': B * T, 'method': method, 'seed': seed + 5000 + k}
        probs = []
        try:
            p = KFACPreconditioner(model, factor_dtype=torch.float16, compute_method=method, kl_clip=None, damping=0.01)
            for st in range(2):
                model.zero_grad()
                x = torch.randn(B, T, nin) * 4.0
                (model(x) * torch.randn(B, T, 2)).sum().div(B * T).backward()
                fin_in = all(bool(torch.isfinite(q.grad).all()) for q in model.parameters())
                p.step()
                for nme, q in model.named_parameters():
                    if fin_in and not bool(torch.isfinite(q.grad).all()):
                        probs.append(f'step {st}: gradient of {nme} is not finite after step() although every input was '
                                     f'({int((~torch.isfinite(q.grad)).sum())}/{q.grad.numel()} entries; float16 factors, {B * T} rows)')
        except Exception as e:  # noqa: BLE001
            probs.append(f'raised {type(e).__name__}: {e}'[:300])
        cov.add(case, True, sample_cap=1); cov.count('kind', 'fp16-range')
        if probs:
            failures.append(Failure(what='; '.join(probs[:3])[:500], case=case, impl=probs[:8], model='Frame.step_env', oracle_rejects=True,
                                    correspondence=CORRESPONDENCES[0], theorems=THEOREMS, oracle='finite gradients in, finite gradients out (property text)'))
    for k in range(4 if tier == 'quick' else 16):
        torch.manual_seed(seed + 6000 + k)
        method = rng.choice(['eigen', 'inverse'])
        model = torch.nn.Sequential(torch.nn.Linear(6, 5), torch.nn.Tanh(), torch.nn.Linear(5, 3)).half()
        case = {'kind': 'fp16-params-clip', 'method': method, 'seed': seed + 6000 + k}
        probs = []
        try:
            ls = 2.0 ** 16                                   # a static loss scale (GradScaler's default initial scale)
            p = KFACPreconditioner(model, compute_method=method, factor_dtype=torch.float32, inv_dtype=torch.float32, lr=0.1, grad_scaler=lambda: ls)
            for st in range(2):
                model.zero_grad()
                x = (torch.rand(32, 6) * 4 + 1).half()
                (torch.nn.functional.mse_loss(model(x).float(), torch.randn(32, 3)) * ls).backward()
                fin_in = all(bool(torch.isfinite(q.grad).all()) for q in model.parameters())
                p.step()
                for nme, q in model.named_parameters():
                    if fin_in and not bool(torch.isfinite(q.grad).all()):
                        probs.append(f'step {st}: gradient of {nme} (float16 parameters, loss scale 2^16, clipping on) is not finite after step() although every input was')
        except Exception as e:  # noqa: BLE001
            probs.append(f'raised {type(e).__name__}: {e}'[:300])
        cov.add(case, True, sample_cap=1); cov.count('kind', 'fp16-params-clip')
        if probs:
            failures.append(Failure(what='; '.join(probs[:3])[:500], case=case, impl=probs[:8], model='Frame.step_env', oracle_rejects=True,
                                    correspondence=CORRESPONDENCES[0], theorems=THEOREMS, oracle='finite gradients in, finite gradients out (property text)'))
    for k in range(2 if tier == 'quick' else 8):
        torch.manual_seed(seed + 6500 + k)
        method = rng.choice(['eigen', 'inverse'])
        model = torch.nn.Sequential(torch.nn.Linear(4, 3), torch.nn.Tanh(), torch.nn.Linear(3, 2, bias=False)).to(torch.bfloat16)
        case = {'kind': 'wide-gradients', 'method': method, 'seed': seed + 6500 + k}
        probs = []
        try:
            p = KFACPreconditioner(model, compute_method=method, kl_clip=None)
            model(torch.randn(8, 4).to(torch.bfloat16)).float().sum().backward()
            for q in model.parameters():
                g32 = q.grad.float() * 1.0009765625          # not representable in bfloat16
                q.grad_dtype = None                           # torch's per-parameter switch: the gradient may differ from the parameter dtype
                q.grad = g32
            before = {n_: (q.grad.dtype, q.grad.shape) for n_, q in model.named_parameters()}
            p.step()
            for n_, q in model.named_parameters():
                if (q.grad.dtype, q.grad.shape) != before[n_]:
                    probs.append(f'gradient of {n_}: dtype/shape {before[n_]} before the step, {(q.grad.dtype, q.grad.shape)} after')
        except Exception as e:  # noqa: BLE001
            probs.append(f'raised {type(e).__name__}: {e}'[:300])
        cov.add(case, True, sample_cap=1); cov.count('kind', 'wide-gradients')
        if probs:
            failures.append(Failure(what='; '.join(probs[:3])[:500], case=case, impl=probs[:8], model='Frame.step_env', oracle_rejects=True,
                                    correspondence=CORRESPONDENCES[0], theorems=THEOREMS, oracle='a step keeps shape, dtype, device and contiguity of every registered gradient'))
    # ---- outputs / autograd gradients with and without K-FAC under one seed, stochastic layer after a registered conv, small and LARGE
    # feature maps (> 2**17 patches per pass) ----
    for k, (B, HW) in enumerate([(4, 16), (8, 144)] if tier == 'quick' else [(4, 16), (8, 144), (2, 300), (16, 96)]):
        torch.manual_seed(seed + 7000 + k)
        base = torch.nn.Sequential(torch.nn.Conv2d(1, 2, 1), torch.nn.ReLU(), torch.nn.Dropout(0.5), torch.nn.AdaptiveAvgPool2d(3),
                                   torch.nn.Flatten(), torch.nn.Linear(18, 3))
        twin = copy.deepcopy(base)
        pk = KFACPreconditioner(base)
        x = torch.randn(B, 1, HW, HW); wts = torch.randn(B, 3)
        outs = []
        for mdl in (base, twin):
            torch.manual_seed(seed + 7100 + k)
            mdl.train(); mdl.zero_grad()
            y = mdl(x)
            (y * wts).sum().backward()
            outs.append((y.detach().clone(), [q.grad.detach().clone() for q in mdl.parameters()], torch.get_rng_state().clone()))
        case = {'kind': 'rng-transparency', 'batch': B, 'size': HW, 'patches': B * HW * HW, 'seed': seed + 7000 + k}
        cov.add(case, True, sample_cap=1); cov.count('kind', 'rng-transparency')
        probs = []
        if not torch.equal(outs[0][0], outs[1][0]):
            probs.append(f'registering K-FAC changed the model output under a fixed seed (max diff {float((outs[0][0] - outs[1][0]).abs().max()):.2e}; {B * HW * HW} patches)')
        if any(not torch.equal(a, b) for a, b in zip(outs[0][1], outs[1][1])):
            probs.append('registering K-FAC changed the autograd gradients under a fixed seed')
        if not torch.equal(outs[0][2], outs[1][2]):
            probs.append('the forward/backward pass with K-FAC registered consumed global random numbers')
        if probs:
            failures.append(Failure(what='; '.join(probs)[:500], case=case, impl=probs, model='Frame.step_env', oracle_rejects=True,
                                    correspondence=CORRESPONDENCES[1], theorems=THEOREMS, oracle='same seed, same model: same outputs and gradients with and without K-FAC'))
    return cov, failures


def replay(path):
    d = json.load(open(path))
    print(d['case']); print(d['what'])
    return 1
