"""C07 — KL clipping bounds the update and only rescales it."""
from __future__ import annotations

import json
import random

import numpy as np

from harness import common
from harness.common import Coverage, Failure
from harness.props.C01 import combined_grad, hexm

CORRESPONDENCES = [
    'the factor applied by step() (common ratio of clipped and unclipped gradients over all layers, entries and ranks) == '
    'extracted Clip.nu / vg_sum (IEEE double reading) on (V, D, lr, kl_clip); kl_clip=None leaves V unscaled',
]
TRUSTED = [
    'Coq 8.16.1 kernel (coqc); real-number axioms of the standard library',
    'extraction with ExtrOcamlBasic only; ocaml/driver.ml (IEEE-double instance); ocamlopt; harness/simdist.py',
    'sqrt and the float32 .sum().item() accumulation are compared with tolerance 2e-5; rounding is not modelled',
    'the unclipped V is obtained from a second run with kl_clip=None on the identical state (weights are never updated by the harness)',
]
THEOREMS = ['vg_sum_is_scaled_inner', 'nu_formula', 'nu_range', 'nu_bound', 'nu_zero', 'nu_tight', 'inner_split', 'only_rescales', 'clip_none_identity', 'same_scale_on_every_rank']
NOTES = 'That one nu is shared by all ranks is same_scale_on_every_rank (corollary of C02 transparency); the tie computes the ratio jointly over ranks.'


def run_pair(cfg, hist, seed):
    import torch
    from harness import kfacrun
    mods_of = lambda model: [m for m in model if isinstance(m, (torch.nn.Linear, torch.nn.Conv2d))]
    pre = lambda r, ev, model, p: ([combined_grad(m) for m in mods_of(model)], p.lr, p.kl_clip,
                                   [int(getattr(m, 'bias', None) is not None) for m in mods_of(model)])
    obs = lambda r, ev, e, model, p: [combined_grad(m) for m in mods_of(model)] if e[0] == 'train' else None
    cfgB = dict(cfg); cfgB['kl_clip'] = None
    if cfg.get('sched'):
        cfgB['sched'] = {a: b for a, b in cfg['sched'].items() if a != 'kl_clip'}
    wa = kfacrun.run(cfg, hist, cfg['W'], seed=seed, observe=obs, pre_step=pre)
    wb = kfacrun.run(cfgB, hist, cfg['W'], seed=seed, observe=obs, pre_step=pre)
    return wa, wb


def split(res):
    pres = [x for x in res if isinstance(x, tuple) and len(x) == 3 and x[0] == 'pre']
    posts = [x for x in res if x is not None and not (isinstance(x, tuple) and len(x) == 3 and x[0] == 'pre')]
    return pres, posts


def mixed_precision_case(rng, seed, k):
    """Parameters of different dtypes in one model: a float32 body and a small LAST-registered bfloat16 / float16 auxiliary head whose
    share of <V, D> is negligible.  The applied factor (measured on the float32 layers) must still be min(1, sqrt(kl / |s|)) with s summed
    in at least float32 - not in the dtype of whichever layer happens to be visited first."""
    import torch
    from harness import simdist
    from kfac.preconditioner import KFACPreconditioner
    low = rng.choice([torch.bfloat16, torch.float16])
    nin, nh, nout = rng.randint(2, 4), rng.randint(2, 5), rng.randint(2, 3)
    lr = rng.choice([0.5, 1.0, 0.125]); kl = rng.choice([1e-6, 1e-5, 1e-7])
    method = rng.choice(['eigen', 'inverse'])
    b2 = rng.random() < 0.5

    class Mixed(torch.nn.Module):
        def __init__(self):
            super().__init__()
            self.body = torch.nn.Sequential(torch.nn.Linear(nin, nh), torch.nn.Tanh(), torch.nn.Linear(nh, nout, bias=b2))
            self.aux = torch.nn.Linear(nout, 1).to(low)

        def forward(self, x):
            y = self.body(x)
            return y, self.aux((y.detach() * 2.0 ** -6).to(low))
    simdist.install()
    ms = []
    for clip in (kl, None):
        torch.manual_seed(seed + k)
        m = Mixed()
        p = KFACPreconditioner(m, kl_clip=clip, lr=lr, damping=0.5, compute_method=method, factor_update_steps=1, inv_update_steps=1)
        g = torch.Generator().manual_seed(seed + k + 1)
        x = torch.randn(8, nin, generator=g); w = torch.randn(8, nout, generator=g)
        y, z = m(x)
        ((y * w).sum() + z.float().sum() * 2.0 ** -6).backward()
        mods = [m.body[0], m.body[2], m.aux]
        D = [combined_grad(q) for q in mods]
        p.step()
        ms.append((D, [combined_grad(q) for q in mods]))
    (D, A_after), (_, V) = ms
    hb = [1, int(b2), 1]
    layers = [[d.shape[0], d.shape[1] - b, b, hexm(v), hexm(d)] for d, v, b in zip(D, V, hb)][::-1]
    s_hex, nu_hex = common.run_model([('clip', [float(lr).hex(), float(kl).hex(), layers])])[0]
    nu_model = 1.0 if nu_hex == 'none' else float.fromhex(nu_hex)
    num = sum(float((a * v).sum()) for a, v in zip(A_after[:2], V[:2])); den = sum(float((v * v).sum()) for v in V[:2])
    nu_impl = num / den if den > 0 else 1.0
    s64 = sum(float((v * d).sum()) for v, d in zip(V, D)) * lr * lr
    case = {'kind': 'mixed-precision', 'low': str(low), 'dims': [nin, nh, nout], 'lr': lr, 'kl_clip': kl, 'method': method, 'seed': seed + k}
    probs = []
    if abs(nu_impl - nu_model) > 2e-5 * max(1.0, nu_model):
        probs.append(f'applied factor {nu_impl:.8g} != min(1, sqrt(kl/|s|)) = {nu_model:.8g} with a {low} layer registered last (s = {s64:.6g})')
    if nu_impl ** 2 * abs(s64) > kl * (1 + 1e-4) + 1e-12:
        probs.append(f'nu^2 lr^2 |sum<V,D>| = {nu_impl ** 2 * abs(s64):.6g} exceeds kl_clip = {kl}')
    return case, probs, nu_model


def run(tier, seed, rng):
    from harness import kfacgen
    cov = Coverage('random models / strategies (worlds 1-4) x lr and kl_clip constant, callable (tables) or None x clipping active '
                   '(tiny kl), inactive (huge kl), zero gradients and NEGATIVE inner products (negative definite factors loaded from a checkpoint, explicit inverses) x 1-3 steps; non-trivial = clipping active (nu < 1) with >= 2 '
                   'layers; distinct by hash')
    failures: list[Failure] = []
    n = 60 if tier == 'quick' else 600
    maxdev = 0.0
    for k in range(n):
        cfg = kfacgen.gen_cfg(rng, tier, worlds=(1, 1, 2, 4), allow_callable=False)
        mode = rng.choice(['tiny', 'tiny', 'huge', 'table', 'none', 'mid']) if k % 6 else 'small'
        cfg['kl_clip'] = {'tiny': 1e-6, 'huge': 1e9, 'mid': 0.05, 'none': None, 'small': 1e-9,
                          'table': ['table', [rng.choice([1e-6, 1e-3, 1e3]) for _ in range(8)]]}[mode]
        cfg['lr'] = rng.choice([0.5, 1.0, 0.125, ['table', [rng.choice([0.5, 2.0, 0.25]) for _ in range(8)]]])
        if k % 6 == 3 and mode in ('tiny', 'mid', 'huge'):
            mode = 'int'; cfg['kl_clip'] = 1; cfg['lr'] = rng.choice([64.0, 256.0])
        if mode == 'small':
            # |s| = lr^2 |sum <V, D>| lands between kl_clip = 1e-9 and the float32 machine epsilon: small but NOT zero, clipping binds
            cfg['lr'] = rng.choice([1e-4, 3e-5])
        cfg['inv_update_steps'] = 1; cfg['factor_update_steps'] = 1
        if k % 5 == 2:
            # stratum: explicit inverses broadcast as packed triangles to several gradient workers (INVERSE, symmetry_aware, k > 1):
            # the inverse worker and the receivers must precondition with the same matrix, bit for bit
            cfg['W'] = rng.choice([2, 4]); cfg['k'] = rng.choice([2, cfg['W']]); cfg['grad_worker_fraction'] = cfg['k'] / cfg['W']
            cfg['compute_method'] = 'inverse'; cfg['compute_eigenvalue_outer_product'] = False; cfg['symmetry_aware'] = True
            if mode in ('none', 'huge'):
                cfg['kl_clip'] = 1e-6
        if k % 5 == 4:
            cfg['grad_scale'] = rng.choice([1024.0, 65536.0])
        zero = rng.random() < 0.1
        if zero:
            cfg['zero_grads'] = True
        hist = [['train', cfg['accumulation_steps']] for _ in range(rng.randint(1, 3))]
        if k % 4 == 1 and not isinstance(cfg['lr'], list) and mode not in ('none',):
            # a scheduler multiplies the constant lr (and a constant kl_clip) between the steps
            cfg['sched'] = {'lr': ['table', [rng.choice([2.0, 0.5, 4.0]) for _ in range(8)]]}
            if not isinstance(cfg['kl_clip'], list) and cfg['kl_clip'] is not None:
                cfg['sched']['kl_clip'] = ['table', [rng.choice([2.0, 0.5]) for _ in range(8)]]
            hist = [['train', cfg['accumulation_steps']], ['sched', None], ['train', cfg['accumulation_steps']], ['sched', None], ['train', cfg['accumulation_steps']]]
        if k % 10 == 8:
            # stratum: negative inner product.  Factors restored from a checkpoint with negative definite A and explicit inverses make
            # lr^2 sum <V, D> < 0; the property bounds its ABSOLUTE value, so the clip must bind exactly as for a positive sum
            mode = 'negative'; cfg['compute_method'] = 'inverse'; cfg['compute_eigenvalue_outer_product'] = False
            cfg['factor_update_steps'] = 1000; cfg['sched'] = None
            if cfg['kl_clip'] is None or isinstance(cfg['kl_clip'], list) or cfg['kl_clip'] >= 1:
                cfg['kl_clip'] = 1e-6
            hist = [['train', cfg['accumulation_steps']], ['load', True, True, 'negA'], ['train', cfg['accumulation_steps']]]
        wa, wb = run_pair(cfg, hist, seed + k)
        case = {'cfg': cfg, 'history': hist, 'seed': seed + k, 'mode': mode}
        if not (wa.ok and wb.ok):
            failures.append(Failure(what=f'run failed: {wa.errors[:1]} {wa.exceptions} {wb.exceptions}'[:400], case=case, oracle_rejects=True,
                                    correspondence=CORRESPONDENCES[0], theorems=THEOREMS, oracle='constructor / step must accept the configuration'))
            continue
        pa0, qa0 = split(wa.results[0])
        for si in range(len(pa0)):
            # gather over ranks
            num = den = 0.0
            per_rank = []
            for r in range(cfg['W']):
                pa, qa = split(wa.results[r]); pb, qb = split(wb.results[r])
                D, lr, kl, hb = pa[si][2]
                A_after, V = qa[si], qb[si]
                per_rank.append((D, lr, kl, hb, A_after, V))
                for a, v in zip(A_after, V):
                    num += float((a * v).sum()); den += float((v * v).sum())
            nu_impl = num / den if den > 0 else 1.0
            D, lr, kl, hb, A_after, V = per_rank[0]
            layers = [[d.shape[0], d.shape[1] - b, b, hexm(v), hexm(d)] for d, v, b in zip(D, V, hb)][::-1]
            s_hex, nu_hex = common.run_model([('clip', [float(lr).hex(), 'none' if kl is None else float(kl).hex(), layers])])[0]
            s_model = float.fromhex(s_hex)
            nu_model = 1.0 if nu_hex == 'none' else float.fromhex(nu_hex)
            nontriv = nu_model < 1.0 and len(D) >= 2
            cov.add(dict(case, step=si), nontriv, sample_cap=2)
            cov.count('mode', mode); cov.count('W', cfg['W']); cov.count('clipped', nu_model < 1.0); cov.count('negative_sum', s_model < 0)
            probs = []
            # one scalar for all layers, entries and ranks
            for r, (D_r, _, _, _, A_r, V_r) in enumerate(per_rank):
                for li, (a, v) in enumerate(zip(A_r, V_r)):
                    dev = float(np.abs(a - nu_impl * v).max()) / max(float(np.abs(v).max()), 1e-30)
                    maxdev = max(maxdev, dev)
                    if dev > 2e-5:
                        probs.append(f'rank {r} layer {li}: gradients are not {nu_impl:.6g} * V (deviation {dev:.2e})')
                if kl is None and any(not np.array_equal(a, v) for a, v in zip(A_r, V_r)):
                    probs.append(f'rank {r}: kl_clip=None changed the preconditioned gradients')
                # one scalar, one V: every rank ends the step with bit-identical gradients
                if r > 0 and any(not np.array_equal(a, a0) for a, a0 in zip(A_r, per_rank[0][4])):
                    probs.append(f'rank {r}: final gradients are not bit-identical to those of rank 0 (the ranks did not apply one common scalar to one common V)')
            if abs(nu_impl - nu_model) > 2e-5 * max(1.0, nu_model):
                probs.append(f'applied factor {nu_impl:.8g} != min(1, sqrt(kl/|s|)) = {nu_model:.8g} (s = {s_model:.6g})')
            # oracle: the property inequality, in float64 from the implementation's own outputs
            orc = False
            if kl is not None:
                s64 = sum(float((v * d).sum()) for v, d in zip(V, D)) * lr * lr
                if nu_impl <= 0 or nu_impl > 1 + 1e-6 or nu_impl ** 2 * abs(s64) > kl * (1 + 1e-4) + 1e-12:
                    orc = True
                want = 1.0 if s64 == 0 else min(1.0, (kl / abs(s64)) ** 0.5)
                if abs(want - nu_impl) > 1e-4 * max(1.0, want):
                    orc = True
            if probs:
                failures.append(Failure(what='; '.join(probs[:3])[:500], case=dict(case, step=si), model={'s': s_model, 'nu': nu_model},
                                        impl={'nu': nu_impl}, oracle_rejects=bool(orc or any('not' in p or 'changed' in p for p in probs)),
                                        correspondence=CORRESPONDENCES[0], theorems=THEOREMS,
                                        oracle='0 < nu <= 1, nu^2 lr^2 |sum<V,D>| <= kl, nu = min(1, sqrt(kl/|s|)) in float64'))
    # mixed parameter dtypes (float32 body, low-precision layer registered last)
    for k in range(12 if tier == 'quick' else 120):
        case, probs, nu_m = mixed_precision_case(rng, seed, k)
        cov.add(case, nu_m < 1.0, sample_cap=2); cov.count('mode', 'mixed-precision')
        if probs:
            failures.append(Failure(what='; '.join(probs)[:500], case=case, oracle_rejects=True, correspondence=CORRESPONDENCES[0], theorems=THEOREMS,
                                    oracle='nu = min(1, sqrt(kl/|s|)) in float64 from the implementation\'s own V and D; nu^2 lr^2 |s| <= kl'))
    # constructor accepts None, positive constants and callables; rejects non-positive constants
    import torch
    from kfac.preconditioner import KFACPreconditioner
    for val, ok in ((None, True), (0.001, True), ((lambda s: 0.1), True), (0.0, False), (-1.0, False)):
        try:
            KFACPreconditioner(torch.nn.Linear(2, 2), kl_clip=val)
            got = True
        except ValueError:
            got = False
        except Exception as e:  # noqa: BLE001
            got = f'{type(e).__name__}'
        cov.add({'kind': 'ctor', 'kl_clip': str(val)}, True)
        if got != ok:
            failures.append(Failure(what=f'constructor with kl_clip={val}: accepted={got}, expected {ok}', case={'kind': 'ctor', 'kl_clip': str(val)},
                                    oracle_rejects=True, correspondence=CORRESPONDENCES[0], theorems=['clip_none_identity'],
                                    oracle='None, positive constants and callables accepted; non-positive constants rejected'))
    cov.extra['max_deviation_from_common_scalar'] = maxdev
    return cov, failures


def replay(path):
    d = json.load(open(path))
    c = d['case']
    if c.get('kind') == 'ctor':
        print(c); return 1
    wa, wb = run_pair(c['cfg'], c['history'], c['seed'])
    print('ok' if wa.ok and wb.ok else (wa.errors, wa.exceptions))
    for r in range(c['cfg']['W']):
        pa, qa = split(wa.results[r]); pb, qb = split(wb.results[r])
        for si in range(len(pa)):
            num = sum(float((a * v).sum()) for a, v in zip(qa[si], qb[si])); den = sum(float((v * v).sum()) for v in qb[si])
            print('rank', r, 'step', si, 'applied factor', num / den if den else None)
    return 1
