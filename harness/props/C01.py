"""C01 — the preconditioned gradient solves the damped Kronecker-factored system."""
from __future__ import annotations

import json

import numpy as np

from harness import common
from harness.common import Coverage, Failure

CORRESPONDENCES = [
    'gradients after KFACPreconditioner.step() == nu * V with V the extracted pre_inverse / pre_eigen / pre_eigen_prediv '
    '(IEEE double reading of the proved terms) on the layer\'s factors (state_dict), combined gradient and damping; '
    'LAPACK oracles (float64 eigh / inv) satisfy the theorem hypotheses on the values used',
]
TRUSTED = [
    'Coq 8.16.1 kernel (coqc); real-number axioms of the standard library (see Print Assumptions)',
    'extraction with ExtrOcamlBasic only; ocaml/driver.ml supplies the IEEE-double instance of the arithmetic record; ocamlopt',
    'rounding is not modelled: theorems are over R; agreement is within tol = c * eps32 * kappa (kappa recorded per case)',
    'torch.linalg.eigh / inv are oracles: the harness checks orthogonality / inverse residuals of the float64 decompositions it feeds the model',
    'the non-symmetric torch.linalg.eig branch is unreachable for the supported helpers and is not modelled',
]
THEOREMS = ['inverse_solves', 'eigen_solves', 'eigen_prediv_solves', 'psd_projection_id', 'solution_unique', 'writeback_roundtrip']
NOTES = 'Tolerances are empirical (float32 eigendecomposition inside the implementation); mutants change the result by O(1).'

EPS32 = 1.1920929e-07


def hexm(a):
    return [[float(x).hex() for x in row] for row in np.asarray(a, dtype=np.float64)]


def hexv(a):
    return [float(x).hex() for x in np.asarray(a, dtype=np.float64)]


def unhex(m):
    return np.array([[float.fromhex(x) for x in row] for row in m], dtype=np.float64)


def combined_grad(module):
    """D: one row per output unit, columns = flattened input features then bias (property text)."""
    w = module.weight.grad.detach().to('cpu').double().numpy()
    D = w.reshape(w.shape[0], -1)
    if getattr(module, 'bias', None) is not None:
        D = np.concatenate([D, module.bias.grad.detach().double().numpy().reshape(-1, 1)], axis=1)
    return D


def psd(rng, n, spectrum):
    q, _ = np.linalg.qr(rng.standard_normal((n, n)))
    return (q * spectrum) @ q.T


def gen_case(rng, tier):
    layers = []
    kind = rng.choice(['linear', 'linear', 'conv', 'mlp', 'linear_nd'])
    if kind == 'linear':
        i, o = rng.integers(1, 9), rng.integers(1, 9)
        layers = [('linear', int(i), int(o), int(rng.integers(0, 2)))]
        in_shape = [int(i)]
    elif kind == 'linear_nd':
        i, o = rng.integers(1, 6), rng.integers(1, 6)
        layers = [('linear', int(i), int(o), int(rng.integers(0, 2)))]
        in_shape = [int(rng.integers(1, 4)), int(i)]
    elif kind == 'conv':
        c, o = int(rng.integers(1, 4)), int(rng.integers(1, 4))
        kh, kw = int(rng.integers(1, 4)), int(rng.integers(1, 4))
        layers = [('conv', c, o, [kh, kw], [int(rng.integers(1, 3)), int(rng.integers(1, 3))], [int(rng.integers(0, 2)), int(rng.integers(0, 3))], int(rng.integers(0, 2)))]
        in_shape = [c, int(rng.integers(kh, kh + 4)), int(rng.integers(kw, kw + 4))]
    else:
        a, b, c = int(rng.integers(2, 6)), int(rng.integers(2, 6)), int(rng.integers(1, 5))
        layers = [('linear', a, b, 1), ('tanh',), ('linear', b, c, int(rng.integers(0, 2)))]
        in_shape = [a]
    method = str(rng.choice(['eigen', 'inverse']))
    c_ = {
        'model': layers, 'in_shape': in_shape, 'batch': int(rng.integers(1, 6)),
        'method': method, 'prediv': bool(rng.integers(0, 2)),
        'damping': float(rng.choice([1.0, 0.1, 0.01, 0.003])),
        'kl_clip': None if rng.random() < 0.7 else float(rng.choice([1e-4, 1e-2, 10.0])),
        'lr': float(rng.choice([0.1, 1.0])),
        'inject': bool(rng.random() < 0.6),
        'rankdef': bool(rng.random() < 0.3),
        'negeig': bool(rng.random() < 0.3),
        'model_dtype': str(rng.choice(['float32', 'float32', 'float64'])),
        'factor_dtype': str(rng.choice(['None', 'float32', 'float64'])),
        'inv_dtype': str(rng.choice(['float32', 'float64'])),
        'steps': int(rng.integers(1, 4)),
        'seed': int(rng.integers(0, 2 ** 31)),
    }
    # stratum (derived from the case seed, so the random stream of the other fields is unchanged): a damping schedule together
    # with inverse refreshes that are more frequent than factor refreshes; on every inverse-update step the second-order data must
    # be rebuilt from the current factors AND the current damping, whether or not a factor changed since the last refresh
    sd_ = c_['seed']
    if not c_['inject'] and sd_ % 3 == 0:
        c_['sched'] = True
        c_['factor_update_steps'] = [2, 4][(sd_ // 3) % 2]
        c_['inv_update_steps'] = [1, 2][(sd_ // 6) % 2]
        c_['steps'] = c_['steps'] + 3
    return c_


def run_impl(c):
    """Returns, per step and registered layer: A, G, D (before), grad after, damping, nu-relevant data."""
    import torch
    from harness import kfacrun
    from kfac.preconditioner import KFACPreconditioner
    torch.manual_seed(c['seed'])
    dtype = getattr(torch, c['model_dtype'])
    model = kfacrun.make_model(c['model'], c['seed'] % 1000, dtype)
    with torch.no_grad():
        for p_ in model.parameters():
            p_.copy_(torch.randn(p_.shape, dtype=torch.float64).to(dtype) * 0.5)
    kw = dict(compute_method=c['method'], compute_eigenvalue_outer_product=c['prediv'], damping=c['damping'],
              kl_clip=c['kl_clip'], lr=c['lr'], inv_dtype=getattr(torch, c['inv_dtype']),
              factor_decay=0.5)
    if c['factor_dtype'] != 'None':
        kw['factor_dtype'] = getattr(torch, c['factor_dtype'])
    if c['inject']:
        kw.update(factor_update_steps=1000, inv_update_steps=1000)
    if c.get('sched'):
        base = c['damping']
        kw.update(damping=lambda step: base * (1.0 + 0.5 * step), factor_update_steps=c['factor_update_steps'],
                  inv_update_steps=c['inv_update_steps'])
    p = KFACPreconditioner(model, **kw)
    mods = [m for m in model if isinstance(m, (torch.nn.Linear, torch.nn.Conv2d))]
    rng = np.random.default_rng(c['seed'])
    out = []

    def passes():
        model.zero_grad()
        x = torch.randn([c['batch']] + c['in_shape'], dtype=torch.float64).to(dtype)
        y = model(x)
        (y * torch.randn(y.shape, dtype=torch.float64).to(dtype)).sum().backward()

    nsteps = c['steps'] + (1 if c['inject'] else 0)
    for s in range(nsteps):
        if c['inject'] and s == 1:
            sd = p.state_dict()
            for name, fs in sd['layers'].items():
                for key in ('A', 'G'):
                    n = fs[key].shape[0]
                    spec = 10.0 ** rng.uniform(-3, 0, size=n)
                    if c['rankdef'] and n > 1:
                        spec[: max(1, n // 3)] = 0.0
                    if c.get('negeig') and key == 'G':
                        # an indefinite factor (as low-precision storage produces): a negative eigenvalue comparable to the
                        # damping; the eigen method must treat it as 0 (PSD projection), the inverse method inverts G + damping I as is
                        spec[0] = (-0.5 if (c['seed'] % 2) else -2.0) * float(p.damping)
                    fs[key] = torch.tensor(psd(rng, n, spec), dtype=fs[key].dtype)
            p.load_state_dict(sd)
        passes()
        D = [combined_grad(m) for m in mods]
        lam = p.damping
        p.step()
        sd = p.state_dict()
        names = list(sd['layers'].keys())
        after = [combined_grad(m) for m in mods]
        meta = [(str(m.weight.grad.dtype), tuple(m.weight.grad.shape), m.weight.grad.is_contiguous()) for m in mods]
        if c['inject'] and s == 0:
            continue
        if c.get('sched') and s % c['inv_update_steps'] != 0:
            # second-order data legitimately older than the damping of this step (staleness: C05) - except for the plain eigen
            # method, which adds the damping at every step: there the system is solved exactly whenever no factor changed
            # since the last refresh
            fresh = (s - s % c['factor_update_steps']) <= (s - s % c['inv_update_steps'])
            if not (c['method'] == 'eigen' and not c['prediv'] and fresh):
                continue
        out.append({'D': D, 'after': after, 'lam': lam, 'meta': meta,
                    'A': [sd['layers'][n]['A'].double().numpy() for n in names],
                    'G': [sd['layers'][n]['G'].double().numpy() for n in names]})
    return out


def model_cases(c, st):
    """extracted-model invocations for one step: one per layer"""
    args = []
    info = []
    for A, G, D in zip(st['A'], st['G'], st['D']):
        m, n = D.shape
        lam = st['lam']
        if c['method'] == 'inverse':
            Ad, Gd = A + lam * np.eye(n), G + lam * np.eye(m)
            Ainv, Ginv = np.linalg.inv(Ad), np.linalg.inv(Gd)
            contract = max(np.abs(Gd @ Ginv - np.eye(m)).max(), np.abs(Ainv @ Ad - np.eye(n)).max())
            args.append(('pre_inverse', [m, n, hexm(Ginv), hexm(Ainv), hexm(D)]))
            kappa = np.linalg.cond(Gd) * np.linalg.cond(Ad)
        else:
            da, Qa = np.linalg.eigh(A)
            dg, Qg = np.linalg.eigh(G)
            contract = max(np.abs(Qa.T @ Qa - np.eye(n)).max(), np.abs(Qg.T @ Qg - np.eye(m)).max(),
                           np.abs((Qa * da) @ Qa.T - A).max(), np.abs((Qg * dg) @ Qg.T - G).max())
            cmd = 'pre_eigen_prediv' if c['prediv'] else 'pre_eigen'
            args.append((cmd, [m, n, hexm(Qg), hexv(dg), hexm(Qa), hexv(da), float(lam).hex(), hexm(D)]))
            dap, dgp = np.maximum(da, 0), np.maximum(dg, 0)
            kappa = (dgp.max() * dap.max() + lam) / (dgp.min() * dap.min() + lam)
        info.append((contract, float(kappa)))
    return args, info


def nu_of(c, Vs, Ds):
    if c['kl_clip'] is None:
        return 1.0
    s = sum(float((V * D).sum()) * c['lr'] ** 2 for V, D in zip(Vs, Ds))
    return 1.0 if s == 0 else min(1.0, (c['kl_clip'] / abs(s)) ** 0.5)


def residual(c, A, G, D, Vhat, lam):
    """float64 residual of the defining system (independent of the model)"""
    if c['method'] == 'inverse':
        R = (G + lam * np.eye(G.shape[0])) @ Vhat @ (A + lam * np.eye(A.shape[0])) - D
    else:
        da, Qa = np.linalg.eigh(A); dg, Qg = np.linalg.eigh(G)
        Ap = (Qa * np.maximum(da, 0)) @ Qa.T; Gp = (Qg * np.maximum(dg, 0)) @ Qg.T
        R = Gp @ Vhat @ Ap + lam * Vhat - D
    return float(np.linalg.norm(R) / max(np.linalg.norm(D), 1e-300))


def run(tier, seed, rng_py):
    rng = np.random.default_rng(seed)
    cov = Coverage('random models (Linear with 2-d / N-d inputs, Conv2d with rectangular kernels, strides, paddings, bias on/off, '
                   '2-layer MLPs) x {eigen, eigen+prediv, inverse} x damping in [3e-3, 1] x module/factor/inverse dtypes x factors '
                   'from real passes or injected through load_state_dict with prescribed spectra (incl. rank-deficient) x 1-3 steps; '
                   'stratum: damping schedule with inv_update_steps < factor_update_steps, 4-6 steps, checked on inverse-update steps; '
                   'non-trivial = layer with m, n >= 2; distinct by hash')
    failures: list[Failure] = []
    n = 150 if tier == 'quick' else 2000
    maxrel, maxres, maxcontract = 0.0, 0.0, 0.0
    nsched = 0
    for k in range(n):
        c = gen_case(rng, tier)
        if c.get('sched'):
            # the schedule stratum cycles through the method / interval combinations, so that what it detects does not depend on the seed
            me, pd, ius, fus = [('eigen', False, 2, 2), ('inverse', c['prediv'], 2, 4), ('eigen', True, 1, 2), ('eigen', False, 2, 4),
                                ('inverse', c['prediv'], 1, 4), ('eigen', True, 2, 4)][nsched % 6]
            c.update(method=me, prediv=pd, inv_update_steps=ius, factor_update_steps=fus)
            nsched += 1
        try:
            steps = run_impl(c)
        except Exception as e:  # noqa: BLE001
            failures.append(Failure(what=f'implementation raised {type(e).__name__}: {e}'[:300], case=c, oracle_rejects=True,
                                    correspondence=CORRESPONDENCES[0], theorems=THEOREMS, oracle='must not raise'))
            continue
        for si, st in enumerate(steps):
            args, info = model_cases(c, st)
            Vs = [unhex(v) for v in common.run_model(args)]
            nu = nu_of(c, Vs, st['D'])
            for li, (V, D, after, (contract, kappa)) in enumerate(zip(Vs, st['D'], st['after'], info)):
                case = dict(c, step=si, layer=li, shape=list(D.shape), kappa=kappa)
                cov.add(case, min(D.shape) >= 2, sample_cap=2)
                cov.count('method', c['method'] + ('+prediv' if c['method'] == 'eigen' and c['prediv'] else ''))
                cov.count('kind', c['model'][0][0]); cov.count('inject', c['inject']); cov.count('damping_schedule', bool(c.get('sched'))); cov.count('clip', c['kl_clip'] is not None)
                maxcontract = max(maxcontract, contract)
                tol = 64 * EPS32 * max(kappa, 1.0) + 1e-6
                want = nu * V
                rel = float(np.linalg.norm(after - want) / max(np.linalg.norm(want), 1e-30))
                res = residual(c, st['A'][li], st['G'][li], D, after / nu, st['lam'])
                maxrel = max(maxrel, rel / tol); maxres = max(maxres, res / (tol * max(kappa, 1.0) ** 0.5))
                meta_ok = st['meta'][li][2]
                if contract > 1e-8:
                    continue        # oracle contract not met by numpy on this input: case not usable
                if rel > tol or not meta_ok:
                    orc = res > tol * max(kappa, 1.0) ** 0.5 * 4 + 1e-5
                    failures.append(Failure(
                        what=f'gradient differs from nu*V: relative error {rel:.3e} > tol {tol:.3e} (kappa {kappa:.1f}); residual {res:.3e}',
                        case=case, model=hexm(want)[:3], impl=hexm(after)[:3], oracle_rejects=bool(orc or not meta_ok),
                        correspondence=CORRESPONDENCES[0], theorems=THEOREMS,
                        oracle='float64 residual of the defining system on the implementation output'))
    # ---- multi-rank runs (simdist): every rank's gradients must equal nu * V for its own (replicated) factors ----
    import random as _random
    import torch
    from harness import kfacrun, kfacgen
    prng = _random.Random(seed)
    nm = 25 if tier == 'quick' else 250
    for k in range(nm):
        cfg = kfacgen.gen_cfg(prng, tier, worlds=(2, 3, 4), allow_callable=False)
        cfg['kl_clip'] = None
        cfg['inv_update_steps'] = 1; cfg['factor_update_steps'] = 1   # second-order data always from the current factors (staleness: C05)
        cfg['damping'] = prng.choice([1.0, 0.25])
        hist = [['train', cfg['accumulation_steps']] for _ in range(prng.randint(1, 3))]
        if k % 4 == 0:
            # stratum: plain eigen (eigenvalues used at every step), second-order data broadcast to several gradient workers,
            # three refreshes with changing factors: stale or mis-communicated eigen data on a non-inverse-worker rank shows
            cfg.update(compute_method='eigen', compute_eigenvalue_outer_product=False, W=4 if k % 8 == 0 else 2)
            cfg['k'] = cfg['W']; cfg['grad_worker_fraction'] = 1.0
            cfg['symmetry_aware'] = bool(k % 8 == 0)
            cfg['factor_decay'] = 0.5
            hist = [['train', cfg['accumulation_steps']] for _ in range(3)]
        mods_of = lambda model: [m for m in model if isinstance(m, (torch.nn.Linear, torch.nn.Conv2d))]
        pre = lambda r, ev, model, p: ([combined_grad(m) for m in mods_of(model)], p.damping)
        def obs(r, ev, e, model, p):
            sd = p.state_dict()
            return ([combined_grad(m) for m in mods_of(model)],
                    [sd['layers'][nme]['A'].double().numpy() for nme in sd['layers']],
                    [sd['layers'][nme]['G'].double().numpy() for nme in sd['layers']])
        w = kfacrun.run(cfg, hist, cfg['W'], seed=seed + k, observe=obs, pre_step=pre)
        case0 = {'multi_rank': True, 'cfg': cfg, 'history': hist, 'seed': seed + k}
        if not w.ok:
            failures.append(Failure(what=f'multi-rank run failed: {w.errors[:1]} {w.deadlock} {w.exceptions}'[:400], case=case0,
                                    oracle_rejects=True, correspondence=CORRESPONDENCES[0], theorems=THEOREMS, oracle='run completes'))
            continue
        cm = {'method': cfg['compute_method'], 'prediv': cfg['compute_eigenvalue_outer_product'], 'kl_clip': None, 'lr': cfg['lr']}
        for r in range(cfg['W']):
            res = w.results[r]
            pres = [x for x in res if isinstance(x, tuple) and len(x) == 3 and x[0] == 'pre']
            posts = [x for x in res if not (isinstance(x, tuple) and len(x) == 3 and x[0] == 'pre')]
            for (_, ev, (D, lam)), (after, A, G) in zip(pres, posts):
                st = {'A': A, 'G': G, 'D': D, 'lam': lam}
                args, info = model_cases(cm, st)
                Vs = [unhex(v) for v in common.run_model(args)]
                for li, (V, aft, (contract, kappa)) in enumerate(zip(Vs, after, info)):
                    tol = 64 * EPS32 * max(kappa, 1.0) + 1e-6
                    rel = float(np.linalg.norm(aft - V) / max(np.linalg.norm(V), 1e-30))
                    cov.add(dict(case0, rank=r, ev=ev, layer=li), True, sample_cap=3)
                    cov.count('multi_rank_W', cfg['W'])
                    maxrel = max(maxrel, rel / tol)
                    if contract <= 1e-8 and rel > tol:
                        rs = residual(cm, A[li], G[li], D[li], aft, lam)
                        failures.append(Failure(what=f'rank {r} step-event {ev} layer {li}: relative error {rel:.3e} > tol {tol:.3e}; residual {rs:.3e}',
                                                case=dict(case0, rank=r, ev=ev, layer=li), oracle_rejects=bool(rs > tol * 4 * max(kappa, 1) ** 0.5 + 1e-5),
                                                correspondence=CORRESPONDENCES[0], theorems=THEOREMS,
                                                oracle='float64 residual of the defining system on the implementation output'))
    cov.extra['max_relerr_over_tol'] = round(maxrel, 4)
    cov.extra['max_residual_over_tol'] = round(maxres, 4)
    cov.extra['max_oracle_contract_violation'] = maxcontract
    return cov, failures


def replay(path):
    d = json.load(open(path))
    c = {k: v for k, v in d['case'].items() if k not in ('step', 'layer', 'shape', 'kappa')}
    steps = run_impl(c)
    bad = False
    for si, st in enumerate(steps):
        args, info = model_cases(c, st)
        Vs = [unhex(v) for v in common.run_model(args)]
        nu = nu_of(c, Vs, st['D'])
        for li, (V, after) in enumerate(zip(Vs, st['after'])):
            rel = float(np.linalg.norm(after - nu * V) / max(np.linalg.norm(nu * V), 1e-30))
            print('step', si, 'layer', li, 'relative error', rel, 'kappa', info[li][1])
            bad = bad or rel > 64 * EPS32 * max(info[li][1], 1) + 1e-6
    return 1 if bad else 0
