"""C13 — memory and communication placement follow the KAISA strategy."""
from __future__ import annotations

import json

from harness import common
from harness.common import Coverage, Failure

CORRESPONDENCES = [
    'per rank and step under simdist: memory_usage() == bytes of all tensors reachable from the K-FAC objects (reflective walk) == '
    'extracted Placement.mem_total; second-order tensors present iff gradient worker; per-step communication (kind, group, elements, root) '
    '== extracted step_comm; eigh / inv invoked only on the assigned inverse worker',
]
TRUSTED = [
    'Coq 8.16.1 kernel (coqc); extraction with ExtrOcamlBasic only; ocaml/driver.ml; ocamlopt; harness/simdist.py',
    'roles (inverse workers) are obtained by constructing a public KAISAAssignment with the same arguments the preconditioner uses (its correctness is C06)',
    '"approximate" memory is read as exact bytes of tensor payload (no allocator overhead)',
    'the harness averages gradients with all_gather so that its own traffic is distinguishable from K-FAC all_reduce calls',
]
THEOREMS = ['sod_iff_grad_worker', 'memory_reported_is_held', 'inverse_bcast_only_in_columns', 'grad_bcast_only_in_rows',
            'factor_allreduce_once_world', 'no_comm_world_one', 'symmetric_numel', 'only_inverse_worker_computes', 'generator_silent_in_world_one', 'generator_columns_and_rows', 'generator_factor_elements_once']
NOTES = 'Model mirrors the code incl. the eigenvalue buffer receivers allocate under pre-divided eigenvalues (counted by memory_usage and held).'


def tensors_of(obj, exclude_ids, seen=None, depth=0):
    """all torch tensors reachable from obj through attributes / containers (generic reflective walk)"""
    import torch
    if seen is None:
        seen = set()
    out = []
    if id(obj) in seen or depth > 8:
        return out
    seen.add(id(obj))
    if isinstance(obj, torch.Tensor):
        if id(obj) not in exclude_ids:
            out.append(obj)
        return out
    if isinstance(obj, torch.nn.Module):
        return out
    if isinstance(obj, dict):
        for k, v in obj.items():
            out += tensors_of(k, exclude_ids, seen, depth + 1); out += tensors_of(v, exclude_ids, seen, depth + 1)
    elif isinstance(obj, (list, tuple, set, frozenset)):
        for v in obj:
            out += tensors_of(v, exclude_ids, seen, depth + 1)
    elif hasattr(obj, '__dict__') and not isinstance(obj, type) and not callable(obj):
        for v in vars(obj).values():
            out += tensors_of(v, exclude_ids, seen, depth + 1)
    return out


def objects_of(obj, cls, seen=None, depth=0):
    import torch
    if seen is None:
        seen = set()
    out = []
    if id(obj) in seen or depth > 6 or isinstance(obj, (torch.Tensor, torch.nn.Module, str, int, float)):
        return out
    seen.add(id(obj))
    if isinstance(obj, cls):
        out.append(obj)
    if isinstance(obj, dict):
        for v in list(obj.values()):
            out += objects_of(v, cls, seen, depth + 1)
    elif isinstance(obj, (list, tuple)):
        for v in obj:
            out += objects_of(v, cls, seen, depth + 1)
    elif hasattr(obj, '__dict__') and not isinstance(obj, type) and not callable(obj):
        for v in vars(obj).values():
            out += objects_of(v, cls, seen, depth + 1)
    return out


def run_case(cfg, hist, seed):
    import torch
    from harness import kfacrun, simdist
    from kfac.layers.base import KFACBaseLayer
    calls = []
    saved = (torch.linalg.eigh, torch.linalg.inv)

    def eigh(x, *a, **k):
        calls.append((getattr(simdist._tls, 'rank', 0), 'decomp', tuple(x.shape))); return saved[0](x, *a, **k)

    def inv(x, *a, **k):
        calls.append((getattr(simdist._tls, 'rank', 0), 'decomp', tuple(x.shape))); return saved[1](x, *a, **k)

    def obs(rank, ev, e, model, p):
        if e[0] != 'train':
            return None
        ex = {id(t) for t in list(model.parameters()) + list(model.buffers())}
        ex |= {id(t.grad) for t in model.parameters() if t.grad is not None}
        mu = dict(p.memory_usage())
        held = sum(t.nelement() * t.element_size() for t in {id(t): t for t in tensors_of(p, ex)}.values())
        sd = p.state_dict()
        fac_ids = set()
        dims = []
        for n in sd['layers']:
            fac_ids |= {id(sd['layers'][n]['A']), id(sd['layers'][n]['G'])}
            dims.append((sd['layers'][n]['A'].shape[0], sd['layers'][n]['G'].shape[0], sd['layers'][n]['A'].element_size()))
        layers = objects_of(p, KFACBaseLayer)
        sod = []
        for L in layers:
            ts = {id(t): t for t in tensors_of(L, ex)}
            sod.append(sum(t.nelement() * t.element_size() for i, t in ts.items() if i not in fac_ids))
        return {'mu': mu, 'held': held, 'sod_bytes': sod, 'dims': dims, 'names': list(sd['layers'].keys()),
                'log_len': len(simdist._WORLD.log), 'calls_len': len(calls), 'steps': p.steps}
    try:
        torch.linalg.eigh, torch.linalg.inv = eigh, inv
        w = kfacrun.run(cfg, hist, cfg['W'], seed=seed, observe=obs)
    finally:
        torch.linalg.eigh, torch.linalg.inv = saved
    return w, calls


def roles(cfg, names, dims):
    from kfac.assignment import KAISAAssignment
    cost = (lambda n: n ** 3) if cfg.get('assignment_strategy', 'compute') == 'compute' else (lambda n: n ** 2)
    work = {n: {'A': cost(d[0]), 'G': cost(d[1])} for n, d in zip(names, dims)}
    colocate = cfg['colocate_factors'] or cfg['k'] == 1
    a = KAISAAssignment(work, local_rank=0, world_size=cfg['W'], grad_worker_fraction=cfg['k'] / cfg['W'],
                        group_func=lambda r: tuple(sorted(r)), colocate_factors=colocate)
    return [(a.inv_worker(n, 'A'), a.inv_worker(n, 'G')) for n in names]


def run(tier, seed, rng):
    from harness import kfacgen
    cov = Coverage('random configurations (worlds 1-8, every divisor, eigen / eigen+prediv / inverse, symmetric on/off, bucketed or not, '
                   'interval pairs) x 1-4 steps; every rank and step checked; non-trivial = 1 < k < W with >= 2 layers; distinct by hash')
    failures: list[Failure] = []
    n = 60 if tier == 'quick' else 600
    for kk in range(n):
        cfg = kfacgen.gen_cfg(rng, tier, worlds=(1, 2, 4, 4, 6, 8), allow_callable=False)
        if cfg['W'] >= 4 and rng.random() < 0.5:      # favour HYBRID: some rank is neither worker nor in the worker's row
            cfg['k'] = rng.choice([d for d in range(2, cfg['W']) if cfg['W'] % d == 0]); cfg['grad_worker_fraction'] = cfg['k'] / cfg['W']
        if kk % 6 == 5:
            # the fraction typed as a 7-digit decimal: 6 * 0.3333333 = 1.9999998 is within the constructor's tolerance of 2 and means 2
            cfg['W'], cfg['k'], cfg['grad_worker_fraction'] = 6, 2, 0.3333333
        cfg['ddp_via_all_gather'] = True
        cfg['kl_clip'] = None
        cfg['factor_update_steps'] = rng.choice([1, 1, 2]); cfg['inv_update_steps'] = rng.choice([1, 2, 3])
        W = cfg['W']
        nst = rng.randint(1, 4)
        if rng.random() < 0.3:        # intervals that are not multiples of each other, factors updated in step(): inverse-only steps exist
            cfg['factor_update_steps'], cfg['inv_update_steps'] = rng.choice([(2, 3), (3, 2)])
            cfg['update_factors_in_hook'] = False
            nst = rng.randint(4, 5)
        hist = [['train', cfg['accumulation_steps']] for _ in range(nst)]
        w, calls = run_case(cfg, hist, seed + kk)
        case = {'cfg': cfg, 'history': hist, 'seed': seed + kk}
        nl = sum(1 for s in cfg['model'] if s[0] in ('linear', 'conv'))
        cov.add(case, 1 < cfg['k'] < W and nl >= 2, sample_cap=2)
        cov.count('W', W); cov.count('strategy', 'COMM' if cfg['k'] == W else 'MEM' if cfg['k'] == 1 else 'HYBRID')
        cov.count('method', cfg['compute_method'] + ('+prediv' if cfg['compute_method'] == 'eigen' and cfg['compute_eigenvalue_outer_product'] else ''))
        cov.count('symmetric', cfg['symmetry_aware'])
        if not w.ok:
            failures.append(Failure(what=f'run failed: {w.errors[:1]} {w.deadlock} {w.exceptions}'[:400], case=case, oracle_rejects=True,
                                    correspondence=CORRESPONDENCES[0], theorems=THEOREMS, oracle='run completes'))
            continue
        o0 = w.results[0][0]
        wk = roles(cfg, o0['names'], o0['dims'])
        meth = 2 if cfg['compute_method'] == 'inverse' else (1 if cfg['compute_eigenvalue_outer_product'] else 0)
        isz = 8 if cfg.get('inv_dtype') == 'float64' else 4
        players = [[d[0], d[1], a, g] for d, (a, g) in zip(o0['dims'], wk)]
        probs, diffs = [], []
        p_ = W // cfg['k']
        for si in range(nst):
            steps_before = si
            fstep = int(steps_before % cfg['factor_update_steps'] == 0)
            istep = int(steps_before % cfg['inv_update_steps'] == 0)
            mv = common.run_model([('placement', [W, cfg['k'], meth, int(cfg['symmetry_aware']), o0['dims'][0][2], isz, players, fstep, istep])])[0]
            for r in range(W):
                ob = w.results[r][si]
                mem, per, comm = mv[r]
                # --- memory: reported == held (property, model independent) ---
                if ob['mu']['total'] != ob['held']:
                    probs.append(f'step {si} rank {r}: memory_usage total {ob["mu"]["total"]} != bytes of tensors held {ob["held"]}')
                if ob['mu']['total'] != mem:
                    diffs.append(f'step {si} rank {r}: memory_usage total {ob["mu"]["total"]} != model {mem}')
                for li, (gw, sa, sg, ca, cg) in enumerate(per):
                    has = ob['sod_bytes'][li] > 0
                    if has != bool(gw):
                        probs.append(f'step {si} rank {r} layer {li}: holds second-order data = {has} but gradient worker = {bool(gw)}')
                    if ob['sod_bytes'][li] != isz * (sa + sg):
                        diffs.append(f'step {si} rank {r} layer {li}: second-order bytes {ob["sod_bytes"][li]} != model {isz * (sa + sg)}')
                # --- communication of this step ---
                lo = w.results[r][si - 1]['log_len'] if si else 0
                hi = ob['log_len']
                mine = [e for e in w.log[lo:hi] if e[0] == r and e[1] in ('all_reduce', 'broadcast')]
                col = tuple(sorted(x for x in range(W) if x % p_ == r % p_)); row = tuple(sorted(x for x in range(W) if x // p_ == r // p_))
                grp = {0: tuple(range(W)), 1: col, 2: row}
                want_ar = sum(n_ for kind, g, n_, root in comm if kind == 1)
                got_ar = sum(e[3] for e in mine if e[1] == 'all_reduce')
                got_ar_groups = {tuple(e[2]) for e in mine if e[1] == 'all_reduce'}
                # property-level oracle: every factor is allreduced on the world exactly once per factor-update step, never otherwise
                fn = (lambda n_: n_ * (n_ + 1) // 2) if cfg['symmetry_aware'] else (lambda n_: n_ * n_)
                orc_ar = sum(fn(d[0]) + fn(d[1]) for d in o0['dims']) if (fstep and W > 1) else 0
                if got_ar != orc_ar:
                    probs.append(f'step {si} rank {r}: {got_ar} factor elements allreduced, the property prescribes {orc_ar} '
                                 f'({"a" if fstep else "not a"} factor-update step)')
                if got_ar != want_ar or (got_ar_groups - {tuple(range(W))}):
                    diffs.append(f'step {si} rank {r}: allreduce elements {got_ar} on {got_ar_groups} vs model {want_ar} on the world')
                want_b = sorted((grp[g], n_, root) for kind, g, n_, root in comm if kind == 2)
                got_b = sorted((tuple(e[2]), e[3], e[5]) for e in mine if e[1] == 'broadcast')
                if want_b != got_b:
                    diffs.append(f'step {si} rank {r}: broadcasts {got_b[:4]} vs model {want_b[:4]}')
                # property-level oracle on the log
                for e in mine:
                    if e[1] == 'broadcast' and tuple(e[2]) not in (col, row):
                        probs.append(f'step {si} rank {r}: broadcast on {e[2]} which is neither its column nor its row')
                if W == 1 and mine:
                    probs.append('communication in a world of one')
            # --- who computes ---
            clo = w.results[0][si - 1]['calls_len'] if si else 0
            chi = max(w.results[r][si]['calls_len'] for r in range(W))
            ncalls = {}
            for (rk, kind, shape) in calls[clo:chi]:
                ncalls[rk] = ncalls.get(rk, 0) + 1
            want = {}
            if istep:
                for (a, g) in wk:
                    want[a] = want.get(a, 0) + 1; want[g] = want.get(g, 0) + 1
            if ncalls != want:
                probs.append(f'step {si}: decompositions / inversions per rank {ncalls} but the inverse workers are {want}')
        if probs or diffs:
            failures.append(Failure(what='; '.join((probs + diffs)[:3])[:500], case=case, model='Placement.placement_view', impl=(probs + diffs)[:8],
                                    oracle_rejects=bool(probs), correspondence=CORRESPONDENCES[0], theorems=THEOREMS,
                                    oracle='reported == held bytes; second-order data iff gradient worker; broadcasts only in own column/row; only inverse workers compute'))
    return cov, failures


def replay(path):
    d = json.load(open(path))
    c = d['case']
    w, calls = run_case(c['cfg'], c['history'], c['seed'])
    for r in range(c['cfg']['W']):
        for ob in w.results[r]:
            print('rank', r, 'reported', ob['mu']['total'], 'held', ob['held'], 'second-order bytes per layer', ob['sod_bytes'])
    print(d['what'])
    return 1
