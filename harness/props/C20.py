"""C20 — tracing is transparent and its statistics are exact."""
from __future__ import annotations

import json
import types

from harness import common
from harness.common import Coverage, Failure

CORRESPONDENCES = [
    'kfac.tracing (trace decorator, get_trace, clear_trace) == extracted Trace.run on the same history '
    '(scripted integer clock; returned objects / raised exceptions compared by identity)',
    'trace(sync=True) issues exactly two barriers per call on every rank (simdist)',
]
TRUSTED = [
    'Coq 8.16.1 kernel (coqc); extraction with ExtrOcamlBasic only; ocaml/driver.ml; ocamlopt',
    'time.time is replaced by a scripted integer clock by attribute assignment on kfac.tracing.time (durations exact)',
    'harness/simdist.py for the sync=True run',
]
THEOREMS = ['trace_transparent', 'one_sample_per_completed_call', 'history_refines_spec', 'get_trace_spec',
            'clear_empties', 'max_history_zero']
NOTES = ('get_trace_spec is stated for max_history = None or >= 1; max_history = 0 is the known finding D11 '
         '(theorem max_history_zero states what the code does).')


class _Clock:
    def __init__(self):
        self.queue = []
        self.now = 1000

    def time(self):
        if self.queue:
            self.now = self.queue.pop(0)
        return self.now


class _Boom(Exception):
    pass


def gen_history(rng, tier, allow_zero):
    nfun = rng.randint(1, 4)
    names = [rng.choice(['f', 'g', 'step', 'f']) + (str(i) if rng.random() < 0.6 else '') for i in range(nfun)]
    n = rng.randint(1, 25 if tier == 'quick' else 60)
    ops = []
    for _ in range(n):
        x = rng.random()
        if x < 0.62:
            ops.append(['call', rng.randrange(nfun), rng.choice([0, 1, 2, 3, 5, 8, 13, 1000, 10 ** 6 + 1]),
                        'ret' if rng.random() < 0.8 else 'raise', rng.randrange(6)])
        elif x < 0.93:
            mhs = [-1, 1, 2, 3, 5, 100] + ([0] if allow_zero else [])
            ops.append(['get', rng.randrange(2), rng.choice(mhs)])
        else:
            ops.append(['clear'])
    return names, ops


def run_impl(names, ops):
    """Run one history against kfac.tracing; returns observations in model format
    plus transparency problems detected directly."""
    import kfac.tracing as tr
    clock = _Clock()
    saved_time = tr.time
    tr.time = types.SimpleNamespace(time=clock.time)
    uniq = sorted(set(names))
    ids = {nm: uniq.index(nm) for nm in uniq}
    objs = [object() for _ in range(6)]
    import torch
    ft = torch.futures.Future(); ft.set_result(torch.ones(2))
    objs[3] = ft                      # an (already completed) Future is a return value like any other: handed back as it is
    objs[4] = (ft, None)
    excs = [_Boom(f'e{i}') for i in range(6)]
    probs = []
    seen = {}

    shared = (len(ops) + len(names)) % 2 == 1       # every second history: ONE decorator object wraps all the functions
    shared_deco = tr.trace()

    def make(i):
        def inner(*a, **k):
            seen['args'] = (a, k)
            if seen['mode'] == 'raise':
                raise excs[seen['tok']]
            return objs[seen['tok']]
        inner.__name__ = names[i]
        return (shared_deco if shared else tr.trace())(inner)

    try:
        tr.clear_trace()
        fns = [make(i) for i in range(len(names))]
        obs = []
        for op in ops:
            if op[0] == 'call':
                _, i, dur, mode, tok = op
                clock.queue = [clock.now + 7, clock.now + 7 + dur]
                seen.update(mode=mode, tok=tok, args=None)
                args = (tok, 'x', [dur]); kwargs = {'k': i, 'flag': None}
                if (tok + dur) % 3 == 0:
                    kwargs.update(sync=False, name='n', func=None, average=True)
                try:
                    r = fns[i](*args, **kwargs)
                    if mode != 'ret' or r is not objs[tok]:
                        probs.append(f'call {op}: returned {r!r} instead of the wrapped value')
                    obs.append(['ret', tok])
                except _Boom as e:
                    if mode != 'raise' or e is not excs[tok]:
                        probs.append(f'call {op}: raised {e!r} instead of the wrapped exception')
                    obs.append(['raise', tok])
                if seen['args'] != (args, kwargs):
                    probs.append(f'call {op}: wrapped function received {seen["args"]}')
            elif op[0] == 'get':
                _, av, mh = op
                d = tr.get_trace(average=bool(av), max_history=None if mh < 0 else mh)
                obs.append(['stats', [[ids[nm], v] for nm, v in d.items()]])
            else:
                tr.clear_trace()
                obs.append(['cleared'])
        return obs, probs, ids
    finally:
        tr.time = saved_time
        tr.clear_trace()


def oracle(names, ops, obs, ids):
    """Independent recomputation from the scripted clock, per the property text."""
    rec = {}
    probs = []
    zero = False
    for op, ob in zip(ops, obs):
        if op[0] == 'call':
            if op[3] == 'ret':
                rec.setdefault(names[op[1]], []).append(op[2])
        elif op[0] == 'clear':
            rec = {}
        else:
            _, av, mh = op
            got = {k: v for k, v in ob[1]}
            if set(got) != {ids[n] for n in rec}:
                probs.append(f'get {op}: names {sorted(got)} != recorded {sorted(ids[n] for n in rec)}')
                continue
            for nm, ts in rec.items():
                last = ts if mh < 0 else (ts[len(ts) - mh:] if mh < len(ts) else ts)
                if mh == 0:
                    last = []
                if not last:
                    want = 0 if not av else None
                else:
                    want = sum(last) / len(last) if av else sum(last)
                g = got[ids[nm]]
                if want is None:
                    if ts:           # mean of zero samples requested, yet a statistic of all samples came back
                        zero = True
                elif g != want:
                    if mh == 0:
                        zero = True
                    else:
                        probs.append(f'get {op}: {nm} -> {g!r}, expected {want!r} from samples {ts}')
    return probs, zero


def to_model_obs(obs_model, ops):
    """model Stats are (sum, divisor); convert to the float the API reports"""
    out = []
    for ob in obs_model:
        if ob[0] == 'stats':
            out.append(['stats', [[n, (s / dv if dv else s)] for n, s, dv in ob[1]]])
        else:
            out.append(ob)
    return out


def run(tier, seed, rng):
    cov = Coverage('random histories over 1-4 traced functions (some sharing a __name__), calls returning / raising, '
                   'get_trace with every (average, max_history) combination, clear_trace; non-trivial = at least one '
                   'windowed query on a function with more samples than the window and one raise or clear; distinct by hash')
    failures: list[Failure] = []
    n = 500 if tier == 'quick' else 6000
    hists = [gen_history(rng, tier, allow_zero=False) for _ in range(n)]
    zhists = [gen_history(rng, tier, allow_zero=True) for _ in range(n // 5)]
    allh = hists + zhists
    mouts = common.run_model_sharded([('trace_run', [[o[0], ids_of(names)[names[o[1]]]] + o[2:] if o[0] == 'call' else o
                                                     for o in ops]) for names, ops in allh])
    for k, ((names, ops), mo) in enumerate(zip(allh, mouts)):
        obs, tprobs, ids = run_impl(names, ops)
        case = {'names': names, 'ops': ops}
        calls = [o for o in ops if o[0] == 'call']
        nontriv = (any(o[0] == 'get' and 0 < o[2] < sum(1 for c in calls if c[1] == c[1]) for o in ops)
                   and any(o[0] == 'clear' or (o[0] == 'call' and o[3] == 'raise') for o in ops))
        cov.add(case, nontriv)
        cov.count('ops', len(ops) // 10 * 10)
        for o in ops:
            cov.count('op_kind', o[0] if o[0] != 'call' else 'call_' + o[3])
            if o[0] == 'get':
                cov.count('max_history', o[2])
        oprobs, zero = oracle(names, ops, obs, ids)
        if tprobs or oprobs:
            failures.append(Failure(what='; '.join((tprobs + oprobs)[:3]), case=case, model=to_model_obs(mo, ops), impl=obs,
                                    oracle_rejects=True, correspondence=CORRESPONDENCES[0], theorems=THEOREMS,
                                    oracle='transparency by identity; statistics recomputed from the scripted clock'))
            continue
        if zero:
            failures.append(Failure(what='get_trace(max_history=0) reports statistics over ALL samples (times[-0:])',
                                    case=case, model=to_model_obs(mo, ops), impl=obs, oracle_rejects=True,
                                    correspondence=CORRESPONDENCES[0], theorems=['max_history_zero'],
                                    signature='max_history=0',
                                    oracle='statistic of the last max_history samples'))
        if to_model_obs(mo, ops) != obs:
            failures.append(Failure(what='implementation and model disagree', case=case, model=to_model_obs(mo, ops), impl=obs,
                                    oracle_rejects=False, correspondence=CORRESPONDENCES[0], theorems=THEOREMS,
                                    oracle='accepted by the oracle'))
    # sync=True under simdist
    import kfac.tracing as tr
    from harness import simdist
    for W in (2, 3):
        ncalls = 3

        def body(rank):
            @tr.trace(sync=True)
            def work(x):
                return x + rank
            return [work(i) for i in range(ncalls)]
        w = simdist.run_world(W, body, seed=seed)
        tr.clear_trace()
        per = {r: [e for e in w.log if e[0] == r and e[1] == 'barrier'] for r in range(W)}
        cov.add({'kind': 'sync', 'W': W, 'calls': ncalls}, True)
        if not w.ok or any(len(v) != 2 * ncalls for v in per.values()) or any(w.results[r] != [i + r for i in range(ncalls)] for r in range(W)):
            failures.append(Failure(what='trace(sync=True): expected two barriers per call on every rank',
                                    case={'kind': 'sync', 'W': W}, model=2 * ncalls, impl={r: len(v) for r, v in per.items()},
                                    oracle_rejects=True, correspondence=CORRESPONDENCES[1], theorems=['trace_transparent'],
                                    oracle='2 barriers per call, values unchanged'))
    # re-entrancy: a traced function entered again while an earlier call to it is still running (recursion, mutual recursion)
    for k in range(40 if tier == 'quick' else 400):
        depth = rng.randint(1, 4)
        durs = [(rng.choice([1, 2, 4, 8, 16]), rng.choice([1, 2, 4, 32])) for _ in range(depth + 1)]
        mutual = rng.random() < 0.5
        case = {'kind': 'reentrant', 'depth': depth, 'durs': durs, 'mutual': mutual}
        now = [1000.0]
        saved_time = tr.time
        tr.time = types.SimpleNamespace(time=lambda: now[0])
        try:
            tr.clear_trace()

            @tr.trace()
            def walk(d):
                now[0] += durs[d][0]
                r = (other if mutual else walk)(d - 1) if d > 0 else 0
                now[0] += durs[d][1]
                return r + 1

            @tr.trace()
            def other(d):
                now[0] += durs[d][0]
                r = walk(d - 1) if d > 0 else 0
                now[0] += durs[d][1]
                return r + 1
            ret = walk(depth)
            got = {av: tr.get_trace(average=av) for av in (False, True)}
        finally:
            tr.time = saved_time
            tr.clear_trace()
        # expected: the call at level d lasts durs[d][0] + (level d-1) + durs[d][1]
        el, exp = 0, {}
        for d in range(depth + 1):
            el = durs[d][0] + el + durs[d][1]
            nm = 'other' if (mutual and (depth - d) % 2 == 1) else 'walk'
            exp.setdefault(nm, []).append(float(el))
        want = {False: {n_: sum(v) for n_, v in exp.items()}, True: {n_: sum(v) / len(v) for n_, v in exp.items()}}
        cov.add(case, True, sample_cap=2); cov.count('op_kind', 'reentrant')
        if ret != depth + 1 or got != want:
            failures.append(Failure(what=f're-entrant traced calls: reported {got}, expected {want} (return {ret}, expected {depth + 1})'[:500], case=case,
                                    model=want, impl=got, oracle_rejects=True, correspondence=CORRESPONDENCES[0], theorems=THEOREMS,
                                    oracle='each completed call appends its own elapsed time (scripted clock)'))
    return cov, failures


def ids_of(names):
    uniq = sorted(set(names))
    return {nm: uniq.index(nm) for nm in uniq}


def replay(path):
    d = json.load(open(path))
    c = d['case']
    obs, tprobs, ids = run_impl(c['names'], c['ops'])
    oprobs, zero = oracle(c['names'], c['ops'], obs, ids)
    print('observations:', obs)
    print('problems:', tprobs + oprobs, 'max_history=0 finding:' , zero)
    return 1 if (tprobs or oprobs or zero) else 0
