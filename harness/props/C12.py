"""C12 — GPT-NeoX assignment is consistent across the 3-D topology."""
from __future__ import annotations

import json

from harness import common
from harness.common import Coverage, Failure

CORRESPONDENCES = [
    'GPTNeoXAssignment queries (groups, factor_worker, src_grad_worker, is_grad_worker, peer-group reuse, new_group '
    'calls) == extracted neox_view for every rank; inverse assignment accepted by neox_ok_b on the stage peers and '
    'identical on all ranks of a stage',
]
TRUSTED = [
    'Coq 8.16.1 kernel (coqc); extraction with ExtrOcamlBasic only; ocaml/driver.ml; ocamlopt',
    'DeepSpeed topology stand-in (harness/stubs/deepspeed: row-major ProcessTopology re-statement); DeepSpeed itself is not installed',
    'dist.new_group is replaced by a recorder (attribute assignment on kfac.gpt_neox.assignment.dist)',
    'layer names are mapped to their rank in Python string order; integer costs',
]
THEOREMS = ['coord_bij', 'groups_by_coordinates', 'stage_agrees', 'stage_balance', 'factor_worker_spec', 'src_spec',
            'grad_workers_spec', 'peer_group_reuse', 'new_group_same_order', 'new_group_order_old_refuted', 'neox_greedy_in_relation']
NOTES = 'new_group_same_order is proved for the repaired constructor (fix D5); the pre-repair trace is refuted for P=D=M=2.'


# layer totals for which two (three) workers reach EQUAL loads through different layers: the next layer goes to the lowest rank -
# exactly (found by search: greedy on totals / sum(totals) in binary64 deviates from exact greedy on each of them)
SUBSET_TIES = [(5, 3, 2, 2), (9, 7, 2, 2), (9, 5, 4, 4), (9, 6, 3, 2), (8, 7, 3, 2, 2), (7, 6, 5, 4, 3), (4, 3, 2, 1, 1), (7, 5, 5, 3, 3),
               (7, 6, 6, 5, 5), (7, 6, 6, 5, 1), (9, 5, 4, 3, 2), (7, 5, 1, 1, 1), (8, 7, 4, 3, 2), (9, 7, 4, 3, 1), (9, 9, 7, 2, 1),
               (9, 9, 5, 4, 1), (7, 7, 4, 3, 3), (9, 9, 6, 3, 1), (9, 9, 8, 1, 1), (9, 9, 5, 4, 4), (9, 8, 8, 1, 1, 1), (9, 5, 4, 3, 2, 1)]


def make_work(fam, nl, rng):
    tie_list = rng.choice(SUBSET_TIES) if fam == 'subset_ties' else None
    if tie_list:
        nl = len(tie_list)
    names = rng.sample(['layer.10', 'layer.9', 'layer.2', 'a', 'B', 'b', 'attn.dense', 'mlp.0', 'mlp.1', 'z', 'layer.1', 'Z9', 'x.y'], min(nl, 13))
    work = {}
    for i, nm in enumerate(names):
        if fam == 'ties':
            c = (5, 5)
        elif fam == 'uniform':
            c = (rng.choice([3, 3, 4]), 1)
        elif fam == 'cubes':
            c = (rng.randint(1, 50) ** 3, rng.randint(1, 50) ** 3)
        elif fam == 'zeros':
            c = (0, rng.choice([0, 1]))
        elif fam == 'decr':
            c = (100 - i, 50)
        elif fam == 'subset_ties':
            # small totals of which different subsets have EQUAL sums (5 = 3 + 2): two workers reach the same load through different
            # layers, and the next layer must go to the lower rank - exactly, not up to rounding
            tot = tie_list[i]
            a_ = rng.randint(0, tot)
            c = (a_, tot - a_)
        else:
            c = (rng.randint(0, 30), rng.randint(0, 30))
        work[nm] = {'A': c[0], 'G': c[1]}
    return work


def impl_view(P, D, M, work_by_stage):
    from deepspeed.runtime.pipe.topology import PipeModelDataParallelTopology
    import kfac.gpt_neox.assignment as ga
    topo = PipeModelDataParallelTopology(num_pp=P, num_mp=M, num_dp=D)
    W = P * D * M
    views = []
    saved = ga.dist.new_group
    try:
        for r in range(W):
            calls = []

            def ng(ranks=None, calls=calls, **kw):
                calls.append(list(ranks))
                return ('new', tuple(ranks))
            ga.dist.new_group = ng
            stage = topo.get_coord(r).pipe
            work = work_by_stage[stage]
            if len(work) > 1:
                # the same mapping in a rank-dependent insertion order: the assignment is a function of the mapping, not of the order
                items = list(work.items()); k_ = r % len(items)
                work = dict(items[k_:] + items[:k_]) if r % 2 else dict(reversed(items[k_:] + items[:k_]))
            a = ga.GPTNeoXAssignment(work, local_rank=r, topology=topo, data_parallel_group='DP', model_parallel_group='MP')
            got_layers = list(a.get_layers())
            # per-layer answers are listed in the order of the ORIGINAL mapping (this rank's own key order is irrelevant)
            layers = [l for l in work_by_stage[stage].keys() if l in got_layers] + [l for l in got_layers if l not in work_by_stage[stage]]
            pg = a.pipe_parallel_peer_group
            views.append({
                'inv': {l: {f: a.inv_worker(l, f) for f in a.get_factors(l)} for l in layers},
                'dp': list(a.data_parallel_peers), 'mp': list(a.model_parallel_peers), 'peers': list(a.pipe_parallel_peers),
                'kind': 0 if pg == 'MP' else 1 if pg == 'DP' else 2,
                'newgroup': calls,
                'fw': [a.factor_worker(l, 'A') for l in layers],
                'src': [a.src_grad_worker(l) for l in layers],
                'isgw': [bool(a.is_grad_worker(l)) for l in layers],
                'flags': [a.broadcast_gradients(), a.broadcast_inverses()],
                'recv_is_dp': all(a.grad_receiver_group(l) == 'DP' for l in layers),
                'axes': [a.data_parallel_groups, a.model_parallel_groups, a.pipe_parallel_groups],
            })
    finally:
        ga.dist.new_group = saved
    return views


def oracle(P, D, M, work_by_stage, views):
    W = P * D * M
    probs = []

    def coord(r):
        return (r // (D * M), (r // M) % D, r % M)
    t0 = views[0]['newgroup']
    for r in range(W):
        v = views[r]
        p, d, m = coord(r)
        stage = [x for x in range(W) if coord(x)[0] == p]
        if v['newgroup'] != t0:
            probs.append(f'rank {r} creates process groups {v["newgroup"]} but rank 0 creates {t0}')
        first = next(x for x in stage)
        if v['inv'] != views[first]['inv']:
            probs.append(f'ranks {first} and {r} of stage {p} disagree on inverse workers')
        mp = set(v['mp']); dp = set(v['dp'])
        for li, (l, fs) in enumerate(v['inv'].items()):
            invs = set(fs.values())
            if len(invs) != 1 or not invs <= set(stage):
                probs.append(f'rank {r} layer {l}: inverse workers {fs} not one rank of stage {p}')
                continue
            inv = invs.pop()
            ip, idd, im = coord(inv)
            inv_dp = {x for x in range(W) if coord(x)[0] == ip and coord(x)[2] == im}
            inv_mp = {x for x in range(W) if coord(x)[0] == ip and coord(x)[1] == idd}
            if v['fw'][li] not in mp or v['fw'][li] not in inv_dp:
                probs.append(f'rank {r} layer {l}: factor worker {v["fw"][li]} not in own mp group & inverse worker dp group')
            s = v['src'][li]
            if s not in dp or s not in inv_mp or coord(s)[2] != m:
                probs.append(f'rank {r} layer {l}: src {s} not in own dp group with the same model shard among the inverse worker mp peers')
            if v['isgw'][li] != (r in inv_mp):
                probs.append(f'rank {r} layer {l}: is_grad_worker={v["isgw"][li]} but inverse worker mp group is {sorted(inv_mp)}')
    return probs


def run(tier, seed, rng):
    from harness.props.C17 import encode_result
    cov = Coverage('every (P, D, M) with P*D*M <= bound, every rank, sampled cost families incl. all-ties and names whose '
                   'string order differs from numeric order; non-trivial = D > 1 and M > 1, or ties; distinct by hash')
    failures: list[Failure] = []
    bound = 24 if tier == 'quick' else 64
    fams = ['ties', 'uniform', 'cubes', 'zeros', 'decr', 'random', 'subset_ties', 'subset_ties']
    topos = [(P, D, M) for P in range(1, bound + 1) for D in range(1, bound + 1) for M in range(1, bound + 1) if P * D * M <= bound]
    cov.exhaustive = True
    runs = []
    for (P, D, M) in topos:
        for rep in range(2 if tier == 'quick' else 4):
            fam = rng.choice(fams)
            work_by_stage = [make_work(fam, rng.choice([0, 1, 2, 3, 5, 8, 13]), rng) for _ in range(P)]
            runs.append((P, D, M, fam, work_by_stage))
    margs, keep = [], []
    for (P, D, M, fam, wbs) in runs:
        jcase = {'P': P, 'D': D, 'M': M, 'family': fam, 'work_by_stage': wbs}
        cov.add(jcase, (D > 1 and M > 1) or fam in ('ties', 'zeros', 'uniform'), sample_cap=2)
        cov.count('PDM', f'{min(P,3)}x{min(D,3)}x{min(M,3)}+'); cov.count('family', fam)
        try:
            views = impl_view(P, D, M, wbs)
        except Exception as e:  # noqa: BLE001
            failures.append(Failure(what=f'constructor raised {type(e).__name__}: {e}', case=jcase, oracle_rejects=True,
                                    correspondence=CORRESPONDENCES[0], theorems=THEOREMS, oracle='must not raise'))
            continue
        probs = oracle(P, D, M, wbs, views)
        if probs:
            sig = 'neox-new_group-per-stage' if all('creates process groups' in p for p in probs) else ''
            failures.append(Failure(what='; '.join(probs[:3])[:500], case=jcase, impl=probs[:8], oracle_rejects=True,
                                    correspondence=CORRESPONDENCES[0], theorems=THEOREMS, signature=sig,
                                    oracle='property text evaluated on the answers of all ranks'))
            continue
        # model: one view per stage (inverse workers of that stage's layers)
        for p in range(P):
            r0 = p * D * M
            work = wbs[p]
            names = sorted(work.keys())
            enc_work = [[[sorted(fs).index(f), int(c)] for f, c in fs.items()] for fs in work.values()]
            name_codes = [names.index(n) for n in work.keys()]
            a = encode_result(work, views[r0]['inv'])
            invs = [list(fs.values())[0] for fs in views[r0]['inv'].values()]
            margs.append(('neox_view', [P, D, M, invs]))
            margs.append(('neox_ok_b', [views[r0]['peers'], name_codes, enc_work, a]))
            margs.append(('neox_greedy', [views[r0]['peers'], name_codes, enc_work]))
            keep.append((jcase, P, D, M, p, views, a))
    outs = common.run_model_sharded(margs)
    for k, (jcase, P, D, M, p, views, a) in enumerate(keep):
        mv, ok, mg = outs[3 * k], outs[3 * k + 1], outs[3 * k + 2]
        ad, am, ap, per = mv
        diffs = []
        if ok != 1:
            diffs.append('inverse assignment rejected by neox_ok_b')
        if sorted(map(tuple, (map(tuple, [x for x in a]) if False else []))) != []:
            pass
        if sorted((l, tuple(sorted(map(tuple, fl)))) for l, fl in mg) != sorted((l, tuple(sorted(map(tuple, fl)))) for l, fl in a):
            diffs.append('differs from deterministic neox_greedy (tie-break)') if ok != 1 else None
        if views[0]['axes'] != [ad, am, ap]:
            diffs.append('axis comm lists differ from the model')
        for r in range(p * D * M, (p + 1) * D * M):
            v = views[r]
            dp, mp, sp, kind, trace, qs = per[r]
            if (v['dp'], v['mp'], v['peers'], v['kind'], v['newgroup']) != (dp, mp, sp, kind, trace):
                diffs.append(f'rank {r}: groups/kind/new_group {(v["dp"], v["mp"], v["kind"], v["newgroup"])} vs model {(dp, mp, kind, trace)}')
            got = [[f, s, int(g)] for f, s, g in zip(v['fw'], v['src'], v['isgw'])]
            if got != qs:
                diffs.append(f'rank {r}: (factor_worker, src, is_grad_worker) {got} vs model {qs}')
            if v['flags'] != [True, False] or not v['recv_is_dp']:
                diffs.append(f'rank {r}: flags/receiver group')
        diffs = [d for d in diffs if d]
        if diffs:
            failures.append(Failure(what='; '.join(diffs[:3])[:500], case=jcase, model='neox_view', impl=diffs[:8], oracle_rejects=False,
                                    correspondence=CORRESPONDENCES[0], theorems=THEOREMS, oracle='accepted by the oracle'))
    return cov, failures


def replay(path):
    d = json.load(open(path))
    c = d['case']
    views = impl_view(c['P'], c['D'], c['M'], c['work_by_stage'])
    probs = oracle(c['P'], c['D'], c['M'], c['work_by_stage'], views)
    print('\n'.join(probs[:10]) or 'property holds on this case')
    return 1 if probs else 0
