"""C06 — KAISA work assignment is well-formed and identical on every rank."""
from __future__ import annotations

import json
import re

from harness import common
from harness.common import Coverage, Failure
from harness.props.C17 import encode, encode_result

CORRESPONDENCES = [
    'KAISAAssignment queries (groups, is_grad_worker, src_grad_worker, flags) == extracted kaisa_view on the '
    'implementation\'s own inverse assignment, which is accepted by greedy_ok_b on the columns, for every local rank',
    'KAISAAssignment / KFACPreconditioner fraction handling == PrimFloat model (bit-exact IEEE binary64), '
    'and accepts every k/W with k | W',
]
TRUSTED = [
    'the IEEE-754 theorems go through Flocq (user-contrib, 4.1.0) and depend on axioms DECLARED BY THE STANDARD LIBRARY (none of ours): the specification of primitive floats and 63-bit integers (FloatAxioms.*_spec, Prim2SF_valid, SF2Prim_Prim2SF, Prim2SF_SF2Prim; Uint63.*_spec, of_to_Z, eqb_correct, eqb_refl), Classical_Prop.classic, FunctionalExtensionality.functional_extensionality_dep and the real-number axioms ClassicalDedekindReals.sig_forall_dec / sig_not_dec (all listed per run by Print Assumptions)',
    'Coq 8.16.1 kernel (coqc) incl. vm_compute for the finite-domain fraction theorem; no native_compute',
    'primitive floats / 63-bit integers are kernel primitives (listed by Print Assumptions as PrimFloat.*, PrimInt63.*)',
    'extraction with ExtrOcamlBasic only; ocaml/driver.ml; ocamlopt; coqc evaluation of the float model on generated cases',
    'integer costs only (float rounding inside load accumulation not modelled)',
    'that every rank derives the same inverse assignment is a statement about the code: checked by the tie for every local rank, not proved',
]
THEOREMS = ['grid_of_world', 'cols_partition', 'rows_partition', 'row_col_singleton', 'inv_workers_in_one_column',
            'src_is_worker_in_my_row', 'broadcast_flags', 'fraction_accepted_partial', 'kaisa_function_in_relation']
NOTES = ('fraction_accepted proves "every k/W is accepted" for every world size below 2^31 over IEEE binary64 (Flocq); '
         'fraction_accepted_partial (W <= 4096, vm_compute sweep) stays as an independent axiom-light check.')


def divisors(W):
    return [k for k in range(1, W + 1) if W % k == 0]


def make_work(fam, nl, rng):
    work = {}
    for i in range(nl):
        if fam == 'uniform':
            c = (8, 8)
        elif fam == 'decreasing':
            c = (1000 - 3 * i, 900 - 2 * i)
        elif fam == 'ties':
            c = (rng.choice([5, 7]), rng.choice([5, 7]))
        elif fam == 'zeros':
            c = (rng.choice([0, 0, 1]), rng.choice([0, 1]))
        elif fam == 'giant':
            c = (10 ** 9, 1) if i == nl // 2 else (rng.randint(1, 9), rng.randint(1, 9))
        elif fam == 'pow2':
            c = (2 ** rng.randint(0, 30), 2 ** rng.randint(0, 30))
        elif fam == 'real':
            a, g = rng.randint(1, 400), rng.randint(1, 400)
            e = rng.choice([2, 3])
            c = (a ** e, g ** e)
        else:
            c = (rng.randint(0, 100), rng.randint(0, 100))
        work[f'm.{i}'] = {'A': c[0], 'G': c[1]}
    return work


FAMS = ['uniform', 'decreasing', 'ties', 'zeros', 'giant', 'pow2', 'real', 'random']


def impl_view(work, W, k, colocate, ranks):
    """Construct one KAISAAssignment per local rank; return everything it answers."""
    from kfac.assignment import KAISAAssignment
    views = {}
    objs = {}
    for r in ranks:
        created = []

        def gf(rs, created=created):
            t = tuple(sorted(rs))
            created.append(t)
            return t
        objs[r] = (KAISAAssignment(work, local_rank=r, world_size=W, grad_worker_fraction=k / W,
                                   group_func=gf, colocate_factors=colocate), created)
    if work:
        names = list(work)
        work2 = {n: dict(work[names[len(names) - 1 - i]]) if set(work[n]) == set(work[names[len(names) - 1 - i]]) else dict(work[n]) for i, n in enumerate(names)}
        k2 = next((d for d in range(1, W + 1) if W % d == 0 and d != k), k)
        KAISAAssignment(work2, local_rank=ranks[-1], world_size=W, grad_worker_fraction=k2 / W, group_func=lambda rs: tuple(sorted(rs)), colocate_factors=True)
    for r in ranks:
        a, created = objs[r]
        layers = list(a.get_layers())
        views[r] = {
            'grad_workers': a.grad_workers,
            'inv': {l: {f: a.inv_worker(l, f) for f in a.get_factors(l)} for l in layers},
            'layers': layers,
            'isgw': [bool(a.is_grad_worker(l)) for l in layers],
            'src': [a.src_grad_worker(l) for l in layers],
            'gwg': [list(a.grad_worker_group(l)) for l in layers],
            'grg': [list(a.grad_receiver_group(l)) for l in layers],
            'flags': [bool(a.broadcast_gradients()), bool(a.broadcast_inverses())],
            'created': created,
            'factor_group_none': all(a.factor_group(l, f) is None for l in layers for f in a.get_factors(l)),
        }
    return views


def oracle(work, W, k, views):
    """The property text, evaluated directly on the implementation's answers."""
    p = W // k
    probs = []
    ranks = sorted(views)
    v0 = views[ranks[0]]
    for r in ranks:
        v = views[r]
        if v['inv'] != v0['inv']:
            probs.append(f'rank {r} derives a different inverse assignment than rank {ranks[0]}')
        if sorted(v['created']) != sorted(v0['created']) or v['created'] != v0['created']:
            probs.append(f'rank {r} creates groups {v["created"][:3]}.. differently from rank {ranks[0]}')
        if v['flags'] != [k < W, k > 1]:
            probs.append(f'rank {r}: broadcast flags {v["flags"]} for k={k}, W={W}')
        if v['grad_workers'] != k:
            probs.append(f'rank {r}: grad_workers={v["grad_workers"]} != {k}')
    groups = sorted(set(v0['created']))
    cols = [g for g in groups if len(g) == k and all((x - g[0]) % p == 0 for x in g)] if True else []
    gw_groups = set(tuple(x) for r in ranks for x in views[r]['gwg'])
    gr_groups = set(tuple(x) for r in ranks for x in views[r]['grg'])
    for g in gw_groups:
        if len(g) != k or len(set(g)) != k or not all(0 <= x < W for x in g):
            probs.append(f'gradient-worker group {g} is not a set of {k} ranks')
    for g in gr_groups:
        if len(g) != p or len(set(g)) != p:
            probs.append(f'receiver group {g} is not a set of {p} ranks')
    for a in gw_groups:
        for b in gw_groups:
            if a != b and set(a) & set(b):
                probs.append(f'gradient-worker groups {a} and {b} overlap')
    for a in gr_groups:
        for b in gr_groups:
            if a != b and set(a) & set(b):
                probs.append(f'receiver groups {a} and {b} overlap')
    for li, l in enumerate(v0['layers']):
        for r in ranks:
            v = views[r]
            gwg, grg = set(v['gwg'][li]), set(v['grg'][li])
            if tuple(v['gwg'][li]) != tuple(v0['gwg'][li]):
                probs.append(f'layer {l}: ranks disagree on the gradient-worker group')
            if not set(v['inv'][l].values()) <= gwg:
                probs.append(f'layer {l}: inverse workers {v["inv"][l]} outside gradient-worker group {sorted(gwg)}')
            if r not in grg:
                probs.append(f'rank {r} not in its own receiver group {sorted(grg)}')
            if v['isgw'][li] != (r in gwg):
                probs.append(f'rank {r} layer {l}: is_grad_worker={v["isgw"][li]} but group is {sorted(gwg)}')
            s = v['src'][li]
            if s not in gwg or s not in grg or len(gwg & grg) != 1:
                probs.append(f'rank {r} layer {l}: src {s} not the unique rank of {sorted(gwg)} & {sorted(grg)}')
            if r in gwg and s != r:
                probs.append(f'rank {r} layer {l}: gradient worker but src={s}')
    return probs


def gen_configs(tier, rng):
    cfgs = []
    wmax_all, wmax = (24, 48) if tier == 'quick' else (48, 160)
    for W in range(1, wmax + 1):
        for k in divisors(W):
            for colocate in (True, False):
                n = 2 if tier == 'quick' else 3
                for _ in range(n):
                    fam = rng.choice(FAMS)
                    nl = rng.choice([1, 2, 3, max(1, W // 2), W, W + 1, 2 * W]) if W <= 24 else rng.choice([1, 3, 7, 20])
                    ranks = list(range(W)) if W <= wmax_all else sorted(set([0, W - 1] + rng.sample(range(W), 3)))
                    cfgs.append((W, k, colocate, fam, nl, ranks))
    for W in (260, 320):
        for k in [d for d in divisors(W) if d in (1, 2, 4, 5, 13, 16, W // 2, W)]:
            for colocate in (True, False):
                fam = rng.choice(FAMS)
                ranks = sorted(set([0, 1, 255, 256, 257, 258, W - 2, W - 1] + rng.sample(range(W), 4)))
                cfgs.append((W, k, colocate, fam, rng.choice([1, 3, 7, 20]), ranks))
    return cfgs


def run(tier, seed, rng):
    from kfac.assignment import KAISAAssignment
    cov = Coverage('every W up to the tier bound x every divisor k x colocate on/off x sampled cost family/layer count, '
                   'every local rank for small W (sampled ranks above); non-trivial = 1 < k < W or ties/zeros in costs; '
                   'fraction rule: every (W, k | W) up to the tier bound + random floats; distinct by hash')
    failures: list[Failure] = []
    cfgs = gen_configs(tier, rng)
    margs, keep = [], []
    for (W, k, colocate, fam, nl, ranks) in cfgs:
        work = make_work(fam, nl, rng)
        jcase = {'W': W, 'k': k, 'colocate': colocate, 'family': fam, 'layers': nl, 'work': work if nl <= 6 else f'{fam}x{nl}', 'ranks': len(ranks)}
        cov.add(jcase, (1 < k < W) or fam in ('ties', 'zeros', 'uniform'))
        cov.count('W', W if W <= 8 else ('9-32' if W <= 32 else '33+')); cov.count('family', fam)
        cov.count('strategy', 'COMM' if k == W else 'MEM' if k == 1 else 'HYBRID')
        try:
            views = impl_view(work, W, k, colocate, ranks)
        except Exception as e:  # noqa: BLE001
            failures.append(Failure(what=f'constructor raised {type(e).__name__}: {e}', case=dict(jcase, work=work),
                                    oracle_rejects=True, correspondence=CORRESPONDENCES[0], theorems=THEOREMS,
                                    oracle='valid (W, k | W) must be accepted', impl=str(e)))
            continue
        probs = oracle(work, W, k, views)
        if probs:
            failures.append(Failure(what='; '.join(probs[:4]), case=dict(jcase, work=work), impl=probs[:10],
                                    oracle_rejects=True, correspondence=CORRESPONDENCES[0], theorems=THEOREMS,
                                    oracle='property text evaluated on the answers of all ranks'))
            continue
        r0 = ranks[0]
        a = encode_result(work, views[r0]['inv'])
        enc = encode(work, [], colocate)[0]
        margs.append(('kaisa_view', [W, k, enc, a]))
        margs.append(('greedy_ok_b', [enc, None, 1 if colocate else 0, a]))
        keep.append((jcase, work, W, k, colocate, views, ranks))
    # fill in columns for greedy_ok_b from the model's kaisa_view (first pass)
    kv = common.run_model_sharded([m for m in margs if m[0] == 'kaisa_view'])
    oks = common.run_model_sharded([('greedy_ok_b', [m[1][0], v[0], m[1][2], m[1][3]])
                                    for m, v in zip([m for m in margs if m[0] == 'greedy_ok_b'], kv)])
    for (jcase, work, W, k, colocate, views, ranks), mv, ok in zip(keep, kv, oks):
        cols, rows, bg, bi, gwg, recv, per = mv
        diffs = []
        if ok != 1:
            diffs.append('inverse assignment rejected by greedy_ok_b on the columns')
        created = sorted(set(views[ranks[0]]['created']))
        if created != sorted(set(map(tuple, cols + rows))):
            diffs.append(f'groups created {created[:4]} != rows+cols of the model')
        for r in ranks:
            v = views[r]
            if v['flags'] != [bool(bg), bool(bi)]:
                diffs.append(f'rank {r} flags')
            for li in range(len(v['layers'])):
                mg = gwg[li]
                if mg == 'none' or sorted(v['gwg'][li]) != mg:
                    diffs.append(f'rank {r} layer {li}: grad_worker_group {v["gwg"][li]} vs model {mg}')
                if sorted(v['grg'][li]) != recv[r]:
                    diffs.append(f'rank {r}: grad_receiver_group {v["grg"][li]} vs model {recv[r]}')
                b, s = per[r][li]
                if bool(b) != v['isgw'][li] or s != v['src'][li]:
                    diffs.append(f'rank {r} layer {li}: (is_grad_worker, src)=({v["isgw"][li]},{v["src"][li]}) vs model ({b},{s})')
        if diffs:
            failures.append(Failure(what='; '.join(diffs[:3]), case=dict(jcase, work=work), model='kaisa_view', impl=diffs[:10],
                                    oracle_rejects=False, correspondence=CORRESPONDENCES[0], theorems=THEOREMS,
                                    oracle='property text evaluated on the answers of all ranks (accepted)'))

    # ---- fraction rule ----
    wfrac = 1024 if tier == 'quick' else 4096
    nfrac = 0
    rejected = []
    for W in range(1, wfrac + 1):
        for k in divisors(W):
            nfrac += 1
            try:
                a = KAISAAssignment({}, local_rank=0, world_size=W, grad_worker_fraction=k / W,
                                    group_func=lambda rs: None) if W <= 256 or k in (1, 2, 3, W) or (W * 31 + k) % 7 == 0 else None
                if a is None:
                    # only the arithmetic of the constructor (same expressions, cheap path for large W)
                    gw = max(1, W * (k / W))
                    ok = abs(gw - round(gw)) <= 1e-6 and round(gw) == k
                    if not ok:
                        rejected.append((W, k))
                elif a.grad_workers != k:
                    rejected.append((W, k, a.grad_workers))
            except ValueError:
                rejected.append((W, k))
    cov.extra['fraction_pairs_checked'] = nfrac
    cov.extra['fraction_world_max'] = wfrac
    cov.evaluations += nfrac
    for rj in rejected[:5]:
        failures.append(Failure(what=f'valid fraction k/W rejected or mis-rounded: {rj}', case={'W': rj[0], 'k': rj[1], 'kind': 'fraction'},
                                model=f'Some {rj[1]} (theorem fraction_accepted_partial)', impl='ValueError / wrong count',
                                oracle_rejects=True, correspondence=CORRESPONDENCES[1], theorems=['fraction_accepted_partial'],
                                oracle='every k/W with k | W is accepted and yields k', signature=''))
    # random floats through both constructors, compared with the PrimFloat model inside Coq
    import torch
    import kfac.preconditioner as kp
    from kfac.enums import DistributedStrategy
    cases = []
    for _ in range(400 if tier == 'quick' else 3000):
        W = rng.choice([1, 2, 3, 4, 6, 7, 8, 12, 16, 49, 98, 147, 196, 206, 214, 255, 256, 1000])
        kind = rng.random()
        if kind < 0.4:
            f = rng.choice(divisors(W)) / W
        elif kind < 0.6:
            f = rng.random()
        elif kind < 0.7:
            f = rng.choice([0.0, 1.0, 0.5, 0.25, 1e-9, 1 - 1e-9, 0.33, 1 / 3])
        elif kind < 0.85:
            f = rng.choice(divisors(W)) / W * (1 + rng.choice([-1, 1]) * 2.0 ** -rng.randint(20, 52))
        else:
            f = rng.randint(1, W) / W
        if 0 <= f <= 1:
            cases.append((W, float(f)))
    model = torch.nn.Linear(2, 2)
    impl = []
    saved = (kp.get_world_size, kp.get_rank)
    try:
        for W, f in cases:
            kp.get_world_size = lambda W=W: W
            kp.get_rank = lambda: 0
            try:
                a = KAISAAssignment({}, local_rank=0, world_size=W, grad_worker_fraction=f, group_func=lambda rs: None)
                r1 = a.grad_workers
            except ValueError:
                r1 = -1
            try:
                p = kp.KFACPreconditioner(model, grad_worker_fraction=f)
                r2 = 10 * p._assignment.grad_workers + {DistributedStrategy.COMM_OPT: 1, DistributedStrategy.MEM_OPT: 2,
                                                        DistributedStrategy.HYBRID_OPT: 3}[p.distributed_strategy]
            except ValueError:
                r2 = -1
            impl.append((r1, r2))
    finally:
        kp.get_world_size, kp.get_rank = saved
    body = ['From Coq Require Import List ZArith Floats.PrimFloat.', 'From KV Require Import Model.Kaisa.',
            'Import ListNotations.', 'Local Open Scope float_scope.',
            'Definition enc1 (W : nat) (f : float) : Z := match grad_workers_of W f with Some r => r | None => (-1)%Z end.',
            'Definition enc2 (W : nat) (f : float) : Z := match precond_fraction W f with None => (-1)%Z | Some (f2, s) =>',
            '  match grad_workers_of W f2 with None => (-1)%Z | Some r => (10 * r + Z.of_nat s)%Z end end.',
            'Definition cases : list (nat * float) := [']
    body.append(';\n'.join(f'({W}%nat, {f.hex()})' for W, f in cases))
    body.append('].')
    body.append('Eval vm_compute in map (fun c => (enc1 (fst c) (snd c), enc2 (fst c) (snd c))) cases.')
    out = common.coq_eval('\n'.join(body), 'c06_fraction')
    nums = [int(x) for x in re.findall(r'\(?(-?\d+)\)?%Z', out.replace('(-', '-'))]
    if not nums:
        nums = [int(x) for x in re.findall(r'-?\d+', out.split('=', 1)[1].split(': list')[0])]
    mpairs = list(zip(nums[0::2], nums[1::2]))
    cov.extra['fraction_float_cases'] = len(cases)
    if len(mpairs) != len(cases):
        raise common.BuildError('coq_eval parse', f'{len(mpairs)} results for {len(cases)} cases: {out[:500]}')
    for (W, f), im, mo in zip(cases, impl, mpairs):
        cov.add({'kind': 'fraction_float', 'W': W, 'f': f.hex()}, True, sample_cap=6)
        if tuple(im) != tuple(mo):
            valid = any(abs(f - k / W) == 0 for k in divisors(W))
            failures.append(Failure(what='fraction handling differs from the IEEE model', case={'W': W, 'fraction_hex': f.hex(), 'fraction': f, 'kind': 'fraction_float'},
                                    model=list(mo), impl=list(im), oracle_rejects=bool(valid and (im[0] == -1)),
                                    correspondence=CORRESPONDENCES[1], theorems=['fraction_accepted_partial'],
                                    oracle='valid k/W accepted'))
    # strategy enums through KFACPreconditioner
    try:
        for W in range(1, 65):
            kp.get_world_size = lambda W=W: W
            kp.get_rank = lambda: 0
            for strat, want in ((DistributedStrategy.COMM_OPT, W), (DistributedStrategy.MEM_OPT, 1),
                                (DistributedStrategy.HYBRID_OPT, W // 2 if W % 2 == 0 else None)):
                try:
                    p = kp.KFACPreconditioner(model, grad_worker_fraction=strat)
                    got = p._assignment.grad_workers
                except ValueError:
                    got = None
                cov.add({'kind': 'strategy_enum', 'W': W, 'strategy': strat.name}, W > 1)
                if W == 1 and strat == DistributedStrategy.HYBRID_OPT:
                    want = 1   # max(1, 0.5)
                if got != want:
                    failures.append(Failure(what=f'strategy enum {strat.name} at W={W}: grad_workers={got}, expected {want}',
                                            case={'W': W, 'strategy': strat.name, 'kind': 'strategy_enum'}, model=want, impl=got,
                                            oracle_rejects=True, correspondence=CORRESPONDENCES[1], theorems=['broadcast_flags'],
                                            oracle='COMM_OPT -> W workers, MEM_OPT -> 1, HYBRID_OPT -> W/2'))
    finally:
        kp.get_world_size, kp.get_rank = saved
    return cov, failures


def replay(path):
    import random
    d = json.load(open(path))
    c = d['case']
    if c.get('kind') in ('fraction', 'fraction_float'):
        from kfac.assignment import KAISAAssignment
        f = c['k'] / c['W'] if 'k' in c else float.fromhex(c['fraction_hex'])
        try:
            a = KAISAAssignment({}, local_rank=0, world_size=c['W'], grad_worker_fraction=f, group_func=lambda rs: None)
            print('accepted, grad_workers =', a.grad_workers)
            return 0 if ('k' not in c or a.grad_workers == c['k']) else 1
        except ValueError as e:
            print('rejected:', e)
            return 1
    work = c['work'] if isinstance(c['work'], dict) else make_work(c['family'], c['layers'], random.Random(0))
    views = impl_view(work, c['W'], c['k'], c['colocate'], list(range(c['W'])))
    probs = oracle(work, c['W'], c['k'], views)
    print('\n'.join(probs[:10]) or 'property holds on this case')
    return 1 if probs else 0
