"""C16 — exactly the eligible layers are registered, once each."""
from __future__ import annotations

import json
import re

from harness import common
from harness.common import Coverage, Failure

CORRESPONDENCES = [
    'kfac.layers.register.register_modules + KFACPreconditioner hook placement == extracted Register.register / hooks '
    'on the module graph obtained by an independent walk (re.search supplies the skip tables)',
    'kfac.gpt_neox.preconditioner.register_modules == the same model keyed on the lower-cased class names',
]
TRUSTED = [
    'Coq 8.16.1 kernel (coqc); extraction with ExtrOcamlBasic only; ocaml/driver.ml; ocamlopt',
    'the regular-expression engine (re.search) is an oracle: its outcomes are inputs of the model',
    'isinstance / requires_grad / _modules are read by the harness\'s own walk',
    'DeepSpeed stand-in (harness/stubs) only so that kfac.gpt_neox imports',
    'completeness of named_modules (every reachable module is visited under its first pre-order path) is not proved; '
    'the tie compares the model walk with torch\'s on every generated tree',
]
THEOREMS = ['registered_exactly_eligible', 'registered_once', 'others_untouched', 'walk_names_are_paths', 'walk_reaches_everything']
NOTES = 'Theorems hold for every graph, pattern outcome table and root; walk soundness and completeness are walk_names_are_paths / walk_reaches_everything.'


def build_tree(rng, tier):
    import torch
    nn = torch.nn

    class MyLinear(nn.Linear):
        pass

    class MyConv(nn.Conv2d):
        pass

    class Block(nn.Module):
        def __init__(self):
            super().__init__()

    class GatedLinear(nn.Linear):      # a supported type used as a container: not a leaf, hence not a layer itself
        pass

    class ConvNorm(nn.Conv2d):
        pass

    class ColumnParallelLinear(nn.Linear):
        pass

    class RowParallelLinear(nn.Linear):
        pass

    pool = []       # created leaves, for sharing
    tied = {}       # kind -> first module of that kind (source of tied weights)

    def leaf(neox):
        r = rng.random()
        if pool and r < 0.12:
            return rng.choice(pool)
        kinds = (['linear', 'linear', 'conv', 'mylinear', 'myconv', 'relu', 'bn', 'emb', 'lstm', 'conv1d', 'identity', 'linear_nobias', 'conv_grouped']
                 if not neox else ['col', 'row', 'col', 'row', 'linear', 'relu', 'emb', 'identity'])
        k = rng.choice(kinds)
        m = {'linear': lambda: nn.Linear(2, 3), 'linear_nobias': lambda: nn.Linear(3, 2, bias=False),
             'conv': lambda: nn.Conv2d(1, 2, 3), 'conv_grouped': lambda: nn.Conv2d(2, 2, 3, groups=2), 'mylinear': lambda: MyLinear(2, 2), 'myconv': lambda: MyConv(1, 1, 1),
             'relu': nn.ReLU, 'bn': lambda: nn.BatchNorm2d(2), 'emb': lambda: nn.Embedding(3, 2),
             'lstm': lambda: nn.LSTM(2, 2), 'conv1d': lambda: nn.Conv1d(1, 1, 1), 'identity': nn.Identity,
             'col': lambda: ColumnParallelLinear(2, 2), 'row': lambda: RowParallelLinear(2, 2)}[k]()
        # weight tying: two DIFFERENT modules share one Parameter object (named_parameters() reports it once only)
        if hasattr(m, 'weight') and isinstance(getattr(m, 'weight', None), torch.nn.Parameter):
            src = tied.get(k)
            if src is not None and rng.random() < 0.25:
                m.weight = src.weight
                if rng.random() < 0.6:
                    src.weight.requires_grad_(False)
            tied.setdefault(k, m)
        ps = list(m.parameters())
        fr = rng.random()
        if ps and fr < 0.15:
            for p in ps:
                p.requires_grad_(False)
        elif ps and fr < 0.3:
            rng.choice(ps).requires_grad_(False)
        # an EMPTY child slot (optional sub-module declared with None, or a child disabled by assigning None): still a leaf
        if rng.random() < 0.2:
            m.add_module(rng.choice(['act', 'norm', 'opt']), None)
        pool.append(m)
        return m

    names = ['fc', 'fc1', 'fc2', 'conv', 'block', 'head', 'linear_in', 'l', 'Lin', 'a', 'b', 'net', 'L2', 'module', 'module', 'fc']

    def container(depth, neox):
        kind = rng.choice(['seq', 'list', 'dict', 'block'] + ([] if neox else ['gated']))
        n = rng.randint(0 if depth > 0 else 1, 4)
        kids = [(container(depth + 1, neox) if depth < 3 and rng.random() < 0.3 else leaf(neox)) for _ in range(n)]
        if kind == 'seq':
            return nn.Sequential(*kids)
        if kind == 'list':
            return nn.ModuleList(kids)
        if kind == 'dict':
            d = nn.ModuleDict()
            for k in kids:
                d[rng.choice(names) + str(rng.randint(0, 3))] = k
            return d
        b = Block() if kind != 'gated' else rng.choice([lambda: GatedLinear(2, 2), lambda: ConvNorm(1, 1, 1)])()
        for k in kids:
            b.add_module(rng.choice(names) + rng.choice(['', '', '1', '2', '_x']), k)
        if rng.random() < 0.3:
            b.add_module('opt', None)
        return b

    neox = rng.random() < 0.3
    if rng.random() < 0.06:
        return leaf(neox), neox
    return container(0, neox), neox


PATTERNS = ['fc', '^fc', '2$', 'conv|head', 'Linear', 'Conv2d', 'MyLinear', 'inear', r'\.1', 'linear', 'LINEAR', '^l', 'L',
            '0', r'^\d', 'block', 'ColumnParallel', 'columnparallellinear', 'rowparallel', 'opt', '^$', 'x$', 'Sequential', 'head.*2']

STATEFUL = ['(?i)^head', '(?i)LINEAR', r'(\d)\1', r'(fc|conv)\d', '(?i:CONV)', r'(?P<d>\d)(?P=d)', r'(?i)^L\d', r'(?x) f c', r'(block|net)(\d)\2']

def encode(model, patterns, neox):
    """Independent walk: node ids by first discovery, children in _modules order."""
    import torch
    ids, nodes_obj = {}, []

    def visit(m):
        if id(m) in ids:
            return
        ids[id(m)] = len(nodes_obj)
        nodes_obj.append(m)
        for c in m._modules.values():
            if c is not None:
                visit(c)
    visit(model)
    comp_ids, cls_ids = {}, {}

    def cid(s):
        return comp_ids.setdefault(s, len(comp_ids))
    nodes = []
    for m in nodes_obj:
        cname = m.__class__.__name__
        cls = cls_ids.setdefault(cname.lower() if neox else cname, len(cls_ids))
        if neox:
            lin, conv = int(cname.lower() == 'columnparallellinear'), int(cname.lower() == 'rowparallellinear')
        else:
            lin, conv = int(isinstance(m, torch.nn.Linear)), int(isinstance(m, torch.nn.Conv2d))
        ps = [int(p.requires_grad) for p in m._parameters.values() if p is not None] if not m._modules or all(c is None for c in m._modules.values()) \
            else [int(p.requires_grad) for p in m.parameters()]
        ch = [[cid(nm), (ids[id(c)] if c is not None else -1)] for nm, c in m._modules.items()]
        nodes.append([cls, lin, conv, ps, ch])
    # all paths (DAG) -> skip table
    rev = {v: k for k, v in comp_ids.items()}
    table = []

    def paths(i, pref, depth=0):
        name = '.'.join(rev[c] for c in pref)
        table.append([list(pref), int(any(re.compile(p).search(name) for p in patterns))])
        if depth > 12:
            return
        for nm, c in nodes[i][4]:
            if c >= 0:
                paths(c, pref + [nm], depth + 1)
    paths(0, [])
    skipc = [v for k, v in cls_ids.items() if any(re.compile(p).search(k) for p in patterns)]
    return nodes, table, skipc, nodes_obj, rev


def run_impl(model, patterns, neox, nodes_obj):
    import torch
    from kfac.layers.eigen import KFACEigenLayer
    from kfac.distributed import TorchDistributedCommunicator
    idx = {id(m): i for i, m in enumerate(nodes_obj)}
    if neox:
        from kfac.gpt_neox.preconditioner import register_modules as reg
        layers = reg(model, model_parallel_group=None, skip_layers=patterns, tdc=TorchDistributedCommunicator())
        out = [[name, idx[id(m)], 'linear' if l.parallelism == 'output' else 'conv'] for m, (name, l) in layers.items()]
        return out, None
    from kfac.layers.register import register_modules as reg
    from kfac.layers.modules import LinearModuleHelper
    layers = reg(model, kfac_layer_type=KFACEigenLayer, skip_layers=patterns, tdc=TorchDistributedCommunicator())
    out = [[name, idx[id(m)], 'linear' if isinstance(l.module, LinearModuleHelper) else 'conv'] for m, (name, l) in layers.items()]
    from kfac.preconditioner import KFACPreconditioner
    before = [(len(m._forward_pre_hooks), len(m._backward_hooks)) for m in nodes_obj]
    KFACPreconditioner(model, skip_layers=patterns)
    hooks = [[len(m._forward_pre_hooks) - b[0], len(m._backward_hooks) - b[1]] for m, b in zip(nodes_obj, before)]
    return out, hooks


def oracle(model, patterns, neox, nodes_obj, impl):
    """The property text evaluated by an independent Python walk."""
    import torch
    seen, want = set(), []
    for name, m in model.named_modules():
        if id(m) in seen:
            continue
        seen.add(id(m))
        if any(c is not None for c in m._modules.values()):
            continue
        cname = m.__class__.__name__.lower() if neox else m.__class__.__name__
        if neox:
            sup = cname in ('columnparallellinear', 'rowparallellinear')
        else:
            sup = isinstance(m, (torch.nn.Linear, torch.nn.Conv2d))
        if not sup or not all(p.requires_grad for p in m.parameters()):
            continue
        if any(re.search(p, name) for p in patterns) or any(re.search(p, cname) for p in patterns):
            continue
        want.append((name, id(m)))
    got = [(n, id(nodes_obj[i])) for n, i, _ in impl]
    probs = []
    if sorted(got) != sorted(want):
        probs.append(f'registered {sorted(n for n, _ in got)} but eligible are {sorted(n for n, _ in want)}')
    if len(set(i for _, i in got)) != len(got):
        probs.append('a module instance is registered twice')
    return probs


def run(tier, seed, rng):
    import warnings
    cov = Coverage('random module trees (depth <= 4; Sequential/ModuleList/ModuleDict/custom containers; shared instances; '
                   'subclasses of Linear/Conv2d; unsupported and parameter-free leaves; partially/fully frozen modules; None '
                   'children; bare leaf as root; GPT-NeoX class-name variant) x random skip-pattern lists (every third with inline-flag / back-reference patterns); non-trivial = >= 1 '
                   'registered and >= 1 rejected supported leaf (frozen, skipped or shared); distinct by hash of the encoded graph')
    failures: list[Failure] = []
    n = 1500 if tier == "quick" else 12000
    cases, margs = [], []
    import random as _random
    rng2 = _random.Random(seed * 7919 + 13)      # separate stream: the other fields keep theirs
    for _ in range(n):
        model, neox = build_tree(rng, tier)
        patterns = rng.sample(PATTERNS, rng.choice([0, 0, 1, 1, 2, 3]))
        if len(cases) % 3 == 2:
            # stratum: patterns that carry whole-expression regex state (inline flags, numbered / named groups with back-references)
            # next to ordinary ones, in any position: each pattern must be searched on its own
            patterns = patterns[:2] + rng2.sample(STATEFUL, rng2.choice([1, 1, 2]))
            rng2.shuffle(patterns)
        nodes, table, skipc, nodes_obj, rev = encode(model, patterns, neox)
        cases.append((model, neox, patterns, nodes, table, skipc, nodes_obj, rev))
        margs.append(('register', [nodes, table, skipc, 0]))
    mouts = common.run_model_sharded(margs)
    for (model, neox, patterns, nodes, table, skipc, nodes_obj, rev), mo in zip(cases, mouts):
        m_walk, m_reg, m_hooks = mo
        jcase = {'nodes': nodes, 'skip_name_table': table if len(table) < 12 else len(table), 'skip_cls': skipc, 'patterns': patterns, 'neox': neox,
                 'classes': [m.__class__.__name__ for m in nodes_obj][:12]}
        try:
            impl, hooks = run_impl(model, patterns, neox, nodes_obj)
        except Exception as e:  # noqa: BLE001
            failures.append(Failure(what=f'registration raised {type(e).__name__}: {e}', case=jcase, oracle_rejects=True,
                                    correspondence=CORRESPONDENCES[1 if neox else 0], theorems=THEOREMS, oracle='must not raise'))
            continue
        supported = sum(1 for nd in nodes if (nd[1] or nd[2]) and not any(c >= 0 for _, c in nd[4]))
        cov.add({'nodes': nodes, 'patterns': patterns, 'neox': neox}, len(impl) >= 1 and supported > len(impl), sample_cap=2)
        cov.count('neox', neox); cov.count('nodes', min(len(nodes), 12)); cov.count('patterns', len(patterns)); cov.count('registered', min(len(impl), 6))
        probs = oracle(model, patterns, neox, nodes_obj, impl)
        torch_walk = [[[c for c in name.split('.') if c != ''], i] for name, i in
                      [(nm, [k for k, o in enumerate(nodes_obj) if o is m][0]) for nm, m in model.named_modules()]]
        model_walk = [['.'.join(rev[c] for c in p), i] for p, i in m_walk]
        torch_walk2 = [[nm, [k for k, o in enumerate(nodes_obj) if o is m][0]] for nm, m in model.named_modules()]
        mreg = [['.'.join(rev[c] for c in p), i, k] for p, i, k in m_reg]
        diffs = []
        if model_walk != torch_walk2:
            diffs.append(f'named_modules: model {model_walk[:5]} vs torch {torch_walk2[:5]}')
        if mreg != impl:
            diffs.append(f'registered: model {mreg} vs implementation {impl}')
        if hooks is not None and hooks != m_hooks:
            diffs.append(f'hook counts: model {m_hooks} vs implementation {hooks}')
            if any(h != [1, 1] and h != [0, 0] for h in hooks) or [i for i, h in enumerate(hooks) if h == [1, 1]] != sorted(i for _, i, _ in impl):
                probs.append('hooks are not exactly one forward-pre + one backward hook on each registered module')
        if probs or diffs:
            failures.append(Failure(what='; '.join(probs + diffs)[:400], case=jcase, model={'registered': mreg, 'hooks': m_hooks},
                                    impl={'registered': impl, 'hooks': hooks}, oracle_rejects=bool(probs),
                                    correspondence=CORRESPONDENCES[1 if neox else 0], theorems=THEOREMS,
                                    oracle='independent walk + re.search per the property text'))
    return cov, failures


def replay(path):
    d = json.load(open(path))
    print('graph case (regenerate with the recorded seed):', json.dumps(d['case'])[:600])
    print('model:', d['model_predicted'], '\nimplementation:', d['implementation_did'])
    return 1
