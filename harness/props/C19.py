"""C19 — hyper-parameter schedulers apply multiplicative factors deterministically."""
from __future__ import annotations

import json
import re
from fractions import Fraction

from harness import common
from harness.common import Coverage, Failure

CORRESPONDENCES = [
    'LambdaParamScheduler (constructor check, step with/without explicit step) == extracted Sched.srun, exact rationals',
    'exp_decay_factor_averaging == exp_decay_f over primitive binary64 floats, bit-for-bit; errors as exp_decay_q',
]
TRUSTED = [
    'the IEEE-754 theorems go through Flocq (user-contrib, 4.1.0) and depend on axioms DECLARED BY THE STANDARD LIBRARY (none of ours): the specification of primitive floats and 63-bit integers (FloatAxioms.*_spec, Prim2SF_valid, SF2Prim_Prim2SF, Prim2SF_SF2Prim; Uint63.*_spec, of_to_Z, eqb_correct, eqb_refl), Classical_Prop.classic, FunctionalExtensionality.functional_extensionality_dep and the real-number axioms ClassicalDedekindReals.sig_forall_dec / sig_not_dec (all listed per run by Print Assumptions)',
    'Coq 8.16.1 kernel (coqc); PrimFloat kernel primitives for the float reading of exp_decay (evaluated inside Coq)',
    'extraction with ExtrOcamlBasic only; ocaml/driver.ml; ocamlopt',
    'factor tables are dyadic so that float products are exact; monotonicity/range of exp_decay are proved over Q, '
    'their survival under IEEE rounding is only checked on the sampled range',
]
THEOREMS = ['sched_step_spec', 'sched_history_fold', 'ctor_refuses_callable', 'exp_decay_is_min', 'exp_decay_range',
            'exp_decay_monotone', 'exp_decay_step0', 'exp_decay_errors', 'exp_decay_float_range', 'exp_decay_float_monotone', 'exp_decay_float_step01']
NAMES = ['factor_update_steps', 'inv_update_steps', 'damping', 'factor_decay', 'kl_clip', 'lr']
NOTES = 'exp_decay monotonicity and range are theorems over Q and, for the binary64 reading the code computes, over IEEE rounding (exp_decay_float_*, Flocq).'


def fr(x):
    return [x.numerator, x.denominator]


def gen_case(rng, tier, stream):
    nsteps = 40
    init = {'factor_update_steps': rng.choice([1, 2, 3, 5, 10]), 'inv_update_steps': rng.choice([1, 2, 4, 7, 10]),
            'damping': rng.choice([Fraction(1, 1024), Fraction(1, 8), Fraction(3, 4)]),
            'factor_decay': rng.choice([Fraction(1, 2), Fraction(15, 16), Fraction(1)]),
            'kl_clip': rng.choice([Fraction(1, 1024), Fraction(1, 2), Fraction(5)]),
            'lr': rng.choice([Fraction(1, 8), Fraction(1), Fraction(3)])}
    callable_ = {n: (rng.random() < (0.12 if stream == 'B' else 0.0)) for n in NAMES}
    # a real-valued hyper-parameter with an integral initial value may be given as a Python int (lr=1): it is still only multiplied
    int_init = {n: (not n.endswith('_steps') and Fraction(init[n]).denominator == 1 and rng.random() < 0.5) for n in NAMES}
    sched = {n: (rng.random() < 0.55) for n in NAMES}
    tables = {}
    for n in NAMES:
        if not sched[n]:
            continue
        if stream == 'A':
            pool = {'factor_update_steps': [1, 2, Fraction(3, 2), Fraction(5, 4)],
                    'inv_update_steps': [1, 2, Fraction(3, 2), 3],
                    'factor_decay': [Fraction(1, 2), Fraction(3, 4), 1, Fraction(7, 8)]}.get(
                        n, [Fraction(1, 2), 1, 2, Fraction(3, 2), Fraction(3, 4)])
        else:
            pool = [Fraction(1, 2), 1, 2, Fraction(3, 2), Fraction(-3, 2), 0, Fraction(5, 4), Fraction(-1, 4), 7, Fraction(1, 8)]
        # injective-ish in the step: step s gets pool[(s*a+b) % len] times a step-revealing dyadic tweak
        a, b = rng.randint(1, 5), rng.randint(0, 9)
        tables[n] = [Fraction(pool[(s * a + b) % len(pool)]) * (1 if stream == 'A' else Fraction(2 ** (s % 3)))
                     for s in range(nsteps)]
    nops = rng.randint(1, 12 if tier == 'quick' else 30)
    ops = []
    for _ in range(nops):
        x = rng.random()
        if stream == 'A' and x < 0.4:
            ops.append(['p'])
        elif x < 0.75:
            ops.append(['s', -1])
        else:
            ops.append(['s', rng.randrange(nsteps)])
    # keep the history only as long as every product is exactly representable in binary64
    # (the implementation multiplies floats; the model and the oracle are exact rationals)
    cur = {n: Fraction(init[n]) for n in NAMES}
    steps, keep = 0, 0
    for op in ops:
        if op[0] == 'p':
            steps += 1
        else:
            sidx = steps if op[1] < 0 else op[1]
            exact = True
            for n in NAMES:
                if n in tables and not callable_[n]:
                    f = Fraction(tables[n][sidx]) if sidx < len(tables[n]) else Fraction(1)
                    v = cur[n] * f
                    if abs(v.numerator) >= 2 ** 60 or v.denominator >= 2 ** 60 or Fraction(float(v)) != v:   # the driver prints 63-bit integers
                        exact = False
                    cur[n] = Fraction(int(v)) if n.endswith('_steps') else v
            if not exact:
                break
        keep += 1
    ops = ops[:keep]
    return {'init': {k: fr(Fraction(v)) for k, v in init.items()}, 'callable': callable_, 'tables': {k: [fr(x) for x in v] for k, v in tables.items()},
            'ops': ops, 'stream': stream, 'int_init': int_init}


def model_arg(c):
    ps = [['fn'] if c['callable'][n] else ['c'] + c['init'][n] for n in NAMES]
    ls = [c['tables'].get(n, []) for n in NAMES]
    return [ps, ls, c['ops']]


def run_impl(c):
    import torch
    from kfac.preconditioner import KFACPreconditioner
    from kfac.scheduler import LambdaParamScheduler
    torch.manual_seed(0)
    model = torch.nn.Linear(2, 2)
    init = {n: Fraction(*c['init'][n]) for n in NAMES}
    kw = {}
    for n in NAMES:
        v = init[n]
        val = int(v) if n.endswith('_steps') or c.get('int_init', {}).get(n) else float(v)
        if c['callable'][n]:
            # "already a function" = anything callable: a lambda, a functools.partial, an object with __call__, a bound method
            kind = (sum(map(ord, n)) + len(c['ops'])) % 4
            if kind == 0:
                kw[n] = lambda s, val=val: val
            elif kind == 1:
                import functools
                kw[n] = functools.partial(lambda val, s: val, val)
            elif kind == 2:
                class _Sched:
                    def __init__(self, v): self.v = v
                    def __call__(self, s): return self.v
                kw[n] = _Sched(val)
            else:
                class _Holder:
                    def __init__(self, v): self.v = v
                    def at(self, s): return self.v
                kw[n] = _Holder(val).at
        else:
            kw[n] = val
    p = KFACPreconditioner(model, **kw)
    calls = []
    lam = {}
    for n, tbl in c['tables'].items():
        tb = [Fraction(*x) for x in tbl]

        def f(step, tb=tb, n=n):
            calls.append((n, step))
            x = tb[step] if step < len(tb) else Fraction(1)
            return int(x) if x.denominator == 1 else float(x)
        lam[n + '_lambda'] = f
    try:
        sch = LambdaParamScheduler(p, **lam)
    except ValueError:
        return 0, [], calls
    states = []
    for op in c['ops']:
        if op[0] == 'p':
            model.zero_grad()
            model(torch.ones(4, 2)).sum().backward()
            p.step()
        else:
            try:
                sch.step(None if op[1] < 0 else op[1])
            except Exception as e:  # noqa: BLE001  (a scheduler that was accepted must be able to step)
                states.append(['raised', type(e).__name__])
                break
        st = []
        for n in NAMES:
            if c['callable'][n]:
                st.append('fn')
            else:
                v = getattr(p, n)
                if n.endswith('_steps') and not isinstance(v, int):
                    st.append(['notint', repr(v)])
                else:
                    st.append(fr(Fraction(v)))
        st.append(p.steps)
        states.append(st)
    return 1, states, calls


def oracle(c, ok, states):
    """per-call recomputation old * f(step) in exact arithmetic, per the property text"""
    any_bad = any(c['callable'][n] and n in c['tables'] for n in NAMES)
    if ok != (0 if any_bad else 1):
        return ['constructor ' + ('accepted' if ok else 'refused') + ' although scheduled parameters callable=' + str(any_bad)]
    if not ok:
        return []
    cur = {n: Fraction(*c['init'][n]) for n in NAMES}
    steps = 0
    probs = []
    for op, st in zip(c['ops'], states):
        if op[0] == 'p':
            steps += 1
        else:
            s = steps if op[1] < 0 else op[1]
            for n in NAMES:
                if n in c['tables'] and not c['callable'][n]:
                    f = Fraction(*c['tables'][n][s]) if s < len(c['tables'][n]) else Fraction(1)
                    v = cur[n] * f
                    if n.endswith('_steps'):
                        v = Fraction(int(v))      # truncation toward zero
                    cur[n] = v
        want = ['fn' if c['callable'][n] else fr(cur[n]) for n in NAMES] + [steps]
        if st != want:
            probs.append(f'after {op}: {st} expected {want}')
            break
    return probs


def run(tier, seed, rng):
    cov = Coverage('random subsets of the six parameters, dyadic step-revealing factor tables, histories of scheduler steps '
                   '(explicit / implicit) interleaved with real preconditioner.step() calls (stream A) or with wild factors '
                   'incl. negative / zero and callable parameters (stream B); non-trivial = >=2 scheduled parameters, '
                   'an implicit and an explicit step in one history; distinct by hash')
    failures: list[Failure] = []
    n = 300 if tier == 'quick' else 3000
    cases = [gen_case(rng, tier, 'A') for _ in range(n)] + [gen_case(rng, tier, 'B') for _ in range(n)]
    mouts = common.run_model_sharded([('sched_run', model_arg(c)) for c in cases])
    for c, mo in zip(cases, mouts):
        ok, states, calls = run_impl(c)
        nontriv = (len(c['tables']) >= 2 and any(o == ['s', -1] for o in c['ops'])
                   and any(o[0] == 's' and o[1] >= 0 for o in c['ops']))
        cov.add(c, nontriv, sample_cap=2)
        cov.count('stream', c['stream']); cov.count('scheduled', len(c['tables'])); cov.count('ops', len(c['ops']))
        cov.count('ctor', 'ok' if ok else 'refused')
        probs = oracle(c, ok, states)
        m_ok, m_states = mo
        if probs:
            failures.append(Failure(what=probs[0][:300], case=c, model=m_states[:3], impl=states[:3], oracle_rejects=True,
                                    correspondence=CORRESPONDENCES[0], theorems=THEOREMS[:3],
                                    oracle='old * f(step) recomputed exactly after every call'))
        elif ok != m_ok or (ok and states != m_states):
            failures.append(Failure(what='implementation and model disagree', case=c, model=[m_ok, m_states[:3]], impl=[ok, states[:3]],
                                    oracle_rejects=False, correspondence=CORRESPONDENCES[0], theorems=THEOREMS[:3], oracle='accepted'))
    # ---- exp_decay ----
    from kfac.hyperparams import exp_decay_factor_averaging
    caps = [0.95, 0.5, 0.99, 1.0, 2.0, 1e-3, 0.9999999, 0.75, 1 / 3, 0.1] + [rng.random() for _ in range(10 if tier == 'quick' else 40)]
    ks = list(range(0, 60)) + [rng.randrange(60, 10 ** 4) for _ in range(60 if tier == 'quick' else 300)] + [10 ** 4, 20000]
    body = ['From Coq Require Import List ZArith Floats.PrimFloat.', 'From KV Require Import Model.Sched.', 'Import ListNotations.',
            'Definition ks : list nat := map Z.to_nat [' + '; '.join(f'{k}%Z' for k in ks) + '].',
            'Definition caps : list float := [' + '; '.join(float(c).hex() for c in caps) + ']%float.',
            'Eval vm_compute in map (fun c => map (fun k => match exp_decay_f c k with Some v => v | None => (-1)%float end) ks) caps.']
    out = common.coq_eval('\n'.join(body), 'c19_expdecay')
    txt = out.split('=', 1)[1].rsplit(':', 1)[0]
    vals = [float(x) for x in re.findall(r'-?(?:\d+\.?\d*(?:e[-+]?\d+)?|infinity|nan)', txt)]
    if len(vals) != len(caps) * len(ks):
        raise common.BuildError('coq_eval parse', f'{len(vals)} floats for {len(caps) * len(ks)} cases: {txt[:300]}')
    it = iter(vals)
    for cap in caps:
        w = exp_decay_factor_averaging(cap)
        prev = None
        for k in ks:
            mv = next(it)
            iv = w(k)
            case = {'kind': 'exp_decay', 'cap': float(cap).hex(), 'k': k}
            cov.add(case, k >= 2, sample_cap=5)
            bad = None
            if float(iv).hex() != float(mv).hex():
                bad = ('differs from the binary64 model', False)
            if not (0 <= iv <= cap):
                bad = ('outside [0, cap]', True)
            if k <= 1 and iv != 0:
                bad = ('step 0/1 must give 0', True)
            if iv != min(1 - 1 / max(k, 1), cap):
                bad = ('not min(1 - 1/max(k,1), cap)', True)
            if bad:
                failures.append(Failure(what=f'exp_decay({cap})({k}) = {iv!r}: {bad[0]}', case=case, model=mv, impl=iv,
                                        oracle_rejects=bad[1], correspondence=CORRESPONDENCES[1], theorems=THEOREMS[3:],
                                        oracle='range, step0, min formula'))
        sk = sorted(set(ks))
        # the schedule is a FUNCTION of the step: the same object queried again in descending order (after it has seen
        # saturating steps) must return what a fresh object returns
        for k in reversed(sk):
            a, b = w(k), exp_decay_factor_averaging(cap)(k)
            if a != b:
                failures.append(Failure(what=f'exp_decay({cap})({k}) = {a!r} on an object that was queried before, {b!r} on a fresh one: the value depends on the call history',
                                        case={'kind': 'exp_decay_history', 'cap': float(cap).hex(), 'k': k}, model=b, impl=a, oracle_rejects=True,
                                        correspondence=CORRESPONDENCES[1], theorems=['exp_decay_is_min'], oracle='min(1 - 1/max(k,1), cap) is a function of k'))
                break
        vs = [w(k) for k in sk]
        if any(a > b for a, b in zip(vs, vs[1:])):
            failures.append(Failure(what=f'exp_decay({cap}) is not non-decreasing', case={'kind': 'exp_decay_mono', 'cap': float(cap).hex()},
                                    oracle_rejects=True, correspondence=CORRESPONDENCES[1], theorems=['exp_decay_monotone'], oracle='monotone'))
    for capbad in (0, -1, -0.5, 0.0):
        try:
            exp_decay_factor_averaging(capbad)
            failures.append(Failure(what=f'min_value={capbad} accepted', case={'kind': 'exp_decay_err', 'cap': capbad}, oracle_rejects=True,
                                    correspondence=CORRESPONDENCES[1], theorems=['exp_decay_errors'], oracle='ValueError'))
        except ValueError:
            pass
        cov.add({'kind': 'exp_decay_err', 'cap': capbad}, True)
    try:
        exp_decay_factor_averaging(0.9)(-1)
        failures.append(Failure(what='negative step accepted', case={'kind': 'exp_decay_err', 'k': -1}, oracle_rejects=True,
                                correspondence=CORRESPONDENCES[1], theorems=['exp_decay_errors'], oracle='ValueError'))
    except ValueError:
        pass
    return cov, failures


def replay(path):
    d = json.load(open(path))
    c = d['case']
    if c.get('kind', '').startswith('exp_decay'):
        from kfac.hyperparams import exp_decay_factor_averaging
        cap = float.fromhex(c['cap']) if isinstance(c.get('cap'), str) else c.get('cap', 0.9)
        k = c.get('k', 0)
        v = exp_decay_factor_averaging(cap)(k)
        print(v, min(1 - 1 / max(k, 1), cap))
        return 0 if v == min(1 - 1 / max(k, 1), cap) else 1
    ok, states, calls = run_impl(c)
    probs = oracle(c, ok, states)
    print(probs or 'holds')
    return 1 if probs else 0
