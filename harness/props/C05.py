"""C05 — update intervals and hyper-parameter schedules are honoured over any history."""
from __future__ import annotations

import json

import numpy as np

from harness import common
from harness.common import Coverage, Failure

CORRESPONDENCES = [
    'KFACPreconditioner driven through fine-grained histories == extracted reference machine Kfac.krun in lock-step: step count, '
    'hyper-parameter properties, which events change which factor, errors, and gradients reproduced (extracted pre_* terms) from the '
    'factor versions and damping step named by the machine\'s Precondition action',
]
TRUSTED = [
    'Coq 8.16.1 kernel (coqc); extraction with ExtrOcamlBasic only; ocaml/driver.ml; ocamlopt',
    'the machine keeps data symbolic (factor versions, damping steps); numeric agreement of the gradients is within the C01 tolerance',
    'factor versions are bound to tensors by snapshots of state_dict() taken when the machine reports an update',
    'single layer abstraction: every registered layer sees the same Fwd/Bwd/Step events (checked for all layers of the model)',
]
THEOREMS = ['steps_counts_steps', 'steps_over_history', 'factors_change_only_on_update_steps', 'eval_inert',
            'inverses_refresh_only_on_multiples', 'inverse_refresh_at_step_zero', 'precondition_uses_latest',
            'params_evaluated_at_current_step', 'mini_steps_reset']
NOTES = 'Numeric part as C01 (tolerance). The reference machine is Model/Kfac.v; its interval/refresh properties are theorems.'


def gen_resume(rng, tier):
    """stratum: damping that depends on the step AND is baked into the second-order data, a checkpoint taken at a step that is not a
    multiple of inv_update_steps, loaded with compute_inverses=True into a fresh object, then training continues"""
    from harness import kfacgen
    model, in_shape = rng.choice(kfacgen.MODELS[:5])
    method, prediv = rng.choice([('inverse', False), ('eigen', True), ('inverse', True)])
    acc = rng.choice([1, 1, 2])
    ius = rng.choice([2, 3, 5])
    cfg = {
        'model': model, 'in_shape': in_shape, 'batch': rng.choice([3, 4]), 'model_seed': rng.randrange(100), 'data_seed': rng.randrange(10 ** 6),
        'compute_method': method, 'compute_eigenvalue_outer_product': prediv, 'colocate_factors': True,
        'update_factors_in_hook': rng.random() < 0.6, 'accumulation_steps': acc,
        'kl_clip': None, 'lr': 1.0, 'factor_decay': rng.choice([0.5, 0.75, 0.9]),
        'damping': ['table', [0.25 + 0.125 * ((7 * s) % 11) for s in range(40)]],
        'factor_update_steps': rng.choice([1, 2]), 'inv_update_steps': ius,
    }
    it = [['pass', 1] for _ in range(acc)] + [['step']]
    s0 = rng.choice([s for s in range(1, 2 * ius) if s % ius != 0])
    hist = it * s0 + [['save', 1], ['load', 0, 1]] + it * rng.randint(ius, ius + 2)
    return cfg, hist


def gen_sched_eval(rng, tier):
    """stratum: the scheduler changes factor_update_steps right after an EVAL-mode pass that follows a step (train / validate /
    scheduler order), at a step count that is a multiple of only one of the old and the new interval"""
    from harness import kfacgen
    model, in_shape = rng.choice(kfacgen.MODELS[:5])
    acc = rng.choice([1, 2])
    old, fac = rng.choice([(3, 2), (4, 0.5), (2, 1.5), (2, 2)])
    cfg = {
        'model': model, 'in_shape': in_shape, 'batch': rng.choice([3, 4]), 'model_seed': rng.randrange(100), 'data_seed': rng.randrange(10 ** 6),
        'compute_method': rng.choice(['eigen', 'inverse']), 'compute_eigenvalue_outer_product': False, 'colocate_factors': True,
        'update_factors_in_hook': rng.random() < 0.6, 'accumulation_steps': acc,
        'kl_clip': None, 'lr': 1.0, 'factor_decay': 0.5, 'damping': 0.5,
        'factor_update_steps': old, 'inv_update_steps': 1,
    }
    it = [['pass', 1] for _ in range(acc)] + [['step']]
    n0 = old if fac >= 1 else old // 2          # the step count at which the interval changes: a multiple of the old OR of the new one only
    cfg['sched'] = {'factor_update_steps': ['table', [1] * n0 + [fac] + [1] * 39]}      # the factor is looked up at the current step count
    hist = it * n0 + [['pass', 0], ['sched']] + it * (2 * old + 1)
    return cfg, hist


def gen(rng, tier, k=None):
    from harness import kfacgen
    if k is not None and k % 5 == 0:
        return gen_resume(rng, tier)
    if k is not None and k % 5 == 2:
        return gen_sched_eval(rng, tier)
    model, in_shape = rng.choice(kfacgen.MODELS[:5])
    method = rng.choice(['eigen', 'eigen', 'inverse'])
    prediv = rng.random() < 0.5
    acc = rng.choice([1, 1, 2, 3])
    cfg = {
        'model': model, 'in_shape': in_shape, 'batch': rng.choice([3, 4]), 'model_seed': rng.randrange(100), 'data_seed': rng.randrange(10 ** 6),
        'compute_method': method, 'compute_eigenvalue_outer_product': prediv, 'colocate_factors': True,
        'update_factors_in_hook': rng.random() < 0.6, 'accumulation_steps': acc,
        'kl_clip': None, 'lr': 1.0, 'factor_decay': rng.choice([0.5, 0.75, 0.9]),
        'damping': rng.choice([0.5, 0.25, 1.0]),
        'factor_update_steps': rng.choice([1, 2, 3, 4]), 'inv_update_steps': rng.choice([1, 2, 3, 5]),
    }
    mode = rng.random()
    if mode < 0.3:
        cfg['factor_update_steps'] = ['table', [rng.choice([1, 2, 3]) for _ in range(40)]]
    if 0.2 < mode < 0.5:
        cfg['inv_update_steps'] = ['table', [rng.choice([1, 2, 3, 4]) for _ in range(40)]]
    if mode > 0.6 or rng.random() < 0.5:
        # injective table: damping at step s is distinguishable from damping at s +- 1
        cfg['damping'] = ['table', [0.25 + 0.125 * ((7 * s) % 11) for s in range(40)]]
    sched = {}
    if not isinstance(cfg['factor_update_steps'], list) and rng.random() < 0.25:
        sched['factor_update_steps'] = ['table', [rng.choice([1, 2, 1.5]) for _ in range(40)]]
    if not isinstance(cfg['inv_update_steps'], list) and rng.random() < 0.25:
        sched['inv_update_steps'] = ['table', [rng.choice([1, 2, 1.5]) for _ in range(40)]]
    if not isinstance(cfg['damping'], list) and rng.random() < 0.25:
        sched['damping'] = ['table', [rng.choice([0.5, 2.0, 1.5]) for _ in range(40)]]
    if sched:
        cfg['sched'] = sched
    n = rng.randint(5, 30 if tier == 'quick' else 120)
    hist = [['pass', 1] for _ in range(acc)] + [['step']]
    passes_since_step = 0
    while len(hist) < n:
        x = rng.random()
        if x < 0.45:
            hist.append(['pass', 1]); passes_since_step += 1
        elif x < 0.55:
            hist.append(['pass', 0]); passes_since_step += 1
        elif x < 0.85 and passes_since_step > 0:
            hist.append(['step']); passes_since_step = 0
        elif x < 0.9:
            hist.append(['reset'])
        elif x < 0.97 and sched:
            hist.append(['sched'])
        elif not sched and rng.random() < 0.5 and passes_since_step == 0:
            k = sum(1 for e in hist if e[0] == 'save')
            hist.append(['save', 1]); hist.append(['load', k, int(rng.random() < 0.7)])
    return cfg, hist


def verify(cfg, hist, res, mo, sched_vals, tolmul=1.0):
    """returns (problems, stats); res = implementation observations of one rank"""
    import torch
    from harness import kfacmachine, kfacrun
    probs = []
    snap = {}
    damping_at = {}
    prevf = None
    pend_a = pend_g = False
    nontriv = {'noupd_step': False, 'norefresh_step': False, 'grads': 0}
    maxratio = 0.0
    exp = kfacmachine.expected_params(cfg, hist)
    for ev, e in enumerate(hist):
        if ev >= len(res):
            probs.append(f'event {ev} {e}: implementation stopped earlier')
            break
        r, m = res[ev], mo[ev]
        merr = any(a[0] == 'err' for a in m['acts'])
        if r['error'] is not None or merr:
            if bool(r['error']) != merr:
                probs.append(f'event {ev} {e}: implementation error={r["error"]!r} but reference machine error={merr}')
            break
        if r['steps'] != m['steps']:
            probs.append(f'event {ev} {e}: steps={r["steps"]} but reference machine has {m["steps"]}')
        # hyper-parameter properties: functions of the step are evaluated at the current step count
        for pn, got in zip(kfacmachine.PARAMS, r['params']):
            want = exp[ev][0][pn]
            if got != want:
                probs.append(f'event {ev} {e}: property {pn} = {got!r} but the configuration prescribes {want!r} at step {exp[ev][1]}')
        # factor change pattern (between two observations of the factors)
        ua = any(a[0] == 'ua' for a in m['acts']); ug = any(a[0] == 'ug' for a in m['acts'])
        pend_a = pend_a or ua; pend_g = pend_g or ug
        if e[0] == 'load':
            prevf = None
        if r['factors'] is not None:
            if prevf is not None:
                must = not isinstance(cfg.get('factor_decay', 0.95), list) and cfg.get('factor_decay', 0.95) < 1
                for li, ((a, g), (pa, pg)) in enumerate(zip(r['factors'], prevf)):
                    ca = (a is None) != (pa is None) or (a is not None and not torch.equal(a, pa))
                    cg = (g is None) != (pg is None) or (g is not None and not torch.equal(g, pg))
                    if ca and not pend_a:
                        probs.append(f'event {ev} {e}: A of layer {li} changed but the reference machine performs no A update here')
                    if cg and not pend_g:
                        probs.append(f'event {ev} {e}: G of layer {li} changed but the reference machine performs no G update here')
                    if must and ((pend_a and not ca) or (pend_g and not cg)):
                        probs.append(f'event {ev} {e}: the reference machine updates a factor of layer {li} here but it did not change')
            prevf = r['factors']
            pend_a = pend_g = False
            if m['fa'] != 'none':
                snap.setdefault(('A', json.dumps(m['fa'])), [f[0] for f in r['factors']])
            if m['fg'] != 'none':
                snap.setdefault(('G', json.dumps(m['fg'])), [f[1] for f in r['factors']])
        if e[0] == 'load':
            # damping used by the recomputation at load time is that of the restored step
            damping_at[m['steps']] = kfacmachine.damping_at_step(cfg, exp, ev, m['steps'])
        if e[0] == 'step':
            st_before = m['steps'] - 1
            damping_at[st_before] = kfacmachine.damping_at_step(cfg, exp, ev - 1 if ev else 0, st_before)
            pre = [a for a in m['acts'] if a[0] == 'pre']
            if not any(a[0] == 'ua' or a[0] == 'ug' for a in m['acts']) and not cfg.get('update_factors_in_hook', True):
                nontriv['noupd_step'] = True
            if not any(a[0] == 'ci' for a in m['acts']):
                nontriv['norefresh_step'] = True
            if pre:
                Vs, info = kfacmachine.predicted_gradients(cfg, snap, pre[0], r['D'], damping_at, st_before)
                if Vs is None:
                    probs.append(f'event {ev}: no snapshot for the factor versions named by the machine')
                else:
                    for li, (V, aft, (contract, kappa)) in enumerate(zip(Vs, r['after'], info)):
                        tol = (64 * 1.1920929e-07 * max(kappa, 1.0) + 1e-6) * tolmul
                        rel = float(np.linalg.norm(aft - V) / max(np.linalg.norm(V), 1e-30))
                        maxratio = max(maxratio, rel / tol)
                        nontriv['grads'] += 1
                        if contract <= 1e-8 and rel > tol:
                            probs.append(f'event {ev} (step {st_before}) layer {li}: gradient differs from the one computed with the second-order '
                                         f'data named by the reference machine (factors of versions {pre[0][1]}/{pre[0][2]}, damping of step '
                                         f'{pre[0][3]}): relative error {rel:.2e} > {tol:.1e}')
    return probs, nontriv, maxratio


def run(tier, seed, rng):
    from harness import kfacmachine
    cov = Coverage('random lock-step histories (5-30 events quick, up to 120 thorough): training passes with accumulation 1-3, eval passes, '
                   'reset_batch, steps, scheduler steps, checkpoint round-trips; constant / callable (injective tables) intervals and damping; '
                   'hook / no-hook; eigen, eigen+prediv, inverse; non-trivial = a step on which second-order data is NOT refreshed and '
                   'gradients are compared; distinct by hash')
    failures: list[Failure] = []
    n = 80 if tier == 'quick' else 800
    worst = 0.0
    for k in range(n):
        cfg, hist = gen(rng, tier, k)
        sv = kfacmachine.sched_values(cfg, hist)
        res, _ = kfacmachine.run_impl(cfg, hist, 1)
        mo = kfacmachine.run_model(cfg, hist, sv)
        probs, nt, mr = verify(cfg, hist, res[0], mo, sv)
        worst = max(worst, mr)
        case = {'cfg': cfg, 'history': hist}
        cov.add(case, nt['norefresh_step'] and nt['grads'] > 0, sample_cap=2)
        cov.count('events', len(hist) // 10 * 10); cov.count('method', cfg['compute_method'] + ('+prediv' if cfg['compute_eigenvalue_outer_product'] else ''))
        cov.count('hook', cfg['update_factors_in_hook']); cov.count('acc', cfg['accumulation_steps'])
        for e in hist:
            cov.count('event', e[0] + ('_eval' if e[0] == 'pass' and not e[1] else ''))
        if probs:
            failures.append(Failure(what=probs[0][:500], case=case, model='Kfac.krun trace', impl=probs[:6], oracle_rejects=True,
                                    correspondence=CORRESPONDENCES[0], theorems=THEOREMS,
                                    oracle='the reference machine (whose interval / refresh rules are theorems) fed the same history'))
    cov.extra['max_gradient_error_over_tol'] = round(worst, 4)
    return cov, failures


def replay(path):
    from harness import kfacmachine
    d = json.load(open(path))
    c = d['case']
    sv = kfacmachine.sched_values(c['cfg'], c['history'])
    res, _ = kfacmachine.run_impl(c['cfg'], c['history'], 1)
    mo = kfacmachine.run_model(c['cfg'], c['history'], sv)
    probs, _, _ = verify(c['cfg'], c['history'], res[0], mo, sv)
    print('\n'.join(probs[:8]) or 'holds')
    return 1 if probs else 0
