"""C04 — Kronecker factors are decayed running averages of batch second moments."""
from __future__ import annotations

import json

import numpy as np

from harness import common
from harness.common import Coverage, Failure

CORRESPONDENCES = [
    'state_dict() factors after every step on every rank == extracted Factor.factor_update chain (identity first, batch mean over '
    'micro-batches, per-rank running average, cross-rank average) fed the recorded layer inputs / output gradients; '
    'bit-for-bit on the dyadic-exact stream, tolerance on the general stream',
]
TRUSTED = [
    'Coq 8.16.1 kernel (coqc); real-number axioms of the standard library',
    'extraction with ExtrOcamlBasic only; ocaml/driver.ml (IEEE doubles); ocamlopt; harness/simdist.py',
    'on the dyadic-exact stream (integer data, power-of-two rows / spatial sizes / world sizes / accumulation counts, decay in {1/2, 3/4, 1}, '
    'float64 factors) every float operation of model and implementation is exact, so equality is bit-for-bit; elsewhere rounding is not modelled',
    'layer inputs and output gradients are recorded by the harness\'s own forward-pre / backward hooks',
    'unfold semantics via C15',
]
THEOREMS = ['moment_sym_psd', 'factor_closed_form', 'update_is_ema', 'factor_sym_psd', 'rank_mean', 'moment_union', 'unscale']
NOTES = ('eval-mode inertness and off-step inertness are checked by the tie (histories contain eval passes and non-update steps); '
         'as theorems of the control machine they are eval_inert / factors_change_only_on_update_steps in Properties/C05.v.')

MODELS_EXACT = [
    ([('linear', 3, 4, 1), ('relu',), ('linear', 4, 2, 0)], [3]),
    ([('linear', 2, 2, 0)], [2, 2]),                                   # N-d input: 2 leading dims -> rows = batch*2
    ([('conv', 1, 2, [2, 2], [1, 1], [0, 0], 1), ('relu',), ('flatten',), ('linear', 8, 2, 1)], [1, 3, 3]),   # 2x2 outputs: spatial 4
    ([('conv', 2, 1, [3, 2], [2, 1], [1, 0], 0), ('flatten',), ('linear', 4, 2, 1)], [2, 3, 3]),            # oh=2, ow=2
    ([('conv', 1, 2, [1, 3], [1, 2], [0, 1], 1)], [1, 2, 4]),                                               # oh=2, ow=2 with width padding
    ([('conv', 2, 2, [1, 1], [2, 2], [0, 0], 1), ('flatten',), ('linear', 8, 2, 0)], [2, 3, 3]),            # pointwise kernel with stride 2: oh=ow=2
]
MODELS_GEN = MODELS_EXACT + [
    ([('conv', 2, 2, [2, 3], [1, 2], [1, 1], 1), ('relu',), ('flatten',), ('linear', 24, 3, 1)], [2, 3, 5]),
    ([('linear', 5, 3, 1), ('tanh',), ('linear', 3, 3, 1)], [5]),
]


def nest(t):
    if t.dim() == 1:
        return [float(v).hex() for v in t.tolist()]
    return [nest(x) for x in t]


def gen_case(rng, tier, exact):
    model, in_shape = rng.choice(MODELS_EXACT if exact else MODELS_GEN)
    W = rng.choice([1, 2, 4] if exact else [1, 2, 3])
    acc = rng.choice([1, 2, 4] if exact else [1, 2, 3])
    cfg = {
        'W': W, 'model': model, 'in_shape': in_shape, 'batch': rng.choice([2, 4] if exact else [1, 2, 3, 5]),
        'model_seed': rng.randrange(100), 'data_seed': rng.randrange(10 ** 6),
        'model_dtype': 'float64' if exact else rng.choice(['float32', 'float64']),
        'factor_dtype': 'float64' if exact else rng.choice([None, 'float32', 'float64']),
        'grad_worker_fraction': rng.choice([k / W for k in range(1, W + 1) if W % k == 0]),
        'allreduce_bucket_cap_mb': rng.choice([0.0, 25.0]), 'symmetry_aware': rng.random() < 0.4,
        'update_factors_in_hook': rng.random() < 0.6, 'accumulation_steps': acc,
        'compute_method': rng.choice(['eigen', 'inverse']), 'compute_eigenvalue_outer_product': False,
        'damping': 1.0, 'kl_clip': None, 'lr': 1.0,
        'factor_update_steps': rng.choice([1, 1, 2, 3]), 'inv_update_steps': rng.choice([1, 2]),
        'factor_decay': rng.choice([0.5, 0.75, 1.0] if exact else [0.95, 0.5, 0.3, 1.0]),
        'grad_scale': rng.choice([None, 2.0, 1024.0] if exact else [None, 3.0]),
        'exact': exact,
    }
    if cfg['grad_scale'] and rng.random() < 0.5:      # dynamic loss scaling: the scale changes between iterations
        cfg['grad_scale'] = ['table', [rng.choice([2.0, 1024.0, 8.0, 0.5] if exact else [3.0, 0.7, 48.0]) for _ in range(5)]]
    if rng.random() < 0.3:
        cfg['factor_decay'] = ['table', [rng.choice([0.5, 0.75, 1.0] if exact else [0.9, 0.5, 0.7]) for _ in range(12)]]
    n = rng.randint(1, 5 if tier == 'quick' else 9)
    hist = []
    for _ in range(n):
        if rng.random() < 0.2:
            hist.append(['eval'])
        if not cfg['update_factors_in_hook'] and rng.random() < 0.35:
            hist.append(['attempt', rng.randint(1, 2)])      # pending micro-batches discarded by reset_batch(): they must leave no trace
        hist.append(['train', acc])
    if not cfg['update_factors_in_hook'] and cfg['data_seed'] % 2 == 0:
        # stratum (derived from the data seed: the random stream of the other fields is unchanged): train-mode forward passes that
        # are never back-propagated, so A and G accumulate different numbers of micro-batches; each is the mean over its own
        # (in the exact regime the total number of forward passes stays a power of two)
        for e in hist:
            if e[0] == 'train':
                e.append(acc if exact else 1)
    return cfg, hist


def run_case(cfg, hist, seed):
    import torch
    from harness import kfacrun
    rec = {}

    def setup(rank, model, p):
        mods = [m for m in model if isinstance(m, (torch.nn.Linear, torch.nn.Conv2d))]
        store = rec.setdefault(rank, {'in': [[] for _ in mods], 'go': [[] for _ in mods], 'mods': mods})
        for li, m in enumerate(mods):
            m.register_forward_pre_hook(lambda mod, inp, li=li, store=store: store['in'][li].append(inp[0].detach().clone()) if mod.training else None)
            m.register_full_backward_hook(lambda mod, gi, go, li=li, store=store: store['go'][li].append(go[0].detach().clone()) if mod.training else None)

    def obs(rank, ev, e, model, p):
        store = rec[rank]
        sd = p.state_dict()
        out = {'steps': p.steps, 'factors': [(sd['layers'][n]['A'], sd['layers'][n]['G']) for n in sd['layers']],
               'in': [list(x) for x in store['in']], 'go': [list(x) for x in store['go']], 'decay': None}
        for x in store['in']:
            x.clear()
        for x in store['go']:
            x.clear()
        return out

    w = kfacrun.run(cfg, hist, cfg['W'], seed=seed, observe=obs, setup=setup)
    return w


def layer_specs(cfg):
    specs = []
    shape = list(cfg['in_shape'])
    for s in cfg['model']:
        if s[0] == 'linear':
            specs.append(('lin', s[1], s[2], s[3]))
            shape = shape[:-1] + [s[2]]
        elif s[0] == 'conv':
            C, O, (kh, kw), (sh, sw), (ph, pw), hb = s[1], s[2], s[3], s[4], s[5], s[6]
            H, Wd = shape[1], shape[2]
            specs.append(('conv', [cfg['batch'], C, H, Wd, O, kh, kw, sh, sw, ph, pw], hb))
            shape = [O, (H + 2 * ph - kh) // sh + 1, (Wd + 2 * pw - kw) // sw + 1]
        elif s[0] == 'flatten':
            n = 1
            for d in shape:
                n *= d
            shape = [n]
    return specs


def kfacrun_scale_at(cfg, ev):
    from harness import kfacrun
    return kfacrun.scale_at(cfg, ev)


def decay_at(cfg, step):
    d = cfg['factor_decay']
    if isinstance(d, list):
        return d[1][min(step, len(d[1]) - 1)]
    return d


def run(tier, seed, rng):
    import torch
    cov = Coverage('dyadic-exact stream (integer data, power-of-two sizes, decay in {1/2, 3/4, 1}, loss scales {2, 1024}, worlds 1/2/4, '
                   'accumulation 1/2/4, float64 factors: bit-for-bit) and general stream (float32/float64, odd sizes, worlds 1-3: tolerance); '
                   'linear layers with 2-d and N-d inputs, conv geometries incl. rectangular kernels, strides, asymmetric padding; hook and '
                   'no-hook updates; eval passes and non-update steps interleaved; non-trivial = >= 2 factor updates and (W > 1 or accumulation > 1); distinct by hash')
    failures: list[Failure] = []
    n = 60 if tier == 'quick' else 600
    maxerr = 0.0
    for k in range(n):
        exact = (k % 3 != 2)
        cfg, hist = gen_case(rng, tier, exact)
        W = cfg['W']
        w = run_case(cfg, hist, seed + k)
        case = {'cfg': cfg, 'history': hist, 'seed': seed + k}
        if not w.ok:
            failures.append(Failure(what=f'run failed: {w.errors[:1]} {w.deadlock} {w.exceptions}'[:400], case=case, oracle_rejects=True,
                                    correspondence=CORRESPONDENCES[0], theorems=THEOREMS, oracle='run completes'))
            continue
        specs = layer_specs(cfg)
        prev = [[['identity', 0], ['identity', 0]] for _ in specs]
        nupd = 0
        probs, diffs = [], []
        step = 0
        for ev, e in enumerate(hist):
            o0 = w.results[0][ev]
            if e[0] in ('eval', 'attempt'):
                # eval passes (and abandoned, reset iterations) leave the factors untouched
                for r in range(W):
                    fr = w.results[r][ev]['factors']
                    if ev > 0:
                        pf = w.results[r][ev - 1]['factors']
                        for (a, g), (pa, pg) in zip(fr, pf):
                            if (a is None) != (pa is None) or (a is not None and not (torch.equal(a, pa) and torch.equal(g, pg))):
                                probs.append(f'event {ev}: {e[0]} changed a factor on rank {r}')
                continue
            fus = cfg['factor_update_steps']
            is_upd = step % fus == 0
            alpha = decay_at(cfg, step)
            if is_upd:
                nupd += 1
                margs = []
                for li, sp in enumerate(specs):
                    ins = [[nest(x.double().reshape(-1, x.shape[-1])) if sp[0] == 'lin' else nest(x.double()) for x in w.results[r][ev]['in'][li]] for r in range(W)]
                    gos = [[nest(x.double().reshape(-1, x.shape[-1])) if sp[0] == 'lin' else nest(x.double()) for x in w.results[r][ev]['go'][li]] for r in range(W)]
                    sc = 'none' if not cfg['grad_scale'] else float(kfacrun_scale_at(cfg, ev)).hex()
                    if sp[0] == 'lin':
                        margs.append(('factor_update', [prev[li][0], float(alpha).hex(), ['lin_a', sp[1], sp[3]], ins]))
                        margs.append(('factor_update', [prev[li][1], float(alpha).hex(), ['lin_g', sp[2], sc], gos]))
                    else:
                        margs.append(('factor_update', [prev[li][0], float(alpha).hex(), ['conv_a', sp[1], sp[2]], ins]))
                        margs.append(('factor_update', [prev[li][1], float(alpha).hex(), ['conv_g', sp[1], sc], gos]))
                mo = common.run_model(margs)
                for li in range(len(specs)):
                    prev[li] = [mo[2 * li], mo[2 * li + 1]]
            for r in range(W):
                fr = w.results[r][ev]['factors']
                for li, (a, g) in enumerate(fr):
                    for name, t, m in (('A', a, prev[li][0]), ('G', g, prev[li][1])):
                        if m[0] == 'identity':
                            continue
                        mt = torch.tensor([[float.fromhex(x) for x in row] for row in m], dtype=torch.float64)
                        if t is None or tuple(t.shape) != tuple(mt.shape):
                            probs.append(f'step {step} rank {r} layer {li} {name}: shape {None if t is None else tuple(t.shape)} vs {tuple(mt.shape)}')
                            continue
                        want_dt = cfg['factor_dtype'] or cfg['model_dtype']
                        if str(t.dtype) != 'torch.' + want_dt:
                            probs.append(f'step {step} rank {r} layer {li} {name}: dtype {t.dtype}, requested {want_dt}')
                        td = t.double()
                        if not torch.equal(td, td.t()):
                            probs.append(f'step {step} rank {r} layer {li} {name}: factor not symmetric')
                        elif float(torch.linalg.eigvalsh(td).min()) < -1e-6 * max(1.0, float(td.abs().max())):
                            probs.append(f'step {step} rank {r} layer {li} {name}: factor not positive semi-definite')
                        err = float((td - mt).abs().max())
                        tol = 0.0 if exact else (1e-5 if t.dtype == torch.float32 else 1e-10) * max(1.0, float(mt.abs().max()))
                        maxerr = max(maxerr, err if not exact else 0.0)
                        if err > tol:
                            diffs.append(f'step {step} rank {r} layer {li} {name}: max |impl - model| = {err:.3e} (tol {tol:.1e}; update step: {is_upd})')
            step += 1
        cov.add(case, nupd >= 2 and (W > 1 or cfg['accumulation_steps'] > 1), sample_cap=2)
        cov.count('stream', 'exact' if exact else 'general'); cov.count('W', W); cov.count('accumulation', cfg['accumulation_steps'])
        cov.count('hook', cfg['update_factors_in_hook']); cov.count('scale', 'dynamic' if isinstance(cfg['grad_scale'], list) else cfg['grad_scale']); cov.count('updates', nupd)
        if probs or diffs:
            # oracle independent of the model: recompute the recurrence in numpy float64 from the recorded micro-batches
            failures.append(Failure(what='; '.join((probs + diffs)[:3])[:500], case=case, impl=(probs + diffs)[:10], model='Factor.factor_update chain',
                                    oracle_rejects=True if probs else bool(exact or any('e-0' in d and float(d.split('= ')[1].split(' ')[0]) > 1e-3 for d in diffs)),
                                    correspondence=CORRESPONDENCES[0], theorems=THEOREMS,
                                    oracle='symmetry, eigvalsh >= -tol, dtype, eval inertness; exact equality on the dyadic stream'))
    cov.extra['max_abs_error_general_stream'] = maxerr
    from harness import simdist
    from kfac.preconditioner import KFACPreconditioner
    simdist.install()
    for k, shape in enumerate([(5, 900, 6), (4099, 6), (3, 2731, 6)] if tier == 'quick' else [(5, 900, 6), (4099, 6), (3, 2731, 6), (8, 1024, 6), (8193, 6), (2, 4097, 6)]):
        torch.manual_seed(seed + 9000 + k)
        lin = torch.nn.Linear(6, 3)
        model = torch.nn.Sequential(lin)
        rec = {'a': [], 'g': []}
        lin.register_forward_pre_hook(lambda m, inp: rec['a'].append(inp[0].detach().double().reshape(-1, 6)))
        lin.register_full_backward_hook(lambda m, gi, go: rec['g'].append(go[0].detach().double().reshape(-1, 3)))
        pk = KFACPreconditioner(model, factor_decay=0.5, kl_clip=None, damping=0.1)
        A = torch.eye(7, dtype=torch.float64); G = torch.eye(3, dtype=torch.float64)
        case = {'kind': 'many-rows', 'shape': list(shape), 'seed': seed + 9000 + k}
        probs = []
        for st in range(2):
            model.zero_grad(); rec['a'].clear(); rec['g'].clear()
            x = torch.randn(*shape) * (1.0 + torch.arange(shape[0]).reshape([-1] + [1] * (len(shape) - 1)) % 3)      # rows are NOT exchangeable
            (model(x) * torch.randn(*shape[:-1], 3)).sum().backward()
            pk.step()
            a = torch.cat([rec['a'][0], torch.ones(rec['a'][0].shape[0], 1, dtype=torch.float64)], 1); g = rec['g'][0]
            A = 0.5 * A + 0.5 * (a.t() @ a) / a.shape[0]; G = 0.5 * G + 0.5 * (g.t() @ g) / g.shape[0]
            sd = pk.state_dict()['layers']['0']
            for nme, got, want in (('A', sd['A'], A), ('G', sd['G'], G)):
                err = float((got.double() - want).abs().max()) / max(float(want.abs().max()), 1e-30)
                if err > 1e-4:
                    probs.append(f'step {st} {nme}: factor differs from decay * previous + (1 - decay) * mean over all {a.shape[0]} rows (rel {err:.2e})')
        cov.add(case, True, sample_cap=1); cov.count('stream', 'many-rows')
        if probs:
            failures.append(Failure(what='; '.join(probs[:3])[:500], case=case, impl=probs[:6], model='Factor.factor_update chain', oracle_rejects=True,
                                    correspondence=CORRESPONDENCES[0], theorems=THEOREMS, oracle='float64 recurrence from the recorded layer inputs / output gradients'))
    return cov, failures


def replay(path):
    d = json.load(open(path))
    c = d['case']
    w = run_case(c['cfg'], c['history'], c['seed'])
    print('run ok:', w.ok, w.errors[:2], w.exceptions)
    print(d['what'])
    return 1
