"""C17 — greedy work assignment (DESIGN.md §4 C17)."""
from __future__ import annotations

import copy
import itertools
import json
import os
import subprocess
import sys

from harness import common
from harness.common import Coverage, Failure

CORRESPONDENCES = [
    'KAISAAssignment.greedy_assignment output is accepted by the verified checker greedy_ok_b '
    '(fast path: equals extracted `greedy`)',
    'greedy_assignment is a pure function of its arguments (repeatable, no mutation, hash-seed independent)',
]
TRUSTED = [
    'Coq 8.16.1 kernel (coqc); no native_compute',
    'extraction with ExtrOcamlBasic only; ocaml/driver.ml; ocamlopt',
    'costs are integers (as the real n^2 / n^3 costs are), also scaled by exact powers of two (small fractional costs): float rounding inside Python load accumulation is outside the model and the generator',
    'factor names are mapped to their rank in Python string order by the harness',
]
THEOREMS = ['greedy_rule', 'greedy_complete_confined', 'greedy_colocated', 'balance_workers', 'balance_groups', 'greedy_in_relation', 'greedy_scale_invariant']
NOTES = ('Theorems are proved for every assignment accepted by greedy_ok_b (free tie-breaks among '
         'equally loaded groups/workers, fixed stable processing order), for all world sizes, '
         'disjoint groups and non-negative integer costs.')

GROUPSETS_SMALL = [
    [[0]], [[0, 1]], [[1, 0]], [[0], [1]], [[1], [0]], [[0, 1], [2, 3]], [[0, 2], [1, 3]],
    [[2, 3], [0, 1]], [[0], [1, 2]], [[0, 1, 2, 3]], [[3], [0, 1, 2]], [[0], [1], [2], [3]],
]


SCALES = [2.0 ** -30, 2.0 ** -23, 2.0 ** 9, 2.0 ** -17]


def encode(work, groups, colocate):
    """Python dict -> model argument; factor code = rank of name in string order."""
    enc = []
    for lname, fs in work.items():
        names = sorted(fs.keys())
        enc.append([[names.index(f), int(c)] for f, c in fs.items()])
    return [enc, [list(g) for g in groups], 1 if colocate else 0]


def encode_result(work, res):
    out = []
    for li, (lname, fs) in enumerate(work.items()):
        names = sorted(fs.keys())
        out.append([li, [[names.index(f), int(res[lname][f])] for f in res[lname]]])
    return out


def canon(asg):
    return sorted((l, tuple(sorted(map(tuple, fl)))) for l, fl in asg)


def gen_small(tier, rng):
    costs = [0, 1, 2, 3]
    layer_opts = [{'A': a} for a in costs] + [{'A': a, 'G': g} for a in costs for g in costs]
    # dict insertion order matters for the implementation: also G-before-A layers
    layer_opts += [{'G': g, 'A': a} for a in (0, 1, 3) for g in (1, 3)]
    all_cases = []
    for nl in (1, 2, 3):
        for combo in itertools.product(layer_opts, repeat=nl):
            all_cases.append(combo)
    if tier == 'quick':
        cases = rng.sample(all_cases, 2500)
        exhaustive = False
    else:
        cases = all_cases
        exhaustive = True
    out = []
    for combo in cases:
        work = {f'l{i}': dict(fs) for i, fs in enumerate(combo)}
        gs = GROUPSETS_SMALL if tier == 'thorough' else rng.sample(GROUPSETS_SMALL, 3)
        for groups in gs:
            for colocate in (False, True):
                out.append((work, groups, colocate))
    return out, exhaustive


def gen_large(tier, rng):
    n = 600 if tier == 'quick' else 6000
    out = []
    fams = ['ties', 'zeros', 'pow2', 'cubes', 'wide', 'uniform', 'onegiant', 'random']
    for k in range(n):
        fam = fams[k % len(fams)]
        W = rng.choice([1, 2, 3, 4, 6, 8, 12, 16, 24, 32])
        # disjoint groups: a random partition of a random subset of ranks, possibly unequal
        ranks = list(range(W))
        style = rng.choice(['cols', 'rows', 'random', 'single'])
        if style == 'single':
            groups = [ranks]
        elif style in ('cols', 'rows'):
            ks = [d for d in range(1, W + 1) if W % d == 0]
            kk = rng.choice(ks)
            p = W // kk
            groups = ([list(range(i, W, p)) for i in range(p)] if style == 'cols'
                      else [list(range(i * p, i * p + p)) for i in range(kk)])
        else:
            rng.shuffle(ranks)
            ranks = ranks[:rng.randint(1, W)]
            groups = []
            while ranks:
                s = rng.randint(1, len(ranks))
                groups.append(ranks[:s])
                ranks = ranks[s:]
        rng.shuffle(groups)
        nl = rng.choice([0, 1, 2, 3, 5, 8, 13, 20, 40])
        fnames = rng.choice([['A', 'G'], ['A', 'G'], ['G', 'A'], ['A'], ['B', 'A', 'D', 'C'], ['a10', 'a9', 'a2']])
        work = {}
        for i in range(nl):
            def cost():
                if fam == 'ties':
                    return rng.choice([5, 5, 5, 7])
                if fam == 'zeros':
                    return rng.choice([0, 0, 1])
                if fam == 'pow2':
                    return 2 ** rng.randint(0, 20)
                if fam == 'cubes':
                    return rng.randint(1, 300) ** 3
                if fam == 'wide':
                    return rng.choice([1, 3, 2 ** 30, 2 ** 40 + 1, 10 ** 6])
                if fam == 'uniform':
                    return 4
                if fam == 'onegiant':
                    return 10 ** 9 if i == 1 else rng.randint(1, 5)
                return rng.randint(0, 50)
            work[f'layer.{rng.randint(0, 99)}.{i}'] = {f: cost() for f in fnames[:rng.randint(1, len(fnames))]}
        out.append((work, groups, rng.random() < 0.5))
    return out


def is_nontrivial(work, groups):
    totals = [sum(fs.values()) for fs in work.values()]
    ties = len(set(totals)) < len(totals) or any(c == 0 for fs in work.values() for c in fs.values())
    return len(groups) >= 2 and len(work) >= 2 and ties


def run(tier, seed, rng):
    from kfac.assignment import KAISAAssignment
    cov = Coverage('exhaustive small scope (<=3 layers x <=2 factors, costs 0..3, <=4 ranks in <=4 groups; '
                   'sampled in the quick tier) + random large scope (<=40 layers, <=32 ranks, 8 cost families); '
                   'non-trivial = >=2 groups, >=2 layers and a tie among layer totals or a zero cost; distinct by hash')
    failures: list[Failure] = []
    small, exhaustive = gen_small(tier, rng)
    large = gen_large(tier, rng)
    cases = small + large
    cov.exhaustive = exhaustive
    impl = []
    for work, groups, colocate in cases:
        w0, g0 = copy.deepcopy(work), copy.deepcopy(groups)
        world = max([r for g in groups for r in g] + [0]) + 1
        try:
            res = KAISAAssignment.greedy_assignment(work, groups, world, colocate)
            res2 = KAISAAssignment.greedy_assignment(work, groups, world, colocate)
            err = None
            if res != res2:
                err = 'two calls with equal arguments gave different results'
            if work != w0 or groups != g0 or list(work) != list(w0):
                err = 'arguments were mutated'
            if set(res) != set(work) or any(set(res[l]) != set(work[l]) for l in work):
                err = 'result does not have the structure of the work dictionary'
            # the rule only compares sums: scaling every cost by a power of two (exact in binary floating point,
            # e.g. costs measured in seconds ~1e-7 instead of integers) must not change the assignment
            sc = SCALES[len(impl) % len(SCALES)]
            res3 = KAISAAssignment.greedy_assignment({l: {f: c * sc for f, c in fs.items()} for l, fs in work.items()}, groups, world, colocate)
            if err is None and res3 != res:
                err = f'assignment changes when every cost is multiplied by {sc!r} (an exact power of two)'
        except Exception as e:  # noqa: BLE001
            res, err = None, f'raised {type(e).__name__}: {e}'
        impl.append((res, err))
    margs = [('greedy', encode(*c)) for c in cases]
    mouts = common.run_model_sharded(margs)
    recheck = []
    for k, (case, (res, err), mo) in enumerate(zip(cases, impl, mouts)):
        work, groups, colocate = case
        jcase = {'work': work, 'groups': groups, 'colocate': colocate}
        cov.add(jcase, is_nontrivial(work, groups))
        cov.count('layers', len(work)); cov.count('groups', len(groups)); cov.count('colocate', colocate)
        if err is not None:
            failures.append(Failure(what=err, case=jcase, model=mo, impl=str(res)[:300], oracle_rejects=True,
                                    correspondence=CORRESPONDENCES[1] if 'mutat' in err or 'two calls' in err else CORRESPONDENCES[0],
                                    theorems=THEOREMS, oracle='total, repeatable, no mutation, dict structure preserved'))
            continue
        enc = encode_result(work, res)
        if canon(enc) != canon(mo):
            recheck.append((k, enc))
    cov.extra['differs_from_deterministic_model'] = len(recheck)
    if recheck:
        oks = common.run_model([('greedy_ok_b', encode(*cases[k]) + [enc]) for k, enc in recheck])
        props = common.run_model([('greedy_prop_b', encode(*cases[k]) + [enc]) for k, enc in recheck])
        accepted = 0
        for (k, enc), ok, pr in zip(recheck, oks, props):
            if ok == 1:
                accepted += 1
                continue
            work, groups, colocate = cases[k]
            failures.append(Failure(
                what='assignment is outside the greedy rule (rejected by greedy_ok_b)',
                case={'work': work, 'groups': groups, 'colocate': colocate},
                model=mouts[k], impl=enc, oracle_rejects=(pr != 1),
                correspondence=CORRESPONDENCES[0], theorems=THEOREMS,
                oracle='greedy_prop_b: completeness, confinement, colocation, worker/group balance bounds'))
        cov.extra['accepted_by_relation_only'] = accepted
    # hash-seed independence (different processes)
    nsub = 2 if tier == 'quick' else 6
    sample = [c for c in large if len(c[0]) >= 3][:40]
    payload = json.dumps([[w, g, c] for w, g, c in sample])
    outs = []
    for hs in range(nsub):
        code = ("import sys,json,warnings; warnings.filterwarnings('ignore'); sys.path.insert(0, %r)\n"
                "from kfac.assignment import KAISAAssignment as K\n"
                "cs=json.loads(sys.stdin.read())\n"
                "print(json.dumps([K.greedy_assignment(w,g,max([r for x in g for r in x]+[0])+1,c) for w,g,c in cs]))" % common.REPO)
        p = subprocess.run([sys.executable, '-c', code], input=payload, capture_output=True, text=True,
                           env=dict(os.environ, PYTHONHASHSEED=str(1000 + hs)))
        outs.append(p.stdout.strip().splitlines()[-1] if p.returncode == 0 and p.stdout.strip() else f'error {p.stderr[-200:]}')
    cov.extra['hash_seed_processes'] = nsub
    if len(set(outs)) != 1 or outs[0].startswith('error'):
        failures.append(Failure(what='result depends on the process / hash seed', case={'cases': len(sample)},
                                model='identical', impl=[o[:200] for o in outs], oracle_rejects=True,
                                correspondence=CORRESPONDENCES[1], theorems=[], oracle='equal outputs across PYTHONHASHSEED'))
    return cov, failures


def replay(path):
    from kfac.assignment import KAISAAssignment
    d = json.load(open(path))
    c = d['case']
    work, groups, colocate = c['work'], c['groups'], c['colocate']
    world = max([r for g in groups for r in g] + [0]) + 1
    res = KAISAAssignment.greedy_assignment(work, groups, world, colocate)
    enc = encode_result(work, res)
    ok, pr, mo = common.run_model([('greedy_ok_b', encode(work, groups, colocate) + [enc]),
                                   ('greedy_prop_b', encode(work, groups, colocate) + [enc]),
                                   ('greedy', encode(work, groups, colocate))])
    print('implementation:', res)
    print('model greedy  :', mo)
    print('greedy_ok_b =', ok, ' greedy_prop_b =', pr)
    return 0 if ok == 1 else 1
