"""Minimal stand-in for the two DeepSpeed names kfac.gpt_neox imports
(DeepSpeed is not installed and does not support this Python).  Modelled, not
verified: see DESIGN.md section 1.4.  Only put on sys.path by the harness."""
