"""Re-statement of DeepSpeed's ProcessTopology / PipeModelDataParallelTopology
(axes ['pipe', 'data', 'model'], row-major rank layout)."""
import itertools
from collections import namedtuple


class ProcessTopology:
    def __init__(self, axes, dims):
        self.axes = list(axes)
        self.dims = list(dims)
        self.ProcessCoord = namedtuple('ProcessCoord', axes)
        self.mapping = {}
        ranges = [range(d) for d in dims]
        for global_rank, coord in enumerate(itertools.product(*ranges)):
            key = self.ProcessCoord(**{a: coord[self.axes.index(a)] for a in self.axes})
            self.mapping[key] = global_rank

    def get_dim(self, axis):
        if axis not in self.axes:
            return 0
        return self.dims[self.axes.index(axis)]

    def get_coord(self, rank):
        for coord, idx in self.mapping.items():
            if idx == rank:
                return coord
        raise ValueError(f'rank {rank} not found in topology.')

    def get_axis_comm_lists(self, axis):
        if axis not in self.axes:
            return []
        other_axes = [a for a in self.axes if a != axis]
        lists = []
        ranges = [range(self.get_dim(a)) for a in other_axes]
        for coord in itertools.product(*ranges):
            other_keys = {a: coord[other_axes.index(a)] for a in other_axes}
            sub_list = []
            for axis_key in range(self.get_dim(axis)):
                key = self.ProcessCoord(**other_keys, **{axis: axis_key})
                sub_list.append(self.mapping[key])
            lists.append(sub_list)
        return lists

    def world_size(self):
        n = 1
        for d in self.dims:
            n *= d
        return n


class PipeModelDataParallelTopology(ProcessTopology):
    def __init__(self, num_pp, num_mp, num_dp):
        super().__init__(axes=['pipe', 'data', 'model'], dims=[num_pp, num_dp, num_mp])
