import torch


class PipelineModule(torch.nn.Module):
    """Only isinstance() and .topology() are used by kfac.gpt_neox."""

    def __init__(self, layers=None, topology=None):
        super().__init__()
        if layers is not None:
            self.layers = layers if isinstance(layers, torch.nn.Module) else torch.nn.Sequential(*layers)
        self._topo = topology

    def topology(self):
        return self._topo

    def forward(self, x):
        return self.layers(x)
