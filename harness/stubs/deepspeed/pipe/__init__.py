import torch


class PipelineModule(torch.nn.Module):
    """Only isinstance() and .topology() are used by kfac.gpt_neox."""

    def __init__(self, layers=None, topology=None, index_offset=0):
        super().__init__()
        self._off = index_offset
        # as DeepSpeed's PipelineModule._build(): every layer is a direct child named by its global layer index
        self._n = 0
        if layers is not None:
            for i, l in enumerate(list(layers.children()) if isinstance(layers, torch.nn.Module) and not isinstance(layers, torch.nn.Linear) else list(layers)):
                self.add_module(str(index_offset + i), l)
                self._n += 1
        self._topo = topology

    def topology(self):
        return self._topo

    def forward(self, x):
        for i in range(self._n):
            x = getattr(self, str(self._off + i))(x)
        return x
