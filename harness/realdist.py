"""Cross-check of the simulated transport (harness/simdist.py) against the real one: the same K-FAC configuration and history
is run on W real processes with torch.distributed's gloo backend (fork, localhost) and on W simulated ranks; the per-rank
sequences of data collectives (group members, kind, element count, dtype, root) must be equal and the final gradients must
agree.  This validates the part of the trusted base that says "simdist behaves like torch.distributed"; it proves nothing."""
from __future__ import annotations

import multiprocessing as mp
import os
import socket
from datetime import timedelta

import numpy as np


def _free_port() -> int:
    s = socket.socket()
    s.bind(('127.0.0.1', 0))
    p = s.getsockname()[1]
    s.close()
    return p


def _worker(rank, W, port, cfg, hist, q):
    import torch
    import torch.distributed as dist
    try:
        os.dup2(os.open(os.devnull, os.O_WRONLY), 2)       # c10d's hostname-lookup warnings are noise here; errors travel through the queue
        from harness import simdist
        simdist.uninstall()          # the forked child inherits the parent's patched torch.distributed: put the real one back
        torch.set_num_threads(1)
        os.environ.update(MASTER_ADDR='127.0.0.1', MASTER_PORT=str(port), RANK=str(rank), WORLD_SIZE=str(W), LOCAL_RANK='0')
        dist.init_process_group('gloo', rank=rank, world_size=W, timeout=timedelta(seconds=60))
        log = []

        def ranks_of(group):
            return tuple(range(W)) if group is None else tuple(dist.get_process_group_ranks(group))
        o_ar, o_bc = dist.all_reduce, dist.broadcast

        def all_reduce(tensor, *a, group=None, **k):
            log.append(('all_reduce', ranks_of(group), tensor.numel(), str(tensor.dtype), None))
            return o_ar(tensor, *a, group=group, **k)

        def broadcast(tensor, src=None, group=None, **k):
            log.append(('broadcast', ranks_of(group), tensor.numel(), str(tensor.dtype), src))
            return o_bc(tensor, src=src, group=group, **k)
        dist.all_reduce, dist.broadcast = all_reduce, broadcast
        from harness import kfacrun
        from harness.props.C01 import combined_grad
        mods_of = lambda model: [m for m in model if isinstance(m, (torch.nn.Linear, torch.nn.Conv2d))]
        obs = lambda r, ev, e, model, p: ([np.asarray([int(p.memory_usage()['total'])])] + [combined_grad(m) for m in mods_of(model)]) if e[0] == 'train' else None
        res = kfacrun.rank_body(cfg, hist, W, observe=obs)(rank)
        q.put((rank, 'ok', log, [None if x is None else [np.asarray(a) for a in x] for x in res]))
        dist.barrier()
        dist.destroy_process_group()
    except Exception as e:  # noqa: BLE001
        q.put((rank, 'error', f'{type(e).__name__}: {e}'[:300], None))


def run_real(cfg, hist, W, timeout=90):
    """-> {rank: (status, log, results)} from W forked gloo processes"""
    os.environ.setdefault('TORCH_CPP_LOG_LEVEL', 'ERROR')      # c10d's hostname-lookup warnings are noise in this sandbox
    ctx = mp.get_context('fork')
    q = ctx.Queue()
    port = _free_port()
    procs = [ctx.Process(target=_worker, args=(r, W, port, cfg, hist, q), daemon=True) for r in range(W)]
    for p in procs:
        p.start()
    out = {}
    try:
        for _ in range(W):
            rank, status, log, res = q.get(timeout=timeout)
            out[rank] = (status, log, res)
    except Exception:  # noqa: BLE001  (queue.Empty: a rank hung or died)
        pass
    for p in procs:
        p.join(timeout=5)
        if p.is_alive():
            p.terminate()
    return out


def compare(cfg, hist, seed=0):
    """-> list of differences between the real and the simulated run (empty = they agree); None if the real run could not be completed"""
    import torch
    from harness import kfacrun
    from harness.props.C01 import combined_grad
    W = cfg['W']
    real = run_real(cfg, hist, W)
    if len(real) != W or any(v[0] != 'ok' for v in real.values()):
        return None          # infrastructure (fork / ports / load), not a finding: the caller counts it as skipped
    mods_of = lambda model: [m for m in model if isinstance(m, (torch.nn.Linear, torch.nn.Conv2d))]
    obs = lambda r, ev, e, model, p: ([np.asarray([int(p.memory_usage()['total'])])] + [combined_grad(m) for m in mods_of(model)]) if e[0] == 'train' else None
    w = kfacrun.run(cfg, hist, W, seed=seed, policy='random', observe=obs)
    if not w.ok:
        return [f'simulated run failed: {w.errors[:1]} {w.deadlock} {w.exceptions}'[:400]]
    diffs = []
    for r in range(W):
        sim = [(k, tuple(g), n, dt, root) for (rk, k, g, n, dt, root, seq) in w.log if rk == r and k in ('all_reduce', 'broadcast')]
        rl = [(k, tuple(g), n, dt, root) for (k, g, n, dt, root) in real[r][1]]
        if sim != rl:
            i = next((j for j, (a, b) in enumerate(zip(sim, rl)) if a != b), min(len(sim), len(rl)))
            diffs.append(f'rank {r}: collective #{i}: simulated {sim[i] if i < len(sim) else None} vs real gloo {rl[i] if i < len(rl) else None} '
                         f'({len(sim)} vs {len(rl)} calls)')
        for si, (a, b) in enumerate(zip(w.results[r], real[r][2])):
            if (a is None) != (b is None):
                diffs.append(f'rank {r} event {si}: observation present in one run only')
            elif a is not None:
                if int(np.asarray(a[0])[0]) != int(np.asarray(b[0])[0]):
                    diffs.append(f'rank {r} event {si}: memory_usage() reports {int(np.asarray(a[0])[0])} bytes under the simulated transport and {int(np.asarray(b[0])[0])} under real gloo')
                for li, (x, y) in enumerate(zip(a[1:], b[1:])):
                    err = float(np.abs(np.asarray(x) - np.asarray(y)).max()) / max(float(np.abs(np.asarray(y)).max()), 1e-30)
                    if err > 1e-4:
                        diffs.append(f'rank {r} event {si} layer {li}: gradients differ between the simulated and the real transport (rel {err:.2e})')
    return diffs
