(* Model of kfac/assignment.py: KAISAAssignment.greedy_assignment.
   Executable definitions only.

   work   : list of layers in dict-insertion order; a layer is a list of
            (factor code, cost); the factor code is the rank of the factor's
            name in Python string order (so 'A' < 'G' becomes 0 < 1);
   groups : list of worker groups (lists of ranks);
   costs  : integers (Z).  Python adds them to float loads; for integer costs
            below 2^53 every sum is exact, so Z is faithful there. *)
From Coq Require Import List Arith ZArith Bool.
Import ListNotations.
Local Open Scope Z_scope.

Definition factor := (nat * Z)%type.          (* factor code, cost *)
Definition layerw := list factor.
Definition loads := nat -> Z.
Definition asg_t := list (nat * list (nat * nat)). (* layer idx -> [(factor code, rank)] *)

Definition upd (L : loads) (w : nat) (c : Z) : loads :=
  fun r => if Nat.eqb r w then L r + c else L r.

Definition sumcost (fs : layerw) : Z := fold_right (fun fc acc => snd fc + acc) 0 fs.
Definition gload (L : loads) (g : list nat) : Z := fold_right (fun r acc => L r + acc) 0 g.

(* index of the first minimum: list.index(min(list)) *)
Fixpoint argmin_aux (l : list Z) (i besti : nat) (best : Z) : nat :=
  match l with
  | [] => besti
  | x :: t => if x <? best then argmin_aux t (S i) i x else argmin_aux t (S i) besti best
  end.
Definition argmin (l : list Z) : nat :=
  match l with [] => 0%nat | x :: t => argmin_aux t 1 0 x end.

(* sorted(..., key=total, reverse=True): stable, descending *)
Fixpoint insert_layer (x : nat * layerw) (l : list (nat * layerw)) : list (nat * layerw) :=
  match l with
  | [] => [x]
  | y :: t => if sumcost (snd y) <? sumcost (snd x) then x :: y :: t else y :: insert_layer x t
  end.
Definition sort_layers (l : list (nat * layerw)) : list (nat * layerw) :=
  fold_left (fun acc x => insert_layer x acc) l [].

(* sorted(items, key=(cost, name), reverse=True) *)
Definition factor_lt (a b : factor) : bool :=      (* key a < key b *)
  (snd a <? snd b) || ((snd a =? snd b) && Nat.ltb (fst a) (fst b)).
Fixpoint insert_factor (x : factor) (l : list factor) : list factor :=
  match l with
  | [] => [x]
  | y :: t => if factor_lt y x then x :: y :: t else y :: insert_factor x t
  end.
Definition sort_factors (l : list factor) : list factor :=
  fold_left (fun acc x => insert_factor x acc) l [].

Fixpoint index_from (i : nat) {A} (l : list A) : list (nat * A) :=
  match l with [] => [] | x :: t => (i, x) :: index_from (S i) t end.

Definition pick_group (L : loads) (groups : list (list nat)) : list nat :=
  nth (argmin (map (gload L) groups)) groups [].
Definition pick_worker (L : loads) (g : list nat) : nat :=
  nth (argmin (map L g)) g 0%nat.

Fixpoint place_factors (L : loads) (g : list nat) (fs : list factor)
  : loads * list (nat * nat) :=
  match fs with
  | [] => (L, [])
  | (f, c) :: t =>
      let w := pick_worker L g in
      let '(L', a) := place_factors (upd L w c) g t in
      (L', (f, w) :: a)
  end.

Definition place_layer (colocate : bool) (L : loads) (groups : list (list nat))
  (fs : layerw) : loads * list (nat * nat) :=
  let g := pick_group L groups in
  if colocate then
    let w := pick_worker L g in
    (upd L w (sumcost fs), map (fun fc => (fst fc, w)) fs)
  else place_factors L g (sort_factors fs).

Fixpoint place_all (colocate : bool) (L : loads) (groups : list (list nat))
  (ls : list (nat * layerw)) : asg_t :=
  match ls with
  | [] => []
  | (i, fs) :: t =>
      let '(L', a) := place_layer colocate L groups fs in
      (i, a) :: place_all colocate L' groups t
  end.

Definition greedy (work : list layerw) (groups : list (list nat)) (colocate : bool) : asg_t :=
  place_all colocate (fun _ => 0) groups (sort_layers (index_from 0 work)).

(* ---- relational version: accepts any tie-break among equally loaded
        groups / workers --------------------------------------------------- *)
Definition lookup2 (a : asg_t) (l f : nat) : option nat :=
  match find (fun p => Nat.eqb (fst p) l) a with
  | Some (_, fl) =>
      match find (fun q => Nat.eqb (fst q) f) fl with
      | Some (_, w) => Some w
      | None => None
      end
  | None => None
  end.

Definition memb (r : nat) (g : list nat) : bool := existsb (Nat.eqb r) g.
Definition is_min_in (x : Z) (l : list Z) : bool := forallb (fun y => x <=? y) l.

Fixpoint check_factors (L : loads) (g : list nat) (l : nat) (fs : list factor)
  (a : asg_t) : option loads :=
  match fs with
  | [] => Some L
  | (f, c) :: t =>
      match lookup2 a l f with
      | None => None
      | Some w =>
          if memb w g && is_min_in (L w) (map L g)
          then check_factors (upd L w c) g l t a else None
      end
  end.

Definition check_layer (colocate : bool) (L : loads) (groups : list (list nat))
  (l : nat) (fs : layerw) (a : asg_t) : option loads :=
  match (if colocate then fs else sort_factors fs) with
  | [] => Some L
  | ((f0, _) :: _) as pfs =>
      match lookup2 a l f0 with
      | None => None
      | Some w0 =>
          match find (memb w0) groups with
          | None => None
          | Some g =>
              if is_min_in (gload L g) (map (gload L) groups) then
                if colocate then
                  if is_min_in (L w0) (map L g)
                     && forallb (fun fc => match lookup2 a l (fst fc) with
                                           | Some w => Nat.eqb w w0 | None => false end) fs
                  then Some (upd L w0 (sumcost fs)) else None
                else check_factors L g l pfs a
              else None
          end
      end
  end.

Fixpoint check_all (colocate : bool) (L : loads) (groups : list (list nat))
  (ls : list (nat * layerw)) (a : asg_t) : bool :=
  match ls with
  | [] => true
  | (i, fs) :: t =>
      match check_layer colocate L groups i fs a with
      | None => false
      | Some L' => check_all colocate L' groups t a
      end
  end.

Definition greedy_ok_b (work : list layerw) (groups : list (list nat)) (colocate : bool)
  (a : asg_t) : bool :=
  check_all colocate (fun _ => 0) groups (sort_layers (index_from 0 work)) a.

(* final loads of an accepted assignment (for the balance oracle) *)
Fixpoint loads_all (colocate : bool) (L : loads) (groups : list (list nat))
  (ls : list (nat * layerw)) (a : asg_t) : option loads :=
  match ls with
  | [] => Some L
  | (i, fs) :: t =>
      match check_layer colocate L groups i fs a with
      | None => None
      | Some L' => loads_all colocate L' groups t a
      end
  end.

(* ---- property oracle on an arbitrary assignment (no replay of the rule):
        completeness, confinement, colocation and the two balance bounds ---- *)
Definition final_loads (work : list layerw) (a : asg_t) : loads :=
  fun r => fold_right (fun lw acc =>
      fold_right (fun fc acc2 =>
          match lookup2 a (fst lw) (fst fc) with
          | Some w => if Nat.eqb w r then snd fc + acc2 else acc2
          | None => acc2 end) acc (snd lw)) 0 (index_from 0 work).

Definition layer_group (groups : list (list nat)) (a : asg_t) (l : nat) (fs : layerw)
  : option (list nat) :=
  match fs with
  | [] => None
  | (f0, _) :: _ => match lookup2 a l f0 with
                    | Some w0 => find (memb w0) groups | None => None end
  end.

Definition maxz (l : list Z) : Z := fold_right Z.max 0 l.

Definition greedy_prop_b (work : list layerw) (groups : list (list nat)) (colocate : bool)
  (a : asg_t) : bool :=
  let iw := index_from 0 work in
  let L := final_loads work a in
  (* complete + confined (+ colocated) *)
  forallb (fun lw =>
     match snd lw with
     | [] => true
     | (f0, _) :: _ =>
        match layer_group groups a (fst lw) (snd lw) with
        | None => false
        | Some g =>
            forallb (fun fc => match lookup2 a (fst lw) (fst fc) with
                               | Some w => memb w g &&
                                   (if colocate then
                                      match lookup2 a (fst lw) f0 with Some w0 => Nat.eqb w w0 | None => false end
                                    else true)
                               | None => false end) (snd lw)
        end
     end) iw
  &&
  (* balance inside every group: max - min <= largest single item placed there *)
  forallb (fun g =>
     let items := flat_map (fun lw =>
        match layer_group groups a (fst lw) (snd lw) with
        | Some g' => if list_eq_dec Nat.eq_dec g g' then
                       (if colocate then [sumcost (snd lw)] else map snd (snd lw)) else []
        | None => [] end) iw in
     let M := maxz items in
     forallb (fun w1 => forallb (fun w2 => L w1 - L w2 <=? M) g) g) groups
  &&
  (* balance between groups: group loads differ by at most the largest layer total *)
  (let M := maxz (map (fun lw => sumcost (snd lw)) iw) in
   forallb (fun g1 => forallb (fun g2 => gload L g1 - gload L g2 <=? M) groups) groups).
