(* Model of kfac/tracing.py: the global trace table, the @trace decorator,
   get_trace and clear_trace.  Executable definitions only.
   Function names are natural numbers (the harness numbers the __name__s);
   durations are integers (the harness scripts an integer clock). *)
From Coq Require Import List Arith ZArith Bool.
Import ListNotations.

Definition table := list (nat * list Z).       (* dict: insertion ordered *)

Inductive outcome := Ret (v : nat) | Raise (e : nat).   (* tokens for the value / exception *)
Inductive op :=
| Call (name : nat) (dur : Z) (o : outcome)
| Get (average : bool) (max_history : option nat)
| Clear.

(* what the caller observes *)
Inductive obs :=
| Returned (v : nat) | Raised (e : nat)
| Stats (s : list (nat * (Z * nat)))       (* name -> (sum, divisor); divisor 0 = not averaged *)
| Cleared.

Fixpoint record (t : table) (name : nat) (d : Z) : table :=
  match t with
  | [] => [(name, [d])]
  | (n, ds) :: rest => if Nat.eqb n name then (n, ds ++ [d]) :: rest
                       else (n, ds) :: record rest name d
  end.

Definition lastn {A} (m : nat) (l : list A) : list A := skipn (length l - m) l.
Definition zsum (l : list Z) : Z := fold_right Z.add 0%Z l.

(* times[-max_history:] when len(times) > max_history; note -0 == 0 in Python:
   times[-0:] is the whole list *)
Definition window (mh : option nat) (times : list Z) : list Z :=
  match mh with
  | None => times
  | Some m => if Nat.ltb m (length times)
              then (if Nat.eqb m 0 then times else lastn m times)
              else times
  end.

Definition stat (average : bool) (mh : option nat) (times : list Z) : Z * nat :=
  let w := window mh times in (zsum w, if average then length w else 0).

Definition step (t : table) (o : op) : table * obs :=
  match o with
  | Call name d (Ret v) => (record t name d, Returned v)
  | Call name d (Raise e) => (t, Raised e)
  | Get average mh => (t, Stats (map (fun p => (fst p, stat average mh (snd p))) t))
  | Clear => ([], Cleared)
  end.

Fixpoint run (t : table) (ops : list op) : table * list obs :=
  match ops with
  | [] => (t, [])
  | o :: rest => let '(t', ob) := step t o in
                 let '(t'', obs) := run t' rest in (t'', ob :: obs)
  end.
