(* Model of kfac/scheduler.py (LambdaParamScheduler) and kfac/hyperparams.py
   (exp_decay_factor_averaging).  Executable definitions only.
   Arithmetic over exact rationals Q; the float reading of exp_decay is given
   separately over primitive binary64 floats. *)
From Coq Require Import List Arith ZArith QArith Bool.
From Coq Require Import Floats.PrimFloat Numbers.Cyclic.Int63.Uint63.
Import ListNotations.

Inductive param := PConst (v : Q) | PFn.           (* constant or callable *)

Record params := {
  p_fus : param;   (* factor_update_steps (int) *)
  p_ius : param;   (* inv_update_steps    (int) *)
  p_damping : param; p_decay : param; p_kl : param; p_lr : param }.

Record lambdas := {
  l_fus : option (nat -> Q); l_ius : option (nat -> Q); l_damping : option (nat -> Q);
  l_decay : option (nat -> Q); l_kl : option (nat -> Q); l_lr : option (nat -> Q) }.

(* int(x): truncation toward zero *)
Definition qtrunc (x : Q) : Q := inject_Z (Z.quot (Qnum x) (Zpos (Qden x))).

Definition is_fn (p : param) : bool := match p with PFn => true | PConst _ => false end.
Definition is_some {A} (o : option A) : bool := match o with Some _ => true | None => false end.

(* LambdaParamScheduler.__init__: ValueError iff a scheduled parameter is callable *)
Definition ctor_ok (p : params) (l : lambdas) : bool :=
  negb ( (is_some (l_fus l) && is_fn (p_fus p)) || (is_some (l_ius l) && is_fn (p_ius p))
      || (is_some (l_damping l) && is_fn (p_damping p)) || (is_some (l_decay l) && is_fn (p_decay p))
      || (is_some (l_kl l) && is_fn (p_kl p)) || (is_some (l_lr l) && is_fn (p_lr p)) ).

Definition upd (trunc : bool) (p : param) (f : option (nat -> Q)) (s : nat) : param :=
  match f, p with
  | Some f, PConst v => PConst (if trunc then qtrunc (v * f s) else Qred (v * f s))
  | _, _ => p
  end.

(* LambdaParamScheduler.step(step=None): s = explicit step or preconditioner.steps *)
Definition sched_step (l : lambdas) (explicit : option nat) (steps : nat) (p : params) : params :=
  let s := match explicit with Some e => e | None => steps end in
  {| p_fus := upd true (p_fus p) (l_fus l) s;
     p_ius := upd true (p_ius p) (l_ius l) s;
     p_damping := upd false (p_damping p) (l_damping l) s;
     p_decay := upd false (p_decay p) (l_decay l) s;
     p_kl := upd false (p_kl p) (l_kl l) s;
     p_lr := upd false (p_lr p) (l_lr l) s |}.

Inductive sop := SchedStep (explicit : option nat) | PrecondStep.

Definition sstep (l : lambdas) (st : params * nat) (o : sop) : params * nat :=
  match o with
  | SchedStep e => (sched_step l e (snd st) (fst st), snd st)
  | PrecondStep => (fst st, S (snd st))
  end.

Definition srun (l : lambdas) (st : params * nat) (ops : list sop) : list (params * nat) :=
  (* all intermediate states, one per operation *)
  snd (fold_left (fun acc o => let st' := sstep l (fst acc) o in (st', snd acc ++ [st'])) ops (st, [])).

(* ---- exp_decay_factor_averaging ---- *)
(* None = ValueError (min_value <= 0); steps are naturals, so negative steps
   (also a ValueError in the code) are outside the domain *)
Definition exp_decay_q (cap : Q) (k : nat) : option Q :=
  if Qle_bool cap 0 then None
  else let kk := Nat.max k 1 in
       let a := 1 - 1 / inject_Z (Z.of_nat kk) in
       Some (if Qle_bool a cap then a else cap).     (* min(a, cap) *)

Definition exp_decay_f (cap : float) (k : nat) : option float :=
  if PrimFloat.leb cap 0%float then None
  else let kk := Nat.max k 1 in
       let a := PrimFloat.sub 1%float (PrimFloat.div 1%float (of_uint63 (Uint63.of_Z (Z.of_nat kk)))) in
       Some (if PrimFloat.ltb cap a then cap else a).  (* Python min(a, cap) returns cap only if cap < a *)
