(* Matrices as index functions with explicit dimensions, polymorphic in a record
   of arithmetic operations: the SAME terms are read over the reals R (theorems,
   Proofs/) and over IEEE doubles (extraction, correspondence).
   Executable definitions only. *)
From Coq Require Import List Arith Bool.
Import ListNotations.

Record ops (T : Type) := mkOps {
  o0 : T; o1 : T;
  oadd : T -> T -> T; omul : T -> T -> T; osub : T -> T -> T; odiv : T -> T -> T;
  omax0 : T -> T;            (* clamp(x, min=0) *)
  osqrt : T -> T; oabs : T -> T; omin : T -> T -> T;
  oeq0 : T -> bool;          (* x == 0 *)
  oofnat : nat -> T }.
Arguments o0 {T}. Arguments o1 {T}. Arguments oadd {T}. Arguments omul {T}. Arguments osub {T}.
Arguments odiv {T}. Arguments omax0 {T}. Arguments osqrt {T}. Arguments oabs {T}. Arguments omin {T}.
Arguments oeq0 {T}. Arguments oofnat {T}.

Section Mat.
Context {T : Type} (O : ops T).

Definition mat := nat -> nat -> T.
Definition vec := nat -> T.

Fixpoint sumn (n : nat) (f : nat -> T) : T :=
  match n with 0 => o0 O | S m => oadd O (sumn m f) (f m) end.

Definition mmul (k : nat) (A B : mat) : mat := fun i j => sumn k (fun t => omul O (A i t) (B t j)).
Definition mT (A : mat) : mat := fun i j => A j i.
Definition madd (A B : mat) : mat := fun i j => oadd O (A i j) (B i j).
Definition mscale (c : T) (A : mat) : mat := fun i j => omul O c (A i j).
Definition mdiag (d : vec) : mat := fun i j => if Nat.eqb i j then d i else o0 O.
Definition mid : mat := mdiag (fun _ => o1 O).
Definition mzero : mat := fun _ _ => o0 O.
Definition outer (u v : vec) : mat := fun i j => omul O (u i) (v j).
Definition hdiv (A B : mat) : mat := fun i j => odiv O (A i j) (B i j).
Definition hmul (A B : mat) : mat := fun i j => omul O (A i j) (B i j).

(* <A, B> = sum of entrywise products over an m x n range *)
Definition inner (m n : nat) (A B : mat) : T :=
  sumn m (fun i => sumn n (fun j => omul O (A i j) (B i j))).

(* materialise an m x n matrix (cuts recomputation when a matrix is reused) *)
Definition to_list (m n : nat) (A : mat) : list (list T) :=
  map (fun i => map (fun j => A i j) (seq 0 n)) (seq 0 m).
Definition of_list (l : list (list T)) : mat := fun i j => nth j (nth i l []) (o0 O).
Definition tab (m n : nat) (A : mat) : mat := of_list (to_list m n A).

(* horizontal concatenation [W | b] with W : m x n, b : m x 1, and its inverse *)
Definition hcat (n : nat) (W : mat) (b : vec) : mat := fun i j => if Nat.ltb j n then W i j else b i.
Definition left_part (W : mat) : mat := W.
Definition last_col (n : nat) (M : mat) : vec := fun i => M i n.
End Mat.
