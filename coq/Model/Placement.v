(* Model of where K-FAC data lives and what is communicated under a KAISA
   assignment (kfac/base_preconditioner.py step(), kfac/layers/{base,eigen,inverse}.py
   memory_usage, the broadcast and reduce methods).  Executable definitions only. *)
From Coq Require Import List Arith Bool.
Import ListNotations.
From KV Require Import Model.Triu.

Record player := { na : nat; ng : nat; wa : nat; wg : nat }.   (* factor dims, inverse workers of A and G *)
Inductive pmethod := EigenPlain | EigenPrediv | InverseM.
Record pcfg := { pW : nat; pk : nat; pmeth : pmethod; psym : bool; pfsz : nat; pisz : nat;
                 pfdt : nat; pidt : nat; pgdt : nat }.
(* world size, gradient workers per layer, method, symmetry-aware, bytes per element of factors / second-order data,
   dtype tags of the factors, of the second-order data and of the gradients (= parameters) *)

Definition pp (c : pcfg) : nat := pW c / pk c.                    (* number of columns *)
Definition pcol (c : pcfg) (l : player) : nat := wa l mod pp c.   (* the layer's gradient-worker column *)
Definition is_gw (c : pcfg) (r : nat) (l : player) : bool := Nat.eqb (r mod pp c) (pcol c l).
Definition bcast_inv (c : pcfg) : bool := Nat.ltb 1 (pk c).
Definition bcast_grad (c : pcfg) : bool := Nat.ltb (pk c) (pW c).
Definition src_of (c : pcfg) (r : nat) (l : player) : nat := pcol c l + (r / pp c) * pp c.

Definition holds_a (c : pcfg) (r : nat) (l : player) : bool := Nat.eqb r (wa l) || (bcast_inv c && is_gw c r l).
Definition holds_g (c : pcfg) (r : nat) (l : player) : bool := Nat.eqb r (wg l) || (bcast_inv c && is_gw c r l).

(* elements of second-order data rank r holds for layer l after a step *)
Definition sod_a (c : pcfg) (r : nat) (l : player) : nat :=
  if holds_a c r l then
    match pmeth c with
    | EigenPlain => na l * na l + na l                                   (* qa, da *)
    | EigenPrediv => if Nat.eqb r (wa l) then na l * na l                (* qa; da is dropped once dgda exists *)
                     else na l * na l + na l                             (* receivers allocate qa and da *)
    | InverseM => na l * na l
    end
  else 0.
Definition sod_g (c : pcfg) (r : nat) (l : player) : nat :=
  if holds_g c r l then
    match pmeth c with
    | EigenPlain => ng l * ng l + ng l                                   (* qg, dg *)
    | EigenPrediv => ng l * ng l + ng l * na l                           (* qg, dgda *)
    | InverseM => ng l * ng l
    end
  else 0.

(* memory_usage() at a step boundary after at least one step: factors on every rank *)
Definition mem_layer (c : pcfg) (r : nat) (l : player) : nat * nat * nat * nat :=
  (pfsz c * (na l * na l), pfsz c * (ng l * ng l), pisz c * sod_a c r l, pisz c * sod_g c r l).
Definition mem_total (c : pcfg) (r : nat) (ls : list player) : nat :=
  fold_right (fun l acc => let '(a, g, ia, ig) := mem_layer c r l in a + g + ia + ig + acc) 0 ls.

(* element count of one communicated n x n matrix *)
Definition sym_numel (c : pcfg) (n : nat) : nat := if psym c then length (triu_idx n) else n * n.

(* communication of one step, from the point of view of rank r:
   (kind, group, elements, root) with kind 1 = allreduce, 2 = broadcast;
   group 0 = world, 1 = the rank's column (gradient-worker group), 2 = the rank's row (receiver group) *)
Definition factor_comm (c : pcfg) (ls : list player) : list (nat * nat * nat * option nat) :=
  if Nat.eqb (pW c) 1 then []
  else flat_map (fun l => [(1, 0, sym_numel c (na l), None); (1, 0, sym_numel c (ng l), None)]) ls.

Definition inverse_comm (c : pcfg) (r : nat) (ls : list player) : list (nat * nat * nat * option nat) :=
  if bcast_inv c then
    flat_map (fun l =>
      if is_gw c r l then
        match pmeth c with
        | EigenPlain => [(2, 1, na l * na l, Some (wa l)); (2, 1, na l, Some (wa l));
                         (2, 1, ng l * ng l, Some (wg l)); (2, 1, ng l, Some (wg l))]
        | EigenPrediv => [(2, 1, na l * na l, Some (wa l)); (2, 1, ng l * ng l, Some (wg l));
                          (2, 1, ng l * na l, Some (wg l))]
        | InverseM => [(2, 1, sym_numel c (na l), Some (wa l)); (2, 1, sym_numel c (ng l), Some (wg l))]
        end
      else []) ls
  else [].

Definition grad_comm (c : pcfg) (r : nat) (ls : list player) : list (nat * nat * nat * option nat) :=
  if bcast_grad c then map (fun l => (2, 2, ng l * na l, Some (src_of c r l))) ls else [].

Definition step_comm (c : pcfg) (r : nat) (ls : list player) (factor_step inverse_step : bool) :=
  (if factor_step then factor_comm c ls else []) ++
  (if inverse_step then inverse_comm c r ls else []) ++ grad_comm c r ls.

(* which rank runs the decomposition / inversion of a factor *)
Definition computes_a (r : nat) (l : player) : bool := Nat.eqb r (wa l).
Definition computes_g (r : nat) (l : player) : bool := Nat.eqb r (wg l).

Definition placement_view (c : pcfg) (ls : list player) (factor_step inverse_step : bool) :=
  map (fun r => (mem_total c r ls,
                 map (fun l => (is_gw c r l, (sod_a c r l, sod_g c r l), (computes_a r l, computes_g r l))) ls,
                 step_comm c r ls factor_step inverse_step)) (seq 0 (pW c)).
