(* Model of the preconditioning formulas of kfac/layers/eigen.py and
   kfac/layers/inverse.py, of ModuleHelper.get_grad / set_grad (weight | bias
   layout) and of the final scaling in KFACBaseLayer.update_grad.
   Executable definitions only, polymorphic in the arithmetic. *)
From Coq Require Import List Arith Bool.
From KV Require Import Model.Mat.

Section Precond.
Context {T : Type} (O : ops T).
Local Notation mat := (@mat T).
Local Notation vec := (@vec T).

(* KFACInverseLayer.preconditioned_grad: g_inv @ grad @ a_inv,
   grad : m x n, g_inv : m x m, a_inv : n x n *)
Definition pre_inverse (m n : nat) (Ginv Ainv D : mat) : mat :=
  mmul O n (mmul O m Ginv D) Ainv.

(* compute_a_inv / compute_g_inv (inverse method): inv(F + damping * I) is an
   oracle (torch.linalg.inv); what is inverted: *)
Definition damped (F : mat) (lam : T) : mat := madd O F (mscale O lam (mid O)).

(* eigen method: eigenvalues are clamped at 0 (torch.clamp(d, min=0.0)) *)
Definition clamp (d : vec) : vec := fun i => omax0 O (d i).

(* KFACEigenLayer.preconditioned_grad without pre-divided eigenvalues:
   v1 = qg^T @ grad @ qa ; v2 = v1 / (outer(dg, da) + damping) ; qg @ v2 @ qa^T *)
Definition pre_eigen (m n : nat) (Qg : mat) (dg : vec) (Qa : mat) (da : vec) (lam : T) (D : mat) : mat :=
  let v1 := tab O m n (mmul O n (mmul O m (mT Qg) D) Qa) in
  let v2 := tab O m n (fun i j => odiv O (v1 i j) (oadd O (omul O (dg i) (da j)) lam)) in
  mmul O n (mmul O m Qg v2) (mT Qa).

(* with pre-divided eigenvalues: dgda = 1 / (outer(dg, da) + damping0) is computed
   when the decomposition is refreshed; v2 = v1 * dgda *)
Definition dgda_of (dg da : vec) (lam0 : T) : mat :=
  fun i j => odiv O (o1 O) (oadd O (omul O (dg i) (da j)) lam0).
Definition pre_eigen_prediv (m n : nat) (Qg Qa : mat) (dgda : mat) (D : mat) : mat :=
  let v1 := tab O m n (mmul O n (mmul O m (mT Qg) D) Qa) in
  let v2 := tab O m n (fun i j => omul O (v1 i j) (dgda i j)) in
  mmul O n (mmul O m Qg v2) (mT Qa).

(* the positive semi-definite factor the eigen method actually inverts *)
Definition psd_part (k : nat) (Q : mat) (d : vec) : mat :=
  mmul O k (mmul O k Q (mdiag O (clamp d))) (mT Q).

(* get_grad: [weight-gradient matrix | bias column]; set_grad: split again.
   nw = number of weight columns; with bias the combined matrix has nw + 1 columns *)
Definition get_grad (has_bias : bool) (nw : nat) (Wg : mat) (bg : vec) : mat :=
  if has_bias then hcat nw Wg bg else Wg.
Definition set_grad_w (has_bias : bool) (nw : nat) (M : mat) : mat := M.   (* columns 0..nw-1 *)
Definition set_grad_b (nw : nat) (M : mat) : vec := last_col nw M.

(* update_grad(scale): grad = scale * grad when a scale is given *)
Definition final_grad (nu : option T) (V : mat) : mat :=
  match nu with Some s => mscale O s V | None => V end.
End Precond.
