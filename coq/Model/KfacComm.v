(* The collectives K-FAC issues, per rank and as ONE global order, for a KAISA
   grid (kfac/base_preconditioner.py: hooks, step(), load_state_dict(),
   memory_usage(); kfac/layers/{base,eigen,inverse}.py: reduce_*_factor,
   broadcast_*_inv, broadcast_grad; kfac/distributed.py: allreduce,
   allreduce_bucketed, flush_allreduce_buckets, broadcast).

   The per-rank definition decides with the guards the CODE uses (is this rank a
   gradient worker of the layer? which receiver group is mine? who is my
   source?); the global order enumerates every column and every row.  That the
   first is the projection of the second is the theorem (Proofs/KfacCommP.v).
   Executable definitions only. *)
From Coq Require Import List Arith Bool.
Import ListNotations.
From KV Require Import Model.Triu Model.Placement Model.Coll Model.Kaisa Model.Bucket Model.Kfac.

(* group ids: 0 = world, 1 + j = gradient-worker column j, 1 + p + j = receiver row j *)
Definition g_col (c : pcfg) (j : nat) : nat := 1 + j.
Definition g_row (c : pcfg) (j : nat) : nat := 1 + pp c + j.
Definition kmembers (c : pcfg) : list (list nat) :=
  seq 0 (pW c) :: kcols_pk (pp c) (pk c) ++ krows_pk (pp c) (pk c).

(* kinds as in the harness: 1 = all_reduce, 2 = broadcast; dt = the dtype tag of the tensor *)
Definition ar (dt n : nat) : inst := mkI 0 1 n dt 0.
Definition bc (g dt n root : nat) : inst := mkI g 2 n dt (S root).

(* ---- factor allreduce on the world group, direct or through the bucket of C08 ---- *)
Definition bnumel (b : bucket) : nat := fold_right (fun it acc => i_numel it + acc) 0 b.
Definition fac_item (c : pcfg) (n : nat) : item :=
  {| i_key := 0; i_tid := 0; i_numel := n; i_esize := pfsz c; i_dtype := pfdt c |}.
(* a flat buffer has the dtype of the tensors packed into it *)
Definition bdt (b : bucket) : nat := match b with [] => 0 | it :: _ => i_dtype it end.
Definition bar (b : bucket) : inst := ar (bdt b) (bnumel b).

(* cap = None: AllreduceMethod.ALLREDUCE; Some bytes: ALLREDUCE_BUCKETED *)
Definition fac_add (c : pcfg) (cap : option nat) (bs : bstate) (n : nat) : bstate * list inst :=
  if Nat.eqb (pW c) 1 then (bs, [])                        (* get_world_size(group) == 1: nothing is sent *)
  else match cap with
       | None => (bs, [ar (pfdt c) n])
       | Some cp => let '(bs', em) := bstep cp bs (Add (pW c) (fac_item c n)) in
                    (bs', map bar em)
       end.
Fixpoint fac_adds (c : pcfg) (cap : option nat) (bs : bstate) (ns : list nat) : bstate * list inst :=
  match ns with
  | [] => (bs, [])
  | n :: t => let '(bs1, o1) := fac_add c cap bs n in
              let '(bs2, o2) := fac_adds c cap bs1 t in (bs2, o1 ++ o2)
  end.
Definition fac_flush (cap : option nat) (bs : bstate) : bstate * list inst :=
  match cap with
  | None => (bs, [])
  | Some cp => let '(bs', em) := bstep cp bs Flush in (bs', map bar em)
  end.

(* ---- second-order data of one layer: (elements, root) of every broadcast, in issue order ---- *)
Definition inv_msgs (c : pcfg) (l : player) : list (nat * nat) :=
  match pmeth c with
  | EigenPlain => [(na l * na l, wa l); (na l, wa l); (ng l * ng l, wg l); (ng l, wg l)]
  | EigenPrediv => [(na l * na l, wa l); (ng l * ng l, wg l); (ng l * na l, wg l)]
  | InverseM => [(sym_numel c (na l), wa l); (sym_numel c (ng l), wg l)]
  end.
Definition inv_layer (c : pcfg) (l : player) : list inst :=
  map (fun m => bc (g_col c (pcol c l)) (pidt c) (fst m) (snd m)) (inv_msgs c l).

(* what rank r issues: guarded by is_grad_worker, on "the layer's gradient-worker group" *)
Definition inv_rank (c : pcfg) (r : nat) (ls : list player) : list inst :=
  if bcast_inv c then flat_map (fun l => if is_gw c r l then inv_layer c l else []) ls else [].
(* the global order: every layer's broadcasts, whoever takes part *)
Definition inv_all (c : pcfg) (ls : list player) : list inst :=
  if bcast_inv c then flat_map (inv_layer c) ls else [].

(* gradient broadcast: every rank, on ITS receiver group, from ITS source *)
Definition grad_rank (c : pcfg) (r : nat) (ls : list player) : list inst :=
  if bcast_grad c then map (fun l => bc (g_row c (r / pp c)) (pgdt c) (ng l * na l) (src_of c r l)) ls else [].
Definition grad_all (c : pcfg) (ls : list player) : list inst :=
  if bcast_grad c
  then flat_map (fun l => map (fun j => bc (g_row c j) (pgdt c) (ng l * na l) (pcol c l + j * pp c)) (seq 0 (pk c))) ls
  else [].

(* ---- communication events, derived from the control machine's actions ---- *)
Inductive cev :=
| CFacA                 (* forward hooks on a factor-update pass: A of every layer, registration order *)
| CFacG                 (* backward hooks: G of every layer, reverse order *)
| CFacStep              (* step() without hook updates: A, G of every layer, reverse order *)
| CFlush                (* flush_allreduce_buckets *)
| CInv                  (* step(): inverse broadcasts, reverse order *)
| CInvLoad              (* load_state_dict(compute_inverses): registration order *)
| CGrad                 (* step(): gradient broadcasts, reverse order *)
| CUser (ns : list nat).  (* world allreduces issued by the training loop itself (DDP-style averaging) *)

(* who = Some r: what rank r issues; None: the global order *)
Definition cstep (c : pcfg) (cap : option nat) (ls : list player) (who : option nat) (bs : bstate) (e : cev)
  : bstate * list inst :=
  match e with
  | CFacA => fac_adds c cap bs (map (fun l => sym_numel c (na l)) ls)
  | CFacG => fac_adds c cap bs (map (fun l => sym_numel c (ng l)) (rev ls))
  | CFacStep => fac_adds c cap bs (flat_map (fun l => [sym_numel c (na l); sym_numel c (ng l)]) (rev ls))
  | CFlush => fac_flush cap bs
  | CInv => (bs, match who with Some r => inv_rank c r (rev ls) | None => inv_all c (rev ls) end)
  | CInvLoad => (bs, match who with Some r => inv_rank c r ls | None => inv_all c ls end)
  | CGrad => (bs, match who with Some r => grad_rank c r (rev ls) | None => grad_all c (rev ls) end)
  | CUser ns => (bs, if Nat.eqb (pW c) 1 then [] else map (ar (pgdt c)) ns)
  end.

Fixpoint crun (c : pcfg) (cap : option nat) (ls : list player) (who : option nat) (bs : bstate) (es : list cev)
  : bstate * list inst :=
  match es with
  | [] => (bs, [])
  | e :: t => let '(bs1, o1) := cstep c cap ls who bs e in
              let '(bs2, o2) := crun c cap ls who bs1 t in (bs2, o1 ++ o2)
  end.

(* ---- from the control machine (Model/Kfac.v) to communication events ---- *)
Definition has_update (acts : list action) : bool :=
  existsb (fun a => match a with UpdateA _ _ | UpdateG _ _ => true | _ => false end) acts.
Definition has_inv (acts : list action) : bool :=
  existsb (fun a => match a with ComputeInv _ _ _ => true | _ => false end) acts.
Definition has_pre (acts : list action) : bool :=
  existsb (fun a => match a with Precondition _ _ => true | _ => false end) acts.

Definition cev_of (hook : bool) (e : event) (acts : list action) : list cev :=
  match e with
  | Fwd true => if has_update acts then [CFacA] else []
  | Bwd true => if has_update acts then [CFacG] else []
  | Step =>
      (if negb hook && has_update acts then [CFacStep] else []) ++ [CFlush] ++
      (if has_inv acts then [CInv; CFlush] else []) ++
      (if has_pre acts then [CGrad; CFlush] else [])
  | Load _ _ => if has_inv acts then [CInvLoad] else []
  | _ => []
  end.

(* a history of the control machine interleaved with what the training loop itself sends *)
Inductive hev := HK (e : event) | HUser (ns : list nat) | HFlush.   (* HFlush: memory_usage() *)

Fixpoint kcevs (cfg : config) (cks : list ckpt) (s : kstate) (h : list hev) : list cev :=
  match h with
  | [] => []
  | HUser ns :: t => CUser ns :: kcevs cfg cks s t
  | HFlush :: t => CFlush :: kcevs cfg cks s t
  | HK e :: t =>
      let '(s1, acts) := kstep cfg cks s e in
      let cks1 := cks ++ flat_map (fun a => match a with Saved k => [k] | _ => [] end) acts in
      cev_of (c_hook cfg) e acts ++ kcevs cfg cks1 s1 t
  end.

(* everything rank r issues over a history / the one global order of the history *)
Definition kfac_issues (cfg : config) (c : pcfg) (cap : option nat) (ls : list player) (r : nat) (h : list hev) : list inst :=
  snd (crun c cap ls (Some r) [] (kcevs cfg [] (init (c_fus0 cfg) (c_ius0 cfg)) h)).
Definition kfac_order (cfg : config) (c : pcfg) (cap : option nat) (ls : list player) (h : list hev) : list inst :=
  snd (crun c cap ls None [] (kcevs cfg [] (init (c_fus0 cfg) (c_ius0 cfg)) h)).
