(* Model of kfac/layers/register.py (get_flattened_modules, requires_grad,
   get_module_helper, register_modules), of torch.nn.Module.named_modules /
   children, and of the GPT-NeoX variant in kfac/gpt_neox/preconditioner.py.
   Executable definitions only.

   A module graph is a list of nodes; the node id is its index.  Shared module
   instances are one node reachable by several paths.  The regular-expression
   engine is a parameter: skip_name / skip_cls are the outcomes of
   any_match(name, patterns) / any_match(class name, patterns). *)
From Coq Require Import List Arith Bool.
Import ListNotations.

Record node := {
  n_cls : nat;                              (* class-name id *)
  n_linear : bool;                          (* isinstance(m, LINEAR_TYPES)  (GPT-NeoX: class is columnparallellinear) *)
  n_conv : bool;                            (* isinstance(m, CONV2D_TYPES)  (GPT-NeoX: class is rowparallellinear) *)
  n_params : list bool;                     (* requires_grad of every parameter *)
  n_children : list (nat * option nat) }.   (* _modules: child name id -> node id or None *)

Definition graph := list node.
Definition dummy : node := {| n_cls := 0; n_linear := false; n_conv := false; n_params := []; n_children := [] |}.
Definition path := list nat.

Definition memb (x : nat) (l : list nat) : bool := existsb (Nat.eqb x) l.

(* torch.nn.Module.named_modules(memo, prefix): pre-order, first path wins *)
Fixpoint walk (fuel : nat) (g : graph) (memo : list nat) (prefix : path) (id : nat)
  : list nat * list (path * nat) :=
  match fuel with
  | 0 => (memo, [])
  | S fuel' =>
      if memb id memo then (memo, [])
      else
        fold_left
          (fun acc ch =>
             match snd ch with
             | None => acc
             | Some c =>
                 let '(m', o') := walk fuel' g (fst acc) (prefix ++ [fst ch]) c in
                 (m', snd acc ++ o')
             end)
          (n_children (nth id g dummy))
          (id :: memo, [(prefix, id)])
  end.

Definition named_modules (g : graph) (root : nat) : list (path * nat) :=
  snd (walk (S (length g)) g [] [] root).

(* len(list(module.children())) == 0 *)
Definition is_leaf (nd : node) : bool :=
  negb (existsb (fun ch => match snd ch with Some _ => true | None => false end) (n_children nd)).

Inductive kind := KLinear | KConv.

Definition eligible (g : graph) (skip_name : path -> bool) (skip_cls : nat -> bool)
  (e : path * nat) : option kind :=
  let nd := nth (snd e) g dummy in
  if is_leaf nd && negb (skip_name (fst e)) && negb (skip_cls (n_cls nd))
     && forallb (fun b => b) (n_params nd)
  then (if n_linear nd then Some KLinear else if n_conv nd then Some KConv else None)
  else None.

Fixpoint filter_kind (g : graph) sn sc (l : list (path * nat)) : list (path * nat * kind) :=
  match l with
  | [] => []
  | e :: t => match eligible g sn sc e with
              | Some k => (fst e, snd e, k) :: filter_kind g sn sc t
              | None => filter_kind g sn sc t
              end
  end.

Definition register (g : graph) (skip_name : path -> bool) (skip_cls : nat -> bool) (root : nat)
  : list (path * nat * kind) :=
  filter_kind g skip_name skip_cls (named_modules g root).

(* BaseKFACPreconditioner.__init__: one forward-pre hook and one full-backward
   hook on every registered module, none elsewhere *)
Definition hooks (g : graph) sn sc (root : nat) (id : nat) : nat * nat :=
  let c := length (filter (fun r => Nat.eqb (snd (fst r)) id) (register g sn sc root)) in (c, c).

(* finite table for skip_name, as supplied by the harness *)
Fixpoint path_eqb (a b : path) : bool :=
  match a, b with
  | [], [] => true
  | x :: a', y :: b' => Nat.eqb x y && path_eqb a' b'
  | _, _ => false
  end.
Definition table_fun (tbl : list (path * bool)) (p : path) : bool :=
  match find (fun e => path_eqb (fst e) p) tbl with Some (_, b) => b | None => false end.
