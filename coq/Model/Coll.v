(* Semantics of collective communication (independent of K-FAC) and the
   verified checker used to tie observed per-rank call logs to it.
   Executable definitions only.

   A collective instance carries its group id and its metadata (kind, element
   count, dtype, root).  A rank program is a list of actions: Issue (always
   enabled: asynchronous issue) and Wait g k (wait for my k-th operation on
   group g; enabled iff every member of g has issued more than k operations on
   g).  Synchronous collectives are Issue followed by Wait. *)
From Coq Require Import List Arith Bool.
Import ListNotations.

Record inst := mkI { igrp : nat; ikind : nat; inumel : nat; idtype : nat; iroot : nat }.
(* iroot = 0: no root; iroot = S r: root rank r *)
Inductive act := Issue (i : inst) | Wait (g k : nat).

Definition inst_eqb (a b : inst) : bool :=
  Nat.eqb (igrp a) (igrp b) && Nat.eqb (ikind a) (ikind b) && Nat.eqb (inumel a) (inumel b)
  && Nat.eqb (idtype a) (idtype b) && Nat.eqb (iroot a) (iroot b).

Section Groups.
Variable members : list (list nat).          (* group id -> member ranks *)
Definition mem_of (g : nat) : list nat := nth g members [].
Definition memb (r g : nat) : bool := existsb (Nat.eqb r) (mem_of g).

Fixpoint issues (p : list act) : list inst :=
  match p with
  | [] => []
  | Issue i :: t => i :: issues t
  | Wait _ _ :: t => issues t
  end.
Definition ong (g : nat) (l : list inst) : list inst := filter (fun i => Nat.eqb (igrp i) g) l.

(* ---- the transition system: state = program counter of every rank ---- *)
Definition progs := nat -> list act.
Definition st := nat -> nat.
Definition done_ (P : progs) (s : st) (r : nat) := firstn (s r) (P r).
Definition rest (P : progs) (s : st) (r : nat) := skipn (s r) (P r).
Definition cnt (P : progs) (s : st) (r g : nat) := length (ong g (issues (done_ P s r))).
Definition wait_ok (P : progs) (s : st) (g k : nat) : bool :=
  forallb (fun r' => Nat.ltb k (cnt P s r' g)) (mem_of g).
Definition enabledb (P : progs) (s : st) (r : nat) : bool :=
  match rest P s r with
  | [] => false
  | Issue _ :: _ => true
  | Wait g k :: _ => wait_ok P s g k
  end.
Definition advance (s : st) (r : nat) : st := fun x => if Nat.eqb x r then S (s x) else s x.

(* ---- checker: build one global order from the per-rank issue logs ---- *)
Definition head_is (i : inst) (l : list inst) : bool :=
  match l with x :: _ => inst_eqb x i | [] => false end.
Definition root_ok (i : inst) : bool :=
  match iroot i with 0 => true | S r => memb r (igrp i) end.
(* instance i (at the head of rank r's log) can be emitted: r is a member, the
   root is a member, and i is at the head of the log of EVERY member *)
Definition ready (logs : list (list inst)) (r : nat) (i : inst) : bool :=
  memb r (igrp i) && root_ok i && forallb (fun m => head_is i (nth m logs [])) (mem_of (igrp i)).
Fixpoint find_ready (logs all : list (list inst)) (r : nat) : option inst :=
  match logs with
  | [] => None
  | l :: t => match l with
              | i :: _ => if ready all r i then Some i else find_ready t all (S r)
              | [] => find_ready t all (S r)
              end
  end.
Fixpoint pop_from (logs : list (list inst)) (g r : nat) : list (list inst) :=
  match logs with
  | [] => []
  | l :: t => (if memb r g then tl l else l) :: pop_from t g (S r)
  end.
Definition all_nil (logs : list (list inst)) : bool := forallb (fun l => match l with [] => true | _ => false end) logs.

Fixpoint merge (fuel : nat) (logs : list (list inst)) (acc : list inst) : option (list inst) :=
  match fuel with
  | 0 => if all_nil logs then Some (rev acc) else None
  | S f => match find_ready logs logs 0 with
           | None => if all_nil logs then Some (rev acc) else None
           | Some i => merge f (pop_from logs (igrp i) 0) (i :: acc)
           end
  end.

Definition global_order (logs : list (list inst)) : option (list inst) :=
  merge (S (fold_right (fun l n => length l + n) 0 logs)) logs [].
Definition proj_ok_b (logs : list (list inst)) : bool :=
  match global_order logs with Some _ => true | None => false end.

(* is L a global order for the logs?  (complete test when L is given) *)
Definition mine (L : list inst) (r : nat) : list inst := filter (fun i => memb r (igrp i)) L.
Fixpoint list_inst_eqb (a b : list inst) : bool :=
  match a, b with
  | [], [] => true
  | x :: a', y :: b' => inst_eqb x y && list_inst_eqb a' b'
  | _, _ => false
  end.
End Groups.
