(* The collectives GPT-NeoX K-FAC issues per rank, and as one global order, on
   the pipe x data x model topology (kfac/gpt_neox/layer.py: save_layer_input /
   save_layer_grad_output gathers, reduce_a_factor / reduce_g_factor,
   preconditioned_grad; kfac/base_preconditioner.py: hooks and step() with the
   GPTNeoXAssignment answers: no inverse broadcast, gradient broadcast on the
   data-parallel group from src_grad_worker).  Unbucketed factor allreduces.
   The per-rank definition uses the guards of the code (am I the primary? is my
   model-parallel group the inverse worker's?); the global order enumerates the
   groups.  Executable definitions only. *)
From Coq Require Import List Arith Bool.
Import ListNotations.
From KV Require Import Model.Triu Model.Coll Model.Greedy Model.Neox Model.Shard.

Record nxcfg := { nP : nat; nD : nat; nM : nat; nsym : bool; nfdt : nat; nxdt : nat }.
(* nfdt / nxdt: dtype tags of the factors / of activations, parameters and gradients *)
Definition nW (c : nxcfg) : nat := nP c * nD c * nM c.

(* a sharded linear layer of one pipeline stage: full dimensions, rows of a micro-batch, its inverse worker *)
Record nxlayer := { x_par : parallelism; x_in : nat; x_out : nat; x_bias : bool; x_rows : nat; x_inv : nat }.

(* group ids: 0 world; model-parallel group of (p, d); data-parallel group of (p, m); stage group of p *)
Definition g_mp (c : nxcfg) (p d : nat) : nat := 1 + (p * nD c + d).
Definition g_dp (c : nxcfg) (p m : nat) : nat := 1 + nP c * nD c + (p * nM c + m).
Definition g_st (c : nxcfg) (p : nat) : nat := 1 + nP c * nD c + nP c * nM c + p.
Definition nmembers (c : nxcfg) : list (list nat) :=
  seq 0 (nW c)
  :: flat_map (fun p => map (fun d => map (fun m => rank_of (nD c) (nM c) p d m) (seq 0 (nM c))) (seq 0 (nD c))) (seq 0 (nP c))
  ++ flat_map (fun p => map (fun m => map (fun d => rank_of (nD c) (nM c) p d m) (seq 0 (nD c))) (seq 0 (nM c))) (seq 0 (nP c))
  ++ map (fun p => seq (p * (nD c * nM c)) (nD c * nM c)) (seq 0 (nP c)).

(* kinds: 1 all_reduce, 2 broadcast, 3 all_gather, 4 reduce_scatter *)
Definition ins (g kind dt n root : nat) : inst := mkI g kind n dt root.

Definition na_of (l : nxlayer) : nat := x_in l + (if x_bias l then 1 else 0).
Definition fnumel (c : nxcfg) (n : nat) : nat := if nsym c then length (triu_idx n) else n * n.
(* elements of this rank's weight shard and of its (weight | bias) gradient *)
Definition wshard (c : nxcfg) (l : nxlayer) : nat := x_out l * x_in l / nM c.
Definition bshard (c : nxcfg) (l : nxlayer) : nat :=
  match x_par l with ParOutput => x_out l / nM c | ParInput => x_out l end.
Definition gshard (c : nxcfg) (l : nxlayer) : nat := wshard c l + (if x_bias l then bshard c l else 0).

Section Rank.
Variable c : nxcfg.
Let D := nD c. Let M := nM c.
Definition pc (r : nat) := c_pipe D M r.
Definition dc (r : nat) := c_data D M r.
Definition mc (r : nat) := c_model M r.

(* --- what rank r issues for one layer of ITS stage --- *)
(* forward hook of a factor-update pass: gather the sharded input, reduce A *)
Definition fwd_rank (r : nat) (l : nxlayer) : list inst :=
  (match x_par l with
   | ParInput => if Nat.ltb 1 M then [ins (g_mp c (pc r) (dc r)) 3 (nxdt c) (x_rows l * (x_in l / M)) 0] else []
   | ParOutput => [] end) ++
  (match x_par l with
   | ParInput => if Nat.eqb (mc r) (mc (x_inv l)) && Nat.ltb 1 D
                 then [ins (g_dp c (pc r) (mc r)) 1 (nfdt c) (fnumel c (na_of l)) 0] else []      (* primaries only, on their data-parallel group *)
   | ParOutput => if Nat.ltb 1 (D * M) then [ins (g_st c (pc r)) 1 (nfdt c) (fnumel c (na_of l)) 0] else []   (* replicated factor: the whole stage *)
   end).
Definition bwd_rank (r : nat) (l : nxlayer) : list inst :=
  (match x_par l with
   | ParOutput => if Nat.ltb 1 M then [ins (g_mp c (pc r) (dc r)) 3 (nxdt c) (x_rows l * (x_out l / M)) 0] else []
   | ParInput => [] end) ++
  (match x_par l with
   | ParOutput => if Nat.eqb (mc r) (mc (x_inv l)) && Nat.ltb 1 D
                  then [ins (g_dp c (pc r) (mc r)) 1 (nfdt c) (fnumel c (x_out l)) 0] else []
   | ParInput => if Nat.ltb 1 (D * M) then [ins (g_st c (pc r)) 1 (nfdt c) (fnumel c (x_out l)) 0] else []
   end).
(* step(): preconditioned_grad on the model-parallel group of the inverse worker, then the data-parallel broadcast *)
Definition pre_msgs (l : nxlayer) (g primary : nat) : list inst :=
  if Nat.ltb 1 M then
    [ins g 3 (nxdt c) (wshard c l) 0] ++
    (if x_bias l then match x_par l with ParOutput => [ins g 3 (nxdt c) (bshard c l) 0] | ParInput => [] end else []) ++
    [ins g 4 (nxdt c) (wshard c l) 0] ++
    (if x_bias l then match x_par l with
                      | ParOutput => [ins g 4 (nxdt c) (bshard c l) 0]
                      | ParInput => [ins g 2 (nxdt c) (bshard c l) (S primary)] end else [])
  else [].
Definition grad_rank (r : nat) (l : nxlayer) : list inst :=
  (if Nat.eqb (dc r) (dc (x_inv l))
   then pre_msgs l (g_mp c (pc r) (dc r)) (rank_of D M (pc r) (dc r) (mc (x_inv l))) else []) ++
  (if Nat.ltb 1 D then [ins (g_dp c (pc r) (mc r)) 2 (nxdt c) (gshard c l) (S (rank_of D M (pc r) (dc (x_inv l)) (mc r)))] else []).

(* --- the global order for one layer of stage p --- *)
Definition fwd_all (p : nat) (l : nxlayer) : list inst :=
  (match x_par l with
   | ParInput => if Nat.ltb 1 M then map (fun d => ins (g_mp c p d) 3 (nxdt c) (x_rows l * (x_in l / M)) 0) (seq 0 D) else []
   | ParOutput => [] end) ++
  (match x_par l with
   | ParInput => if Nat.ltb 1 D then [ins (g_dp c p (mc (x_inv l))) 1 (nfdt c) (fnumel c (na_of l)) 0] else []
   | ParOutput => if Nat.ltb 1 (D * M) then [ins (g_st c p) 1 (nfdt c) (fnumel c (na_of l)) 0] else []
   end).
Definition bwd_all (p : nat) (l : nxlayer) : list inst :=
  (match x_par l with
   | ParOutput => if Nat.ltb 1 M then map (fun d => ins (g_mp c p d) 3 (nxdt c) (x_rows l * (x_out l / M)) 0) (seq 0 D) else []
   | ParInput => [] end) ++
  (match x_par l with
   | ParOutput => if Nat.ltb 1 D then [ins (g_dp c p (mc (x_inv l))) 1 (nfdt c) (fnumel c (x_out l)) 0] else []
   | ParInput => if Nat.ltb 1 (D * M) then [ins (g_st c p) 1 (nfdt c) (fnumel c (x_out l)) 0] else []
   end).
Definition grad_all (p : nat) (l : nxlayer) : list inst :=
  pre_msgs l (g_mp c p (dc (x_inv l))) (rank_of D M p (dc (x_inv l)) (mc (x_inv l))) ++
  (if Nat.ltb 1 D then map (fun m => ins (g_dp c p m) 2 (nxdt c) (gshard c l) (S (rank_of D M p (dc (x_inv l)) m))) (seq 0 M) else []).
End Rank.

(* events of a training history (hook mode) *)
Inductive nxev :=
| NFwd (i : nat)  (* forward hook of the i-th layer of the stage on a pass that updates the factors *)
| NBwd (i : nat)  (* backward hook of the i-th layer *)
| NStep           (* step(): gradient phase, every layer, reverse order *)
| NUser (ns : list nat).   (* the training loop's own allreduces on the data-parallel group (gradient averaging) *)

Definition nx_rank (c : nxcfg) (layers : nat -> list nxlayer) (r : nat) (e : nxev) : list inst :=
  let ls := layers (pc c r) in
  match e with
  | NFwd i => match nth_error ls i with Some l => fwd_rank c r l | None => [] end
  | NBwd i => match nth_error ls i with Some l => bwd_rank c r l | None => [] end
  | NStep => flat_map (grad_rank c r) (rev ls)
  | NUser ns => if Nat.ltb 1 (nD c) then map (fun n => ins (g_dp c (pc c r) (mc c r)) 1 (nxdt c) n 0) ns else []
  end.
(* one stage after the other: groups of different stages are disjoint *)
Definition nx_all (c : nxcfg) (layers : nat -> list nxlayer) (e : nxev) : list inst :=
  flat_map (fun p =>
    let ls := layers p in
    match e with
    | NFwd i => match nth_error ls i with Some l => fwd_all c p l | None => [] end
    | NBwd i => match nth_error ls i with Some l => bwd_all c p l | None => [] end
    | NStep => flat_map (grad_all c p) (rev ls)
    | NUser ns => if Nat.ltb 1 (nD c) then flat_map (fun n => map (fun m => ins (g_dp c p m) 1 (nxdt c) n 0) (seq 0 (nM c))) ns else []
    end) (seq 0 (nP c)).

Definition neox_issues (c : nxcfg) (layers : nat -> list nxlayer) (r : nat) (h : list nxev) : list inst :=
  flat_map (nx_rank c layers r) h.
Definition neox_order (c : nxcfg) (layers : nat -> list nxlayer) (h : list nxev) : list inst :=
  flat_map (nx_all c layers) h.
