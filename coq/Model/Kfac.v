(* The K-FAC preconditioner as an abstract machine: the control logic of
   BaseKFACPreconditioner (hooks, step, state_dict / load_state_dict, reset_batch)
   and of the scheduler, for one registered layer, with data kept symbolic:
   a factor is identified by its VERSION (how many running-average updates it
   has seen since construction or load, plus what was loaded), second-order data
   by the factor versions it was computed from and the step whose damping was
   baked in.  Executable definitions only.  This machine is the "reference K-FAC
   state machine" of C05 and the checkpoint model of C09. *)
From Coq Require Import List Arith Bool.
Import ListNotations.

(* a hyper-parameter is a constant or a function of the step count *)
Inductive hp := HConst (v : nat) | HFn (f : nat -> nat).
Definition hval (h : hp) (step : nat) : nat := match h with HConst v => v | HFn f => f step end.

Record config := {
  c_hook : bool;            (* update_factors_in_hook *)
  c_acc : nat;              (* accumulation_steps (> 0) *)
  c_fus0 : hp; c_ius0 : hp }.  (* the intervals the constructor is called with *)

(* identity of a factor value: None = not computed yet (A = G = None) *)
Inductive fid :=
| FNone
| FVer (origin : nat) (updates : list (nat * nat)).
(* origin: 0 = identity (fresh), S k = loaded from checkpoint id k;
   updates: one entry (step, passes) per running-average update: the step at
   which it happened (decay is evaluated there) and how many accumulated passes *)

Record sod := { s_a : fid; s_g : fid; s_step : nat }.   (* computed from these factors, damping of this step *)

Record kstate := {
  steps : nat;
  fus : hp; ius : hp;                 (* factor_update_steps, inv_update_steps *)
  mini : nat;                         (* _mini_steps of the layer *)
  a_cnt : nat; g_cnt : nat;           (* passes accumulated in a_batch / g_batch (0 = None) *)
  fa : fid; fg : fid;                 (* running factors *)
  inv : option sod }.                 (* second-order data currently held *)

Definition init (f i : hp) : kstate :=
  {| steps := 0; fus := f; ius := i; mini := 0; a_cnt := 0; g_cnt := 0; fa := FNone; fg := FNone; inv := None |}.

Inductive event :=
| Fwd (training : bool)               (* forward pass through the layer *)
| Bwd (training : bool)               (* backward pass through the layer *)
| Step
| ResetBatch
| Save (include_factors : bool)
| Load (ck : nat) (compute_inverses : bool)   (* load checkpoint number ck (as returned by an earlier Save) *)
| SetFus (v : nat) | SetIus (v : nat)         (* scheduler changing the (constant) intervals *)
| Fresh.                                       (* a freshly constructed preconditioner replaces the current one *)

(* what a checkpoint contains *)
Record ckpt := { k_steps : nat; k_fus : option nat; k_ius : option nat; k_factors : option (fid * fid) }.

(* observable actions *)
Inductive action :=
| UpdateA (step passes : nat) | UpdateG (step passes : nat)
| ComputeInv (a g : fid) (damping_step : nat)
| Precondition (s : sod) (damping_step : nat)     (* data used, step whose damping the plain eigen path reads *)
| Saved (c : ckpt)
| ErrNoInverse.                                    (* RuntimeError: second-order data not computed *)

Definition is_update_step (s : kstate) : bool :=
  match hval (fus s) (steps s) with 0 => false | n => Nat.eqb (steps s mod n) 0 end.
Definition is_inv_step (s : kstate) : bool :=
  match hval (ius s) (steps s) with 0 => false | n => Nat.eqb (steps s mod n) 0 end.

Definition bump (f : fid) (step passes : nat) : fid :=
  match f with
  | FNone => FVer 0 [(step, passes)]                (* identity is the first previous value *)
  | FVer o us => FVer o (us ++ [(step, passes)])
  end.

Definition upd_a (s : kstate) : kstate * list action :=
  if Nat.eqb (a_cnt s) 0 then (s, [])
  else ({| steps := steps s; fus := fus s; ius := ius s; mini := mini s; a_cnt := 0; g_cnt := g_cnt s;
           fa := bump (fa s) (steps s) (a_cnt s); fg := fg s; inv := inv s |}, [UpdateA (steps s) (a_cnt s)]).
Definition upd_g (s : kstate) : kstate * list action :=
  if Nat.eqb (g_cnt s) 0 then (s, [])
  else ({| steps := steps s; fus := fus s; ius := ius s; mini := mini s; a_cnt := a_cnt s; g_cnt := 0;
           fa := fa s; fg := bump (fg s) (steps s) (g_cnt s); inv := inv s |}, [UpdateG (steps s) (g_cnt s)]).

Definition set_inv (s : kstate) (i : option sod) : kstate :=
  {| steps := steps s; fus := fus s; ius := ius s; mini := mini s; a_cnt := a_cnt s; g_cnt := g_cnt s;
     fa := fa s; fg := fg s; inv := i |}.

Definition hp_const (h : hp) : option nat := match h with HConst v => Some v | HFn _ => None end.

Definition kstep (cfg : config) (cks : list ckpt) (s : kstate) (e : event) : kstate * list action :=
  match e with
  | Fwd false | Bwd false => (s, [])
  | Fwd true =>
      if is_update_step s then
        let s1 := {| steps := steps s; fus := fus s; ius := ius s; mini := S (mini s); a_cnt := S (a_cnt s);
                     g_cnt := g_cnt s; fa := fa s; fg := fg s; inv := inv s |} in
        if c_hook cfg && Nat.eqb (mini s1 mod c_acc cfg) 0 then upd_a s1 else (s1, [])
      else (s, [])
  | Bwd true =>
      if is_update_step s then
        let s1 := {| steps := steps s; fus := fus s; ius := ius s; mini := mini s; a_cnt := a_cnt s;
                     g_cnt := S (g_cnt s); fa := fa s; fg := fg s; inv := inv s |} in
        if c_hook cfg && Nat.eqb (mini s1 mod c_acc cfg) 0 then upd_g s1 else (s1, [])
      else (s, [])
  | Step =>
      let '(s1, act1) :=
        if negb (c_hook cfg) && is_update_step s then
          let s0 := {| steps := steps s; fus := fus s; ius := ius s; mini := 0; a_cnt := a_cnt s; g_cnt := g_cnt s;
                       fa := fa s; fg := fg s; inv := inv s |} in
          let '(sa, aa) := upd_a s0 in let '(sg, ag) := upd_g sa in (sg, aa ++ ag)
        else (s, []) in
      let '(s2, act2) :=
        if is_inv_step s1 then
          match fa s1, fg s1 with
          | FNone, _ | _, FNone => (s1, [ErrNoInverse])
          | a, g => let d := {| s_a := a; s_g := g; s_step := steps s1 |} in
                    (set_inv s1 (Some d), [ComputeInv a g (steps s1)])
          end
        else (s1, []) in
      let act3 := match inv s2 with Some d => [Precondition d (steps s2)] | None => [ErrNoInverse] end in
      ({| steps := S (steps s2); fus := fus s2; ius := ius s2; mini := 0; a_cnt := a_cnt s2; g_cnt := g_cnt s2;
          fa := fa s2; fg := fg s2; inv := inv s2 |}, act1 ++ act2 ++ act3)
  | ResetBatch =>
      ({| steps := steps s; fus := fus s; ius := ius s; mini := mini s; a_cnt := 0; g_cnt := 0;
          fa := fa s; fg := fg s; inv := inv s |}, [])
  | Save incl =>
      (s, [Saved {| k_steps := steps s; k_fus := hp_const (fus s); k_ius := hp_const (ius s);
                    k_factors := if incl then Some (fa s, fg s) else None |}])
  | Load ck compute =>
      match nth_error cks ck with
      | None => (s, [])
      | Some c =>
          let f' := match k_fus c with Some v => HConst v | None => fus s end in
          let i' := match k_ius c with Some v => HConst v | None => ius s end in
          let '(a', g') := match k_factors c with
                           | Some (a, g) => ((match a with FNone => fa s | _ => a end), (match g with FNone => fg s | _ => g end))
                           | None => (fa s, fg s) end in
          let s1 := {| steps := k_steps c; fus := f'; ius := i'; mini := mini s; a_cnt := a_cnt s; g_cnt := g_cnt s;
                       fa := a'; fg := g'; inv := inv s |} in
          match k_factors c with
          | None => (s1, [])                      (* warning: inverses cannot be computed *)
          | Some _ =>
              if compute then
                match a', g' with
                | FNone, _ | _, FNone => (s1, [])        (* nothing to invert yet (fix D9) *)
                | a, g => (set_inv s1 (Some {| s_a := a; s_g := g; s_step := k_steps c |}), [ComputeInv a g (k_steps c)])
                end
              else (s1, [])
          end
      end
  | SetFus v => ({| steps := steps s; fus := HConst v; ius := ius s; mini := mini s; a_cnt := a_cnt s; g_cnt := g_cnt s;
                    fa := fa s; fg := fg s; inv := inv s |}, [])
  | SetIus v => ({| steps := steps s; fus := fus s; ius := HConst v; mini := mini s; a_cnt := a_cnt s; g_cnt := g_cnt s;
                    fa := fa s; fg := fg s; inv := inv s |}, [])
  | Fresh => (init (c_fus0 cfg) (c_ius0 cfg), [])
  end.

(* run a history; checkpoints produced by Save are numbered in order *)
Fixpoint krun (cfg : config) (cks : list ckpt) (s : kstate) (h : list event) : kstate * list (list action) :=
  match h with
  | [] => (s, [])
  | e :: t =>
      let '(s1, acts) := kstep cfg cks s e in
      let cks1 := cks ++ flat_map (fun a => match a with Saved c => [c] | _ => [] end) acts in
      let '(s2, rest) := krun cfg cks1 s1 t in (s2, acts :: rest)
  end.

(* the same run, also reporting the factor identities, second-order data and step count after every event *)
Fixpoint krun_trace (cfg : config) (cks : list ckpt) (s : kstate) (h : list event)
  : list (list action * (fid * fid * option sod * nat)) :=
  match h with
  | [] => []
  | e :: t =>
      let '(s1, acts) := kstep cfg cks s e in
      let cks1 := cks ++ flat_map (fun a => match a with Saved c => [c] | _ => [] end) acts in
      (acts, (fa s1, fg s1, inv s1, steps s1)) :: krun_trace cfg cks1 s1 t
  end.
