(* Model of kfac/gpt_neox/mpu.py (gather_from_model_parallel_region,
   split_tensor_along_dim) and of GPTNeoXKFACEigenLayer.preconditioned_grad:
   a linear layer sharded M ways over the model-parallel group.
   Executable, polymorphic in the arithmetic. *)
From Coq Require Import List Arith Bool.
Import ListNotations.
From KV Require Import Model.Mat Model.Precond.

Section Shard.
Context {T : Type} (O : ops T).
Local Notation mat := (@mat T).

(* split / gather along the column dimension (dim = -1) and the row dimension (dim = 0);
   w = width (height) of one shard *)
Definition split_cols (w j : nat) (A : mat) : mat := fun i c => A i (j * w + c).
Definition gather_cols (w : nat) (As : nat -> mat) : mat := fun i c => As (c / w) i (c mod w).
Definition split_rows (h j : nat) (A : mat) : mat := fun i c => A (j * h + i) c.
Definition gather_rows (h : nat) (As : nat -> mat) : mat := fun i c => As (i / h) (i mod h) c.

(* reduce_scatter with sum: rank j receives the sum over ranks r of r's j-th contribution *)
Definition reduce_scatter (M : nat) (contrib : nat -> nat -> mat) (j : nat) : mat :=
  fun i c => sumn O M (fun r => contrib r j i c).

Inductive parallelism := ParInput | ParOutput.   (* RowParallelLinear / ColumnParallelLinear *)

(* the combined (weight | bias) gradient the primary rank assembles *)
Definition assemble (par : parallelism) (M m n : nat) (has_bias : bool)
  (Wg : nat -> mat) (bg : nat -> @vec T) (primary : nat) : mat :=
  match par with
  | ParInput =>   (* weight shards are column blocks of width n / M; the bias is replicated: the primary's own *)
      get_grad has_bias n (gather_cols (n / M) Wg) (bg primary)
  | ParOutput =>  (* weight and bias shards are row blocks of height m / M *)
      get_grad has_bias n (gather_rows (m / M) Wg) (fun i => bg (i / (m / M)) (i mod (m / M)))
  end.

(* what model-parallel rank j holds after preconditioned_grad: its shard of V (weight part | bias part).
   V is computed on the primary only; the others contribute zeros to the reduce_scatter, and the
   replicated bias of a row-parallel layer is broadcast from the primary *)
Definition shard_of_V (par : parallelism) (M m n : nat) (has_bias : bool) (V : mat) (j : nat) : mat :=
  match par with
  | ParInput => fun i c => if Nat.ltb c (n / M) then split_cols (n / M) j V i c else V i n          (* [V[:, block j] | bias column] *)
  | ParOutput => split_rows (m / M) j V
  end.

Definition contributions (par : parallelism) (M m n : nat) (V : mat) (primary : nat) : nat -> nat -> mat :=
  fun r j => if Nat.eqb r primary
             then (match par with ParInput => split_cols (n / M) j V | ParOutput => split_rows (m / M) j V end)
             else mzero O.

Definition neox_precondition (par : parallelism) (M m n : nat) (has_bias : bool)
  (Qg : mat) (dg : @vec T) (Qa : mat) (da : @vec T) (lam : T)
  (Wg : nat -> mat) (bg : nat -> @vec T) (primary : nat) (j : nat) : mat :=
  let nc := n + (if has_bias then 1 else 0) in
  let D := tab O m nc (assemble par M m n has_bias Wg bg primary) in
  let V := tab O m nc (pre_eigen O m nc Qg dg Qa da lam D) in
  shard_of_V par M m n has_bias V j.
End Shard.
