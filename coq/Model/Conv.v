(* Model of kfac/layers/modules.py: Conv2dModuleHelper._extract_patches,
   get_a_factor / get_g_factor data layout, get_grad; LinearModuleHelper with
   N-d inputs; and the mathematical specification of conv2d / linear forward.
   4-D tensors are index functions; sizes are explicit.  Executable, polymorphic. *)
From Coq Require Import List Arith Bool.
Import ListNotations.
From KV Require Import Model.Mat.

Section Conv.
Context {T : Type} (O : ops T).
Definition t4 := nat -> nat -> nat -> nat -> T.

Record geom := mkGeom {
  gB : nat; gC : nat; gH : nat; gW : nat;       (* input (B, C, H, W) *)
  gO : nat; gkh : nat; gkw : nat;               (* out channels, kernel *)
  gsh : nat; gsw : nat; gph : nat; gpw : nat }. (* stride, zero padding (height, width) *)

Definition out_h (g : geom) : nat := (gH g + 2 * gph g - gkh g) / gsh g + 1.
Definition out_w (g : geom) : nat := (gW g + 2 * gpw g - gkw g) / gsw g + 1.
Definition nfeat (g : geom) : nat := gC g * (gkh g * gkw g).

(* F.pad(x, (pw, pw, ph, ph)): dimension 2 (height) padded by ph, dimension 3 (width) by pw *)
Definition pad (g : geom) (x : t4) : t4 :=
  fun b c h w =>
    if (Nat.leb (gph g) h && Nat.ltb h (gph g + gH g) && Nat.leb (gpw g) w && Nat.ltb w (gpw g + gW g))%bool
    then x b c (h - gph g) (w - gpw g) else o0 O.

(* x.unfold(2, kh, sh): (B, C, oh, W', kh);  then .unfold(3, kw, sw): (B, C, oh, ow, kh, kw) *)
Definition unfold2 (g : geom) (x : t4) : nat -> nat -> nat -> nat -> nat -> T :=
  fun b c p w i => x b c (p * gsh g + i) w.
Definition unfold3 (g : geom) (x : nat -> nat -> nat -> nat -> nat -> T) : nat -> nat -> nat -> nat -> nat -> nat -> T :=
  fun b c p q i j => x b c p (q * gsw g + j) i.
(* transpose_(1, 2).transpose_(2, 3): (B, oh, ow, C, kh, kw) *)
Definition permute (x : nat -> nat -> nat -> nat -> nat -> nat -> T) : nat -> nat -> nat -> nat -> nat -> nat -> T :=
  fun b p q c i j => x b c p q i j.
(* contiguous().view(B, oh, ow, C*kh*kw): row-major flattening of the last three dimensions *)
Definition dec_c (g : geom) (f : nat) : nat := f / (gkh g * gkw g).
Definition dec_i (g : geom) (f : nat) : nat := (f / gkw g) mod gkh g.
Definition dec_j (g : geom) (f : nat) : nat := f mod gkw g.
Definition view4 (g : geom) (x : nat -> nat -> nat -> nat -> nat -> nat -> T) : t4 :=
  fun b p q f => x b p q (dec_c g f) (dec_i g f) (dec_j g f).

Definition extract_patches (g : geom) (x : t4) : t4 :=
  view4 g (permute (unfold3 g (unfold2 g (pad g x)))).

(* rows of the A-factor data matrix: one row per (b, p, q), features then a one if bias *)
Definition patch_row (g : geom) (has_bias : bool) (x : t4) (b p q : nat) : nat -> T :=
  fun f => if Nat.ltb f (nfeat g) then extract_patches g x b p q f else o1 O.

(* weight tensor (O, C, kh, kw) viewed as (O, C*kh*kw) *)
Definition wmat (g : geom) (w : t4) : @mat T := fun o f => w o (dec_c g f) (dec_i g f) (dec_j g f).

(* specification of the forward pass: cross-correlation, dilation 1, groups 1 *)
Definition conv_fwd (g : geom) (w : t4) (bias : nat -> T) (x : t4) : t4 :=
  fun b o p q =>
    oadd O (sumn O (gC g) (fun c => sumn O (gkh g) (fun i => sumn O (gkw g) (fun j =>
              omul O (w o c i j) (pad g x b c (p * gsh g + i) (q * gsw g + j)))))) (bias o).

(* the combined gradient matrix as a sum of outer products of output-gradient
   rows and [patch | 1] rows: get_grad() after backward must equal this *)
Definition grad_matrix (g : geom) (has_bias : bool) (go : t4) (x : t4) : @mat T :=
  fun o f =>
    sumn O (gB g) (fun b => sumn O (out_h g) (fun p => sumn O (out_w g) (fun q =>
      omul O (go b o p q) (patch_row g has_bias x b p q f)))).

(* Linear with inputs of any rank: rows = product of the leading dimensions *)
Definition lin_fwd (nin : nat) (w : @mat T) (bias : nat -> T) (a : @mat T) : @mat T :=
  fun r o => oadd O (sumn O nin (fun i => omul O (w o i) (a r i))) (bias o).
Definition lin_grad_matrix (rows nin : nat) (has_bias : bool) (go a : @mat T) : @mat T :=
  fun o f => sumn O rows (fun r => omul O (go r o) (if Nat.ltb f nin then a r f else o1 O)).
End Conv.
