(* Factors of a model-parallel layer (kfac/gpt_neox/layer.py: save_layer_input /
   save_layer_grad_output): the sharded operand is gathered along its last
   dimension onto the primary rank, which then computes the factor exactly as
   the unsharded helper does (kfac/gpt_neox/modules.py: a_factor_shape /
   g_factor_shape use the full dimensions).  Executable, polymorphic. *)
From Coq Require Import List Arith Bool.
Import ListNotations.
From KV Require Import Model.Mat Model.Factor Model.Shard.

Section ShardFactor.
Context {T : Type} (O : ops T).
Local Notation mat := (@mat T).

(* parallelism 'input' (RowParallelLinear): every rank holds a column block (width w) of the layer input *)
Definition neox_a_factor (par : parallelism) (w rows nin : nat) (has_bias : bool) (Xs : nat -> mat) : mat :=
  match par with
  | ParInput => lin_a O rows nin has_bias (gather_cols w Xs)      (* gathered onto the primary *)
  | ParOutput => lin_a O rows nin has_bias (Xs 0)                 (* input replicated: the rank's own *)
  end.

(* parallelism 'output' (ColumnParallelLinear): every rank holds a column block of the output gradient *)
Definition neox_g_factor (par : parallelism) (w rows nout : nat) (Gs : nat -> mat) : mat :=
  match par with
  | ParOutput => lin_g O rows nout (gather_cols w Gs)
  | ParInput => lin_g O rows nout (Gs 0)
  end.
End ShardFactor.
