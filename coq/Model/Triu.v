(* Model of kfac/distributed.py: get_triu / fill_triu and the shape guard of
   allreduce / broadcast / allreduce_bucketed (symmetric=True).
   Executable definitions only. *)
From Coq Require Import List Arith Bool.
Import ListNotations.

(* torch.triu_indices(n, n): row-major list of (i, j) with i <= j < n. *)
Definition triu_row (n i : nat) : list (nat * nat) :=
  map (fun j => (i, j)) (seq i (n - i)).

Fixpoint triu_rows (n i k : nat) : list (nat * nat) :=
  match k with
  | 0 => []
  | S k' => triu_row n i ++ triu_rows n (S i) k'
  end.

Definition triu_idx (n : nat) : list (nat * nat) := triu_rows n 0 n.

(* get_triu: tensor[idxs[0], idxs[1]] *)
Definition get_triu {A} (n : nat) (M : nat -> nat -> A) : list A :=
  map (fun p => M (fst p) (snd p)) (triu_idx n).

(* Position of (a, b), a <= b, in triu_idx n. *)
Fixpoint rowstart (n a : nat) : nat :=
  match a with
  | 0 => 0
  | S a' => rowstart n a' + (n - a')
  end.

Definition triu_pos (n a b : nat) : nat := rowstart n a + (b - a).

(* fill_triu: dst[idxs] = v ; dst^T[strict upper] = dst[strict upper] *)
Definition fill_pos (n i j : nat) : nat :=
  if i <=? j then triu_pos n i j else triu_pos n j i.

Definition fill_triu {A} (d : A) (n : nat) (v : list A) (i j : nat) : A :=
  nth (fill_pos n i j) v d.

(* The index matrix: fill_triu applied to the vector 0,1,2,... *)
Definition fill_index_matrix (n : nat) : list (list nat) :=
  map (fun i => map (fun j => fill_pos n i j) (seq 0 n)) (seq 0 n).

(* Shape guard shared by allreduce / broadcast / allreduce_bucketed.
   shape = list of dimension sizes; gsize = size of the target group. *)
Inductive comm_outcome := ReturnInput | RaiseNonSquare | Communicate (numel : nat).

Definition is_square2d (shape : list nat) : bool :=
  match shape with
  | [r; c] => r =? c
  | _ => false
  end.

Definition numel (shape : list nat) : nat := fold_right Nat.mul 1 shape.

Definition sym_comm_outcome (gsize : nat) (symmetric : bool) (shape : list nat)
  : comm_outcome :=
  if gsize =? 1 then ReturnInput
  else if symmetric then
    if is_square2d shape then Communicate (length (triu_idx (hd 0 shape)))
    else RaiseNonSquare
  else Communicate (numel shape).
