(* Model of kfac/layers/utils.py (get_cov, append_bias_ones), of the factor
   computations in kfac/layers/modules.py and of the accumulation / running
   average / cross-rank averaging in kfac/layers/base.py.
   Executable, polymorphic in the arithmetic. *)
From Coq Require Import List Arith Bool.
Import ListNotations.
From KV Require Import Model.Mat Model.Conv.

Section Factor.
Context {T : Type} (O : ops T).
Local Notation mat := (@mat T).

(* get_cov(a): cov = a^T @ (a / rows); (cov + cov^T) / 2 *)
Definition cov (rows k : nat) (X : mat) : mat :=
  fun i j => sumn O rows (fun r => omul O (X r i) (odiv O (X r j) (oofnat O rows))).
Definition two : T := oadd O (o1 O) (o1 O).
Definition moment (rows k : nat) (X : mat) : mat :=
  fun i j => odiv O (oadd O (cov rows k X i j) (cov rows k X j i)) two.

(* append_bias_ones *)
Definition aug (has_bias : bool) (n : nat) (X : mat) : mat :=
  fun r f => if has_bias then (if Nat.ltb f n then X r f else o1 O) else X r f.

(* LinearModuleHelper.get_a_factor: a.view(-1, in) [| 1] *)
Definition lin_a (rows nin : nat) (has_bias : bool) (a : mat) : mat :=
  moment rows (nin + (if has_bias then 1 else 0)) (aug has_bias nin a).
(* LinearModuleHelper.get_g_factor (g already divided by the loss scale, if any) *)
Definition lin_g (rows nout : nat) (g : mat) : mat := moment rows nout g.

(* Conv2dModuleHelper.get_a_factor: patches, [| 1], divided by the spatial size *)
Definition conv_a_rows (g : geom) : nat := gB g * (out_h g * out_w g).
Definition conv_a_data (g : geom) (has_bias : bool) (x : @t4 T) : mat :=
  let sp := oofnat O (out_h g * out_w g) in
  fun r f =>
    let b := r / (out_h g * out_w g) in
    let p := (r / out_w g) mod out_h g in
    let q := r mod out_w g in
    odiv O (patch_row O g has_bias x b p q f) sp.
Definition conv_a (g : geom) (has_bias : bool) (x : @t4 T) : mat :=
  moment (conv_a_rows g) (nfeat g + (if has_bias then 1 else 0)) (conv_a_data g has_bias x).
(* Conv2dModuleHelper.get_g_factor: g (B, O, oh, ow) -> rows (b, p, q), divided by the spatial size *)
Definition conv_g_data (g : geom) (go : @t4 T) : mat :=
  let sp := oofnat O (out_h g * out_w g) in
  fun r o =>
    let b := r / (out_h g * out_w g) in
    let p := (r / out_w g) mod out_h g in
    let q := r mod out_w g in
    odiv O (go b o p q) sp.
Definition conv_g (g : geom) (go : @t4 T) : mat := moment (conv_a_rows g) (gO g) (conv_g_data g go).

(* save_layer_grad_output: g = g / grad_scaler() when a scaler is supplied *)
Definition unscaled (s : option T) (X : mat) : mat :=
  match s with Some sc => (fun r f => odiv O (X r f) sc) | None => X end.
Definition unscaled4 (s : option T) (X : @t4 T) : @t4 T :=
  match s with Some sc => (fun a b c d => odiv O (X a b c d) sc) | None => X end.

(* save_layer_*: batch accumulation; update_*_factor: (1 / count) * batch when count > 1 *)
Definition accumulate (ms : list mat) : mat :=
  match ms with
  | [] => mzero O
  | m :: t => fold_left (fun acc x => madd O acc x) t m
  end.
Definition batch_mean (ms : list mat) : mat :=
  let s := accumulate ms in
  if Nat.ltb 1 (length ms) then mscale O (odiv O (o1 O) (oofnat O (length ms))) s else s.

(* running average: alpha * previous + (1 - alpha) * new; the first previous is the identity *)
Definition ema (alpha : T) (P M : mat) : mat :=
  madd O (mscale O alpha P) (mscale O (osub O (o1 O) alpha) M).

(* allreduce with average over the world: (1 / W) * sum over ranks *)
Definition rank_avg (Ms : list mat) : mat :=
  match Ms with
  | [] => mzero O
  | m :: t => mscale O (odiv O (o1 O) (oofnat O (length Ms))) (fold_left (fun acc x => madd O acc x) t m)
  end.

(* one factor-update step: every rank folds its own batch mean into the
   (replicated) previous factor, then the results are averaged over the ranks;
   in a world of one nothing is communicated *)
Definition factor_update (alpha : T) (prev : mat) (per_rank : list (list mat)) : mat :=
  match per_rank with
  | [one] => ema alpha prev (batch_mean one)
  | _ => rank_avg (map (fun ms => ema alpha prev (batch_mean ms)) per_rank)
  end.
End Factor.
