(* Model of kfac/distributed.py: AllreduceTensorBucket and the bucketing logic
   of TorchDistributedCommunicator (allreduce_bucketed / flush_allreduce_buckets).
   Executable definitions only.

   A key identifies the member set of the target group (after the repair of D4
   distinct groups have distinct keys).  Symmetric tensors are packed before
   they reach the bucket (C14), so an item carries its packed element count. *)
From Coq Require Import List Arith ZArith Bool.
Import ListNotations.

Record item := { i_key : nat; i_tid : nat; i_numel : nat; i_esize : nat; i_dtype : nat }.
Definition i_bytes (it : item) : nat := i_numel it * i_esize it.

Definition bucket := list item.                       (* tensors in insertion order *)
Definition bstate := list (nat * option bucket).      (* defaultdict: key -> open bucket or None *)
Definition bsize (b : bucket) : nat := fold_right (fun it acc => i_bytes it + acc) 0 b.

Fixpoint getb (s : bstate) (k : nat) : option bucket :=
  match s with
  | [] => None
  | (k', ob) :: t => if Nat.eqb k' k then ob else getb t k
  end.
Fixpoint setb (s : bstate) (k : nat) (ob : option bucket) : bstate :=
  match s with
  | [] => [(k, ob)]
  | (k', ob') :: t => if Nat.eqb k' k then (k', ob) :: t else (k', ob') :: setb t k ob
  end.

Definition cur (s : bstate) (k : nat) : bucket :=
  match getb s k with Some b => b | None => [] end.    (* None: a new empty bucket is created *)

Definition same_dtype (b : bucket) (it : item) : bool :=
  match b with [] => true | x :: _ => Nat.eqb (i_dtype x) (i_dtype it) end.

(* bucket.allreduce(): an empty bucket is closed without communicating *)
Definition emit (b : bucket) : list bucket := match b with [] => [] | _ => [b] end.

Inductive bop :=
| Add (gsize : nat) (it : item)      (* allreduce_bucketed of one tensor on a group of gsize ranks *)
| Flush.

(* result: new state, fused allreduce instances issued (in order) *)
Definition bstep (cap : nat) (s : bstate) (o : bop) : bstate * list bucket :=
  match o with
  | Add gsize it =>
      if Nat.eqb gsize 1 then (s, [])           (* group of one: tensor returned, nothing buffered *)
      else
        let b := cur s (i_key it) in
        if Nat.ltb cap (bsize b + i_bytes it) || negb (same_dtype b it)
        then (setb s (i_key it) (Some [it]), emit b)
        else (setb s (i_key it) (Some (b ++ [it])), [])
  | Flush =>
      (map (fun kb => (fst kb, None)) s,
       flat_map (fun kb => match snd kb with Some b => emit b | None => [] end) s)
  end.

Fixpoint brun (cap : nat) (s : bstate) (ops : list bop) : bstate * list bucket :=
  match ops with
  | [] => (s, [])
  | o :: t => let '(s1, e1) := bstep cap s o in
              let '(s2, e2) := brun cap s1 t in (s2, e1 ++ e2)
  end.

(* unflatten: offset and length of every tensor inside a fused buffer *)
Fixpoint offsets (b : bucket) (off : nat) : list (nat * nat * nat) :=   (* tid, offset, numel *)
  match b with
  | [] => []
  | it :: t => (i_tid it, off, i_numel it) :: offsets t (off + i_numel it)
  end.

(* ---- value semantics: lists over Z; allreduce = pointwise sum over ranks ---- *)
Fixpoint zipadd (a b : list Z) : list Z :=
  match a, b with
  | x :: a', y :: b' => (x + y)%Z :: zipadd a' b'
  | _, _ => []
  end.
Definition sumlists (n : nat) (ls : list (list Z)) : list Z :=
  fold_right zipadd (repeat 0%Z n) ls.
Definition slice (off len : nat) (l : list Z) : list Z := firstn len (skipn off l).
Definition flatten (vals : nat -> list Z) (b : bucket) : list Z :=
  flat_map (fun it => vals (i_tid it)) b.

(* what rank-independent post-processing sees for tensor `tid` of instance b *)
Definition bucketed_value (ranks : list nat) (vals : nat -> nat -> list Z) (b : bucket) (off len : nat) : list Z :=
  slice off len (sumlists (fold_right (fun it acc => i_numel it + acc) 0 b) (map (fun r => flatten (vals r) b) ranks)).
Definition unbucketed_value (ranks : list nat) (vals : nat -> nat -> list Z) (tid len : nat) : list Z :=
  sumlists len (map (fun r => vals r tid) ranks).
