(* Model of kfac/gpt_neox/assignment.py (GPTNeoXAssignment) over the DeepSpeed
   3-D topology PipeModelDataParallelTopology (axes pipe, data, model;
   row-major ranks).  Executable definitions only. *)
From Coq Require Import List Arith ZArith Bool.
Import ListNotations.
From KV Require Import Model.Greedy.

(* ---- topology: rank = (p * D + d) * M + m ---- *)
Definition rank_of (D M p d m : nat) : nat := (p * D + d) * M + m.
Definition c_pipe (D M r : nat) : nat := r / (D * M).
Definition c_data (D M r : nat) : nat := (r / M) mod D.
Definition c_model (M r : nat) : nat := r mod M.

(* get_group_with_rank(r, get_axis_comm_lists(axis)) *)
Definition dp_group (D M r : nat) : list nat :=
  map (fun d => rank_of D M (c_pipe D M r) d (c_model M r)) (seq 0 D).
Definition mp_group (D M r : nat) : list nat :=
  map (fun m => rank_of D M (c_pipe D M r) (c_data D M r) m) (seq 0 M).
Definition pp_group (P D M r : nat) : list nat :=
  map (fun p => rank_of D M p (c_data D M r) (c_model M r)) (seq 0 P).
(* ranks with the same pipe coordinate, ascending *)
Definition stage_peers (D M r : nat) : list nat := seq (c_pipe D M r * (D * M)) (D * M).

(* get_axis_comm_lists: order = itertools.product over the other axes *)
Definition axis_data (P D M : nat) : list (list nat) :=
  flat_map (fun p => map (fun m => map (fun d => rank_of D M p d m) (seq 0 D)) (seq 0 M)) (seq 0 P).
Definition axis_model (P D M : nat) : list (list nat) :=
  flat_map (fun p => map (fun d => map (fun m => rank_of D M p d m) (seq 0 M)) (seq 0 D)) (seq 0 P).
Definition axis_pipe (P D M : nat) : list (list nat) :=
  flat_map (fun d => map (fun m => map (fun p => rank_of D M p d m) (seq 0 P)) (seq 0 M)) (seq 0 D).

(* ---- which group object serves as the stage-peer group ---- *)
Inductive peer_group := ReuseModel | ReuseData | NewGroup.
Definition set_eqb (a b : list nat) : bool :=
  forallb (fun x => memb x b) a && forallb (fun x => memb x a) b.
Definition peer_group_kind (D M r : nat) : peer_group :=
  if set_eqb (stage_peers D M r) (mp_group D M r) then ReuseModel
  else if set_eqb (stage_peers D M r) (dp_group D M r) then ReuseData
  else NewGroup.
(* the sequence of dist.new_group calls of rank r (argument = member list).
   REPAIRED code (fix D5): when a new group is needed every rank creates the
   group of every stage, in stage order. *)
Definition newgroup_trace (P D M r : nat) : list (list nat) :=
  match peer_group_kind D M r with
  | NewGroup => map (fun p => seq (p * (D * M)) (D * M)) (seq 0 P)
  | _ => []
  end.
(* the code before the repair: only the own stage's group *)
Definition newgroup_trace_old (D M r : nat) : list (list nat) :=
  match peer_group_kind D M r with
  | NewGroup => [stage_peers D M r]
  | _ => []
  end.

(* ---- inverse workers: least-loaded greedy over the stage peers ---- *)
(* layers sorted by (total cost, name) descending; names : name code per layer index *)
Definition nlayer_lt (names : list nat) (a b : nat * layerw) : bool :=
  (Z.ltb (sumcost (snd a)) (sumcost (snd b)))
  || (Z.eqb (sumcost (snd a)) (sumcost (snd b)) && Nat.ltb (nth (fst a) names 0) (nth (fst b) names 0)).
Fixpoint insert_nlayer (names : list nat) (x : nat * layerw) (l : list (nat * layerw)) :=
  match l with
  | [] => [x]
  | y :: t => if nlayer_lt names y x then x :: y :: t else y :: insert_nlayer names x t
  end.
Definition sort_neox (names : list nat) (l : list (nat * layerw)) : list (nat * layerw) :=
  fold_left (fun acc x => insert_nlayer names x acc) l [].

Definition neox_processing (names : list nat) (work : list layerw) := sort_neox names (index_from 0 work).

Definition neox_greedy (peers : list nat) (names : list nat) (work : list layerw) : asg_t :=
  place_all true (fun _ => 0%Z) [peers] (neox_processing names work).
(* relational: any least-loaded peer *)
Definition neox_ok_b (peers : list nat) (names : list nat) (work : list layerw) (a : asg_t) : bool :=
  check_all true (fun _ => 0%Z) [peers] (neox_processing names work) a.

(* ---- per-rank queries, given the layer's inverse worker `inv` ---- *)
Definition factor_worker (D M r inv : nat) : nat :=
  rank_of D M (c_pipe D M r) (c_data D M r) (c_model M inv).
Definition src_grad_worker (D M r inv : nat) : nat :=
  rank_of D M (c_pipe D M r) (c_data D M inv) (c_model M r).
Definition is_grad_worker (D M r inv : nat) : bool := memb inv (mp_group D M r).

Definition neox_view (P D M : nat) (invs : list nat) :=
  let W := P * D * M in
  ( (axis_data P D M, axis_model P D M, axis_pipe P D M),
    map (fun r => ( (dp_group D M r, mp_group D M r, stage_peers D M r),
                    (match peer_group_kind D M r with ReuseModel => 0 | ReuseData => 1 | NewGroup => 2 end,
                     newgroup_trace P D M r),
                    map (fun inv => (factor_worker D M r inv, src_grad_worker D M r inv, is_grad_worker D M r inv)) invs))
        (seq 0 W) ).
