(* Model of GPTNeoXKFACPreconditioner.state_dict / load_state_dict /
   save_factors_to_dir / load_factors_from_dir (kfac/gpt_neox/preconditioner.py).
   Factors are opaque tokens; layer names are natural numbers (globally unique).
   Executable definitions only. *)
From Coq Require Import List Arith Bool.
Import ListNotations.

Definition lname := nat.
Definition fval := nat.                          (* a pair of factors (A, G), opaque *)

Record nlayer := { l_name : lname; l_inv : nat }.   (* a layer and its inverse worker *)

(* state of the world: held r l = the factors rank r holds for layer l (None: not computed) *)
Definition held_t := nat -> lname -> option fval.

(* state_dict(): every rank contributes (name, factors) for the layers it is inverse
   worker of (own stage only); all_gather_object over the world; merge by name *)
Definition partition (stage_layers : nat -> list nlayer) (held : held_t) (r : nat) : list (lname * fval) :=
  flat_map (fun l => if Nat.eqb (l_inv l) r
                     then match held r (l_name l) with Some f => [(l_name l, f)] | None => [] end
                     else []) (stage_layers r).
Definition gathered (W : nat) (stage_layers : nat -> list nlayer) (held : held_t) : list (lname * fval) :=
  flat_map (partition stage_layers held) (seq 0 W).
(* dict semantics: a later entry for the same name overrides an earlier one *)
Fixpoint dict_get (d : list (lname * fval)) (n : lname) : option fval :=
  match d with
  | [] => None
  | (k, v) :: t => match dict_get t n with Some x => Some x | None => if Nat.eqb k n then Some v else None end
  end.

(* save_factors_to_dir(): one file per layer, written by its inverse worker *)
Definition files (W : nat) (stage_layers : nat -> list nlayer) (held : held_t) : list (lname * fval) :=
  gathered W stage_layers held.

(* load_state_dict(): a rank restores a layer iff it is the layer's factor worker
   (the rank of its model-parallel group that gathers and inverts it) *)
Definition load (factor_worker : nat -> lname -> nat) (stage_layers : nat -> list nlayer)
  (saved : list (lname * fval)) (held : held_t) : held_t :=
  fun r n =>
    if existsb (fun l => Nat.eqb (l_name l) n) (stage_layers r) && Nat.eqb (factor_worker r n) r
    then match dict_get saved n with Some f => Some f | None => held r n end
    else held r n.

(* second-order data is recomputed on exactly those ranks (when compute_inverses) *)
Definition recomputes (factor_worker : nat -> lname -> nat) (stage_layers : nat -> list nlayer)
  (saved : list (lname * fval)) (compute : bool) (r : nat) (n : lname) : bool :=
  compute && existsb (fun l => Nat.eqb (l_name l) n) (stage_layers r) && Nat.eqb (factor_worker r n) r
  && match dict_get saved n with Some _ => true | None => false end.

(* collectives of the two operations (kind, on the world): identical on every rank *)
Definition save_comm (dir_mode : bool) : list nat :=
  if dir_mode then [6; 6] (* barrier, [write own layer files], barrier *) else [7; 5; 6] (* new_group, all_gather_object, barrier *).

(* ---- directory mode as a small concurrent program per rank:
        0 --barrier--> 1 --write my layer files--> 2 --barrier (closing = true)--> 3 = state_dict() has returned.
   A barrier lets a rank through only when every rank has reached it.  closing = false is the code before the repair of D14
   (no barrier after the files are written). ---- *)
Definition dpcs := list nat.                       (* program counter of every rank *)
Definition all_reached (k : nat) (s : dpcs) : bool := forallb (fun pc => Nat.leb k pc) s.
Definition dstep_ok (closing : bool) (s : dpcs) (r : nat) : bool :=
  match nth_error s r with
  | Some 0 => all_reached 0 s
  | Some 1 => true
  | Some 2 => if closing then all_reached 2 s else true
  | _ => false
  end.
Fixpoint bump (s : dpcs) (r : nat) : dpcs :=
  match s, r with
  | [], _ => []
  | pc :: t, 0 => S pc :: t
  | pc :: t, S r' => pc :: bump t r'
  end.
(* run a schedule (the rank that moves at each step); a disabled move is skipped *)
Fixpoint drun (closing : bool) (s : dpcs) (sched : list nat) : dpcs :=
  match sched with
  | [] => s
  | r :: t => drun closing (if dstep_ok closing s r then bump s r else s) t
  end.
Definition dinit (n : nat) : dpcs := repeat 0 n.
Definition load_comm (dir_mode : bool) : list nat := if dir_mode then [] else [6].
