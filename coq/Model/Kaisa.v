(* Model of kfac/assignment.py: KAISAAssignment (grid of ranks, queries)
   and of the fraction handling of KAISAAssignment / KFACPreconditioner.
   Executable definitions only. *)
From Coq Require Import List Arith ZArith Bool.
From Coq Require Import Floats.PrimFloat Floats.SpecFloat Floats.FloatOps Numbers.Cyclic.Int63.Uint63.
Import ListNotations.
From KV Require Import Model.Greedy.

(* ---- the grid: k gradient workers per layer, p = W / k columns ---- *)
Definition kcols_pk (p k : nat) : list (list nat) :=
  map (fun i => map (fun j => i + j * p) (seq 0 k)) (seq 0 p).
Definition krows_pk (p k : nat) : list (list nat) :=
  map (fun j => seq (j * p) p) (seq 0 k).
Definition kcols (W k : nat) := kcols_pk (W / k) k.   (* partition_grad_workers   *)
Definition krows (W k : nat) := krows_pk (W / k) k.   (* partition_grad_receivers *)

(* the work handed to greedy_assignment and the layer's factor codes *)
Definition any_worker (a : asg_t) (work : list layerw) (l : nat) : option nat :=
  match rev (nth l work []) with
  | (f, _) :: _ => lookup2 a l f      (* list(values()).pop(): the last factor *)
  | [] => None
  end.

(* column index of a layer, row index of a rank *)
Definition layer_col (p : nat) (a : asg_t) (work : list layerw) (l : nat) : option nat :=
  option_map (fun w => w mod p) (any_worker a work l).
Definition rank_row (p r : nat) : nat := r / p.

Definition is_grad_worker (p : nat) (a : asg_t) (work : list layerw) (r l : nat) : bool :=
  match layer_col p a work l with Some c => Nat.eqb (r mod p) c | None => false end.
Definition src_grad_worker (p : nat) (a : asg_t) (work : list layerw) (r l : nat) : option nat :=
  option_map (fun c => c + rank_row p r * p) (layer_col p a work l).
Definition grad_worker_group (p k : nat) (a : asg_t) (work : list layerw) (l : nat) : option (list nat) :=
  option_map (fun c => nth c (kcols_pk p k) []) (layer_col p a work l).
Definition grad_receiver_group (p k r : nat) : list nat := nth (rank_row p r) (krows_pk p k) [].
Definition broadcast_gradients (W k : nat) : bool := Nat.ltb k W.
Definition broadcast_inverses (k : nat) : bool := Nat.ltb 1 k.

(* ---- the floating-point fraction rule (IEEE binary64, bit exact) ---- *)
Local Open Scope float_scope.

Definition f_of_nat (n : nat) : float := of_uint63 (Uint63.of_Z (Z.of_nat n)).

(* Python round(x) for a finite float: nearest integer, ties to even *)
Definition round_half_even (x : float) : option Z :=
  match Prim2SF x with
  | S754_zero _ => Some 0%Z
  | S754_finite s m e =>
      let v :=
        if (0 <=? e)%Z then (Zpos m * 2 ^ e)%Z
        else
          let d := (2 ^ (- e))%Z in
          let q := (Zpos m / d)%Z in
          let r := (Zpos m mod d)%Z in
          if (2 * r <? d)%Z then q
          else if (d <? 2 * r)%Z then (q + 1)%Z
          else if Z.even q then q else (q + 1)%Z in
      Some (if s then (- v)%Z else v)
  | _ => None
  end.

Definition f_of_Z (z : Z) : float :=
  if (z <? 0)%Z then - of_uint63 (Uint63.of_Z (- z)) else of_uint63 (Uint63.of_Z z).

Definition tol : float := 0x1.0c6f7a0b5ed8dp-20.   (* the double nearest to 1e-6 *)

(* KAISAAssignment.__init__: grad_workers from world_size and the fraction.
   None = ValueError. *)
Definition grad_workers_of (W : nat) (frac : float) : option Z :=
  if PrimFloat.ltb frac 0 || PrimFloat.ltb 1 frac then None else
  let x := f_of_nat W * frac in
  (* max(1, x): Python returns the first maximal argument *)
  let gw := if PrimFloat.ltb 1 x then x else 1 in
  match round_half_even gw with
  | None => None
  | Some r =>
      if PrimFloat.ltb tol (abs (gw - f_of_Z r)) then None
      else if (r <=? 0)%Z then None
      else if Nat.eqb (W mod (Z.to_nat r)) 0 then Some r else None  (* partition_* raises otherwise *)
  end.

Definition frac_of (k W : nat) : float := f_of_nat k / f_of_nat W.

(* KFACPreconditioner.__init__ on a float fraction: (fraction passed on, strategy)
   strategy: 1 = COMM_OPT, 2 = MEM_OPT, 3 = HYBRID_OPT; None = ValueError *)
Definition precond_fraction (W : nat) (frac : float) : option (float * nat) :=
  if PrimFloat.ltb frac 0 || PrimFloat.ltb 1 frac then None else
  let frac := if PrimFloat.eqb frac 0 then 1 / f_of_nat W else frac in
  match round_half_even (f_of_nat W * frac) with
  | None => None
  | Some r =>
      let m := Z.to_nat (Z.max 1 r) in
      if negb (Nat.eqb (W mod m) 0) then None
      else if PrimFloat.eqb frac 1 then Some (1, 1%nat)
      else if PrimFloat.leb frac (1 / f_of_nat W) then Some (frac, 2%nat)
      else Some (frac, 3%nat)
  end.

(* every (k, m) with k * m <= Wmax, i.e. every W <= Wmax and every divisor k of W *)
Definition fraction_ok (W k : nat) : bool :=
  match grad_workers_of W (frac_of k W) with
  | Some r => Z.eqb r (Z.of_nat k) | None => false end.
Definition all_fractions_accepted (Wmax : nat) : bool :=
  forallb (fun k => forallb (fun m => fraction_ok (k * m) k) (seq 1 (Wmax / k))) (seq 1 Wmax).

(* everything a KAISAAssignment answers, for all ranks at once (used by the
   correspondence harness) *)
Definition kaisa_view (W k : nat) (work : list layerw) (a : asg_t) :=
  let p := Nat.div W k in
  let layers := seq 0 (length work) in
  ( (kcols W k, krows W k),
    (broadcast_gradients W k, broadcast_inverses k),
    map (fun l => grad_worker_group p k a work l) layers,
    map (fun r => grad_receiver_group p k r) (seq 0 W),
    map (fun r => map (fun l => (is_grad_worker p a work r l, src_grad_worker p a work r l)) layers)
        (seq 0 W) ).
