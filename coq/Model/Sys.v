(* Lock-step data-level model of one K-FAC iteration on W ranks under an
   arbitrary work assignment, and of single-process K-FAC on the union batch.
   Data values are abstract (a type D with the operations the layers perform);
   communication is value preserving (allreduce = average of the members'
   values, broadcast = the root's value: C03 for schedule independence, C08 /
   C14 for bucketing and triangular packing).  Definitions only. *)
From Coq Require Import List Arith Bool.
Import ListNotations.

Section Sys.
Variable D : Type.
Variable ema : D -> D -> D.          (* running average: previous factor, new batch moment (decay of this step) *)
Variable avg : list D -> D.          (* allreduce with average over the listed ranks' values *)
Variable inv : D -> D.               (* second-order data of a factor (damping of this step) *)
Variable pre : D -> D -> D -> D.     (* preconditioned gradient from second-order data of A, of G, and the gradient *)

(* what a work assignment answers for one layer *)
Record asg := { a_wa : nat; a_wg : nat; a_gw : nat -> bool; a_src : nat -> nat; a_binv : bool; a_bgrad : bool }.

Definition wf_asg (W : nat) (a : asg) : Prop :=
  a_wa a < W /\ a_wg a < W /\ a_gw a (a_wa a) = true /\ a_gw a (a_wg a) = true /\
  (forall r, r < W -> a_src a r < W /\ a_gw a (a_src a r) = true) /\
  (a_binv a = false -> forall r, r < W -> a_gw a r = true -> r = a_wa a /\ r = a_wg a) /\
  (a_bgrad a = false -> forall r, r < W -> a_gw a r = true).

Record rstate := { fA : D; fG : D; sA : option D; sG : option D }.

Definition ranks (W : nat) := seq 0 W.

(* one iteration that updates the factors, refreshes the second-order data and
   preconditions the (already averaged, hence rank-independent) gradient g *)
Definition new_fA (W : nat) (st : nat -> rstate) (mA : nat -> D) : D :=
  avg (map (fun q => ema (fA (st q)) (mA q)) (ranks W)).
Definition new_fG (W : nat) (st : nat -> rstate) (mG : nat -> D) : D :=
  avg (map (fun q => ema (fG (st q)) (mG q)) (ranks W)).

Definition iter_state (W : nat) (a : asg) (st : nat -> rstate) (mA mG : nat -> D) : nat -> rstate :=
  fun r =>
    let FA := new_fA W st mA in let FG := new_fG W st mG in
    {| fA := FA; fG := FG;
       sA := if Nat.eqb r (a_wa a) then Some (inv FA)
             else if a_binv a && a_gw a r then Some (inv FA) else sA (st r);
       sG := if Nat.eqb r (a_wg a) then Some (inv FG)
             else if a_binv a && a_gw a r then Some (inv FG) else sG (st r) |}.

(* the gradient a gradient worker computes *)
Definition worker_grad (s : rstate) (g : D) : option D :=
  match sA s, sG s with Some x, Some y => Some (pre x y g) | _, _ => None end.

(* what every rank ends up with: its own result if it is a gradient worker and
   gradients are not broadcast, else what its source broadcasts *)
Definition final_grad (W : nat) (a : asg) (st' : nat -> rstate) (g : D) (r : nat) : option D :=
  if a_bgrad a then worker_grad (st' (a_src a r)) g
  else worker_grad (st' r) g.

(* single-process K-FAC fed the union batch: its moments are the rank means (C04 moment_union) *)
Definition single_fA (W : nat) (FA : D) (mA : nat -> D) : D := ema FA (avg (map mA (ranks W))).
Definition single_grad (W : nat) (FA FG : D) (mA mG : nat -> D) (g : D) : D :=
  pre (inv (single_fA W FA mA)) (inv (single_fA W FG mG)) g.
End Sys.
