(* Model of BaseKFACPreconditioner._compute_grad_scale and of the scaling in
   KFACBaseLayer.update_grad.  Executable definitions only, polymorphic in the
   arithmetic. *)
From Coq Require Import List Arith Bool.
Import ListNotations.
From KV Require Import Model.Mat.

Section Clip.
Context {T : Type} (O : ops T).

(* one registered layer: preconditioned gradient V and original combined gradient D,
   both m x (nw + bias) *)
Record clayer := mkCL { cm : nat; cnw : nat; cbias : bool; cV : @mat T; cD : @mat T }.

(* (v1 * w * lr**2).sum() and, with a bias, (v2 * b * lr**2).sum() *)
Definition weight_sum (lr2 : T) (l : clayer) : T :=
  sumn O (cm l) (fun i => sumn O (cnw l) (fun j => omul O (omul O (cV l i j) (cD l i j)) lr2)).
Definition bias_sum (lr2 : T) (l : clayer) : T :=
  sumn O (cm l) (fun i => omul O (omul O (cV l i (cnw l)) (cD l i (cnw l))) lr2).

(* vg_sum: accumulated over the layers (the caller passes them in the order the
   code visits them: reversed registration order), weight part then bias part *)
Definition vg_sum (lr : T) (layers : list clayer) : T :=
  let lr2 := omul O lr lr in
  fold_left (fun acc l =>
               let acc1 := oadd O acc (weight_sum lr2 l) in
               if cbias l then oadd O acc1 (bias_sum lr2 l) else acc1)
            layers (o0 O).

(* min(1.0, sqrt(kl_clip / abs(vg_sum))), 1.0 when vg_sum == 0 *)
Definition nu (kl s : T) : T :=
  if oeq0 O s then o1 O else omin O (o1 O) (osqrt O (odiv O kl (oabs O s))).

(* scale = None if kl_clip is None else _compute_grad_scale() *)
Definition grad_scale (kl : option T) (lr : T) (layers : list clayer) : option T :=
  match kl with None => None | Some k => Some (nu k (vg_sum lr layers)) end.
End Clip.
