(* Model of what BaseKFACPreconditioner.step() may write: the environment of a
   model (parameters with their gradients and tensor metadata, fbuffers) and the
   write-back of KFACBaseLayer.update_grad / ModuleHelper.set_grad.
   Values are opaque tokens.  Executable definitions only. *)
From Coq Require Import List Arith Bool.
Import ListNotations.

Record tmeta := { t_shape : list nat; t_dtype : nat; t_device : nat; t_contig : bool }.
Record pentry := {
  e_layer : option nat;            (* Some l: parameter of registered layer l; None: unsupported / skipped / frozen module *)
  e_bias : bool;                   (* weight or bias of its module *)
  e_value : nat;                   (* parameter value (token) *)
  e_grad : option (nat * tmeta) }. (* gradient value (token) and metadata; None: no gradient *)
Record env := { fparams : list pentry; fbuffers : list nat }.

(* dtype flow of one layer: get_grad (grad dtype) -> .to(inverse dtype) -> compute -> .to(grad dtype) -> set_grad -> .contiguous() *)
Definition flow_dtype (grad_dtype inv_dtype : nat) : nat := grad_dtype.

(* step(): every registered layer's weight (and bias) gradient is replaced by the
   scaled preconditioned gradient: new value token, same shape / dtype / device, contiguous *)
Definition write_grad (newval : nat -> bool -> nat) (inv_dtype : nat) (e : pentry) : pentry :=
  match e_layer e, e_grad e with
  | Some l, Some (_, m) =>
      {| e_layer := e_layer e; e_bias := e_bias e; e_value := e_value e;
         e_grad := Some (newval l (e_bias e),
                         {| t_shape := t_shape m; t_dtype := flow_dtype (t_dtype m) inv_dtype;
                            t_device := t_device m; t_contig := true |}) |}
  | _, _ => e
  end.

Definition step_env (newval : nat -> bool -> nat) (inv_dtype : nat) (E : env) : env :=
  {| fparams := map (write_grad newval inv_dtype) (fparams E); fbuffers := fbuffers E |}.

(* which entries a step may touch *)
Definition touched (e : pentry) : bool :=
  match e_layer e, e_grad e with Some _, Some _ => true | _, _ => false end.
