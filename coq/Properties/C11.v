(* C11 — Model-parallel sharding is transparent to GPT-NeoX preconditioning.
   A linear layer sharded M ways.  Statements only. *)
From Coq Require Import List Arith Bool Reals Lra.
Import ListNotations.
From KV Require Import Model.Mat Model.Precond Model.Shard Model.Clip Proofs.MatP Proofs.ShardP Proofs.ClipP.
From KV Require Import Model.Factor Model.ShardFactor Proofs.ShardFactorP.

(* split and gather along a dimension are mutually inverse (any element type) *)
Theorem split_gather_id : forall (T : Type) w (As : nat -> @mat T) j i c,
  (c < w -> split_cols w j (gather_cols w As) i c = As j i c) /\
  (i < w -> split_rows w j (gather_rows w As) i c = As j i c).
Proof. intros. split; [apply split_gather_cols|apply split_gather_rows]. Qed.

Theorem gather_split_id : forall (T : Type) w (A : @mat T) i c, 0 < w ->
  gather_cols w (fun j => split_cols w j A) i c = A i c /\
  gather_rows w (fun j => split_rows w j A) i c = A i c.
Proof. intros. split; [now apply gather_split_cols|now apply gather_split_rows]. Qed.

Local Open Scope R_scope.

(* reduce_scatter with zero contributions from all ranks but the primary delivers
   exactly the primary's chunk j to rank j *)
Theorem reduce_scatter_as_scatter : forall par M m n (V : @mat R) primary j i c, (primary < M)%nat ->
  reduce_scatter ops_R M (contributions ops_R par M m n V primary) j i c
  = match par with ParInput => split_cols (n / M) j V i c | ParOutput => split_rows (m / M) j V i c end.
Proof. exact reduce_scatter_as_scatter_l. Qed.

(* what the primary assembles from the shards is the unsharded combined gradient *)
Theorem assembled_is_unsharded : forall M m n (Wfull : @mat R) (b : @vec R) primary i c,
  ((0 < n / M)%nat ->
     assemble ParInput M m n true (fun j => split_cols (n / M) j Wfull) (fun _ => b) primary i c = get_grad true n Wfull b i c) /\
  ((0 < m / M)%nat ->
     assemble ParOutput M m n true (fun j => split_rows (m / M) j Wfull) (fun j k => b (j * (m / M) + k)%nat) primary i c
     = get_grad true n Wfull b i c).
Proof. intros. split; [apply assemble_input_l|apply assemble_output_l]. Qed.

(* after the gradient phase rank j holds exactly its shard of the unsharded result V,
   and reassembling the shards gives V back (clipping off) *)
Theorem sharded_precondition_is_unsharded : forall M m n hb (V : @mat R) j i c,
  ((c < n / M)%nat -> shard_of_V ParInput M m n true V j i c = V i (j * (n / M) + c)%nat) /\
  shard_of_V ParInput M m n true V j i (n / M)%nat = V i n /\
  shard_of_V ParOutput M m n hb V j i c = V (j * (m / M) + i)%nat c /\
  ((0 < m / M)%nat -> gather_rows (m / M) (fun j => shard_of_V ParOutput M m n hb V j) i c = V i c) /\
  ((0 < n / M)%nat -> (c < M * (n / M))%nat -> gather_cols (n / M) (fun j => shard_of_V ParInput M m n true V j) i c = V i c).
Proof.
  intros. split; [apply shard_input_l|]. split; [apply shard_input_bias_l|]. split; [apply shard_output_l|].
  split; [apply shards_reassemble_output|apply shards_reassemble_input].
Qed.

(* clipping: the scale each rank computes from its LOCAL shards is not the unsharded
   scale when the model-parallel degree is > 1 (known finding D10; M = 2 witness) *)
Theorem clip_sharded_refuted :
  let V := (fun _ _ => 1) : @mat R in let D := (fun _ _ => 1) : @mat R in
  let full := mkCL 1 2 false V D in let local := mkCL 1 1 false V D in
  vg_sumR 1 [full] = 2 /\ vg_sumR 1 [local] = 1 /\ nuR 1 (vg_sumR 1 [local]) = 1 /\ nuR 1 (vg_sumR 1 [full]) < 1.
Proof. exact clip_sharded_refuted_l. Qed.

(* the factors: what the primary computes from the operand gathered over the model-parallel group is, entry for
   entry, the factor of the unsharded layer (any arithmetic, any shard width, bias column or not) - A for a
   row-parallel layer (input sharded), G for a column-parallel layer (output gradient sharded) *)
Theorem sharded_factor_is_unsharded : forall (T : Type) (O : ops T) (w rows n : nat) (hb : bool) (X : @mat T) (i j : nat), (0 < w)%nat ->
  neox_a_factor O ParInput w rows n hb (fun q => split_cols w q X) i j = lin_a O rows n hb X i j /\
  neox_g_factor O ParOutput w rows n (fun q => split_cols w q X) i j = lin_g O rows n X i j.
Proof. intros T O w rows n hb X i j Hw. split; [now apply sharded_a_factor_l|now apply sharded_g_factor_l]. Qed.

Print Assumptions split_gather_id.
Print Assumptions sharded_factor_is_unsharded.
Print Assumptions gather_split_id.
Print Assumptions reduce_scatter_as_scatter.
Print Assumptions assembled_is_unsharded.
Print Assumptions sharded_precondition_is_unsharded.
Print Assumptions clip_sharded_refuted.
