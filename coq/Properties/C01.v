(* C01 — The preconditioned gradient solves the damped Kronecker-factored system.
   Over the real numbers, for all dimensions m x n and all entries.  The LAPACK
   results (inverse, eigendecomposition) enter as hypotheses whose truth on the
   values actually produced is checked at run time by the correspondence.
   Statements only. *)
From Coq Require Import List Arith Bool Reals Lra Lia.
Import ListNotations.
From KV Require Import Model.Mat Model.Precond Proofs.MatP Proofs.PrecondP.
Local Open Scope R_scope.

(* inverse method: with Ginv a right inverse of Gd = G + damping*I and Ainv a left
   inverse of Ad = A + damping*I, V = Ginv D Ainv satisfies Gd V Ad = D *)
Theorem inverse_solves : forall m n (G A Ginv Ainv D : @mat R) lam,
  meq m m (mmulR m (dampedR G lam) Ginv) midR -> meq n n (mmulR n Ainv (dampedR A lam)) midR ->
  meq m n (mmulR n (mmulR m (dampedR G lam) (pre_inverseR m n Ginv Ainv D)) (dampedR A lam)) D.
Proof. intros m n G A Ginv Ainv D lam. apply inverse_solves_l. Qed.

(* eigen method: Qg, Qa orthogonal, damping > 0; with G+ = Qg diag(max(dg,0)) Qg^T and A+ likewise,
   V = Qg ((Qg^T D Qa) / (dg+ x da+ + damping)) Qa^T satisfies G+ V A+ + damping V = D *)
Theorem eigen_solves : forall m n Qg Qa dg da lam D,
  meq m m (mmulR m (mTR Qg) Qg) midR -> meq m m (mmulR m Qg (mTR Qg)) midR ->
  meq n n (mmulR n (mTR Qa) Qa) midR -> meq n n (mmulR n Qa (mTR Qa)) midR -> 0 < lam ->
  let V := pre_eigenR m n Qg (clampR dg) Qa (clampR da) lam D in
  meq m n (maddR (mmulR n (mmulR m (psd_partR m Qg dg) V) (psd_partR n Qa da)) (mscaleR lam V)) D.
Proof. exact eigen_solves_l. Qed.

(* pre-divided eigenvalue products give the same V, for the damping lam0 in
   force when the product was pre-divided (which value that is: C05) *)
Theorem eigen_prediv_solves : forall m n Qg Qa dg da lam0 D,
  meq m n (pre_eigen_predivR m n Qg Qa (dgda_of ops_R (clampR dg) (clampR da) lam0) D)
          (pre_eigenR m n Qg (clampR dg) Qa (clampR da) lam0 D).
Proof. exact eigen_prediv_same. Qed.

(* for a positive semi-definite factor the clamp changes nothing: G+ = Q diag(d) Q^T = G *)
Theorem psd_projection_id : forall k Q d, (forall i, (i < k)%nat -> 0 <= d i) ->
  meq k k (psd_partR k Q d) (mmulR k (mmulR k Q (mdiagR d)) (mTR Q)).
Proof. exact psd_projection_id_l. Qed.

(* the solution of Gd X Ad = D is unique when Gd and Ad are invertible *)
Theorem solution_unique : forall m n (Gd Ad Ginv Ainv X Y : @mat R),
  meq m m (mmulR m Ginv Gd) midR -> meq n n (mmulR n Ad Ainv) midR ->
  meq m n (mmulR n (mmulR m Gd X) Ad) (mmulR n (mmulR m Gd Y) Ad) -> meq m n X Y.
Proof. exact solution_unique_l. Qed.

(* weight | bias layout: split(combine) and combine(split) are identities *)
Theorem writeback_roundtrip : forall nw (Wg : @mat R) (bg : @vec R),
  (forall i j, (j < nw)%nat -> set_grad_w true nw (get_grad true nw Wg bg) i j = Wg i j) /\
  (forall i, set_grad_b nw (get_grad true nw Wg bg) i = bg i) /\
  (forall i j, set_grad_w false nw (get_grad false nw Wg bg) i j = Wg i j) /\
  (forall (M : @mat R) i j, (j <= nw)%nat ->
     get_grad true nw (set_grad_w true nw M) (set_grad_b nw M) i j = M i j).
Proof.
  intros nw Wg bg. destruct (writeback_roundtrip_l nw Wg bg) as (H1 & H2 & H3).
  repeat split; try assumption. intros M. apply combine_split_l.
Qed.

(* non-vacuity: a swap matrix is orthogonal on 2 x 2; a negative round-off eigenvalue is clamped *)
Example hypotheses_satisfiable :
  let Q := (fun i j => if Nat.eqb i j then 0 else 1) : @mat R in
  meq 2 2 (mmulR 2 (mTR Q) Q) midR /\ meq 2 2 (mmulR 2 Q (mTR Q)) midR /\
  clampR (fun i => if Nat.eqb i 0 then 1 else -1/1000) 1%nat = 0.
Proof.
  split; [|split].
  - intros [|[|i]] [|[|j]] Hi Hj; try lia; unfold mmul, mT, mid, mdiag; simpl; lra.
  - intros [|[|i]] [|[|j]] Hi Hj; try lia; unfold mmul, mT, mid, mdiag; simpl; lra.
  - unfold clamp. simpl. apply Rmax_right. lra.
Qed.

Print Assumptions inverse_solves.
Print Assumptions eigen_solves.
Print Assumptions eigen_prediv_solves.
Print Assumptions psd_projection_id.
Print Assumptions solution_unique.
Print Assumptions writeback_roundtrip.
