(* C05 — Update intervals and hyper-parameter schedules are honoured over any history.
   The machine Model/Kfac.v is the reference K-FAC state machine.  Statements only. *)
From Coq Require Import List Arith Bool.
Import ListNotations.
From KV Require Import Model.Kfac Proofs.KfacP.

(* the step count grows by exactly one per step; nothing but a step (or a load) changes it *)
Theorem steps_counts_steps : forall cfg cks s e,
  steps (fst (kstep cfg cks s e)) =
    match e with
    | Step => S (steps s)
    | Load ck _ => match nth_error cks ck with Some c => k_steps c | None => steps s end
    | Fresh => 0
    | _ => steps s
    end.
Proof. exact steps_step. Qed.

Theorem steps_over_history : forall cfg h cks s, no_load h ->
  steps (fst (krun cfg cks s h)) = steps s + count_steps h.
Proof. exact krun_steps. Qed.

(* factors change only while the step index is a multiple of the factor-update
   interval (evaluated at the current step); eval-mode passes are inert *)
Theorem factors_change_only_on_update_steps : forall cfg cks s e, is_update_step s = false ->
  match e with Load _ _ | Fresh => True | _ => fa (fst (kstep cfg cks s e)) = fa s /\ fg (fst (kstep cfg cks s e)) = fg s end.
Proof. exact off_step_inert_l. Qed.

Theorem eval_inert : forall cfg cks s,
  kstep cfg cks s (Fwd false) = (s, []) /\ kstep cfg cks s (Bwd false) = (s, []).
Proof. exact eval_inert_l. Qed.

(* second-order data is recomputed only by a step whose index is a multiple of
   the inverse-update interval — always at step 0 — from the factors as they are
   after that step's factor update, with the damping of that step *)
Theorem inverses_refresh_only_on_multiples : forall cfg cks s,
  (forall e, match e with Step | Load _ _ | Fresh => True | _ => inv (fst (kstep cfg cks s e)) = inv s end) /\
  (is_inv_step s = false -> inv (fst (kstep cfg cks s Step)) = inv s) /\
  (is_inv_step s = true -> forall a g, fa (after_updates cfg s) = a -> fg (after_updates cfg s) = g ->
     a <> FNone -> g <> FNone ->
     inv (fst (kstep cfg cks s Step)) = Some {| s_a := a; s_g := g; s_step := steps s |}).
Proof.
  intros cfg cks s. split; [intro e; apply inv_only_on_step|]. apply inverse_refresh_l.
Qed.

Theorem inverse_refresh_at_step_zero : forall s, steps s = 0 -> hval (ius s) 0 <> 0 -> is_inv_step s = true.
Proof. exact refresh_at_step_zero. Qed.

(* every other step preconditions with the most recently computed data: the last
   action of a step is Precondition with the data held after the (possible)
   refresh; the plain eigen path reads the damping of the current step *)
Theorem precondition_uses_latest : forall cfg cks s d,
  inv (fst (kstep cfg cks s Step)) = Some d ->
  exists pre, snd (kstep cfg cks s Step) = pre ++ [Precondition d (steps s)].
Proof. exact step_last_l. Qed.

(* functions of the step are evaluated at the current step count *)
Theorem params_evaluated_at_current_step : forall s,
  is_update_step s = (match hval (fus s) (steps s) with 0 => false | n => Nat.eqb (steps s mod n) 0 end) /\
  is_inv_step s = (match hval (ius s) (steps s) with 0 => false | n => Nat.eqb (steps s mod n) 0 end).
Proof. exact params_at_current_step. Qed.

Theorem mini_steps_reset : forall cfg cks s, mini (fst (kstep cfg cks s Step)) = 0.
Proof. exact mini_steps_reset_l. Qed.

(* a history with intervals 2 (factors) and 3 (inverses), hook updates, accumulation 1 *)
Example schedule_example :
  let cfg := {| c_hook := true; c_acc := 1; c_fus0 := HConst 1; c_ius0 := HConst 1 |} in
  let it := [Fwd true; Bwd true; Step] in
  map (fun acts => map (fun a => match a with
                                 | UpdateA st _ => (1, st) | UpdateG st _ => (2, st)
                                 | ComputeInv _ _ st => (3, st) | Precondition d st => (4, s_step d)
                                 | _ => (0, 0) end) acts)
      (snd (krun cfg [] (init (HConst 2) (HConst 3)) (it ++ it ++ it ++ it)))
  = [[(1,0)]; [(2,0)]; [(3,0); (4,0)];  []; []; [(4,0)];  [(1,2)]; [(2,2)]; [(4,0)];  []; []; [(3,3); (4,3)]].
Proof. vm_compute. reflexivity. Qed.

Print Assumptions steps_counts_steps.
Print Assumptions steps_over_history.
Print Assumptions factors_change_only_on_update_steps.
Print Assumptions eval_inert.
Print Assumptions inverses_refresh_only_on_multiples.
Print Assumptions inverse_refresh_at_step_zero.
Print Assumptions precondition_uses_latest.
Print Assumptions params_evaluated_at_current_step.
Print Assumptions mini_steps_reset.
