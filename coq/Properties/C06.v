(* C06 — KAISA work assignment is well-formed and identical on every rank.
   W = k * p: k gradient workers per layer (size of a column), p columns.
   The inverse assignment `a` is ANY assignment accepted by the verified
   checker greedy_ok_b on the columns (so every tie-break / group iteration
   order); it has no rank parameter: that every rank derives the same one is
   carried by the correspondence.  Statements only. *)
From Coq Require Import List Arith ZArith Bool.
Import ListNotations.
From KV Require Import Model.Greedy Model.Kaisa Proofs.GreedyP Proofs.KaisaP.
From KV Require Proofs.KaisaFloatP Proofs.GreedyFunP.

Theorem grid_of_world : forall W p k, 0 < k -> W = k * p ->
  kcols W k = kcols_pk p k /\ krows W k = krows_pk p k.
Proof. exact kcols_eq. Qed.

(* gradient-worker groups: p pairwise disjoint duplicate-free groups of size k covering 0..W-1 *)
Theorem cols_partition : forall p k, 0 < p ->
  wf_groups (kcols_pk p k) /\ length (kcols_pk p k) = p /\
  (forall g, In g (kcols_pk p k) -> length g = k) /\
  (forall r, r < k * p <-> exists g, In g (kcols_pk p k) /\ In r g).
Proof. exact cols_partition_l. Qed.

(* gradient-receiver groups: k groups of size p *)
Theorem rows_partition : forall p k, 0 < p ->
  wf_groups (krows_pk p k) /\ length (krows_pk p k) = k /\
  (forall g, In g (krows_pk p k) -> length g = p) /\
  (forall r, r < k * p <-> exists g, In g (krows_pk p k) /\ In r g).
Proof. exact rows_partition_l. Qed.

Theorem row_col_singleton : forall p k gc gr, 0 < p ->
  In gc (kcols_pk p k) -> In gr (krows_pk p k) ->
  exists x, forall r, (In r gc /\ In r gr) <-> r = x.
Proof. exact row_col_singleton_l. Qed.

(* all inverse workers of a layer lie in that layer's gradient-worker group *)
Theorem inv_workers_in_one_column : forall p k work colocate a, 0 < p ->
  greedy_ok_b work (kcols_pk p k) colocate a = true ->
  forall l fs, nth_error work l = Some fs -> fs <> [] ->
  exists c, c < p /\ layer_col p a work l = Some c /\
    forall f cst, In (f, cst) fs ->
      exists w, lookup2 a l f = Some w /\ w < k * p /\ w mod p = c /\ In w (kcol p k c).
Proof. exact inv_workers_in_one_column_l. Qed.

(* every rank has exactly one gradient source per layer: the unique gradient
   worker of the layer inside the rank's own receiver group; itself when it is
   a gradient worker *)
Theorem src_is_worker_in_my_row : forall p k work a l c r,
  0 < p -> c < p -> layer_col p a work l = Some c -> r < k * p ->
  exists s, src_grad_worker p a work r l = Some s /\
    s < k * p /\ s mod p = c /\ s / p = r / p /\
    In s (kcol p k c) /\ In s (krow p (r / p)) /\
    grad_worker_group p k a work l = Some (kcol p k c) /\
    grad_receiver_group p k r = krow p (r / p) /\
    (forall s', In s' (kcol p k c) -> In s' (krow p (r / p)) -> s' = s) /\
    (is_grad_worker p a work r l = true <-> In r (kcol p k c)) /\
    (is_grad_worker p a work r l = true -> s = r).
Proof. exact src_spec_l. Qed.

Theorem broadcast_flags : forall p k, 0 < p -> 0 < k ->
  (broadcast_gradients (k * p) k = true <-> 1 < p) /\ (broadcast_inverses k = true <-> 1 < k).
Proof. exact broadcast_flags_l. Qed.

(* the function KAISAAssignment computes (greedy over the columns, first-minimum tie-breaks) is accepted by the checker
   for every grid with p, k > 0 and all layers with distinct factor names: the theorems above hold for it on every input *)
Theorem kaisa_function_in_relation : forall p k work colocate, 0 < p -> 0 < k ->
  (forall fs, In fs work -> fs <> [] /\ NoDup (map fst fs)) ->
  greedy_ok_b work (kcols_pk p k) colocate (greedy work (kcols_pk p k) colocate) = true.
Proof.
  intros p k work colocate Hp Hk Hw. apply GreedyFunP.greedy_accepts_l.
  - now apply cols_wf.
  - unfold kcols_pk. destruct p; [inversion Hp|discriminate].
  - intros g Hg. apply kcols_In in Hg as (i & _ & ->). unfold kcol. destruct k; [inversion Hk|discriminate].
  - exact Hw.
Qed.

(* finite domain, bound in the statement: for every world size up to 4096 and
   every divisor k, the IEEE-double computation the constructor performs on the
   float k / W yields exactly k *)
Theorem fraction_accepted_partial : forall W k,
  0 < k -> 0 < W -> W <= WMAX -> W mod k = 0 ->
  grad_workers_of W (frac_of k W) = Some (Z.of_nat k).
Proof. exact (fraction_accepted_gen WMAX fractions_WMAX). Qed.

(* the unbounded form: EVERY world size below 2^31 and every divisor k (Proofs/KaisaFloatP.v).  Two correctly
   rounded operations give |W * fl(k / W) - k| <= k (2u + u^2) with u = 2^-53, which is below 2^-20 < 1e-6 (the
   tolerance of the repaired test) and below 1/2 (so Python's round() returns k).  Proved through Flocq's
   specification of the primitive binary64 operations; depends on the standard library's axioms for primitive
   floats / 63-bit integers and for the real numbers (listed by Print Assumptions below). *)
Theorem fraction_accepted : forall W k,
  0 < k -> 0 < W -> (Z.of_nat W < 2 ^ 31)%Z -> W mod k = 0 ->
  grad_workers_of W (frac_of k W) = Some (Z.of_nat k).
Proof. exact KaisaFloatP.fraction_accepted_l. Qed.

Example wmax_is_4096 : N.of_nat WMAX = 4096%N.
Proof. vm_compute. reflexivity. Qed.

(* the pre-repair rule (exact integrality test) rejected 98 * (2/98); the repaired one accepts it *)
Example fraction_98_2 :
  grad_workers_of 98 (frac_of 2 98) = Some 2%Z /\
  PrimFloat.eqb (PrimFloat.mul (f_of_nat 98) (frac_of 2 98)) (f_of_nat 2) = false.
Proof. split; vm_compute; reflexivity. Qed.

Example grid_8_2 : kcols 8 2 = [[0;4];[1;5];[2;6];[3;7]] /\ krows 8 2 = [[0;1;2;3];[4;5;6;7]].
Proof. split; reflexivity. Qed.

Print Assumptions grid_of_world.
Print Assumptions cols_partition.
Print Assumptions rows_partition.
Print Assumptions row_col_singleton.
Print Assumptions inv_workers_in_one_column.
Print Assumptions src_is_worker_in_my_row.
Print Assumptions broadcast_flags.
Print Assumptions kaisa_function_in_relation.
Print Assumptions fraction_accepted_partial.
Print Assumptions fraction_accepted.
