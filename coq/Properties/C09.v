(* C09 — Checkpoints round-trip and resuming is equivalent to never stopping.
   Checkpoint part of the machine Model/Kfac.v.  Statements only. *)
From Coq Require Import List Arith Bool.
Import ListNotations.
From KV Require Import Model.Kfac Proofs.KfacP.
From KV Require Import Model.Placement Model.Coll Model.KfacComm Proofs.KfacCommP.

(* saving does not change the state and captures steps, the constant intervals and the factors *)
Theorem save_is_read_only : forall cfg cks s incl,
  kstep cfg cks s (Save incl) = (s, [Saved (saved_of s incl)]).
Proof. exact save_is_pure. Qed.

(* loading into a freshly constructed, identically configured preconditioner restores
   steps, constant hyper-parameters and factors exactly; with compute_inverses the
   second-order data is recomputed from the restored factors with the damping of the
   RESTORED step; a state saved before the first factor update loads without error *)
Theorem save_load_restores : forall cfg s f0 i0 comp,
  same_kind (fus s) f0 -> same_kind (ius s) i0 ->
  let s' := fst (kstep cfg [saved_of s true] (init f0 i0) (Load 0 comp)) in
  steps s' = steps s /\ fus s' = fus s /\ ius s' = ius s /\ fa s' = fa s /\ fg s' = fg s /\
  mini s' = 0 /\ a_cnt s' = 0 /\ g_cnt s' = 0 /\
  inv s' = (if comp then match fa s, fg s with
                         | FNone, _ | _, FNone => None
                         | a, g => Some {| s_a := a; s_g := g; s_step := steps s |} end
            else None).
Proof. exact load_restores_l. Qed.

(* resuming is equivalent to never stopping when the live second-order data equals
   the recomputed one (states then coincide) ... *)
Theorem resume_equivalent_same_data : forall s1 s2,
  same_but_inv s1 s2 -> inv s1 = inv s2 -> s1 = s2.
Proof. exact same_but_inv_eq. Qed.

(* ... or when the next step refreshes it: the next step produces the same actions
   and the same state, whatever second-order data the resumed state held *)
Theorem resume_equivalent_next_refresh : forall cfg cks s1 s2,
  same_but_inv s1 s2 -> is_inv_step s1 = true ->
  fa (after_updates cfg s1) <> FNone -> fg (after_updates cfg s1) <> FNone ->
  kstep cfg cks s1 Step = kstep cfg cks s2 Step.
Proof. exact resume_refresh_l. Qed.

(* ... hence over every continuation: the resumed run and the uninterrupted run produce the same actions (which factors
   are updated when, which second-order data every later step preconditions with) for ANY history that follows *)
Theorem resume_equivalent_over_any_history : forall cfg cks s1 s2 h,
  same_but_inv s1 s2 ->
  (inv s1 = inv s2 -> krun cfg cks s1 h = krun cfg cks s2 h) /\
  (is_inv_step s1 = true -> fa (after_updates cfg s1) <> FNone -> fg (after_updates cfg s1) <> FNone ->
   krun cfg cks s1 (Step :: h) = krun cfg cks s2 (Step :: h)).
Proof.
  intros cfg cks s1 s2 h Hs. split.
  - intros Hi. now rewrite (same_but_inv_eq s1 s2 Hs Hi).
  - intros H1 H2 H3. cbn [krun]. now rewrite (resume_refresh_l cfg cks s1 s2 Hs H1 H2 H3).
Qed.

(* otherwise the resumed run uses exactly the data recomputed from the restored factors *)
Theorem resume_recomputed : forall s i, same_but_inv s (set_inv s i).
Proof. exact set_inv_same. Qed.

(* rolling back: loading a state with factors and compute_inverses into an ALREADY USED preconditioner gives exactly the state
   (and the actions) loading it into any other one gives - in particular a fresh one - whenever the batch counters agree (both at a
   step boundary): the old second-order data, factors, step count and intervals of the target leave no trace *)
Theorem load_forgets_the_target : forall cfg cks s s' ck c a g vf vi,
  nth_error cks ck = Some c -> k_factors c = Some (a, g) -> a <> FNone -> g <> FNone ->
  k_fus c = Some vf -> k_ius c = Some vi ->
  mini s = mini s' -> a_cnt s = a_cnt s' -> g_cnt s = g_cnt s' ->
  kstep cfg cks s (Load ck true) = kstep cfg cks s' (Load ck true).
Proof. exact load_forgets_the_target_l. Qed.

Example rollback_example :
  let cfg := {| c_hook := true; c_acc := 1; c_fus0 := HConst 1; c_ius0 := HConst 3 |} in
  let it := [Fwd true; Bwd true; Step] in
  let h := it ++ [Save true] ++ it ++ it in               (* save after step 1, train on to step 3 *)
  let '(s, acts) := krun cfg [] (init (HConst 1) (HConst 3)) h in
  let ck := saved_of (fst (krun cfg [] (init (HConst 1) (HConst 3)) it)) true in
  steps s = 3 /\
  kstep cfg [ck] s (Load 0 true) = kstep cfg [ck] (init (HConst 1) (HConst 3)) (Load 0 true) /\
  steps (fst (kstep cfg [ck] s (Load 0 true))) = 1.
Proof. vm_compute. repeat split. Qed.

Example checkpoint_example :
  let cfg := {| c_hook := true; c_acc := 1; c_fus0 := HConst 1; c_ius0 := HConst 1 |} in
  let it := [Fwd true; Bwd true; Step] in
  let '(s, _) := krun cfg [] (init (HConst 1) (HConst 2)) (it ++ it ++ it) in
  let s' := fst (kstep cfg [saved_of s true] (init (HConst 7) (HConst 7)) (Load 0 true)) in
  steps s' = 3 /\ fus s' = HConst 1 /\ fa s' = fa s /\
  inv s = Some {| s_a := FVer 0 [(0,1);(1,1);(2,1)]; s_g := FVer 0 [(0,1);(1,1);(2,1)]; s_step := 2 |} /\
  inv s' = Some {| s_a := FVer 0 [(0,1);(1,1);(2,1)]; s_g := FVer 0 [(0,1);(1,1);(2,1)]; s_step := 3 |}.
Proof. vm_compute. repeat split. Qed.

(* what a load communicates (Model/KfacComm.v, event CInvLoad; tied to the code by C03's exact-log comparison):
   rank r issues only broadcasts, only on the gradient-worker column of a layer it is a gradient worker of, rooted at
   that layer's inverse worker of A or G; nothing at all when no inverses are broadcast (k = 1), and a save or a load
   without factors / without compute_inverses issues nothing *)
Theorem load_comm_guarded : forall c cap ls r bs i,
  In i (snd (cstep c cap ls (Some r) bs CInvLoad)) ->
  ikind i = 2 /\ exists l, In l ls /\ is_gw c r l = true /\ igrp i = g_col c (pcol c l) /\
                          (iroot i = S (wa l) \/ iroot i = S (wg l)).
Proof.
  intros c cap ls r bs i. cbn [cstep snd]. unfold inv_rank. destruct (bcast_inv c); [|intros []].
  intros Hi. apply in_flat_map in Hi as (l & Hl & Hi). destruct (is_gw c r l) eqn:Eg; [|destruct Hi].
  unfold inv_layer in Hi. apply in_map_iff in Hi as ((n & root) & <- & Hm). cbn [fst snd bc ikind igrp iroot].
  split; [reflexivity|]. exists l. repeat split; try assumption.
  unfold inv_msgs in Hm. destruct (pmeth c); cbn in Hm; intuition (try congruence); match goal with H : (_, _) = (_, _) |- _ => inversion H; subst; auto end.
Qed.

Theorem load_comm_none_mem_opt : forall c cap ls r bs, pk c = 1 -> snd (cstep c cap ls (Some r) bs CInvLoad) = [].
Proof. intros c cap ls r bs Hk. cbn [cstep snd]. unfold inv_rank, bcast_inv. rewrite Hk. reflexivity. Qed.

Theorem save_and_plain_load_are_silent : forall hook incl ck acts,
  cev_of hook (Save incl) acts = [] /\ (has_inv acts = false -> cev_of hook (Load ck false) acts = []).
Proof. intros. split; [reflexivity|]. intros H. cbn [cev_of]. now rewrite H. Qed.

Print Assumptions save_is_read_only.
Print Assumptions save_load_restores.
Print Assumptions load_forgets_the_target.
Print Assumptions resume_equivalent_same_data.
Print Assumptions resume_equivalent_next_refresh.
Print Assumptions resume_recomputed.
Print Assumptions resume_equivalent_over_any_history.
Print Assumptions load_comm_guarded.
Print Assumptions load_comm_none_mem_opt.
Print Assumptions save_and_plain_load_are_silent.
