(* C02 — Distributed work placement is semantically transparent.
   Lock-step data-level model (Model/Sys.v), abstract data values.  Statements only. *)
From Coq Require Import List Arith Bool Lia.
Import ListNotations.
From KV Require Import Model.Sys Proofs.SysP Proofs.SysKaisaP.
From Coq Require Import Reals FunctionalExtensionality.
From KV Require Import Model.Mat Model.Factor Proofs.MatP Proofs.FactorP.

(* For every data interpretation in which allreduce-averaging the per-rank
   running-average updates equals updating with the rank mean (proved for real
   matrices: C04 rank_mean), every world size, every well-formed assignment
   (any strategy, co-location, cost heuristic: they only change the assignment;
   KAISA assignments are well-formed: C06), and every state whose factors are
   replicated: after one iteration the factors are again replicated and equal
   those of single-process K-FAC on the union batch, and every rank holds the
   single-process preconditioned gradient. *)
Theorem multi_equals_single :
  forall (D : Type) (ema : D -> D -> D) (avg : list D -> D) (inv : D -> D) (pre : D -> D -> D -> D),
  (forall P (Ms : list D), Ms <> [] -> avg (map (ema P) Ms) = ema P (avg Ms)) ->
  forall W (a : asg) (st : nat -> rstate D) mA mG g FA FG,
  0 < W -> wf_asg W a ->
  (forall r, r < W -> fA D (st r) = FA) -> (forall r, r < W -> fG D (st r) = FG) ->
  let st' := iter_state D ema avg inv W a st mA mG in
  (forall r, r < W -> fA D (st' r) = single_fA D ema avg W FA mA /\ fG D (st' r) = single_fA D ema avg W FG mG) /\
  (forall r, r < W -> final_grad D pre W a st' g r = Some (single_grad D ema avg inv pre W FA FG mA mG g)).
Proof. exact iteration_transparent_l. Qed.

(* corollaries: all ranks agree, and the result does not depend on the assignment *)
Theorem ranks_agree_placement_irrelevant :
  forall (D : Type) (ema : D -> D -> D) (avg : list D -> D) (inv : D -> D) (pre : D -> D -> D -> D),
  (forall P (Ms : list D), Ms <> [] -> avg (map (ema P) Ms) = ema P (avg Ms)) ->
  forall W (a a' : asg) (st : nat -> rstate D) mA mG g FA FG,
  0 < W -> wf_asg W a -> wf_asg W a' ->
  (forall r, r < W -> fA D (st r) = FA) -> (forall r, r < W -> fG D (st r) = FG) ->
  forall r r', r < W -> r' < W ->
    final_grad D pre W a (iter_state D ema avg inv W a st mA mG) g r
    = final_grad D pre W a' (iter_state D ema avg inv W a' st mA mG) g r'.
Proof.
  intros D ema avg inv pre Hrm W a a' st mA mG g FA FG HW Hwf Hwf' HA HG r r' Hr Hr'.
  destruct (iteration_transparent_l D ema avg inv pre Hrm W a st mA mG g FA FG HW Hwf HA HG) as [_ H1].
  destruct (iteration_transparent_l D ema avg inv pre Hrm W a' st mA mG g FA FG HW Hwf' HA HG) as [_ H2].
  cbv zeta in H1, H2. rewrite (H1 r Hr), (H2 r' Hr'). reflexivity.
Qed.

(* every KAISA grid (W = k * p, any p, k > 0: COMM-OPT k = W, HYBRID 1 < k < W, MEM-OPT k = 1) with the layer's inverse
   workers in one column (C06: inv_workers_in_one_column, src_is_worker_in_my_row, broadcast_flags) gives a
   well-formed assignment; hence the transparency theorem applies to every strategy the constructor can produce *)
Theorem kaisa_is_wf : forall p k c wa wg, 0 < p -> 0 < k -> c < p ->
  wa < k * p -> wg < k * p -> wa mod p = c -> wg mod p = c ->
  wf_asg (k * p) (kaisa_asg p k c wa wg).
Proof. exact kaisa_asg_wf_l. Qed.

Theorem kaisa_transparent :
  forall (D : Type) (ema : D -> D -> D) (avg : list D -> D) (inv : D -> D) (pre : D -> D -> D -> D),
  (forall P (Ms : list D), Ms <> [] -> avg (map (ema P) Ms) = ema P (avg Ms)) ->
  forall p k c wa wg (st : nat -> rstate D) mA mG g FA FG,
  0 < p -> 0 < k -> c < p -> wa < k * p -> wg < k * p -> wa mod p = c -> wg mod p = c ->
  (forall r, r < k * p -> fA D (st r) = FA) -> (forall r, r < k * p -> fG D (st r) = FG) ->
  forall r, r < k * p ->
    final_grad D pre (k * p) (kaisa_asg p k c wa wg)
               (iter_state D ema avg inv (k * p) (kaisa_asg p k c wa wg) st mA mG) g r
    = Some (single_grad D ema avg inv pre (k * p) FA FG mA mG g).
Proof.
  intros D ema avg inv pre Hrm p k c wa wg st mA mG g FA FG Hp Hk Hc Ha Hg Ea Eg HA HG r Hr.
  assert (HW : 0 < k * p) by nia.
  destruct (iteration_transparent_l D ema avg inv pre Hrm (k * p) _ st mA mG g FA FG HW
              (kaisa_asg_wf_l p k c wa wg Hp Hk Hc Ha Hg Ea Eg) HA HG) as [_ H].
  exact (H r Hr).
Qed.

(* the data interpretation K-FAC actually uses - real matrices, running average ema_alpha, allreduce = rank average -
   satisfies the premise (C04 rank_mean, made a Leibniz equality by functional extensionality): the transparency
   theorem holds for real-matrix factors on every KAISA grid, for any inverse / preconditioning maps *)
Theorem kaisa_transparent_real_matrices :
  forall (alpha : R) (inv : @mat R -> @mat R) (pre : @mat R -> @mat R -> @mat R -> @mat R)
         p k c wa wg (st : nat -> rstate (@mat R)) mA mG g FA FG,
  0 < p -> 0 < k -> c < p -> wa < k * p -> wg < k * p -> wa mod p = c -> wg mod p = c ->
  (forall r, r < k * p -> fA _ (st r) = FA) -> (forall r, r < k * p -> fG _ (st r) = FG) ->
  forall r, r < k * p ->
    final_grad _ pre (k * p) (kaisa_asg p k c wa wg)
               (iter_state _ (emaR alpha) (rank_avg ops_R) inv (k * p) (kaisa_asg p k c wa wg) st mA mG) g r
    = Some (single_grad _ (emaR alpha) (rank_avg ops_R) inv pre (k * p) FA FG mA mG g).
Proof.
  intros alpha inv pre. apply kaisa_transparent.
  intros P Ms Hne. apply functional_extensionality. intros i. apply functional_extensionality. intros j.
  now apply rank_mean_l.
Qed.

(* non-vacuity: a HYBRID-like assignment on 4 ranks (columns {0,2},{1,3}; layer in column 1) is well-formed *)
Example hybrid_asg_wf :
  wf_asg 4 {| a_wa := 1; a_wg := 3; a_gw := fun r => Nat.eqb (r mod 2) 1;
              a_src := fun r => 1 + (r / 2) * 2; a_binv := true; a_bgrad := true |}.
Proof.
  unfold wf_asg. simpl.
  split; [lia|]. split; [lia|]. split; [reflexivity|]. split; [reflexivity|].
  split; [|split; discriminate].
  intros r Hr. destruct r as [|[|[|[|r]]]]; simpl; try (split; [lia|reflexivity]). lia.
Qed.

Print Assumptions multi_equals_single.
Print Assumptions ranks_agree_placement_irrelevant.
Print Assumptions kaisa_is_wf.
Print Assumptions kaisa_transparent.
Print Assumptions kaisa_transparent_real_matrices.
