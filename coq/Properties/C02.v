(* C02 — Distributed work placement is semantically transparent.
   Lock-step data-level model (Model/Sys.v), abstract data values.  Statements only. *)
From Coq Require Import List Arith Bool Lia.
Import ListNotations.
From KV Require Import Model.Sys Proofs.SysP.

(* For every data interpretation in which allreduce-averaging the per-rank
   running-average updates equals updating with the rank mean (proved for real
   matrices: C04 rank_mean), every world size, every well-formed assignment
   (any strategy, co-location, cost heuristic: they only change the assignment;
   KAISA assignments are well-formed: C06), and every state whose factors are
   replicated: after one iteration the factors are again replicated and equal
   those of single-process K-FAC on the union batch, and every rank holds the
   single-process preconditioned gradient. *)
Theorem multi_equals_single :
  forall (D : Type) (ema : D -> D -> D) (avg : list D -> D) (inv : D -> D) (pre : D -> D -> D -> D),
  (forall P (Ms : list D), Ms <> [] -> avg (map (ema P) Ms) = ema P (avg Ms)) ->
  forall W (a : asg) (st : nat -> rstate D) mA mG g FA FG,
  0 < W -> wf_asg W a ->
  (forall r, r < W -> fA D (st r) = FA) -> (forall r, r < W -> fG D (st r) = FG) ->
  let st' := iter_state D ema avg inv W a st mA mG in
  (forall r, r < W -> fA D (st' r) = single_fA D ema avg W FA mA /\ fG D (st' r) = single_fA D ema avg W FG mG) /\
  (forall r, r < W -> final_grad D pre W a st' g r = Some (single_grad D ema avg inv pre W FA FG mA mG g)).
Proof. exact iteration_transparent_l. Qed.

(* corollaries: all ranks agree, and the result does not depend on the assignment *)
Theorem ranks_agree_placement_irrelevant :
  forall (D : Type) (ema : D -> D -> D) (avg : list D -> D) (inv : D -> D) (pre : D -> D -> D -> D),
  (forall P (Ms : list D), Ms <> [] -> avg (map (ema P) Ms) = ema P (avg Ms)) ->
  forall W (a a' : asg) (st : nat -> rstate D) mA mG g FA FG,
  0 < W -> wf_asg W a -> wf_asg W a' ->
  (forall r, r < W -> fA D (st r) = FA) -> (forall r, r < W -> fG D (st r) = FG) ->
  forall r r', r < W -> r' < W ->
    final_grad D pre W a (iter_state D ema avg inv W a st mA mG) g r
    = final_grad D pre W a' (iter_state D ema avg inv W a' st mA mG) g r'.
Proof.
  intros D ema avg inv pre Hrm W a a' st mA mG g FA FG HW Hwf Hwf' HA HG r r' Hr Hr'.
  destruct (iteration_transparent_l D ema avg inv pre Hrm W a st mA mG g FA FG HW Hwf HA HG) as [_ H1].
  destruct (iteration_transparent_l D ema avg inv pre Hrm W a' st mA mG g FA FG HW Hwf' HA HG) as [_ H2].
  cbv zeta in H1, H2. rewrite (H1 r Hr), (H2 r' Hr'). reflexivity.
Qed.

(* non-vacuity: a HYBRID-like assignment on 4 ranks (columns {0,2},{1,3}; layer in column 1) is well-formed *)
Example hybrid_asg_wf :
  wf_asg 4 {| a_wa := 1; a_wg := 3; a_gw := fun r => Nat.eqb (r mod 2) 1;
              a_src := fun r => 1 + (r / 2) * 2; a_binv := true; a_bgrad := true |}.
Proof.
  unfold wf_asg. simpl.
  split; [lia|]. split; [lia|]. split; [reflexivity|]. split; [reflexivity|].
  split; [|split; discriminate].
  intros r Hr. destruct r as [|[|[|[|r]]]]; simpl; try (split; [lia|reflexivity]). lia.
Qed.

Print Assumptions multi_equals_single.
Print Assumptions ranks_agree_placement_irrelevant.
