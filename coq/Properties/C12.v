(* C12 — GPT-NeoX assignment is consistent across the 3-D topology.
   rank = (p * D + d) * M + m for pipe x data x model sizes P x D x M.
   Statements only. *)
From Coq Require Import List Arith ZArith Bool.
Import ListNotations.
From KV Require Import Model.Greedy Model.Neox Proofs.GreedyP Proofs.NeoxP.
From KV Require Proofs.NeoxFunP.

Theorem coord_bij : forall D M, 0 < D -> 0 < M ->
  (forall r, rank_of D M (c_pipe D M r) (c_data D M r) (c_model M r) = r /\
             c_data D M r < D /\ c_model M r < M) /\
  (forall p d m, d < D -> m < M ->
     c_pipe D M (rank_of D M p d m) = p /\ c_data D M (rank_of D M p d m) = d /\
     c_model M (rank_of D M p d m) = m) /\
  (forall P r, r < P * D * M -> c_pipe D M r < P) /\
  (forall P p d m, p < P -> d < D -> m < M -> rank_of D M p d m < P * D * M).
Proof.
  intros D M HD HM. split; [intro r; split; [now apply coords_rank|now apply coords_bounds]|].
  split; [intros; now apply rank_coords|]. split; [intros; now apply pipe_bound|intros; now apply rank_bound].
Qed.

(* the three groups of a rank, by coordinates *)
Theorem groups_by_coordinates : forall D M, 0 < D -> 0 < M -> forall r x,
  (In x (dp_group D M r) <-> c_pipe D M x = c_pipe D M r /\ c_model M x = c_model M r) /\
  (In x (mp_group D M r) <-> c_pipe D M x = c_pipe D M r /\ c_data D M x = c_data D M r) /\
  (In x (stage_peers D M r) <-> c_pipe D M x = c_pipe D M r).
Proof. intros D M HD HM r x. split; [now apply dp_In_coords|split; [now apply mp_In_coords|now apply peers_In]]. Qed.

(* every accepted assignment (any tie-break) puts all factors of a layer on one
   rank of the stage, chosen by the least-loaded rule in non-increasing cost
   order, with the C17 balance bound *)
Theorem stage_agrees : forall peers names work a, neox_ok_b peers names work a = true ->
  (exists L', LayersPlaced [peers] (lookup2 a) true (fun _ => 0%Z) (neox_processing names work) L') /\
  DescL (neox_processing names work) /\
  forall i fs, nth_error work i = Some fs -> fs <> [] ->
    exists w, In w peers /\ forall f c, In (f, c) fs -> lookup2 a i f = Some w.
Proof. exact neox_stage_l. Qed.

(* the deterministic stage greedy (first least-loaded peer - what the correspondence compares the code with) IS
   accepted by the checker for every duplicate-free non-empty peer list and all layers with distinct factor names,
   so stage_agrees and stage_balance hold for it on every input *)
Theorem neox_greedy_in_relation : forall peers names work,
  NoDup peers -> peers <> [] -> (forall fs, In fs work -> fs <> [] /\ NoDup (map fst fs)) ->
  neox_ok_b peers names work (neox_greedy peers names work) = true.
Proof. exact NeoxFunP.neox_accepts_l. Qed.

Theorem stage_balance : forall peers names work a Mx L', NoDup peers ->
  (forall fs, In fs work -> item_bound true fs Mx) -> (0 <= Mx)%Z ->
  loads_all true (fun _ => 0%Z) [peers] (neox_processing names work) a = Some L' ->
  forall w1 w2, In w1 peers -> In w2 peers -> (L' w1 - L' w2 <= Mx)%Z.
Proof. exact neox_balance_l. Qed.

(* factor-gathering rank: the unique rank in my model-parallel group and in the
   inverse worker's data-parallel group (inverse worker in my stage) *)
Theorem factor_worker_spec : forall D M, 0 < D -> 0 < M -> forall r inv,
  c_pipe D M inv = c_pipe D M r ->
  let fw := factor_worker D M r inv in
  In fw (mp_group D M r) /\ In fw (dp_group D M inv) /\
  (forall x, In x (mp_group D M r) -> In x (dp_group D M inv) -> x = fw).
Proof. exact factor_worker_spec_l. Qed.

(* gradient source: in my data-parallel group, holding my model-parallel shard,
   among the inverse worker's model-parallel peers; unique *)
Theorem src_spec : forall D M, 0 < D -> 0 < M -> forall r inv,
  c_pipe D M inv = c_pipe D M r ->
  let s := src_grad_worker D M r inv in
  In s (dp_group D M r) /\ In s (mp_group D M inv) /\ c_model M s = c_model M r /\
  (forall x, In x (dp_group D M r) -> In x (mp_group D M inv) -> x = s).
Proof. exact src_spec_l. Qed.

Theorem grad_workers_spec : forall D M, 0 < D -> 0 < M -> forall r inv,
  is_grad_worker D M r inv = true <-> In r (mp_group D M inv).
Proof. exact grad_workers_spec_l. Qed.

(* which group serves as stage-peer group depends only on (D, M), so every
   rank takes the same branch, and (after the repair of D5) every rank issues
   the same sequence of new_group calls *)
Theorem peer_group_reuse : forall D M, 0 < D -> 0 < M -> forall r,
  peer_group_kind D M r = if Nat.eqb D 1 then ReuseModel else if Nat.eqb M 1 then ReuseData else NewGroup.
Proof. exact peer_group_kind_spec. Qed.

Theorem new_group_same_order : forall D M, 0 < D -> 0 < M -> forall P r r',
  newgroup_trace P D M r = newgroup_trace P D M r'.
Proof. exact newgroup_same_order_l. Qed.

(* the code before the repair (each stage creates only its own group) *)
Theorem new_group_order_old_refuted : newgroup_trace_old 2 2 0 <> newgroup_trace_old 2 2 4.
Proof. exact newgroup_order_old_refuted. Qed.

Example neox_2x2x2 :
  dp_group 2 2 5 = [5; 7] /\ mp_group 2 2 5 = [4; 5] /\ stage_peers 2 2 5 = [4; 5; 6; 7] /\
  factor_worker 2 2 5 6 = 4 /\ src_grad_worker 2 2 5 6 = 7 /\ is_grad_worker 2 2 5 6 = false /\
  neox_greedy [4;5;6;7] [0;1;2] [[(0, 5%Z); (1, 5%Z)]; [(0, 7%Z); (1, 3%Z)]; [(0, 1%Z)]]
    = [(1, [(0, 4); (1, 4)]); (0, [(0, 5); (1, 5)]); (2, [(0, 6)])].
Proof. repeat split; reflexivity. Qed.

Print Assumptions neox_greedy_in_relation.
Print Assumptions coord_bij.
Print Assumptions groups_by_coordinates.
Print Assumptions stage_agrees.
Print Assumptions stage_balance.
Print Assumptions factor_worker_spec.
Print Assumptions src_spec.
Print Assumptions grad_workers_spec.
Print Assumptions peer_group_reuse.
Print Assumptions new_group_same_order.
Print Assumptions new_group_order_old_refuted.
