(* C08 — Bucketed allreduce is equivalent to per-tensor allreduce.  Statements only. *)
From Coq Require Import List Arith ZArith Bool Lia.
Import ListNotations.
From KV Require Import Model.Bucket Proofs.BucketP Proofs.BucketOrderP.

(* every tensor added (on a group of more than one rank) is, at any time, either
   pending in an open bucket or part of an emitted fused allreduce — with
   multiplicity: exactly once *)
Theorem each_tensor_once : forall cap ops x,
  cnt (pending (fst (brun cap [] ops)) ++ concat (snd (brun cap [] ops))) x
  = cnt (flat_map added ops) x.
Proof.
  intros cap ops x. destruct (brun_conserve cap ops [] ltac:(constructor)) as [_ H]. exact (H x).
Qed.

(* after a flush nothing is pending and no bucket is open; hence (with the
   theorem above) every added tensor has been communicated exactly once *)
Theorem flush_leaves_nothing : forall cap s,
  pending (fst (bstep cap s Flush)) = [] /\ forall k, getb (fst (bstep cap s Flush)) k = None.
Proof. exact flush_leaves_nothing_l. Qed.

(* every fused allreduce: non-empty, all its tensors were added for ONE group
   key, homogeneous dtype, and within the capacity unless it is a single tensor *)
Theorem capacity_and_keys_respected : forall cap ops b,
  In b (snd (brun cap [] ops)) ->
  b <> [] /\ exists k,
    (forall it, In it b -> i_key it = k) /\
    (bsize b <= cap \/ length b <= 1) /\
    (forall x y, In x b -> In y b -> i_dtype x = i_dtype y).
Proof.
  intros cap ops b Hin.
  destruct (brun_ok cap ops [] ltac:(constructor) ltac:(intros k b0 H; discriminate)) as [_ H].
  exact (H b Hin).
Qed.

(* value equivalence: if every member of the group contributes, for every
   tensor of a fused instance, a flat value of the advertised length, then the
   slice [offset, offset + numel) of the reduced fused buffer equals the
   unbucketed reduction of that tensor (any values) *)
Theorem bucket_transparent : forall ranks (vals : nat -> nat -> list Z) b,
  (forall r it, In r ranks -> In it b -> length (vals r (i_tid it)) = i_numel it) ->
  forall pre it post, b = pre ++ it :: post ->
    In (i_tid it, total_numel pre, i_numel it) (offsets b 0) /\
    bucketed_value ranks vals b (total_numel pre) (i_numel it)
    = unbucketed_value ranks vals (i_tid it) (i_numel it).
Proof.
  intros ranks vals b H pre it post E. split.
  - exact (offsets_spec b 0 pre it post E).
  - exact (bucket_transparent_l ranks vals b H pre it post E).
Qed.

Example two_groups_capacity :
  let it k t n := {| i_key := k; i_tid := t; i_numel := n; i_esize := 4; i_dtype := 0 |} in
  snd (brun 20 [] [Add 2 (it 7 0 3); Add 2 (it 9 1 2); Add 2 (it 7 2 2); Add 2 (it 7 3 4); Add 1 (it 5 4 9); Flush])
  = [[it 7 0 3; it 7 2 2]; [it 7 3 4]; [it 9 1 2]].
Proof. reflexivity. Qed.

Print Assumptions each_tensor_once.
Print Assumptions flush_leaves_nothing.
Print Assumptions capacity_and_keys_respected.
Print Assumptions bucket_transparent.

(* a capacity that exceeds the bytes of everything ever added behaves like any other such capacity:
   the run depends on the capacity only through comparisons with partial sums of what was added *)
Theorem brun_cap_irrelevant : forall cap cap2 ops,
  ops_bytes ops <= cap -> ops_bytes ops <= cap2 -> brun cap [] ops = brun cap2 [] ops.
Proof.
  intros cap cap2 ops H1 H2. apply (brun_cap_irrelevant_l cap cap2 ops [] 0); [intros k; cbn; lia|lia|lia].
Qed.
Print Assumptions brun_cap_irrelevant.

(* per-group FIFO: for every group key, the tensors of that key in the fused instances emitted so far
   (in emission order, in bucket order inside an instance), followed by the open bucket of that key,
   are exactly the tensors added for that key, in the order they were added - so the i-th future
   handed out for a group is resolved from the i-th tensor's slice, over any history and capacity *)
Theorem per_group_fifo : forall cap ops k,
  fk k (concat (snd (brun cap [] ops))) ++ cur (fst (brun cap [] ops)) k = fk k (flat_map added ops).
Proof.
  intros cap ops k.
  exact (brun_fifo cap ops k [] ltac:(constructor) ltac:(intros k0 b0 H; discriminate)).
Qed.
Print Assumptions per_group_fifo.
