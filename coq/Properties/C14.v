(* C14 — Triangular packing of symmetric matrices is lossless.
   This file contains only statements; every proof is `exact <lemma>`. *)
From Coq Require Import List Arith.
Import ListNotations.
From KV Require Import Model.Triu Proofs.TriuP.

(* for every n, every element type, every symmetric M: unpack (pack M) = M *)
Theorem triu_roundtrip : forall (A : Type) (d : A) (n : nat) (M : nat -> nat -> A),
  symmetric_on n M ->
  forall i j, i < n -> j < n -> fill_triu d n (get_triu n M) i j = M i j.
Proof. exact @triu_roundtrip_l. Qed.

Theorem triu_nodup_complete : forall n,
  NoDup (triu_idx n) /\
  (forall a b, a <= b -> b < n -> In (a, b) (triu_idx n)) /\
  (forall p, In p (triu_idx n) -> fst p <= snd p /\ snd p < n).
Proof. intro n. exact (conj (triu_nodup n) (conj (triu_complete n) (triu_sound n))). Qed.

Theorem triu_len : forall n, length (triu_idx n) = n * (n + 1) / 2.
Proof. exact TriuP.triu_len. Qed.

Theorem fill_symmetric : forall (A : Type) (d : A) n (v : list A) i j,
  fill_triu d n v i j = fill_triu d n v j i.
Proof. exact @fill_symmetric_l. Qed.

Theorem get_fill : forall (A : Type) (d : A) n (v : list A),
  length v = length (triu_idx n) -> get_triu n (fill_triu d n v) = v.
Proof. exact @get_fill_l. Qed.

(* symmetric allreduce / broadcast = dense allreduce / broadcast, for any
   elementwise combination of the members' contributions *)
Theorem symmetric_comm_equals_dense :
  forall (A : Type) (d : A) (ranks : list nat) (combine : list A -> A) n
         (Ms : nat -> nat -> nat -> A),
  (forall r, In r ranks -> symmetric_on n (Ms r)) ->
  forall i j, i < n -> j < n ->
    fill_triu d n (packed_comm d ranks combine n Ms) i j = dense_comm ranks combine n Ms i j.
Proof. exact @symmetric_comm_equals_dense_l. Qed.

(* tensors that are not 2-D square are rejected and nothing is communicated *)
Theorem nonsquare_rejected_first : forall gsize shape,
  gsize <> 1 -> (forall n, shape <> [n; n]) ->
  sym_comm_outcome gsize true shape = RaiseNonSquare.
Proof.
  intros gsize shape Hg Hs. apply nonsquare_rejected_first_l; [exact Hg|].
  destruct (is_square2d shape) eqn:E; [|reflexivity].
  apply is_square2d_spec in E as [n ->]. now destruct (Hs n).
Qed.

Theorem square_sends_triangle : forall gsize n,
  gsize <> 1 -> sym_comm_outcome gsize true [n; n] = Communicate (n * (n + 1) / 2).
Proof. exact square_sends_triangle_l. Qed.

(* non-vacuity: a concrete symmetric 3x3 matrix round-trips *)
Example roundtrip_3 :
  let M := fun i j => 10 * Nat.min i j + Nat.max i j in
  symmetric_on 3 M /\ get_triu 3 M = [0; 1; 2; 11; 12; 22] /\
  map (fun i => map (fill_triu 0 3 (get_triu 3 M) i) [0;1;2]) [0;1;2]
    = [[0;1;2];[1;11;12];[2;12;22]].
Proof.
  split; [|split; reflexivity].
  intros i j _ _. now rewrite Nat.min_comm, Nat.max_comm.
Qed.

Print Assumptions triu_roundtrip.
Print Assumptions triu_nodup_complete.
Print Assumptions triu_len.
Print Assumptions fill_symmetric.
Print Assumptions get_fill.
Print Assumptions symmetric_comm_equals_dense.
Print Assumptions nonsquare_rejected_first.
Print Assumptions square_sends_triangle.
