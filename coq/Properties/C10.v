(* C10 — A step touches nothing but the gradients of registered layers.
   Frame lemmas over the explicit write-set of the model.  Statements only.
   (The strength of this property comes from the correspondence, which
   snapshots everything; "finite in => finite out" is monitored, not proved.) *)
From Coq Require Import List Arith Bool.
Import ListNotations.
From KV Require Import Model.Frame Proofs.FrameP Model.Kfac Proofs.KfacP.

(* no parameter value, no buffer and no gradient outside the registered layers changes *)
Theorem step_frame : forall newval idt E,
  fbuffers (step_env newval idt E) = fbuffers E /\
  length (fparams (step_env newval idt E)) = length (fparams E) /\
  forall i e, nth_error (fparams E) i = Some e ->
    exists e', nth_error (fparams (step_env newval idt E)) i = Some e' /\
      e_value e' = e_value e /\ e_layer e' = e_layer e /\ e_bias e' = e_bias e /\
      (touched e = false -> e' = e).
Proof. exact step_frame_l. Qed.

(* every registered gradient keeps shape, dtype tag and device tag and is contiguous,
   for every combination of gradient / inverse dtype *)
Theorem meta_preserved : forall newval idt e l g m, e_layer e = Some l -> e_grad e = Some (g, m) ->
  exists g' m', e_grad (write_grad newval idt e) = Some (g', m') /\
    g' = newval l (e_bias e) /\ t_shape m' = t_shape m /\ t_dtype m' = t_dtype m /\
    t_device m' = t_device m /\ t_contig m' = true.
Proof. exact meta_preserved_l. Qed.

(* eval-mode passes leave the whole K-FAC state unchanged (reference machine of C05) *)
Theorem eval_inert : forall cfg cks s,
  kstep cfg cks s (Fwd false) = (s, []) /\ kstep cfg cks s (Bwd false) = (s, []).
Proof. exact eval_inert_l. Qed.

Example frame_example :
  let m := {| t_shape := [2; 3]; t_dtype := 0; t_device := 0; t_contig := true |} in
  let E := {| fparams := [ {| e_layer := Some 0; e_bias := false; e_value := 1; e_grad := Some (10, m) |};
                          {| e_layer := None; e_bias := false; e_value := 2; e_grad := Some (11, m) |};
                          {| e_layer := Some 1; e_bias := true; e_value := 3; e_grad := None |} ];
              fbuffers := [7; 8] |} in
  map touched (fparams E) = [true; false; false] /\
  map e_grad (fparams (step_env (fun l b => 100 + l) 1 E)) = [Some (100, m); Some (11, m); None].
Proof. split; reflexivity. Qed.

Print Assumptions step_frame.
Print Assumptions meta_preserved.
Print Assumptions eval_inert.
