(* C17 — Greedy work assignment is complete, group-confined, balanced and
   deterministic.  Every theorem is stated for EVERY assignment `a` accepted by
   the verified checker greedy_ok_b (the rule with free tie-breaks), hence for
   the function `greedy` that mirrors today's code and for any tie-break
   variant of it.  Statements only; proofs are in Proofs/GreedyP.v. *)
From Coq Require Import List Arith ZArith Bool Permutation.
Import ListNotations.
From KV Require Import Model.Greedy Proofs.GreedyP Proofs.GreedyFunP Proofs.GreedyScaleP.
Local Open Scope Z_scope.

(* the checker is sound for the rule: layers in non-increasing total cost,
   each on a least-loaded group; inside it factors in non-increasing cost, each
   on a least-loaded worker; loads updated accordingly *)
Theorem greedy_rule : forall work groups colocate a,
  greedy_ok_b work groups colocate a = true ->
  (exists L', LayersPlaced groups (lookup2 a) colocate (fun _ => 0) (processing work) L') /\
  DescL (processing work) /\ Permutation (index_from 0 work) (processing work) /\
  (forall fs, DescF (sort_factors fs) /\ Permutation fs (sort_factors fs)).
Proof. exact greedy_rule_l. Qed.

(* every factor of every layer has a rank, all ranks of a layer lie in ONE group *)
Theorem greedy_complete_confined : forall work groups colocate a,
  greedy_ok_b work groups colocate a = true ->
  forall i fs, nth_error work i = Some fs -> fs <> [] ->
  exists g, In g groups /\
    forall f c, In (f, c) fs -> exists w, lookup2 a i f = Some w /\ In w g.
Proof. exact greedy_complete_confined_l. Qed.

(* with colocate_factors all factors of a layer share one worker *)
Theorem greedy_colocated : forall work groups a,
  greedy_ok_b work groups true a = true ->
  forall i fs, nth_error work i = Some fs ->
  forall f c f' c', In (f, c) fs -> In (f', c') fs -> lookup2 a i f = lookup2 a i f'.
Proof. exact greedy_colocated_l. Qed.

(* worker loads inside every group differ by at most the largest single item *)
Theorem balance_workers : forall work groups colocate a M L',
  wf_groups groups ->
  (forall fs, In fs work -> item_bound colocate fs M) -> 0 <= M ->
  loads_all colocate (fun _ => 0) groups (processing work) a = Some L' ->
  forall g, In g groups -> forall w1 w2, In w1 g -> In w2 g -> L' w1 - L' w2 <= M.
Proof. exact balance_workers_l. Qed.

(* group loads differ by at most the largest layer total *)
Theorem balance_groups : forall work groups colocate a M L',
  wf_groups groups ->
  (forall fs, In fs work -> 0 <= sumcost fs <= M) -> 0 <= M ->
  loads_all colocate (fun _ => 0) groups (processing work) a = Some L' ->
  forall g1 g2, In g1 groups -> In g2 groups -> gload L' g1 - gload L' g2 <= M.
Proof. exact balance_groups_l. Qed.

(* Non-vacuity / the model is today's code: upstream's literal test cases. *)
Example upstream_colocate :
  let work := [[(0%nat, 1); (1%nat, 2)]; [(0%nat, 3); (1%nat, 4)]] in
  greedy work [[0;1;2;3]%nat] true = [(1, [(0, 0); (1, 0)]); (0, [(0, 1); (1, 1)])]%nat /\
  greedy_ok_b work [[0;1;2;3]%nat] true (greedy work [[0;1;2;3]%nat] true) = true.
Proof. split; vm_compute; reflexivity. Qed.

Example upstream_split :
  let work := [[(0%nat, 1); (1%nat, 2)]; [(0%nat, 3); (1%nat, 4)]] in
  greedy work [[0;1;2;3]%nat] false = [(1, [(1, 0); (0, 1)]); (0, [(1, 2); (0, 3)])]%nat /\
  greedy_ok_b work [[0;1;2;3]%nat] false (greedy work [[0;1;2;3]%nat] false) = true.
Proof. split; vm_compute; reflexivity. Qed.

(* a different (also least-loaded) tie-break is accepted; a non-minimal one is not *)
(* the deterministic function `greedy` (first-minimum tie-breaks; the function the correspondence
   compares KAISAAssignment.greedy_assignment with, output for output) IS accepted by the checker,
   for all pairwise-disjoint non-empty worker groups and all layers with at least one factor and
   distinct factor names: so every theorem above holds for its result, for all inputs *)
Theorem greedy_in_relation : forall work groups colocate,
  wf_groups groups -> groups <> [] -> (forall g, In g groups -> g <> []) ->
  (forall fs, In fs work -> fs <> [] /\ NoDup (map fst fs)) ->
  greedy_ok_b work groups colocate (greedy work groups colocate) = true.
Proof. exact greedy_accepts_l. Qed.

(* the rule only compares sums: multiplying every cost by one positive constant (e.g. costs measured in
   other units; the correspondence uses exact powers of two) leaves the assignment unchanged *)
Theorem greedy_scale_invariant : forall k work groups colocate, 0 < k ->
  greedy (scale_work k work) groups colocate = greedy work groups colocate.
Proof. intros k work groups colocate Hk. exact (greedy_scale_invariant_l k Hk work groups colocate). Qed.

Example other_tiebreak_accepted :
  greedy_ok_b [[(0%nat, 1)]; [(0%nat, 1)]] [[0;1]%nat; [2;3]%nat] true
              [(0, [(0, 3)]); (1, [(0, 1)])]%nat = true /\
  greedy_ok_b [[(0%nat, 1)]; [(0%nat, 1)]] [[0;1]%nat; [2;3]%nat] true
              [(0, [(0, 3)]); (1, [(0, 2)])]%nat = false.
Proof. split; vm_compute; reflexivity. Qed.

Print Assumptions greedy_rule.
Print Assumptions greedy_complete_confined.
Print Assumptions greedy_colocated.
Print Assumptions balance_workers.
Print Assumptions balance_groups.
Print Assumptions greedy_in_relation.
Print Assumptions greedy_scale_invariant.
