(* C04 — Kronecker factors are decayed running averages of batch second moments.
   Over the reals.  Statements only. *)
From Coq Require Import List Arith Bool Reals Lra.
Import ListNotations.
From KV Require Import Model.Mat Model.Conv Model.Factor Proofs.MatP Proofs.FactorP.
Local Open Scope R_scope.

(* the batch second moment is symmetric and positive semi-definite *)
Theorem moment_sym_psd : forall rows k (X : @mat R),
  (forall i j, momentR rows k X i j = momentR rows k X j i) /\
  ((0 < rows)%nat -> forall v, 0 <= qform k (momentR rows k X) v).
Proof. intros. split; [intros; apply moment_sym_l|intros; now apply moment_psd_l]. Qed.

(* F_t = (prod alpha_i) * I + sum_i (1 - alpha_i) (prod_{j>i} alpha_j) * M_i : the first previous is the identity *)
Theorem factor_closed_form : forall ups i j,
  run_ema midR ups i j = prod_alpha ups * midR i j + weighted ups i j.
Proof. exact factor_closed_form_l. Qed.

Theorem update_is_ema : forall alpha (P M : @mat R) i j,
  emaR alpha P M i j = alpha * P i j + (1 - alpha) * M i j.
Proof. reflexivity. Qed.

(* every reachable factor is symmetric positive semi-definite (decay in (0, 1]) *)
Theorem factor_sym_psd : forall k ups,
  (forall a M, In (a, M) ups -> 0 < a <= 1 /\ msym k M /\ mpsd k M) ->
  msym k (run_ema midR ups) /\ mpsd k (run_ema midR ups).
Proof. exact reachable_sym_psd. Qed.

(* allreduce-averaging the per-rank updates = updating with the mean over ranks *)
Theorem rank_mean : forall alpha (P : @mat R) (Ms : list (@mat R)) i j, Ms <> [] ->
  rank_avg ops_R (map (fun M => emaR alpha P M) Ms) i j = emaR alpha P (rank_avg ops_R Ms) i j.
Proof. exact rank_mean_l. Qed.

(* the union of W equally sized per-rank batches has the mean of the per-rank moments *)
Theorem moment_union : forall W rows k (Xs : nat -> @mat R) i j, (0 < rows)%nat -> (0 < W)%nat ->
  momentR (W * rows) k (fun r f => Xs (r / rows)%nat (r mod rows)%nat f) i j
  = / INR W * sumR W (fun w => momentR rows k (Xs w) i j).
Proof. exact moment_union_l. Qed.

(* gradient scaler: G is computed from output gradients divided by the loss scale *)
Theorem unscale : forall rows k (X : @mat R) s i j, s <> 0 -> (0 < rows)%nat ->
  momentR rows k (fun r f => X r f / s) i j = momentR rows k X i j / (s * s).
Proof. exact unscale_l. Qed.

Example ema_identity_first : forall (M : @mat R), emaR (1/2) midR M 0%nat 0%nat = 1/2 + 1/2 * M 0%nat 0%nat.
Proof. intros M. unfold ema, madd, mscale, mid, mdiag. simpl. lra. Qed.

Print Assumptions moment_sym_psd.
Print Assumptions factor_closed_form.
Print Assumptions update_is_ema.
Print Assumptions factor_sym_psd.
Print Assumptions rank_mean.
Print Assumptions moment_union.
Print Assumptions unscale.
