(* C19 — Hyperparameter schedulers apply multiplicative factors deterministically.
   Statements only. *)
From Coq Require Import List Arith ZArith QArith Qminmax Bool.
Import ListNotations.
From KV Require Import Model.Sched Proofs.SchedP.

(* one scheduler step: every scheduled constant parameter becomes old * f(s)
   (truncated toward zero for the two intervals), where s is the explicit step
   if given, else the preconditioner's step count; every field depends only on
   its own function (no cross wiring); unscheduled and callable parameters are
   unchanged *)
Theorem sched_step_spec : forall l e steps p,
  let s := match e with Some x => x | None => steps end in
  let q := sched_step l e steps p in
  p_fus q = upd true (p_fus p) (l_fus l) s /\ p_ius q = upd true (p_ius p) (l_ius l) s /\
  p_damping q = upd false (p_damping p) (l_damping l) s /\ p_decay q = upd false (p_decay p) (l_decay l) s /\
  p_kl q = upd false (p_kl p) (l_kl l) s /\ p_lr q = upd false (p_lr p) (l_lr l) s /\
  (forall trunc v f, upd trunc (PConst v) (Some f) s = PConst (if trunc then qtrunc (v * f s) else Qred (v * f s))) /\
  (forall trunc p0, upd trunc p0 None s = p0) /\ (forall trunc f, upd trunc PFn f s = PFn).
Proof.
  intros l e steps p. cbv zeta. repeat split; try reflexivity.
  intros trunc f. apply upd_fn.
Qed.

(* any history of scheduler steps (with or without explicit steps) interleaved with
   preconditioner steps: every parameter is the left fold of its own factors, and
   the step count is changed only by preconditioner steps *)
Theorem sched_history_fold : forall l ops st,
  let final := fold_left (sstep l) ops st in
  p_fus (fst final) = fold_field true (l_fus l) (p_fus (fst st)) (snd st) ops /\
  p_ius (fst final) = fold_field true (l_ius l) (p_ius (fst st)) (snd st) ops /\
  p_damping (fst final) = fold_field false (l_damping l) (p_damping (fst st)) (snd st) ops /\
  p_decay (fst final) = fold_field false (l_decay l) (p_decay (fst st)) (snd st) ops /\
  p_kl (fst final) = fold_field false (l_kl l) (p_kl (fst st)) (snd st) ops /\
  p_lr (fst final) = fold_field false (l_lr l) (p_lr (fst st)) (snd st) ops /\
  snd final = (snd st + length (filter (fun o => match o with PrecondStep => true | _ => false end) ops))%nat.
Proof. exact fold_left_sstep. Qed.

Theorem ctor_refuses_callable : forall p l,
  ctor_ok p l = false <->
  (is_some (l_fus l) = true /\ p_fus p = PFn) \/ (is_some (l_ius l) = true /\ p_ius p = PFn) \/
  (is_some (l_damping l) = true /\ p_damping p = PFn) \/ (is_some (l_decay l) = true /\ p_decay p = PFn) \/
  (is_some (l_kl l) = true /\ p_kl p = PFn) \/ (is_some (l_lr l) = true /\ p_lr p = PFn).
Proof. exact ctor_refuses_callable_l. Qed.

(* exp_decay_factor_averaging over exact rationals *)
Theorem exp_decay_is_min : forall cap k v, (0 < cap)%Q -> exp_decay_q cap k = Some v ->
  (v == Qmin (1 - 1 / inject_Z (Z.of_nat (Nat.max k 1))) cap)%Q.
Proof. exact SchedP.exp_decay_is_min. Qed.

Theorem exp_decay_range : forall cap k v, (0 < cap)%Q -> exp_decay_q cap k = Some v -> (0 <= v <= cap)%Q.
Proof. exact exp_decay_range_l. Qed.

Theorem exp_decay_monotone : forall cap k v v', (0 < cap)%Q ->
  exp_decay_q cap k = Some v -> exp_decay_q cap (S k) = Some v' -> (v <= v')%Q.
Proof. exact exp_decay_monotone_l. Qed.

Theorem exp_decay_step0 : forall cap, (0 < cap)%Q ->
  exists v0 v1, exp_decay_q cap 0 = Some v0 /\ exp_decay_q cap 1 = Some v1 /\ (v0 == 0)%Q /\ (v1 == 0)%Q.
Proof. exact exp_decay_step0_l. Qed.

Theorem exp_decay_errors : forall cap k, (cap <= 0)%Q -> exp_decay_q cap k = None.
Proof. exact exp_decay_errors_l. Qed.

Example sched_example :
  let l := {| l_fus := Some (fun s => (3#2)); l_ius := None; l_damping := Some (fun s => inject_Z (Z.of_nat s));
              l_decay := None; l_kl := None; l_lr := None |} in
  let p := {| p_fus := PConst 3; p_ius := PConst 10; p_damping := PConst (1#2); p_decay := PFn;
              p_kl := PConst 1; p_lr := PConst 1 |} in
  ctor_ok p l = true /\
  fold_left (sstep l) [PrecondStep; PrecondStep; SchedStep None; SchedStep (Some 5%nat)] (p, 0%nat)
  = ({| p_fus := PConst 6; p_ius := PConst 10; p_damping := PConst 5; p_decay := PFn;
        p_kl := PConst 1; p_lr := PConst 1 |}, 2%nat).
Proof. split; reflexivity. Qed.

Print Assumptions sched_step_spec.
Print Assumptions sched_history_fold.
Print Assumptions ctor_refuses_callable.
Print Assumptions exp_decay_is_min.
Print Assumptions exp_decay_range.
Print Assumptions exp_decay_monotone.
Print Assumptions exp_decay_step0.
Print Assumptions exp_decay_errors.

(* ---- the IEEE-754 binary64 reading (exp_decay_f, bit-for-bit what the code computes; Proofs/SchedFloatP.v,
   through Flocq's specification of Coq's primitive floats): for every finite cap and every step below 2^63 ---- *)
From Coq Require Import Reals.
From KV Require Import Proofs.SchedFloatP.
Local Open Scope R_scope.

(* the value is min(a(k), cap) of correctly rounded a(k) = fl(1 - fl(1 / fl(max k 1))), lies in [0, cap], is finite *)
Theorem exp_decay_float_range : forall cap k v, fin cap -> (Z.of_nat (Nat.max k 1) < 2 ^ 63)%Z ->
  exp_decay_f cap k = Some v -> fin v /\ (0 <= RF v <= RF cap)%R /\ (0 < RF cap)%R.
Proof.
  intros cap k v Fc Hk E. destruct (exp_decay_f_value cap k v Fc Hk E) as (Hc & Fv & _).
  split; [exact Fv|]. split; [exact (exp_decay_f_range_l cap k v Fc Hk E)|exact Hc].
Qed.

(* non-decreasing in the step, as real numbers and under the float comparison itself *)
Theorem exp_decay_float_monotone : forall cap k a b, fin cap -> (Z.of_nat (S k) < 2 ^ 63)%Z ->
  exp_decay_f cap k = Some a -> exp_decay_f cap (S k) = Some b ->
  (RF a <= RF b)%R /\ PrimFloat.leb a b = true.
Proof. exact exp_decay_f_monotone_l. Qed.

(* steps 0 and 1 give exactly zero *)
Theorem exp_decay_float_step01 : forall cap v k, (k <= 1)%nat -> fin cap -> exp_decay_f cap k = Some v -> RF v = 0%R.
Proof. exact exp_decay_f_step01. Qed.

Print Assumptions exp_decay_float_range.
Print Assumptions exp_decay_float_monotone.
Print Assumptions exp_decay_float_step01.
