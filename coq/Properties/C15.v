(* C15 — Layer helpers keep factors, gradients and weights in one consistent layout.
   Statements only. *)
From Coq Require Import List Arith Bool Reals Lra.
Import ListNotations.
From KV Require Import Model.Mat Model.Conv Model.Precond Proofs.MatP Proofs.ConvP Proofs.PrecondP.

(* patch extraction (pad, unfold, unfold, permute, view — the composition the
   helper performs) yields, at feature c*kh*kw + i*kw + j of position (p, q),
   the padded input at channel c, row p*sh+i, column q*sw+j: channel-major,
   kernel row, kernel column — for any element type *)
Theorem patches_are_windows : forall (T : Type) (O : ops T) (g : geom) (x : t4) b p q c i j,
  i < gkh g -> j < gkw g ->
  extract_patches O g x b p q (c * (gkh g * gkw g) + (i * gkw g + j))
  = pad O g x b c (p * gsh g + i) (q * gsw g + j).
Proof. exact @patches_are_windows_l. Qed.

(* zero padding: height padding on dimension 2, width padding on dimension 3 *)
Theorem pad_spec : forall (T : Type) (O : ops T) (g : geom) (x : t4) b c h w,
  (h < gH g -> w < gW g -> pad O g x b c (gph g + h) (gpw g + w) = x b c h w) /\
  (h < gph g \/ gph g + gH g <= h \/ w < gpw g \/ gpw g + gW g <= w -> pad O g x b c h w = o0 O).
Proof. intros. split; [apply pad_inside|apply pad_outside]. Qed.

Local Open Scope R_scope.

(* patch extraction agrees with the convolution's own unfolding *)
Theorem conv_is_patch_matmul : forall (g : geom) w bias x b o p q,
  conv_fwdR g w bias x b o p q =
  sumR (nfeat g) (fun f => extract_patchesR g x b p q f * wmatR g w o f) + bias o.
Proof. exact conv_is_patch_matmul_l. Qed.

(* the combined gradient matrix (rows = output units, columns = unfolded input
   features then bias) equals the sum over samples and positions of the outer
   products of output-gradient rows and [patch | 1] rows: it is the coefficient
   matrix of the linear functional (w, bias) |-> <go, conv(w, bias, x)> *)
Theorem adjoint_identity : forall (g : geom) w bias x go,
  inner4 (gB g) (gO g) (out_h g) (out_w g) go (conv_fwdR g w bias x)
  = sumR (gO g) (fun o => sumR (nfeat g) (fun f => grad_matrixR g true go x o f * wmatR g w o f))
    + sumR (gO g) (fun o => grad_matrixR g true go x o (nfeat g) * bias o).
Proof. exact adjoint_identity_l. Qed.

Theorem linear_adjoint_identity : forall rows nin nout w bias (go a : @mat R),
  sumR rows (fun r => sumR nout (fun o => go r o * lin_fwd ops_R nin w bias a r o))
  = sumR nout (fun o => sumR nin (fun f => lin_grad_matrix ops_R rows nin true go a o f * w o f))
    + sumR nout (fun o => lin_grad_matrix ops_R rows nin true go a o nin * bias o).
Proof. exact lin_adjoint_l. Qed.

(* writing a combined gradient back and reading it again is the identity *)
Theorem set_get_id : forall nw (Wg : @mat R) (bg : @vec R),
  (forall i j, (j < nw)%nat -> set_grad_w true nw (get_grad true nw Wg bg) i j = Wg i j) /\
  (forall i, set_grad_b nw (get_grad true nw Wg bg) i = bg i) /\
  (forall i j, set_grad_w false nw (get_grad false nw Wg bg) i j = Wg i j).
Proof. exact writeback_roundtrip_l. Qed.

Example geometry_example :
  let g := mkGeom 1 2 5 4 3 3 2 2 1 1 0 in
  out_h g = 3%nat /\ out_w g = 3%nat /\ nfeat g = 12%nat /\
  dec_c g 9 = 1%nat /\ dec_i g 9 = 1%nat /\ dec_j g 9 = 1%nat.
Proof. repeat split; reflexivity. Qed.

Print Assumptions patches_are_windows.
Print Assumptions pad_spec.
Print Assumptions conv_is_patch_matmul.
Print Assumptions adjoint_identity.
Print Assumptions linear_adjoint_identity.
Print Assumptions set_get_id.
