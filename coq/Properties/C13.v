(* C13 — Memory and communication placement follow the KAISA strategy.
   W = k * p; the inverse workers of a layer lie in one column (C06).  Statements only. *)
From Coq Require Import List Arith Bool.
Import ListNotations.
From KV Require Import Model.Triu Model.Placement Proofs.PlacementP.
From KV Require Import Model.Coll Model.Kfac Model.KfacComm Proofs.KfacCommPlaceP.
From KV Require Import Model.Bucket Proofs.BucketP Proofs.KfacCommBucketP.

(* after a step, a rank holds second-order data for a layer iff it is a gradient worker of the layer *)
Theorem sod_iff_grad_worker : forall c r l, wf_layer c l -> 0 < pp c ->
  (pk c = 1 -> forall x, x mod pp c = pcol c l -> x = wa l) ->
  (0 < sod_a c r l + sod_g c r l <-> is_gw c r l = true).
Proof. exact sod_iff_grad_worker_l. Qed.

(* memory_usage() = bytes of the tensors held: factors on every rank, second-order data where it is held *)
Theorem memory_reported_is_held : forall c r ls,
  mem_total c r ls =
    fold_right (fun l acc => pfsz c * (na l * na l + ng l * ng l) + pisz c * (sod_a c r l + sod_g c r l) + acc) 0 ls.
Proof. exact mem_total_split. Qed.

Theorem inverse_bcast_only_in_columns : forall c r ls,
  (forall x, In x (inverse_comm c r ls) ->
     fst (fst (fst x)) = 2 /\ snd (fst (fst x)) = 1 /\ 1 < pk c /\ exists l, In l ls /\ is_gw c r l = true) /\
  (pk c = 1 -> inverse_comm c r ls = []).
Proof. intros. split; [apply inverse_bcast_only_in_columns_l|apply no_inverse_bcast_mem_opt]. Qed.

Theorem grad_bcast_only_in_rows : forall c r ls,
  (forall x, In x (grad_comm c r ls) -> fst (fst (fst x)) = 2 /\ snd (fst (fst x)) = 2 /\ pk c < pW c) /\
  (pk c = pW c -> grad_comm c r ls = []).
Proof. intros. split; [apply grad_bcast_only_in_rows_l|apply no_grad_bcast_comm_opt]. Qed.

Theorem factor_allreduce_once_world : forall c ls, pW c <> 1 ->
  factor_comm c ls = flat_map (fun l => [(1, 0, sym_numel c (na l), None); (1, 0, sym_numel c (ng l), None)]) ls.
Proof. exact factor_allreduce_once_l. Qed.

Theorem no_comm_world_one : forall c r ls f i, pW c = 1 -> pk c = 1 -> step_comm c r ls f i = [].
Proof. exact no_comm_world_one_l. Qed.

Theorem symmetric_numel : forall c n, sym_numel c n = if psym c then n * (n + 1) / 2 else n * n.
Proof. exact symmetric_numel_l. Qed.

Theorem only_inverse_worker_computes : forall r l,
  (computes_a r l = true <-> r = wa l) /\ (computes_g r l = true <-> r = wg l).
Proof. exact only_inverse_worker_computes_l. Qed.

Example hybrid_4_2 :
  let c := {| pW := 4; pk := 2; pmeth := EigenPrediv; psym := true; pfsz := 4; pisz := 4; pfdt := 3; pidt := 3; pgdt := 3 |} in
  let l := {| na := 3; ng := 2; wa := 1; wg := 1 |} in
  map (fun r => (is_gw c r l, sod_a c r l, sod_g c r l)) [0; 1; 2; 3]
    = [(false, 0, 0); (true, 9, 10); (false, 0, 0); (true, 12, 10)] /\
  step_comm c 3 [l] true true
    = [(1, 0, 6, None); (1, 0, 3, None); (2, 1, 9, Some 1); (2, 1, 4, Some 1); (2, 1, 6, Some 1); (2, 2, 6, Some 3)].
Proof. split; reflexivity. Qed.

(* the same facts on the communication generator of C03 (Model/KfacComm.v), which the C03 correspondence compares
   with the code call for call: whatever the history, a world of one communicates nothing; what a rank issues
   in the inverse phase are broadcasts on its own gradient-worker column only, in the gradient phase broadcasts on
   its own receiver row only *)
Theorem generator_silent_in_world_one : forall c cap ls who es, pW c = 1 -> pk c = 1 ->
  snd (crun c cap ls who [] es) = [].
Proof. exact comm_world_one_l. Qed.

(* with bucketing too: whatever the capacity, the fused allreduces issued from the first factor of an update up to and
   including the flush that follows carry every factor element exactly once, and nothing stays pending (through the
   conservation theorem of the bucket machine, C08) *)
Theorem generator_factor_elements_once : forall c cp ns, pW c <> 1 ->
  let '(bs1, o1) := fac_adds c (Some cp) [] ns in
  let '(bs2, o2) := fac_flush (Some cp) bs1 in
  osum (o1 ++ o2) = fold_right Nat.add 0 ns /\ pending bs2 = [].
Proof. exact factor_elements_once_l. Qed.

Theorem generator_columns_and_rows : forall c r ls i,
  (In i (inv_rank c r ls) -> ikind i = 2 /\ igrp i = g_col c (r mod pp c) /\ bcast_inv c = true) /\
  (In i (grad_rank c r ls) -> ikind i = 2 /\ igrp i = g_row c (r / pp c) /\ bcast_grad c = true).
Proof. intros. split; [apply inv_rank_own_column|apply grad_rank_own_row]. Qed.

Print Assumptions sod_iff_grad_worker.
Print Assumptions memory_reported_is_held.
Print Assumptions inverse_bcast_only_in_columns.
Print Assumptions grad_bcast_only_in_rows.
Print Assumptions factor_allreduce_once_world.
Print Assumptions no_comm_world_one.
Print Assumptions symmetric_numel.
Print Assumptions only_inverse_worker_computes.
Print Assumptions generator_silent_in_world_one.
Print Assumptions generator_columns_and_rows.
Print Assumptions generator_factor_elements_once.
