(* C03 — All ranks issue matching collectives and no rank ever stalls.
   Coll: asynchronous issue, blocking wait, per-group FIFO matching.
   Statements only. *)
From Coq Require Import List Arith Bool.
Import ListNotations.
From KV Require Import Model.Coll Proofs.CollP.

Section C03.
Variable members : list (list nat).     (* group id -> member ranks *)
Variable nr : nat.                      (* world size *)

(* the verified checker: from the per-rank issue logs it constructs ONE global
   order L whose projection on every rank is that rank's log; every root is a
   member of its group *)
Theorem proj_ok_sound : forall logs, proj_ok_b members logs = true ->
  exists L, (forall r, r < length logs -> nth r logs [] = mine members L r) /\
            (forall i, In i L -> root_ok members i = true).
Proof. exact (proj_ok_sound_l members). Qed.

Variable P : nat -> list act.           (* the program of every rank *)
Variable L : list inst.
Hypothesis Hmem : forall g r, In r (mem_of members g) -> r < nr.
Hypothesis Hproj : forall r, r < nr -> issues (P r) = mine members L r.
Hypothesis Hwait : forall r, r < nr -> forall pre g k post,
  P r = pre ++ Wait g k :: post -> k < length (ong g (issues pre)).

(* all members of a group issue the same sequence of collectives on it (equal
   kind, element count, dtype, root); nobody issues on a foreign group *)
Theorem members_issue_same_sequence : forall g r1 r2,
  In r1 (mem_of members g) -> In r2 (mem_of members g) ->
  ong g (issues (P r1)) = ong g (issues (P r2)).
Proof. exact (members_match members nr P L Hproj Hmem). Qed.

Theorem no_foreign_group : forall r i, r < nr -> In i (issues (P r)) -> memb members r (igrp i) = true.
Proof. exact (issuer_is_member members nr P L Hproj). Qed.

(* no deadlock: in EVERY state (every vector of program counters, hence every
   interleaving and every placement of the waits after their issues) in which
   some rank is unfinished, some rank can take a step *)
Theorem no_deadlock : forall s,
  (exists r, r < nr /\ unfinished P s r) -> exists r, r < nr /\ enabledb members P s r = true.
Proof. exact (progress members nr P L Hmem Hproj Hwait). Qed.

(* every started operation completes: no state is stuck before all ranks are
   finished, and every state can be run to completion (executions are finite:
   each step advances one program counter) *)
Theorem every_execution_completes : forall s,
  (~ finished nr P s -> exists r, r < nr /\ enabledb members P s r = true) /\
  (exists s', steps members nr P s s' /\ finished nr P s').
Proof.
  intro s. split; [exact (never_stuck members nr P L Hmem Hproj Hwait s)|
                   exact (run_to_completion members nr P L Hmem Hproj Hwait s)].
Qed.
End C03.

(* per-group matching WITHOUT one global order is not enough: two ranks, two
   groups, crossed waits; every group sees equal sequences on both members, yet
   the state (1, 1) is a deadlock — and the checker rejects the logs *)
Example crossed_waits_deadlock :
  let members := [[0; 1]; [0; 1]] in
  let a := mkI 0 1 4 0 0 in let b := mkI 1 1 4 0 0 in
  let P := fun r => match r with
                    | 0 => [Issue a; Wait 0 0; Issue b; Wait 1 0]
                    | _ => [Issue b; Wait 1 0; Issue a; Wait 0 0] end in
  let s := fun _ : nat => 1 in
  ong 0 (issues (P 0)) = ong 0 (issues (P 1)) /\ ong 1 (issues (P 0)) = ong 1 (issues (P 1)) /\
  enabledb members P s 0 = false /\ enabledb members P s 1 = false /\
  proj_ok_b members [issues (P 0); issues (P 1)] = false.
Proof. repeat split; reflexivity. Qed.

(* non-vacuity: a K-FAC-like run on 4 ranks (world allreduce, column broadcasts, row broadcasts) is accepted *)
Example accepted_logs :
  let members := [[0;1;2;3]; [0;2]; [1;3]; [0;1]; [2;3]] in
  let ar := mkI 0 1 9 0 0 in let b02 := mkI 1 2 9 0 1 in let b13 := mkI 2 2 9 0 2 in
  let g01 := mkI 3 2 6 0 1 in let g23 := mkI 4 2 6 0 3 in
  proj_ok_b members [[ar; b02; g01]; [ar; b13; g01]; [ar; b02; g23]; [ar; b13; g23]] = true.
Proof. reflexivity. Qed.

Print Assumptions proj_ok_sound.
Print Assumptions members_issue_same_sequence.
Print Assumptions no_foreign_group.
Print Assumptions no_deadlock.
Print Assumptions every_execution_completes.
