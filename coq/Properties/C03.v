(* C03 — All ranks issue matching collectives and no rank ever stalls.
   Coll: asynchronous issue, blocking wait, per-group FIFO matching.
   Statements only. *)
From Coq Require Import List Arith Bool Lia.
Import ListNotations.
From KV Require Import Model.Placement Model.Kfac Model.KfacComm Proofs.KfacCommP.
From KV Require Import Model.Neox Model.Shard Model.NeoxComm Proofs.NeoxCommP Proofs.NeoxCommDtypeP.
From KV Require Import Proofs.KfacCommFlushP Proofs.KfacCommDtypeP Proofs.KfacP Proofs.KfacLoadP.
From KV Require Import Model.Coll Proofs.CollP.   (* last: CollP.steps / finished, not the record field Kfac.steps *)

Section C03.
Variable members : list (list nat).     (* group id -> member ranks *)
Variable nr : nat.                      (* world size *)

(* the verified checker: from the per-rank issue logs it constructs ONE global
   order L whose projection on every rank is that rank's log; every root is a
   member of its group *)
Theorem proj_ok_sound : forall logs, proj_ok_b members logs = true ->
  exists L, (forall r, r < length logs -> nth r logs [] = mine members L r) /\
            (forall i, In i L -> root_ok members i = true).
Proof. exact (proj_ok_sound_l members). Qed.

Variable P : nat -> list act.           (* the program of every rank *)
Variable L : list inst.
Hypothesis Hmem : forall g r, In r (mem_of members g) -> r < nr.
Hypothesis Hproj : forall r, r < nr -> issues (P r) = mine members L r.
Hypothesis Hwait : forall r, r < nr -> forall pre g k post,
  P r = pre ++ Wait g k :: post -> k < length (ong g (issues pre)).

(* all members of a group issue the same sequence of collectives on it (equal
   kind, element count, dtype, root); nobody issues on a foreign group *)
Theorem members_issue_same_sequence : forall g r1 r2,
  In r1 (mem_of members g) -> In r2 (mem_of members g) ->
  ong g (issues (P r1)) = ong g (issues (P r2)).
Proof. exact (members_match members nr P L Hproj Hmem). Qed.

Theorem no_foreign_group : forall r i, r < nr -> In i (issues (P r)) -> memb members r (igrp i) = true.
Proof. exact (issuer_is_member members nr P L Hproj). Qed.

(* no deadlock: in EVERY state (every vector of program counters, hence every
   interleaving and every placement of the waits after their issues) in which
   some rank is unfinished, some rank can take a step *)
Theorem no_deadlock : forall s,
  (exists r, r < nr /\ unfinished P s r) -> exists r, r < nr /\ enabledb members P s r = true.
Proof. exact (progress members nr P L Hmem Hproj Hwait). Qed.

(* every started operation completes: no state is stuck before all ranks are
   finished, and every state can be run to completion (executions are finite:
   each step advances one program counter) *)
Theorem every_execution_completes : forall s,
  (~ finished nr P s -> exists r, r < nr /\ enabledb members P s r = true) /\
  (exists s', steps members nr P s s' /\ finished nr P s').
Proof.
  intro s. split; [exact (never_stuck members nr P L Hmem Hproj Hwait s)|
                   exact (run_to_completion members nr P L Hmem Hproj Hwait s)].
Qed.
End C03.


(* ---- K-FAC programs ARE projections of one global order (kfac_proj of DESIGN.md) ----
   For every KAISA grid (W = k * p), method, symmetric flag, layer table, bucket capacity (or
   unbucketed), hook / no-hook, accumulation, constant or callable intervals and every history
   of the control machine (train / eval passes, steps, checkpoints, loads, scheduler changes,
   memory queries, the training loop's own world allreduces): what rank r issues — decided
   with the code's rank-dependent guards — is exactly the sub-sequence of ONE rank-independent
   order that concerns the groups r belongs to. *)
Theorem kfac_comm_proj : forall cfg c cap ls h r, wf_grid c -> r < pW c ->
  kfac_issues cfg c cap ls r h = mine (kmembers c) (kfac_order cfg c cap ls h) r.
Proof. exact kfac_comm_proj_l. Qed.

(* hence, with the Coll semantics: any programs issuing those collectives (each wait placed
   anywhere after its issue) never deadlock, can always be run to completion, and every root
   is a member of its group *)
Theorem kfac_never_stalls : forall cfg c cap ls h (P : nat -> list act),
  wf_grid c -> wf_roots c ls ->
  (forall r, r < pW c -> issues (P r) = kfac_issues cfg c cap ls r h) ->
  (forall r, r < pW c -> forall pre g k post, P r = pre ++ Wait g k :: post -> k < length (ong g (issues pre))) ->
  (forall i, In i (kfac_order cfg c cap ls h) -> root_ok (kmembers c) i = true) /\
  forall s,
    (~ finished (pW c) P s -> exists r, r < pW c /\ enabledb (kmembers c) P s r = true) /\
    (exists s', steps (kmembers c) (pW c) P s s' /\ finished (pW c) P s').
Proof.
  intros cfg c cap ls h P Hwf Hroots Hiss Hwait.
  assert (Hmem : forall g r, In r (mem_of (kmembers c) g) -> r < pW c) by (intros g r; apply kmembers_in_world; exact Hwf).
  assert (Hproj : forall r, r < pW c -> issues (P r) = mine (kmembers c) (kfac_order cfg c cap ls h) r).
  { intros r Hr. rewrite (Hiss r Hr). now apply kfac_comm_proj_l. }
  split.
  - intros i Hi. unfold kfac_order in Hi. exact (crun_roots c cap ls _ Hwf Hroots [] i Hi).
  - intro s. split.
    + exact (never_stuck (kmembers c) (pW c) P _ Hmem Hproj Hwait s).
    + exact (run_to_completion (kmembers c) (pW c) P _ Hmem Hproj Hwait s).
Qed.

(* non-vacuity: 4 ranks, 2 gradient workers per layer (HYBRID), eigen method, two layers in different columns,
   bucketed factors; one training iteration (hooks reduce the factors, the loop averages 2 gradients, step());
   rank 1 takes part in the inverse broadcasts of the second layer only and in the gradient broadcasts of its row *)
Example kfac_issues_hybrid :
  let c := {| pW := 4; pk := 2; pmeth := EigenPlain; psym := false; pfsz := 4; pisz := 4; pfdt := 3; pidt := 3; pgdt := 4 |} in
  let ls := [ {| na := 2; ng := 3; wa := 0; wg := 2 |}; {| na := 3; ng := 1; wa := 1; wg := 1 |} ] in
  let cfg := {| c_hook := true; c_acc := 1; c_fus0 := HConst 1; c_ius0 := HConst 1 |} in
  let h := [HK (Fwd true); HK (Bwd true); HUser [6; 3]; HK Step] in
  wf_grid c /\ wf_roots c ls /\
  kfac_issues cfg c (Some 1000) ls 1 h =
    [ar 4 6; ar 4 3; ar 3 23;
     bc 2 3 9 1; bc 2 3 3 1; bc 2 3 1 1; bc 2 3 1 1;
     bc 3 4 3 1; bc 3 4 6 0] /\
  kfac_issues cfg c (Some 1000) ls 2 h =
    [ar 4 6; ar 4 3; ar 3 23;
     bc 1 3 4 0; bc 1 3 2 0; bc 1 3 9 2; bc 1 3 3 2;
     bc 4 4 3 3; bc 4 4 6 2].
Proof.
  cbv zeta. split; [|split; [|split]].
  - unfold wf_grid, pp; cbn; lia.
  - intros l [<-|[<-|[]]]; unfold pp; cbn; repeat split; lia.
  - vm_compute. reflexivity.
  - vm_compute. reflexivity.
Qed.


(* state_dict() issues nothing (Save has no communication event) and memory_usage() only flushes; step() always ends with a
   flush and a flush right after a flush issues nothing: at a step boundary both may be called on any subset of ranks *)
Theorem queries_silent_at_step_boundary : forall c cap ls who bs hook acts incl,
  snd (cstep c cap ls who (fst (cstep c cap ls who bs CFlush)) CFlush) = [] /\
  (exists pre, cev_of hook Step acts = pre ++ [CFlush]) /\
  cev_of hook (Save incl) acts = [].
Proof.
  intros. split; [apply flush_after_flush_silent_l|]. split; [apply step_ends_with_flush|reflexivity].
Qed.

(* load_state_dict "on a subset where no collective is implied": a state without factors cannot be inverted, so - whatever
   compute_inverses says and whatever factors the loading object already holds - the load has no communication event and leaves
   factors and second-order data alone; a rank that restores its OWN factor-less state changes nothing at all, so the ranks that
   make the call and those that do not stay in the same state of the control machine *)
Theorem factorless_load_is_silent : forall cfg hook cks s ck comp c,
  nth_error cks ck = Some c -> k_factors c = None ->
  let r := kstep cfg cks s (Load ck comp) in
  cev_of hook (Load ck comp) (snd r) = [] /\
  Kfac.inv (fst r) = Kfac.inv s /\ fa (fst r) = fa s /\ fg (fst r) = fg s /\ Kfac.steps (fst r) = k_steps c.
Proof. exact factorless_load_is_silent_l. Qed.

Theorem own_factorless_state_is_noop : forall cfg s comp,
  kstep cfg [saved_of s false] s (Load 0 comp) = (s, []).
Proof. exact own_factorless_state_is_noop_l. Qed.

(* non-vacuity: an object that holds factors and inverses; the same load WITH factors does emit the inverse event *)
Example factorless_load_example :
  let s := {| Kfac.steps := 3; fus := HConst 1; ius := HConst 2; mini := 0; a_cnt := 0; g_cnt := 0;
              fa := FVer 0 [(0,1);(1,1);(2,1)]; fg := FVer 0 [(0,1);(1,1);(2,1)];
              Kfac.inv := Some {| s_a := FVer 0 [(0,1);(1,1);(2,1)]; s_g := FVer 0 [(0,1);(1,1);(2,1)]; s_step := 2 |} |} in
  forall cfg, cev_of true (Load 0 true) (snd (kstep cfg [saved_of s false] s (Load 0 true))) = [] /\
              cev_of true (Load 0 true) (snd (kstep cfg [saved_of s true] s (Load 0 true))) = [CInvLoad].
Proof. intros s cfg. vm_compute. split; reflexivity. Qed.

(* dtypes: every collective of the generator (hence, by the exact-log tie, of the code) carries the dtype of its event - factor
   allreduces, direct or as a flat bucket, the factor dtype; inverse broadcasts the dtype of the second-order data; gradient
   broadcasts the gradient dtype - on every rank and in the global order alike, so members of a group never disagree on it *)
Theorem generator_dtypes : forall cfg c cap ls who h i,
  In i (snd (crun c cap ls who [] (kcevs cfg [] (init (c_fus0 cfg) (c_ius0 cfg)) h))) ->
  exists e, In e (kcevs cfg [] (init (c_fus0 cfg) (c_ius0 cfg)) h) /\ idtype i = ev_dt c e /\ ikind i = ev_kind e.
Proof. intros cfg c cap ls who h i. exact (crun_dtype c cap ls who _ [] (st_fac_nil c) i). Qed.

(* ---- GPT-NeoX: the same on the pipe x data x model topology ----
   What rank r issues during training with GPTNeoXKFACPreconditioner (the all_gathers of sharded inputs / output gradients
   on its model-parallel group, the factor allreduces of the primaries on their data-parallel group and of everybody on
   the stage group, the gather / reduce_scatter / broadcast of preconditioned_grad on the inverse worker's model-parallel
   groups, the data-parallel gradient broadcast from src_grad_worker, the loop's own data-parallel allreduces) - decided
   with the code's guards "am I the primary?", "is the inverse worker in my model-parallel group?" - is the projection
   of one order that enumerates the groups, for every P, D, M, every layer table per stage and every history. *)
Theorem neox_comm_proj : forall c layers h r, 0 < nD c -> 0 < nM c -> r < nW c ->
  neox_issues c layers r h = mine (nmembers c) (neox_order c layers h) r.
Proof. exact neox_comm_proj_l. Qed.

Theorem neox_never_stalls : forall c layers h (P : nat -> list act), 0 < nD c -> 0 < nM c ->
  (forall r, r < nW c -> issues (P r) = neox_issues c layers r h) ->
  (forall r, r < nW c -> forall pre g k post, P r = pre ++ Wait g k :: post -> k < length (ong g (issues pre))) ->
  forall s,
    (~ finished (nW c) P s -> exists r, r < nW c /\ enabledb (nmembers c) P s r = true) /\
    (exists s', steps (nmembers c) (nW c) P s s' /\ finished (nW c) P s').
Proof.
  intros c layers h P HD HM Hiss Hwait.
  assert (Hmem : forall g r, In r (mem_of (nmembers c) g) -> r < nW c) by (intros g r; now apply nmembers_in_world).
  assert (Hproj : forall r, r < nW c -> issues (P r) = mine (nmembers c) (neox_order c layers h) r).
  { intros r Hr. rewrite (Hiss r Hr). now apply neox_comm_proj_l. }
  intro s. split.
  - exact (never_stuck (nmembers c) (nW c) P _ Hmem Hproj Hwait s).
  - exact (run_to_completion (nmembers c) (nW c) P _ Hmem Hproj Hwait s).
Qed.

(* non-vacuity: data x model = 2 x 2, a row-parallel layer with bias whose inverse worker is rank 0: one
   forward / backward / step; rank 3 = (d 1, m 1) is neither the primary of its model-parallel group nor in the
   inverse worker's: it gathers its input shard, joins the stage allreduce of G and receives the gradient *)
(* dtypes of the GPT-NeoX generator: the factor allreduces of the hook events carry the factor dtype; every gather, scatter and
   broadcast and the loop's own allreduces the dtype of activations / parameters - per rank and in the global order *)
Theorem neox_generator_dtypes : forall c layers h i,
  (In i (neox_order c layers h) -> exists e, In e h /\ nx_dt_ok c (nxev_fac e) i) /\
  (forall r, In i (neox_issues c layers r h) -> exists e, In e h /\ nx_dt_ok c (nxev_fac e) i).
Proof. intros c layers h i. split; [apply neox_order_dt|intros r; apply neox_issues_dt]. Qed.

Example neox_issues_2x2 :
  let c := {| nP := 1; nD := 2; nM := 2; nsym := false; nfdt := 3; nxdt := 4 |} in
  let ls := fun _ : nat => [ {| x_par := ParInput; x_in := 2; x_out := 3; x_bias := true; x_rows := 2; x_inv := 0 |} ] in
  neox_issues c ls 3 [NFwd 0; NBwd 0; NStep] = [ins 2 3 4 2 0; ins 5 1 3 9 0; ins 4 2 4 6 2] /\
  neox_issues c ls 0 [NFwd 0; NBwd 0; NStep] =
    [ins 1 3 4 2 0; ins 3 1 3 9 0; ins 5 1 3 9 0; ins 1 3 4 3 0; ins 1 4 4 3 0; ins 1 2 4 3 1; ins 3 2 4 6 1].
Proof. split; vm_compute; reflexivity. Qed.

(* per-group matching WITHOUT one global order is not enough: two ranks, two
   groups, crossed waits; every group sees equal sequences on both members, yet
   the state (1, 1) is a deadlock — and the checker rejects the logs *)
Example crossed_waits_deadlock :
  let members := [[0; 1]; [0; 1]] in
  let a := mkI 0 1 4 0 0 in let b := mkI 1 1 4 0 0 in
  let P := fun r => match r with
                    | 0 => [Issue a; Wait 0 0; Issue b; Wait 1 0]
                    | _ => [Issue b; Wait 1 0; Issue a; Wait 0 0] end in
  let s := fun _ : nat => 1 in
  ong 0 (issues (P 0)) = ong 0 (issues (P 1)) /\ ong 1 (issues (P 0)) = ong 1 (issues (P 1)) /\
  enabledb members P s 0 = false /\ enabledb members P s 1 = false /\
  proj_ok_b members [issues (P 0); issues (P 1)] = false.
Proof. repeat split; reflexivity. Qed.

(* non-vacuity: a K-FAC-like run on 4 ranks (world allreduce, column broadcasts, row broadcasts) is accepted *)
Example accepted_logs :
  let members := [[0;1;2;3]; [0;2]; [1;3]; [0;1]; [2;3]] in
  let ar := mkI 0 1 9 0 0 in let b02 := mkI 1 2 9 0 1 in let b13 := mkI 2 2 9 0 2 in
  let g01 := mkI 3 2 6 0 1 in let g23 := mkI 4 2 6 0 3 in
  proj_ok_b members [[ar; b02; g01]; [ar; b13; g01]; [ar; b02; g23]; [ar; b13; g23]] = true.
Proof. reflexivity. Qed.

Print Assumptions proj_ok_sound.
Print Assumptions members_issue_same_sequence.
Print Assumptions no_foreign_group.
Print Assumptions no_deadlock.
Print Assumptions every_execution_completes.
Print Assumptions kfac_comm_proj.
Print Assumptions kfac_never_stalls.
Print Assumptions queries_silent_at_step_boundary.
Print Assumptions generator_dtypes.
Print Assumptions factorless_load_is_silent.
Print Assumptions own_factorless_state_is_noop.
Print Assumptions neox_comm_proj.
Print Assumptions neox_never_stalls.
Print Assumptions neox_generator_dtypes.
