(* C16 — Exactly the eligible layers are registered, once each.  Statements only.
   The regex engine is a parameter (skip_name, skip_cls : outcomes of re.search). *)
From Coq Require Import List Arith Bool.
Import ListNotations.
From KV Require Import Model.Register Proofs.RegisterP Proofs.RegisterWalkP.

(* the registered list is, in walk order, exactly the walked modules that are
   leaves, linear or conv2d (linear first), all of whose parameters require
   gradients, and whose qualified name and class name are matched by no pattern *)
Theorem registered_exactly_eligible : forall g sn sc root p id k,
  In (p, id, k) (register g sn sc root) <->
  In (p, id) (named_modules g root) /\
  let nd := nth id g dummy in
  is_leaf nd = true /\ sn p = false /\ sc (n_cls nd) = false /\
  (forall b, In b (n_params nd) -> b = true) /\
  (k = KLinear /\ n_linear nd = true \/ k = KConv /\ n_linear nd = false /\ n_conv nd = true).
Proof.
  intros g sn sc root p id k. unfold register. rewrite filter_kind_In, eligible_spec. reflexivity.
Qed.

(* the walk itself (torch's named_modules: memoised pre-order, first path wins) lists a module under a
   name only if that name is a genuine path of child names from the root to it ... *)
Theorem walk_names_are_paths : forall g root p x,
  In (p, x) (named_modules g root) -> rpath g root p x.
Proof. exact named_modules_sound. Qed.

(* ... and lists EVERY module reachable from the root (so, with registered_exactly_eligible and
   registered_once: a module is registered iff it is reachable and eligible, exactly once, under
   its first-path name); S (length g) units of fuel always suffice on a well-formed graph
   (child ids inside the graph), for any sharing and any depth *)
Theorem walk_reaches_everything : forall g root x,
  wf_graph g -> root < length g -> reach g root x -> exists p, In (p, x) (named_modules g root).
Proof. exact named_modules_complete. Qed.

(* each module instance appears at most once in the walk and is registered at
   most once, also when it is shared (reachable by several paths) *)
Theorem registered_once : forall g sn sc root,
  NoDup (map snd (named_modules g root)) /\
  NoDup (map (fun r => snd (fst r)) (register g sn sc root)).
Proof. intros. split; [apply named_modules_nodup|apply registered_once_l]. Qed.

(* hooks: one forward-pre hook and one full-backward hook on each registered
   module, none on any other module *)
Theorem others_untouched : forall g sn sc root id,
  hooks g sn sc root id =
    if existsb (fun r => Nat.eqb (snd (fst r)) id) (register g sn sc root) then (1, 1) else (0, 0).
Proof. exact hooks_spec. Qed.

(* a shared Linear (node 0) under two names, a frozen Linear (node 1), a ReLU (node 2),
   a container (3) holding [a -> 0; b -> 0; c -> 1; d -> 2; e -> None] *)
Example shared_registered_once :
  let lin := {| n_cls := 1; n_linear := true; n_conv := false; n_params := [true; true]; n_children := [] |} in
  let frozen := {| n_cls := 1; n_linear := true; n_conv := false; n_params := [true; false]; n_children := [] |} in
  let relu := {| n_cls := 2; n_linear := false; n_conv := false; n_params := []; n_children := [] |} in
  let root := {| n_cls := 3; n_linear := false; n_conv := false; n_params := [];
                 n_children := [(10, Some 0); (11, Some 0); (12, Some 1); (13, Some 2); (14, None)] |} in
  named_modules [lin; frozen; relu; root] 3 = [([], 3); ([10], 0); ([12], 1); ([13], 2)] /\
  register [lin; frozen; relu; root] (fun _ => false) (fun _ => false) 3 = [([10], 0, KLinear)].
Proof. split; reflexivity. Qed.

Print Assumptions registered_exactly_eligible.
Print Assumptions registered_once.
Print Assumptions others_untouched.
Print Assumptions walk_names_are_paths.
Print Assumptions walk_reaches_everything.
