(* C07 — KL clipping bounds the update and only rescales it.  Over the reals.
   Statements only. *)
From Coq Require Import List Arith Bool Reals Lra.
Import ListNotations.
From KV Require Import Model.Mat Model.Clip Model.Precond Proofs.MatP Proofs.ClipP.
From KV Require Model.Sys Proofs.SysP.
Local Open Scope R_scope.

(* s = vg_sum = lr^2 * sum over layers of <V, D> *)
Theorem vg_sum_is_scaled_inner : forall lr layers,
  vg_sumR lr layers = lr * lr * fold_right (fun l acc => layer_inner l + acc) 0 layers.
Proof. exact vg_sum_R. Qed.

Theorem nu_formula : forall kl s, s <> 0 -> nuR kl s = Rmin 1 (sqrt (kl / Rabs s)).
Proof. exact nu_formula_l. Qed.

Theorem nu_range : forall kl s, 0 < kl -> 0 < nuR kl s <= 1.
Proof. exact nu_range_l. Qed.

(* nu^2 * lr^2 * |sum <V, D>| <= kl_clip *)
Theorem nu_bound : forall kl s, 0 < kl -> nuR kl s * nuR kl s * Rabs s <= kl.
Proof. exact nu_bound_l. Qed.

Theorem nu_zero : forall kl s, s = 0 -> nuR kl s = 1.
Proof. exact nu_zero_l. Qed.

(* if the unclipped value exceeds kl_clip the bound holds with equality *)
Theorem nu_tight : forall kl s, 0 < kl -> kl < Rabs s -> nuR kl s * nuR kl s * Rabs s = kl.
Proof. exact nu_tight_l. Qed.

Theorem inner_split : forall m n (A B : @mat R),
  innerR m (S n) A B = innerR m n A B + sumR m (fun i => A i n * B i n).
Proof. exact inner_split_l. Qed.

(* one scalar for every entry of every layer; None leaves the gradients unscaled *)
Theorem only_rescales : forall (s : R) (V : @mat R) i j, final_grad ops_R (Some s) V i j = s * V i j.
Proof. exact only_rescales_l. Qed.

Theorem clip_none_identity : forall lr (layers : list (@clayer R)) (V : @mat R) i j,
  grad_scale ops_R None lr layers = None /\ final_grad ops_R None V i j = V i j.
Proof. intros. split; reflexivity. Qed.

Example clip_examples : nuR 4 1 = 1 /\ nuR 1 0 = 1 /\ nuR 1 4 * nuR 1 4 * Rabs 4 = 1.
Proof.
  repeat split.
  - rewrite nu_formula_l by lra. rewrite Rabs_right by lra. apply Rmin_left.
    replace (4 / 1) with (2 * 2) by field. rewrite sqrt_square by lra. lra.
  - apply nu_zero_l. reflexivity.
  - apply nu_tight_l; [lra|]. rewrite Rabs_right by lra. lra.
Qed.

(* one scale on every rank: the clip factor is a function of the per-layer pairs (preconditioned gradient, original
   gradient).  By the transparency theorem of C02 (Model/Sys.v) every rank ends the gradient phase with the SAME
   preconditioned gradient for every layer, whatever the assignment, and the original gradients are the averaged ones:
   so any function of those pairs - in particular nu - takes the same value on all ranks and equals the
   single-process value *)
Theorem same_scale_on_every_rank :
  forall (D S : Type) (ema : D -> D -> D) (avg : list D -> D) (inv : D -> D) (pre : D -> D -> D -> D)
         (scale : list (option D * D) -> S),
  (forall P (Ms : list D), Ms <> [] -> avg (map (ema P) Ms) = ema P (avg Ms)) ->
  forall W, (0 < W)%nat ->
  forall layers : list (Sys.asg * (nat -> Sys.rstate D) * (nat -> D) * (nat -> D) * D * D * D),
  (forall a st mA mG g FA FG, In (a, st, mA, mG, g, FA, FG) layers ->
     Sys.wf_asg W a /\ (forall r, (r < W)%nat -> Sys.fA D (st r) = FA) /\ (forall r, (r < W)%nat -> Sys.fG D (st r) = FG)) ->
  forall r r', (r < W)%nat -> (r' < W)%nat ->
  let view q := map (fun x => match x with (a, st, mA, mG, g, FA, FG) =>
                    (Sys.final_grad D pre W a (Sys.iter_state D ema avg inv W a st mA mG) g q, g) end) layers in
  scale (view r) = scale (view r').
Proof.
  intros D S ema avg inv pre scale Hrm W HW layers Hl r r' Hr Hr' view.
  f_equal. unfold view. apply map_ext_in. intros [[[[[[a st] mA] mG] g] FA] FG] Hin.
  destruct (Hl a st mA mG g FA FG Hin) as (Hwf & HA & HG).
  destruct (SysP.iteration_transparent_l D ema avg inv pre Hrm W a st mA mG g FA FG HW Hwf HA HG) as [_ H1]. cbv zeta in H1.
  now rewrite (H1 r Hr), (H1 r' Hr').
Qed.

Print Assumptions vg_sum_is_scaled_inner.
Print Assumptions nu_formula.
Print Assumptions nu_range.
Print Assumptions nu_bound.
Print Assumptions nu_zero.
Print Assumptions nu_tight.
Print Assumptions inner_split.
Print Assumptions only_rescales.
Print Assumptions clip_none_identity.
Print Assumptions same_scale_on_every_rank.
