(* C18 — GPT-NeoX checkpoints gather and restore every layer factor.  Statements only. *)
From Coq Require Import List Arith Bool.
Import ListNotations.
From KV Require Import Model.NeoxCkpt Proofs.NeoxCkptP.

(* on every rank the returned state contains every layer, with the factors held by
   that layer's inverse worker (layer names globally unique, stage peers agree on
   the inverse worker: C12), and nothing else *)
Theorem gathered_state_complete : forall W sl held r l f, wf_world W sl ->
  r < W -> In l (sl r) -> l_inv l < W -> In l (sl (l_inv l)) -> held (l_inv l) (l_name l) = Some f ->
  dict_get (gathered W sl held) (l_name l) = Some f.
Proof. exact gathered_state_complete_l. Qed.

Theorem gathered_state_sound : forall W sl held n f,
  dict_get (gathered W sl held) n = Some f ->
  exists r l, r < W /\ In l (sl r) /\ l_name l = n /\ l_inv l = r /\ held r n = Some f.
Proof. exact gathered_only_layers_l. Qed.

(* directory mode, as a concurrent program (barrier; write my files; barrier): under EVERY schedule of the ranks, once state_dict() has
   returned on any rank (pc 3) every rank has written its files (pc >= 2) - so a load that follows finds every file.  Without the
   closing barrier (the code before the repair of D14) a schedule exists in which rank 0 has returned and rank 1 has written nothing. *)
Theorem dir_save_complete_when_returned : forall n sched, dsafe (drun true (dinit n) sched).
Proof. exact dir_save_complete_when_returned_l. Qed.

Example dir_save_without_closing_barrier_refuted : drun false (dinit 2) [0; 1; 0; 0] = [3; 1].
Proof. reflexivity. Qed.

(* directory mode writes one file per layer, by the inverse worker, with its factors *)
Theorem dir_one_file_per_layer : forall W sl held, files W sl held = gathered W sl held.
Proof. reflexivity. Qed.

(* after loading exactly the factor workers of a layer hold the saved factors; iff
   compute_inverses they (and only they) recompute the second-order data *)
Theorem load_restores_on_factor_workers : forall fw sl saved held r n f,
  dict_get saved n = Some f ->
  (existsb (fun l => Nat.eqb (l_name l) n) (sl r) = true -> fw r n = r -> load fw sl saved held r n = Some f) /\
  ((existsb (fun l => Nat.eqb (l_name l) n) (sl r) = false \/ fw r n <> r) -> load fw sl saved held r n = held r n).
Proof. exact load_restores_on_factor_workers_l. Qed.

Theorem recompute_on_factor_workers : forall fw sl saved compute r n,
  recomputes fw sl saved compute r n = true <->
  compute = true /\ existsb (fun l => Nat.eqb (l_name l) n) (sl r) = true /\ fw r n = r /\ exists f, dict_get saved n = Some f.
Proof. exact recomputes_iff. Qed.

(* model-parallel degree 1 (every rank of a stage gathers and inverts its own layers: factor_worker r n = r) and
   factors replicated over the stage (C02 / C11): saving and then loading into freshly constructed, empty
   preconditioners gives every rank back exactly the factors it held; with compute_inverses every rank recomputes its
   second-order data from them - the resumed state is the saved one (then C09's resume theorems apply per rank) *)
Theorem neox_resume_restores_m1 : forall W sl held fw, wf_world W sl ->
  (forall r l, r < W -> In l (sl r) -> fw r (l_name l) = r /\ l_inv l < W /\ In l (sl (l_inv l))) ->
  (forall r l, r < W -> In l (sl r) -> held r (l_name l) = held (l_inv l) (l_name l) /\ held r (l_name l) <> None) ->
  forall r l, r < W -> In l (sl r) ->
    load fw sl (gathered W sl held) (fun _ _ => None) r (l_name l) = held r (l_name l) /\
    recomputes fw sl (gathered W sl held) true r (l_name l) = true.
Proof.
  intros W sl held fw Hwf Hm1 Hrep r l Hr Hl.
  destruct (Hm1 r l Hr Hl) as (Hfw & Hiw & Hown). destruct (Hrep r l Hr Hl) as (Heq & Hne).
  destruct (held r (l_name l)) as [f|] eqn:Ef; [|congruence].
  assert (Hg : dict_get (gathered W sl held) (l_name l) = Some f).
  { apply (gathered_state_complete_l W sl held r l f Hwf Hr Hl Hiw Hown). now rewrite <- Heq. }
  assert (Hex : existsb (fun l0 => Nat.eqb (l_name l0) (l_name l)) (sl r) = true).
  { apply existsb_exists. exists l. split; [exact Hl|apply Nat.eqb_refl]. }
  split.
  - exact (proj1 (load_restores_on_factor_workers_l fw sl _ (fun _ _ => None) r (l_name l) f Hg) Hex Hfw).
  - apply recomputes_iff. repeat split; try assumption. now exists f.
Qed.

(* the same for a TARGET that is not fresh (roll-back into a preconditioner that has already trained): whatever the ranks held
   before, every rank ends with the saved factors and recomputes its second-order data - recomputation does not depend on
   whether second-order data already exists *)
Theorem neox_rollback_restores_m1 : forall W sl held target fw, wf_world W sl ->
  (forall r l, r < W -> In l (sl r) -> fw r (l_name l) = r /\ l_inv l < W /\ In l (sl (l_inv l))) ->
  (forall r l, r < W -> In l (sl r) -> held r (l_name l) = held (l_inv l) (l_name l) /\ held r (l_name l) <> None) ->
  forall r l, r < W -> In l (sl r) ->
    load fw sl (gathered W sl held) target r (l_name l) = held r (l_name l) /\
    recomputes fw sl (gathered W sl held) true r (l_name l) = true.
Proof.
  intros W sl held target fw Hwf Hm1 Hrep r l Hr Hl.
  destruct (Hm1 r l Hr Hl) as (Hfw & Hiw & Hown). destruct (Hrep r l Hr Hl) as (Heq & Hne).
  destruct (held r (l_name l)) as [f|] eqn:Ef; [|congruence].
  assert (Hg : dict_get (gathered W sl held) (l_name l) = Some f).
  { apply (gathered_state_complete_l W sl held r l f Hwf Hr Hl Hiw Hown). now rewrite <- Heq. }
  assert (Hex : existsb (fun l0 => Nat.eqb (l_name l0) (l_name l)) (sl r) = true).
  { apply existsb_exists. exists l. split; [exact Hl|apply Nat.eqb_refl]. }
  split.
  - exact (proj1 (load_restores_on_factor_workers_l fw sl _ target r (l_name l) f Hg) Hex Hfw).
  - apply recomputes_iff. repeat split; try assumption. now exists f.
Qed.

(* M > 1: ranks of a stage that are not factor workers keep what they had (for a
   freshly constructed preconditioner: nothing), so a factor that every model-parallel
   peer maintains is NOT restored there: resuming is not equivalent (known finding D7) *)
Example neox_resume_refuted :
  let sl := fun _ : nat => [{| l_name := 0; l_inv := 0 |}] in
  let fw := fun (r : nat) (_ : lname) => 0 in           (* D = 1, M = 2: rank 0 gathers and inverts *)
  load fw sl [(0, 7)] (fun _ _ => None) 0 0 = Some 7 /\ load fw sl [(0, 7)] (fun _ _ => None) 1 0 = None.
Proof. split; reflexivity. Qed.

Print Assumptions gathered_state_complete.
Print Assumptions gathered_state_sound.
Print Assumptions dir_one_file_per_layer.
Print Assumptions dir_save_complete_when_returned.
Print Assumptions load_restores_on_factor_workers.
Print Assumptions recompute_on_factor_workers.
Print Assumptions neox_resume_restores_m1.
Print Assumptions neox_rollback_restores_m1.
