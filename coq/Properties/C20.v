(* C20 — Tracing is transparent and its statistics are exact.  Statements only. *)
From Coq Require Import List Arith ZArith Bool.
Import ListNotations.
From KV Require Import Model.Trace Proofs.TraceP.

(* a call returns exactly the wrapped function's value / raises exactly its exception *)
Theorem trace_transparent : forall t name d o,
  snd (step t (Call name d o)) = match o with Ret v => Returned v | Raise e => Raised e end.
Proof. exact call_transparent. Qed.

(* a returning call appends exactly one sample under its name and touches no other
   name; a raising call records nothing *)
Theorem one_sample_per_completed_call : forall t name d,
  (forall v n, samples (fst (step t (Call name d (Ret v)))) n
               = if Nat.eqb n name then samples t n ++ [d] else samples t n) /\
  (forall e, fst (step t (Call name d (Raise e))) = t).
Proof. intros t name d. split; [intros v n; apply one_sample|intro e; apply raise_records_nothing]. Qed.

(* for every history: the recorded samples are those of the abstract map spec
   (calls that returned, in order, since the last clear) and the table stays a
   well-formed dictionary *)
Theorem history_refines_spec : forall ops n,
  samples (fst (run [] ops)) n = fold_left astep ops (fun _ => []) n /\ wf (fst (run [] ops)).
Proof.
  intros ops n. split; [apply (run_refines ops [] n)|].
  apply run_wf. split; [constructor|intros ? ? []].
Qed.

(* the reported statistic: sum (divisor 0) or sum and count of the last
   min(max_history, length) samples; all of them when max_history is None;
   exactly the recorded names are reported *)
Theorem get_trace_spec : forall t av mh s n times, wf t ->
  snd (step t (Get av mh)) = Stats s -> In (n, times) t ->
  map fst s = map fst t /\ fst (step t (Get av mh)) = t /\
  In (n, stat av mh times) s /\ samples t n = times /\
  match mh with
  | None => window mh times = times
  | Some m => 1 <= m -> window mh times = lastn (Nat.min m (length times)) times
  end.
Proof.
  intros t av mh s n times Hwf E Hin.
  destruct (get_value t av mh s n times Hwf E Hin) as [H1 H2].
  repeat split; try assumption; [eapply get_names; eassumption|apply window_spec].
Qed.

(* for every history: an averaged statistic never divides by zero, its divisor never
   exceeds the number of recorded samples, and the sum is over a suffix (the most
   recent samples) of what was recorded under that name *)
Theorem average_never_divides_by_zero : forall ops mh s n sm dv,
  snd (step (fst (run [] ops)) (Get true mh)) = Stats s -> In (n, (sm, dv)) s ->
  1 <= dv <= length (samples (fst (run [] ops)) n) /\
  exists pre, samples (fst (run [] ops)) n = pre ++ window mh (samples (fst (run [] ops)) n) /\
              sm = zsum (window mh (samples (fst (run [] ops)) n)) /\
              dv = length (window mh (samples (fst (run [] ops)) n)).
Proof. exact TraceP.average_divisor. Qed.

Theorem clear_empties : forall t av mh, fst (step t Clear) = [] /\
  snd (step (fst (step t Clear)) (Get av mh)) = Stats [].
Proof. exact TraceP.clear_empties. Qed.

(* what the faithful model does for max_history = 0 (Python's times[-0:] is the
   whole list): the statistic covers ALL samples, not the last zero.  Known finding D11. *)
Theorem max_history_zero : forall times, times <> [] -> window (Some 0) times = times.
Proof. exact TraceP.max_history_zero. Qed.

Example trace_history :
  let ops := [Call 1 5 (Ret 7); Call 2 3 (Ret 8); Call 1 9 (Raise 4); Call 1 11 (Ret 7);
              Get true (Some 1); Get false None; Clear; Get true None] in
  snd (run [] ops) =
    [Returned 7; Returned 8; Raised 4; Returned 7;
     Stats [(1, (11%Z, 1)); (2, (3%Z, 1))]; Stats [(1, (16%Z, 0)); (2, (3%Z, 0))]; Cleared; Stats []].
Proof. reflexivity. Qed.

Print Assumptions trace_transparent.
Print Assumptions one_sample_per_completed_call.
Print Assumptions history_refines_spec.
Print Assumptions get_trace_spec.
Print Assumptions average_never_divides_by_zero.
Print Assumptions clear_empties.
Print Assumptions max_history_zero.
