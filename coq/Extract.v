(* Extraction of the executable models to OCaml.  ExtrOcamlBasic only:
   bool, option, unit, list, prod, sumbool map to OCaml's; nat, positive,
   N, Z, Q stay extracted inductives.  No Extract Constant. *)
Require Extraction.
Require Import ExtrOcamlBasic.
From KV Require Import Model.Triu Model.Greedy Model.Kaisa Model.Trace Model.Sched Model.Register Model.Neox Model.Bucket Model.Coll Model.Mat Model.Precond Model.Clip Model.Conv Model.Factor Model.Kfac Model.Placement Model.Frame Model.Shard Model.NeoxCkpt Model.KfacComm Model.NeoxComm.
Extraction "model.ml" triu_idx fill_index_matrix sym_comm_outcome
  greedy greedy_ok_b greedy_prop_b kaisa_view
  Trace.run Sched.srun Sched.ctor_ok Sched.exp_decay_q
  Register.register Register.named_modules Register.hooks Register.table_fun
  Neox.neox_view Neox.neox_greedy Neox.neox_ok_b Neox.newgroup_trace_old
  Bucket.brun Bucket.offsets
  Coll.proj_ok_b Coll.global_order
  Mat.mmul Mat.mT Mat.to_list Mat.of_list Mat.inner Precond.pre_inverse Precond.pre_eigen Precond.pre_eigen_prediv
  Precond.dgda_of Precond.clamp Precond.psd_part Precond.damped Precond.final_grad Precond.get_grad
  Clip.vg_sum Clip.nu Clip.grad_scale
  Conv.extract_patches Conv.grad_matrix Conv.lin_grad_matrix Conv.conv_fwd Conv.out_h Conv.out_w Conv.nfeat Conv.patch_row
  Factor.lin_a Factor.lin_g Factor.conv_a Factor.conv_g Factor.factor_update Factor.unscaled Factor.unscaled4 Mat.mid
  Kfac.krun Kfac.krun_trace Kfac.init
  Placement.placement_view
  Frame.step_env Frame.touched
  Shard.neox_precondition
  NeoxCkpt.gathered NeoxCkpt.dict_get NeoxCkpt.load NeoxCkpt.recomputes NeoxCkpt.save_comm NeoxCkpt.load_comm
  KfacComm.kfac_issues KfacComm.kfac_order KfacComm.kmembers
  NeoxComm.neox_issues NeoxComm.neox_order NeoxComm.nmembers.
