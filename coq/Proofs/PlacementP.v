From Coq Require Import List Arith Bool Lia.
Import ListNotations.
From KV Require Import Model.Triu Model.Placement Proofs.TriuP.

(* the inverse workers of a layer lie in its column (C06: inv_workers_in_one_column) *)
Definition wf_layer (c : pcfg) (l : player) : Prop :=
  0 < na l /\ 0 < ng l /\ wg l mod pp c = wa l mod pp c /\
  (pmeth c = EigenPrediv -> wg l = wa l).

Lemma holds_iff_gw c r l : wf_layer c l -> 0 < pp c ->
  (pk c = 1 -> forall x, x mod pp c = pcol c l -> x = wa l) ->   (* MEM-OPT: the column is the single inverse worker *)
  (holds_a c r l = true <-> is_gw c r l = true) /\ (holds_g c r l = true <-> is_gw c r l = true).
Proof.
  intros (Hna & Hng & Hcol & Hpre) Hp Hmem. unfold holds_a, holds_g, is_gw, bcast_inv, pcol.
  destruct (Nat.ltb_spec 1 (pk c)) as [Hk|Hk]; simpl.
  - split; rewrite orb_true_iff, !Nat.eqb_eq; split; intros H; try tauto.
    + destruct H as [->|H]; [reflexivity|assumption].
    + destruct H as [->|H]; [assumption|assumption].
  - rewrite !orb_false_r, !Nat.eqb_eq.
    destruct (Nat.eq_dec (pk c) 1) as [E1|N1].
    + specialize (Hmem E1). unfold pcol in Hmem. split; split; intros H; subst; try reflexivity; try assumption.
      * now apply Hmem.
      * assert (r = wa l) by now apply Hmem. assert (wg l = wa l) by (apply Hmem; assumption). congruence.
    + (* k = 0: degenerate, pp = W / 0 = 0 contradicts 0 < pp *)
      assert (pk c = 0) by lia. unfold pp in Hp. rewrite H in Hp. simpl in Hp. lia.
Qed.

(* a rank holds second-order data for a layer iff it is a gradient worker of the layer *)
Lemma bool_eq_iff (a b : bool) : (a = true <-> b = true) -> a = b.
Proof. destruct a, b; intros [H1 H2]; try reflexivity; [symmetry; now apply H1|now apply H2]. Qed.

Lemma sod_iff_grad_worker_l c r l : wf_layer c l -> 0 < pp c ->
  (pk c = 1 -> forall x, x mod pp c = pcol c l -> x = wa l) ->
  (0 < sod_a c r l + sod_g c r l <-> is_gw c r l = true).
Proof.
  intros Hwf Hp Hmem. destruct (holds_iff_gw c r l Hwf Hp Hmem) as [Ha Hg].
  apply bool_eq_iff in Ha. apply bool_eq_iff in Hg.
  destruct Hwf as (Hna & Hng & _ & _).
  unfold sod_a, sod_g. rewrite Ha, Hg. destruct (is_gw c r l).
  - split; [reflexivity|]. intros _.
    destruct (pmeth c); [| destruct (Nat.eqb r (wa l)) |]; nia.
  - split; [lia|discriminate].
Qed.

(* inverses are broadcast only inside the gradient-worker group, never under MEM-OPT *)
Lemma inverse_bcast_only_in_columns_l c r ls x :
  In x (inverse_comm c r ls) -> fst (fst (fst x)) = 2 /\ snd (fst (fst x)) = 1 /\ 1 < pk c /\
  exists l, In l ls /\ is_gw c r l = true.
Proof.
  unfold inverse_comm. destruct (bcast_inv c) eqn:B; [|intros []].
  intros H. apply in_flat_map in H as (l & Hl & Hx).
  destruct (is_gw c r l) eqn:G; [|destruct Hx].
  unfold bcast_inv in B. apply Nat.ltb_lt in B.
  destruct (pmeth c); simpl in Hx; repeat (destruct Hx as [<-|Hx]; [simpl; repeat split; eauto|]); destruct Hx.
Qed.

Lemma no_inverse_bcast_mem_opt c r ls : pk c = 1 -> inverse_comm c r ls = [].
Proof. intros H. unfold inverse_comm, bcast_inv. rewrite H. reflexivity. Qed.

(* preconditioned gradients are broadcast only inside receiver groups, never under COMM-OPT *)
Lemma grad_bcast_only_in_rows_l c r ls x :
  In x (grad_comm c r ls) -> fst (fst (fst x)) = 2 /\ snd (fst (fst x)) = 2 /\ pk c < pW c.
Proof.
  unfold grad_comm. destruct (bcast_grad c) eqn:B; [|intros []].
  unfold bcast_grad in B. apply Nat.ltb_lt in B.
  intros H. apply in_map_iff in H as (l & <- & _). simpl. tauto.
Qed.

Lemma no_grad_bcast_comm_opt c r ls : pk c = pW c -> grad_comm c r ls = [].
Proof. intros H. unfold grad_comm, bcast_grad. rewrite H, Nat.ltb_irrefl. reflexivity. Qed.

(* each factor is allreduced over the whole world exactly once per factor-update step *)
Lemma factor_allreduce_once_l c ls : pW c <> 1 ->
  factor_comm c ls = flat_map (fun l => [(1, 0, sym_numel c (na l), None); (1, 0, sym_numel c (ng l), None)]) ls.
Proof. intros H. unfold factor_comm. destruct (Nat.eqb_spec (pW c) 1); [contradiction|reflexivity]. Qed.

(* nothing is communicated in a world of one *)
Lemma no_comm_world_one_l c r ls f i : pW c = 1 -> pk c = 1 -> step_comm c r ls f i = [].
Proof.
  intros HW Hk. unfold step_comm, factor_comm, inverse_comm, grad_comm, bcast_inv, bcast_grad.
  rewrite HW, Hk. simpl. destruct f, i; reflexivity.
Qed.

(* symmetry-aware mode sends n(n+1)/2 elements per symmetric n x n matrix *)
Lemma symmetric_numel_l c n : sym_numel c n = if psym c then n * (n + 1) / 2 else n * n.
Proof. unfold sym_numel. destruct (psym c); [apply triu_len|reflexivity]. Qed.

(* only the assigned inverse worker computes *)
Lemma only_inverse_worker_computes_l r l :
  (computes_a r l = true <-> r = wa l) /\ (computes_g r l = true <-> r = wg l).
Proof. unfold computes_a, computes_g. rewrite !Nat.eqb_eq. tauto. Qed.

(* reported memory = bytes held: per layer, factors + second-order data *)
Lemma mem_total_split c r ls :
  mem_total c r ls =
    fold_right (fun l acc => pfsz c * (na l * na l + ng l * ng l) + pisz c * (sod_a c r l + sod_g c r l) + acc) 0 ls.
Proof.
  induction ls as [|l t IH]; simpl; [reflexivity|]. rewrite IH. nia.
Qed.
