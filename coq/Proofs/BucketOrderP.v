(* C08: per-group FIFO order of the bucketing logic.  For every group key the tensors
   leave (in fused instances) in exactly the order they were added; what has not left
   yet is the open bucket of that key. *)
From Coq Require Import List Arith ZArith Bool Lia.
Import ListNotations.
From KV Require Import Model.Bucket Proofs.BucketP.

Definition fk (k : nat) (l : list item) : list item := filter (fun it => Nat.eqb (i_key it) k) l.

Lemma fk_app k a b : fk k (a ++ b) = fk k a ++ fk k b.
Proof. apply filter_app. Qed.

Lemma fk_all k l : (forall it, In it l -> i_key it = k) -> fk k l = l.
Proof.
  induction l as [|x l IH]; intros H; simpl; [reflexivity|].
  rewrite (H x (or_introl eq_refl)), Nat.eqb_refl, IH; [reflexivity|].
  intros it Hin. apply H. now right.
Qed.

Lemma fk_none k k2 l : k2 <> k -> (forall it, In it l -> i_key it = k2) -> fk k l = [].
Proof.
  intros Hne. induction l as [|x l IH]; intros H; simpl; [reflexivity|].
  rewrite (H x (or_introl eq_refl)). destruct (Nat.eqb_spec k2 k) as [E|_]; [contradiction|].
  apply IH. intros it Hin. apply H. now right.
Qed.

Definition keyed (s : bstate) : Prop := forall k b, getb s k = Some b -> forall it, In it b -> i_key it = k.

Lemma state_ok_keyed cap s : state_ok cap s -> keyed s.
Proof. intros H k b E. exact (proj1 (H k b E)). Qed.

Lemma getb_notin s k : ~ In k (map fst s) -> getb s k = None.
Proof.
  induction s as [|[k' ob] t IH]; simpl; intros H; [reflexivity|].
  destruct (Nat.eqb_spec k' k) as [E|_]; [exfalso; apply H; now left|]. apply IH. intro; apply H; now right.
Qed.

Lemma fk_pending s k : keys_nodup s -> keyed s -> fk k (pending s) = cur s k.
Proof.
  unfold keys_nodup. induction s as [|[k' ob] t IH]; intros Hnd Hk; [reflexivity|].
  simpl in Hnd. inversion Hnd as [|? ? Hnotin Hnd' ]; subst.
  assert (Hkt : keyed t).
  { intros k2 b E it Hin. destruct (Nat.eq_dec k' k2) as [->|Hne].
    - rewrite (getb_notin t k2 Hnotin) in E. discriminate.
    - apply (Hk k2 b); [|exact Hin]. simpl. destruct (Nat.eqb_spec k' k2); [contradiction|exact E]. }
  rewrite pending_cons, fk_app, (IH Hnd' Hkt). unfold cur. simpl.
  destruct (Nat.eqb_spec k' k) as [->|Hne].
  - rewrite (getb_notin t k Hnotin), app_nil_r.
    destruct ob as [b|]; [|reflexivity]. apply fk_all.
    apply (Hk k b). simpl. now rewrite Nat.eqb_refl.
  - destruct ob as [b|]; [|reflexivity].
    rewrite (fk_none k k' b Hne); [reflexivity|].
    apply (Hk k' b). simpl. now rewrite Nat.eqb_refl.
Qed.

Lemma flush_emits_pending (s : bstate) :
  concat (flat_map (fun kb : nat * option bucket => match snd kb with Some b => emit b | None => [] end) s) = pending s.
Proof.
  unfold pending. induction s as [|[k [b|]] t IH]; simpl; [reflexivity| |exact IH].
  now rewrite concat_app, emit_concat, IH.
Qed.

Lemma cur_flush s k : cur (map (fun kb : nat * option bucket => (fst kb, @None bucket)) s) k = [].
Proof. unfold cur. now rewrite getb_flush. Qed.

Lemma bstep_fifo cap s o k : keys_nodup s -> state_ok cap s ->
  fk k (concat (snd (bstep cap s o))) ++ cur (fst (bstep cap s o)) k = cur s k ++ fk k (added o).
Proof.
  intros Hnd Hok. pose proof (state_ok_keyed cap s Hok) as Hk.
  destruct o as [gsize it|]; simpl.
  - destruct (Nat.eqb gsize 1); simpl; [now rewrite app_nil_r|].
    pose proof (cur_ok cap s (i_key it) Hok) as [Hb _].
    destruct (Nat.ltb cap (bsize (cur s (i_key it)) + i_bytes it) || negb (same_dtype (cur s (i_key it)) it)); simpl;
      rewrite cur_setb; destruct (Nat.eqb_spec (i_key it) k) as [E|Hne].
    + rewrite emit_concat. subst k. now rewrite (fk_all _ _ Hb).
    + rewrite emit_concat, (fk_none k (i_key it) _ Hne Hb). simpl. now rewrite app_nil_r.
    + subst k. reflexivity.
    + now rewrite app_nil_r.
  - rewrite flush_emits_pending, cur_flush, !app_nil_r. now apply fk_pending.
Qed.

Lemma brun_fifo cap ops k : forall s, keys_nodup s -> state_ok cap s ->
  fk k (concat (snd (brun cap s ops))) ++ cur (fst (brun cap s ops)) k = cur s k ++ fk k (flat_map added ops).
Proof.
  induction ops as [|o t IH]; intros s Hnd Hok; simpl; [now rewrite app_nil_r|].
  pose proof (bstep_fifo cap s o k Hnd Hok) as H1.
  pose proof (bstep_ok cap s o Hnd Hok) as [Hok1 _].
  pose proof (bstep_conserve cap s o Hnd) as [Hnd1 _].
  destruct (bstep cap s o) as [s1 e1]. simpl in *.
  specialize (IH s1 Hnd1 Hok1). destruct (brun cap s1 t) as [s2 e2]. simpl in *.
  rewrite concat_app, !fk_app, <- app_assoc, IH, app_assoc, H1, <- app_assoc. reflexivity.
Qed.
