From Coq Require Import List Arith Bool Lia.
Import ListNotations.
From KV Require Import Model.Triu Model.Coll Model.Greedy Model.Neox Model.Shard Model.NeoxComm.
From KV Require Import Proofs.NeoxP Proofs.KfacCommP.

(* ---------- indexing a grid of groups ---------- *)
Lemma nth_grid {A} (f : nat -> nat -> A) dflt D : forall P a p d, p < P -> d < D ->
  nth (p * D + d) (flat_map (fun q => map (f q) (seq 0 D)) (seq a P)) dflt = f (a + p) d.
Proof.
  induction P as [|P IH]; intros a p d Hp Hd; [lia|].
  cbn [seq flat_map]. destruct p as [|p].
  - cbn [Nat.mul Nat.add]. rewrite app_nth1 by (rewrite map_length, seq_length; exact Hd).
    rewrite (nth_indep _ dflt (f a 0)) by (rewrite map_length, seq_length; exact Hd).
    rewrite (map_nth (f a)), seq_nth by exact Hd. now rewrite Nat.add_0_r.
  - rewrite app_nth2 by (rewrite map_length, seq_length; lia). rewrite map_length, seq_length.
    replace (S p * D + d - D) with (p * D + d) by lia. rewrite IH by lia. f_equal. lia.
Qed.

Lemma grid_length {A} (f : nat -> nat -> A) D : forall P a, length (flat_map (fun q => map (f q) (seq 0 D)) (seq a P)) = P * D.
Proof. induction P as [|P IH]; intros a; [reflexivity|]. cbn [seq flat_map]. rewrite app_length, map_length, seq_length, IH. lia. Qed.

Section P.
Variable c : nxcfg.
Let P := nP c. Let D := nD c. Let M := nM c.
Hypothesis HD : 0 < D.
Hypothesis HM : 0 < M.

Definition mp_list (p d : nat) : list nat := map (fun m => rank_of D M p d m) (seq 0 M).
Definition dp_list (p m : nat) : list nat := map (fun d => rank_of D M p d m) (seq 0 D).

Lemma mem_mp p d : p < P -> d < D -> mem_of (nmembers c) (g_mp c p d) = mp_list p d.
Proof.
  intros Hp Hd. unfold mem_of, nmembers, g_mp. cbn [Nat.add nth]. fold P D M.
  rewrite app_nth1 by (rewrite grid_length; nia).
  rewrite (nth_grid (fun p d => map (fun m => rank_of D M p d m) (seq 0 M)) [] D P 0 p d Hp Hd). reflexivity.
Qed.

Lemma mem_dp p m : p < P -> m < M -> mem_of (nmembers c) (g_dp c p m) = dp_list p m.
Proof.
  intros Hp Hm. unfold mem_of, nmembers, g_dp. cbn [Nat.add nth]. fold P D M.
  rewrite app_nth2 by (rewrite grid_length; lia). rewrite grid_length.
  replace (P * D + (p * M + m) - P * D) with (p * M + m) by lia.
  rewrite app_nth1 by (rewrite grid_length; nia).
  rewrite (nth_grid (fun p m => map (fun d => rank_of D M p d m) (seq 0 D)) [] M P 0 p m Hp Hm). reflexivity.
Qed.

Lemma mem_st p : p < P -> mem_of (nmembers c) (g_st c p) = seq (p * (D * M)) (D * M).
Proof.
  intros Hp. unfold mem_of, nmembers, g_st. cbn [Nat.add nth]. fold P D M.
  rewrite app_nth2 by (rewrite grid_length; lia). rewrite grid_length.
  replace (P * D + P * M + p - P * D) with (P * M + p) by lia.
  rewrite app_nth2 by (rewrite grid_length; lia). rewrite grid_length.
  replace (P * M + p - P * M) with p by lia.
  rewrite (nth_indep _ [] (seq (0 * (D * M)) (D * M))) by (rewrite map_length, seq_length; exact Hp).
  rewrite (map_nth (fun p => seq (p * (D * M)) (D * M))), seq_nth by exact Hp. reflexivity.
Qed.

Lemma existsb_In r l : existsb (Nat.eqb r) l = true <-> In r l.
Proof. apply existsb_eqb_In. Qed.

Lemma memb_mp r p d : p < P -> d < D ->
  Coll.memb (nmembers c) r (g_mp c p d) = Nat.eqb (pc c r) p && Nat.eqb (dc c r) d.
Proof.
  intros Hp Hd. unfold Coll.memb. rewrite (mem_mp p d Hp Hd). apply bool_eq.
  rewrite existsb_In, andb_true_iff, !Nat.eqb_eq. unfold mp_list. rewrite in_map_iff. split.
  - intros (m & <- & Hm). apply in_seq in Hm. unfold pc, dc. fold D M.
    destruct (rank_coords D M HD HM p d m Hd ltac:(lia)) as (A & B & _). tauto.
  - intros [<- <-]. exists (mc c r). unfold pc, dc, mc. fold D M. split; [apply (coords_rank D M HD HM)|].
    apply in_seq. destruct (coords_bounds D M HD HM r). lia.
Qed.

Lemma memb_dp r p m : p < P -> m < M ->
  Coll.memb (nmembers c) r (g_dp c p m) = Nat.eqb (pc c r) p && Nat.eqb (mc c r) m.
Proof.
  intros Hp Hm. unfold Coll.memb. rewrite (mem_dp p m Hp Hm). apply bool_eq.
  rewrite existsb_In, andb_true_iff, !Nat.eqb_eq. unfold dp_list. rewrite in_map_iff. split.
  - intros (d & <- & Hd). apply in_seq in Hd. unfold pc, mc. fold D M.
    destruct (rank_coords D M HD HM p d m ltac:(lia) Hm) as (A & _ & B). tauto.
  - intros [<- <-]. exists (dc c r). unfold pc, dc, mc. fold D M. split; [apply (coords_rank D M HD HM)|].
    apply in_seq. destruct (coords_bounds D M HD HM r). lia.
Qed.

Lemma memb_st r p : p < P -> Coll.memb (nmembers c) r (g_st c p) = Nat.eqb (pc c r) p.
Proof.
  intros Hp. unfold Coll.memb. rewrite (mem_st p Hp). apply bool_eq.
  rewrite existsb_In, Nat.eqb_eq, in_seq. unfold pc, c_pipe. fold D M. split.
  - intros H. symmetry. apply Nat.div_unique with (r - p * (D * M)); lia.
  - intros <-. pose proof (Nat.div_mod r (D * M) ltac:(nia)). pose proof (Nat.mod_upper_bound r (D * M) ltac:(nia)). lia.
Qed.

(* ---------- filtering ---------- *)
Notation mineN l r := (Coll.mine (nmembers c) l r).

Lemma mine_cons i l r : mineN (i :: l) r = (if Coll.memb (nmembers c) r (igrp i) then [i] else []) ++ mineN l r.
Proof. unfold mine. cbn [filter]. now destruct (Coll.memb (nmembers c) r (igrp i)). Qed.

Lemma mine_nil r : mineN [] r = [].
Proof. reflexivity. Qed.

Lemma mine_flat_map {A} (f : A -> list inst) l r : mineN (flat_map f l) r = flat_map (fun x => mineN (f x) r) l.
Proof. induction l as [|x t IH]; [reflexivity|]. cbn [flat_map]. now rewrite mine_app, IH. Qed.

(* the instances over all model-parallel groups of a stage: rank r keeps its own *)
Lemma mine_mp_row r p (f : nat -> inst) : p < P -> (forall d, igrp (f d) = g_mp c p d) ->
  mineN (map f (seq 0 D)) r = if Nat.eqb (pc c r) p then [f (dc c r)] else [].
Proof.
  intros Hp Hg. unfold mine. rewrite filter_map.
  rewrite (filter_ext_in' _ (fun d => Nat.eqb (pc c r) p && Nat.eqb (dc c r) d)).
  - destruct (Nat.eqb (pc c r) p); cbn [andb].
    + rewrite filter_eq_seq; [reflexivity|]. destruct (coords_bounds D M HD HM r). unfold dc. fold D M. lia.
    + clear. induction (seq 0 D); [reflexivity|exact IHl].
  - intros d Hd. apply in_seq in Hd. rewrite Hg. apply memb_mp; [exact Hp|lia].
Qed.

Lemma mine_dp_row r p (f : nat -> inst) : p < P -> (forall m, igrp (f m) = g_dp c p m) ->
  mineN (map f (seq 0 M)) r = if Nat.eqb (pc c r) p then [f (mc c r)] else [].
Proof.
  intros Hp Hg. unfold mine. rewrite filter_map.
  rewrite (filter_ext_in' _ (fun m => Nat.eqb (pc c r) p && Nat.eqb (mc c r) m)).
  - destruct (Nat.eqb (pc c r) p); cbn [andb].
    + rewrite filter_eq_seq; [reflexivity|]. destruct (coords_bounds D M HD HM r). unfold mc. fold D M. lia.
    + clear. induction (seq 0 M); [reflexivity|exact IHl].
  - intros m Hm. apply in_seq in Hm. rewrite Hg. apply memb_dp; [exact Hp|lia].
Qed.

Lemma mine_group r g (l : list inst) : (forall i, In i l -> igrp i = g) ->
  mineN l r = if Coll.memb (nmembers c) r g then l else [].
Proof. apply filter_same_group. Qed.

(* ---------- one layer ---------- *)
Lemma inv_coords_lt (l : nxlayer) : dc c (x_inv l) < D /\ mc c (x_inv l) < M.
Proof. unfold dc, mc. fold D M. apply (coords_bounds D M HD HM). Qed.

Lemma fwd_proj r p l : p < P -> mineN (fwd_all c p l) r = if Nat.eqb (pc c r) p then fwd_rank c r l else [].
Proof.
  intros Hp. unfold fwd_all, fwd_rank. fold D M. rewrite mine_app.
  destruct (inv_coords_lt l) as [Hid Him].
  assert (E1 : mineN (match x_par l with
                      | ParInput => if Nat.ltb 1 M then map (fun d => ins (g_mp c p d) 3 (nxdt c) (x_rows l * (x_in l / M)) 0) (seq 0 D) else []
                      | ParOutput => [] end) r
               = if Nat.eqb (pc c r) p then match x_par l with
                      | ParInput => if Nat.ltb 1 M then [ins (g_mp c (pc c r) (dc c r)) 3 (nxdt c) (x_rows l * (x_in l / M)) 0] else []
                      | ParOutput => [] end else []).
  { destruct (x_par l); [|now destruct (Nat.eqb (pc c r) p)].
    destruct (Nat.ltb 1 M); [|now destruct (Nat.eqb (pc c r) p)].
    rewrite (mine_mp_row r p (fun d => ins (g_mp c p d) 3 (nxdt c) (x_rows l * (x_in l / M)) 0) Hp (fun d => eq_refl)). destruct (Nat.eqb_spec (pc c r) p) as [->|]; reflexivity. }
  rewrite E1. clear E1.
  destruct (Nat.eqb_spec (pc c r) p) as [Epc|Npc].
  - subst p. f_equal. destruct (x_par l).
    + destruct (Nat.ltb 1 D); [|now rewrite andb_false_r].
      rewrite mine_cons, mine_nil, app_nil_r. cbn [igrp ins]. rewrite (memb_dp r (pc c r) (mc c (x_inv l)) Hp Him).
      rewrite Nat.eqb_refl. cbn [andb]. rewrite andb_true_r.
      destruct (Nat.eqb_spec (mc c r) (mc c (x_inv l))) as [->|]; reflexivity.
    + destruct (Nat.ltb 1 (D * M)); [|reflexivity].
      rewrite mine_cons, mine_nil, app_nil_r. cbn [igrp ins]. rewrite (memb_st r (pc c r) Hp), Nat.eqb_refl. reflexivity.
  - cbn [app]. destruct (x_par l).
    + destruct (Nat.ltb 1 D); [|reflexivity].
      rewrite mine_cons, mine_nil, app_nil_r. cbn [igrp ins]. rewrite (memb_dp r p (mc c (x_inv l)) Hp Him).
      apply Nat.eqb_neq in Npc. now rewrite Npc.
    + destruct (Nat.ltb 1 (D * M)); [|reflexivity].
      rewrite mine_cons, mine_nil, app_nil_r. cbn [igrp ins]. rewrite (memb_st r p Hp). apply Nat.eqb_neq in Npc. now rewrite Npc.
Qed.

Lemma bwd_proj r p l : p < P -> mineN (bwd_all c p l) r = if Nat.eqb (pc c r) p then bwd_rank c r l else [].
Proof.
  intros Hp. unfold bwd_all, bwd_rank. fold D M. rewrite mine_app.
  destruct (inv_coords_lt l) as [Hid Him].
  assert (E1 : mineN (match x_par l with
                      | ParOutput => if Nat.ltb 1 M then map (fun d => ins (g_mp c p d) 3 (nxdt c) (x_rows l * (x_out l / M)) 0) (seq 0 D) else []
                      | ParInput => [] end) r
               = if Nat.eqb (pc c r) p then match x_par l with
                      | ParOutput => if Nat.ltb 1 M then [ins (g_mp c (pc c r) (dc c r)) 3 (nxdt c) (x_rows l * (x_out l / M)) 0] else []
                      | ParInput => [] end else []).
  { destruct (x_par l); [now destruct (Nat.eqb (pc c r) p)|].
    destruct (Nat.ltb 1 M); [|now destruct (Nat.eqb (pc c r) p)].
    rewrite (mine_mp_row r p (fun d => ins (g_mp c p d) 3 (nxdt c) (x_rows l * (x_out l / M)) 0) Hp (fun d => eq_refl)). destruct (Nat.eqb_spec (pc c r) p) as [->|]; reflexivity. }
  rewrite E1. clear E1.
  destruct (Nat.eqb_spec (pc c r) p) as [Epc|Npc].
  - subst p. f_equal. destruct (x_par l).
    + destruct (Nat.ltb 1 (D * M)); [|reflexivity].
      rewrite mine_cons, mine_nil, app_nil_r. cbn [igrp ins]. rewrite (memb_st r (pc c r) Hp), Nat.eqb_refl. reflexivity.
    + destruct (Nat.ltb 1 D); [|now rewrite andb_false_r].
      rewrite mine_cons, mine_nil, app_nil_r. cbn [igrp ins]. rewrite (memb_dp r (pc c r) (mc c (x_inv l)) Hp Him).
      rewrite Nat.eqb_refl. cbn [andb]. rewrite andb_true_r.
      destruct (Nat.eqb_spec (mc c r) (mc c (x_inv l))) as [->|]; reflexivity.
  - cbn [app]. destruct (x_par l).
    + destruct (Nat.ltb 1 (D * M)); [|reflexivity].
      rewrite mine_cons, mine_nil, app_nil_r. cbn [igrp ins]. rewrite (memb_st r p Hp). apply Nat.eqb_neq in Npc. now rewrite Npc.
    + destruct (Nat.ltb 1 D); [|reflexivity].
      rewrite mine_cons, mine_nil, app_nil_r. cbn [igrp ins]. rewrite (memb_dp r p (mc c (x_inv l)) Hp Him).
      apply Nat.eqb_neq in Npc. now rewrite Npc.
Qed.

Lemma pre_msgs_group l g primary i : In i (pre_msgs c l g primary) -> igrp i = g.
Proof.
  unfold pre_msgs. destruct (Nat.ltb 1 (nM c)); [|intros []].
  intros H. repeat (apply in_app_or in H as [H|H]); try (destruct H as [<-|[]]; reflexivity).
  - destruct (x_bias l); [|destruct H]. destruct (x_par l); [destruct H|destruct H as [<-|[]]; reflexivity].
  - destruct (x_bias l); [|destruct H]. destruct (x_par l); destruct H as [<-|[]]; reflexivity.
Qed.

Lemma grad_proj r p l : p < P -> mineN (grad_all c p l) r = if Nat.eqb (pc c r) p then grad_rank c r l else [].
Proof.
  intros Hp. unfold grad_all, grad_rank. fold D M. rewrite mine_app.
  destruct (inv_coords_lt l) as [Hid Him].
  rewrite (mine_group r (g_mp c p (dc c (x_inv l))) _ (pre_msgs_group l _ _)).
  rewrite (memb_mp r p (dc c (x_inv l)) Hp Hid).
  assert (E2 : mineN (if Nat.ltb 1 D then map (fun m => ins (g_dp c p m) 2 (nxdt c) (gshard c l) (S (rank_of D M p (dc c (x_inv l)) m))) (seq 0 M) else []) r
             = if Nat.eqb (pc c r) p then (if Nat.ltb 1 D then [ins (g_dp c (pc c r) (mc c r)) 2 (nxdt c) (gshard c l) (S (rank_of D M (pc c r) (dc c (x_inv l)) (mc c r)))] else []) else []).
  { destruct (Nat.ltb 1 D); [|now destruct (Nat.eqb (pc c r) p)].
    rewrite (mine_dp_row r p (fun m => ins (g_dp c p m) 2 (nxdt c) (gshard c l) (S (rank_of D M p (dc c (x_inv l)) m))) Hp (fun m => eq_refl)). destruct (Nat.eqb_spec (pc c r) p) as [->|]; reflexivity. }
  rewrite E2. clear E2.
  destruct (Nat.eqb_spec (pc c r) p) as [Epc|Npc]; cbn [andb]; [|reflexivity].
  subst p. f_equal. destruct (Nat.eqb_spec (dc c r) (dc c (x_inv l))) as [E|]; [|reflexivity]. now rewrite E.
Qed.

(* ---------- one event, one history ---------- *)
Lemma flat_map_if {A} (b : bool) (f : A -> list inst) l : flat_map (fun x => if b then f x else []) l = if b then flat_map f l else [].
Proof. destruct b; [reflexivity|]. induction l; [reflexivity|exact IHl]. Qed.

Lemma flat_map_ext_in' {A} (f h : A -> list inst) l : (forall x, In x l -> f x = h x) -> flat_map f l = flat_map h l.
Proof. induction l as [|x t IH]; intros H; [reflexivity|]. cbn [flat_map]. rewrite (H x (or_introl eq_refl)), IH; [reflexivity|]. intros y Hy. apply H. now right. Qed.

Lemma pick_none (g : nat -> list inst) q : forall n a, q < a ->
  flat_map (fun p => if Nat.eqb q p then g p else []) (seq a n) = [].
Proof.
  induction n as [|n IH]; intros a H; [reflexivity|]. cbn [seq flat_map].
  destruct (Nat.eqb_spec q a); [lia|]. cbn [app]. apply IH. lia.
Qed.

Lemma pick_seq (g : nat -> list inst) q : forall n a, a <= q < a + n ->
  flat_map (fun p => if Nat.eqb q p then g p else []) (seq a n) = g q.
Proof.
  induction n as [|n IH]; intros a H; [lia|]. cbn [seq flat_map].
  destruct (Nat.eqb_spec q a) as [E|N].
  - subst a. rewrite pick_none by lia. apply app_nil_r.
  - cbn [app]. apply IH. lia.
Qed.

Lemma stage_pick (g : nat -> list inst) r : pc c r < P ->
  flat_map (fun p => if Nat.eqb (pc c r) p then g p else []) (seq 0 P) = g (pc c r).
Proof. intros H. apply pick_seq. lia. Qed.

Lemma nx_event_proj layers r e : r < nW c -> nx_rank c layers r e = mineN (nx_all c layers e) r.
Proof.
  intros Hr. assert (Hp : pc c r < P).
  { unfold pc. fold D M. apply (pipe_bound D M HD HM P). unfold nW in Hr. fold P D M in Hr. exact Hr. }
  unfold nx_all. rewrite mine_flat_map. cbv zeta. fold P.
  assert (G : forall p, In p (seq 0 P) ->
    mineN (match e with
           | NFwd i => match nth_error (layers p) i with Some l => fwd_all c p l | None => [] end
           | NBwd i => match nth_error (layers p) i with Some l => bwd_all c p l | None => [] end
           | NStep => flat_map (grad_all c p) (rev (layers p))
           | NUser ns => if Nat.ltb 1 (nD c) then flat_map (fun n => map (fun m => ins (g_dp c p m) 1 (nxdt c) n 0) (seq 0 (nM c))) ns else []
           end) r
    = if Nat.eqb (pc c r) p then
        match e with
        | NFwd i => match nth_error (layers p) i with Some l => fwd_rank c r l | None => [] end
        | NBwd i => match nth_error (layers p) i with Some l => bwd_rank c r l | None => [] end
        | NStep => flat_map (grad_rank c r) (rev (layers p))
        | NUser ns => if Nat.ltb 1 (nD c) then map (fun n => ins (g_dp c p (mc c r)) 1 (nxdt c) n 0) ns else []
        end else []).
  { intros p Hin. apply in_seq in Hin. assert (Hp' : p < P) by lia. destruct e.
    - destruct (nth_error (layers p) i) as [l|]; [now apply fwd_proj|now destruct (Nat.eqb (pc c r) p)].
    - destruct (nth_error (layers p) i) as [l|]; [now apply bwd_proj|now destruct (Nat.eqb (pc c r) p)].
    - rewrite mine_flat_map. rewrite (flat_map_ext _ (fun l => if Nat.eqb (pc c r) p then grad_rank c r l else [])) by (intros l; now apply grad_proj).
      apply flat_map_if.
    - fold D M. destruct (Nat.ltb 1 D); [|now destruct (Nat.eqb (pc c r) p)].
      rewrite mine_flat_map.
      rewrite (flat_map_ext _ (fun n => if Nat.eqb (pc c r) p then [ins (g_dp c p (mc c r)) 1 (nxdt c) n 0] else [])).
      + rewrite flat_map_if. destruct (Nat.eqb (pc c r) p); [|reflexivity]. clear. induction ns as [|n t IHn]; [reflexivity|]. cbn [flat_map map app]. now rewrite IHn.
      + intros n. apply (mine_dp_row r p (fun m => ins (g_dp c p m) 1 (nxdt c) n 0) Hp' (fun m => eq_refl)). }
  rewrite (flat_map_ext_in' _ _ _ G). rewrite (stage_pick _ r Hp). cbv beta.
  unfold nx_rank. cbv zeta. destruct e; reflexivity.
Qed.
End P.

Lemma neox_comm_proj_l c layers h r : 0 < nD c -> 0 < nM c -> r < nW c ->
  neox_issues c layers r h = Coll.mine (nmembers c) (neox_order c layers h) r.
Proof.
  intros HD HM Hr. unfold neox_issues, neox_order.
  induction h as [|e t IH]; [reflexivity|]. cbn [flat_map]. rewrite mine_app, <- IH.
  f_equal. now apply nx_event_proj.
Qed.

(* every member of every group is a rank of the world *)
Lemma nmembers_in_world c g r : 0 < nD c -> 0 < nM c -> In r (Coll.mem_of (nmembers c) g) -> r < nW c.
Proof.
  intros HD HM H. unfold Coll.mem_of in H.
  destruct (nth_in_or_default g (nmembers c) []) as [Hin|E]; [|rewrite E in H; destruct H].
  set (l := nth g (nmembers c) []) in *. unfold nmembers in Hin. unfold nW in *.
  destruct Hin as [E|Hin]; [rewrite <- E in H; apply in_seq in H; lia|].
  apply in_app_or in Hin as [Hin|Hin]; [|apply in_app_or in Hin as [Hin|Hin]].
  - apply in_flat_map in Hin as (p & Hp & Hin). apply in_map_iff in Hin as (d & E & Hd). rewrite <- E in H.
    apply in_map_iff in H as (m & <- & Hm). apply in_seq in Hp, Hd, Hm. apply (rank_bound (nD c) (nM c) HD HM); lia.
  - apply in_flat_map in Hin as (p & Hp & Hin). apply in_map_iff in Hin as (m & E & Hm). rewrite <- E in H.
    apply in_map_iff in H as (d & <- & Hd). apply in_seq in Hp, Hd, Hm. apply (rank_bound (nD c) (nM c) HD HM); lia.
  - apply in_map_iff in Hin as (p & E & Hp). rewrite <- E in H. apply in_seq in H, Hp. nia.
Qed.
