From Coq Require Import List Arith ZArith Bool Lia Permutation.
Import ListNotations.
From KV Require Import Model.Bucket.

(* ---------- dictionary facts ---------- *)
Lemma getb_setb_same s k ob : getb (setb s k ob) k = ob.
Proof.
  induction s as [|[k' ob'] t IH]; simpl; [now rewrite Nat.eqb_refl|].
  destruct (Nat.eqb_spec k' k) as [->|Hne]; simpl; [now rewrite Nat.eqb_refl|].
  destruct (Nat.eqb_spec k' k); [contradiction|assumption].
Qed.

Lemma getb_setb_other s k k2 ob : k2 <> k -> getb (setb s k ob) k2 = getb s k2.
Proof.
  intros Hne. induction s as [|[k' ob'] t IH]; simpl.
  - destruct (Nat.eqb_spec k k2); [congruence|reflexivity].
  - destruct (Nat.eqb_spec k' k) as [->|Hk]; simpl.
    + destruct (Nat.eqb_spec k k2); [congruence|reflexivity].
    + destruct (Nat.eqb_spec k' k2); [reflexivity|assumption].
Qed.

(* all tensors waiting in open buckets *)
Definition pending (s : bstate) : list item :=
  flat_map (fun kb => match snd kb with Some b => b | None => [] end) s.

Definition keys_nodup (s : bstate) : Prop := NoDup (map fst s).

Lemma setb_keys s k ob x : In x (map fst (setb s k ob)) <-> x = k \/ In x (map fst s).
Proof.
  induction s as [|[k' ob'] t IH]; simpl; [intuition (subst; auto)|].
  destruct (Nat.eqb_spec k' k) as [->|Hne]; simpl; [intuition (subst; auto)|].
  rewrite IH. intuition (subst; auto).
Qed.

Lemma setb_nodup s k ob : keys_nodup s -> keys_nodup (setb s k ob).
Proof.
  unfold keys_nodup. induction s as [|[k' ob'] t IH]; simpl; intros H; [repeat constructor; simpl; tauto|].
  inversion H as [|? ? Hnotin Hnd]; subst.
  destruct (Nat.eqb_spec k' k) as [->|Hne]; simpl; [constructor; assumption|].
  constructor; [|now apply IH]. rewrite setb_keys. intros [->|Hin]; [congruence|contradiction].
Qed.

Definition item_eq_dec : forall a b : item, {a = b} + {a <> b}.
Proof. decide equality; apply Nat.eq_dec. Defined.
Definition cnt (l : list item) (x : item) : nat := count_occ item_eq_dec l x.

Lemma cnt_app a b x : cnt (a ++ b) x = cnt a x + cnt b x.
Proof. apply count_occ_app. Qed.

Local Arguments pending : simpl never.
Local Arguments cnt : simpl never.

Ltac cnt_lia := repeat match goal with |- context [cnt ?l ?x] => generalize (cnt l x); intro end; lia.

Lemma cnt_nil x : cnt [] x = 0.
Proof. reflexivity. Qed.

Lemma pending_cons k ob t :
  pending ((k, ob) :: t) = (match ob with Some b => b | None => [] end) ++ pending t.
Proof. reflexivity. Qed.
Lemma pending_nil : pending [] = [].
Proof. reflexivity. Qed.

Definition others (s : bstate) (k : nat) : bstate := filter (fun kb => negb (Nat.eqb (fst kb) k)) s.

Lemma others_id t k : ~ In k (map fst t) -> others t k = t.
Proof.
  unfold others. induction t as [|[k2 o2] t IH]; simpl; intros H; [reflexivity|].
  destruct (Nat.eqb_spec k2 k) as [->|]; simpl.
  - exfalso. apply H. now left.
  - f_equal. apply IH. intros Hin. apply H. now right.
Qed.

(* pending after replacing the bucket of key k (counting occurrences) *)
Lemma pending_setb s k b x : keys_nodup s ->
  cnt (pending (setb s k (Some b))) x = cnt b x + cnt (pending (others s k)) x.
Proof.
  unfold keys_nodup. induction s as [|[k' ob'] t IH]; simpl; intros H.
  - rewrite pending_cons, cnt_app. reflexivity.
  - inversion H as [|? ? Hnotin Hnd]; subst. unfold others. simpl.
    destruct (Nat.eqb_spec k' k) as [->|Hne]; simpl.
    + rewrite pending_cons, cnt_app. fold (others t k). now rewrite (others_id t k Hnotin).
    + rewrite !pending_cons, !cnt_app. fold (others t k). rewrite IH by assumption. lia.
Qed.

Lemma pending_split s k x : keys_nodup s ->
  cnt (pending s) x = cnt (cur s k) x + cnt (pending (others s k)) x.
Proof.
  unfold keys_nodup, cur. induction s as [|[k' ob'] t IH]; simpl; intros H; [reflexivity|].
  inversion H as [|? ? Hnotin Hnd]; subst. unfold others. simpl.
  destruct (Nat.eqb_spec k' k) as [->|Hne]; simpl.
  - rewrite pending_cons, cnt_app. fold (others t k). now rewrite (others_id t k Hnotin).
  - rewrite !pending_cons, !cnt_app. fold (others t k). rewrite IH by assumption. cnt_lia.
Qed.

Lemma emit_concat b : concat (emit b) = b.
Proof. destruct b; simpl; [reflexivity|now rewrite app_nil_r]. Qed.

(* ---------- conservation: every added tensor is pending or emitted, exactly once ---------- *)
Definition added (o : bop) : list item :=
  match o with Add gsize it => if Nat.eqb gsize 1 then [] else [it] | Flush => [] end.

Lemma bstep_conserve cap s o : keys_nodup s ->
  keys_nodup (fst (bstep cap s o)) /\
  forall x, cnt (pending (fst (bstep cap s o)) ++ concat (snd (bstep cap s o))) x = cnt (pending s ++ added o) x.
Proof.
  intros Hnd. destruct o as [gsize it|]; simpl.
  - destruct (Nat.eqb gsize 1); simpl; [split; [assumption|intros x; now rewrite !app_nil_r]|].
    set (b := cur s (i_key it)).
    destruct (Nat.ltb cap (bsize b + i_bytes it) || negb (same_dtype b it)); simpl.
    + split; [now apply setb_nodup|]. intros x. rewrite emit_concat, !cnt_app, pending_setb by assumption.
      rewrite (pending_split s (i_key it) x Hnd). subst b. cnt_lia.
    + split; [now apply setb_nodup|]. intros x. rewrite app_nil_r, !cnt_app, pending_setb by assumption.
      rewrite (pending_split s (i_key it) x Hnd). subst b. rewrite cnt_app. cnt_lia.
  - split.
    + unfold keys_nodup in *. now rewrite map_map.
    + intros x. rewrite app_nil_r.
      assert (E0 : pending (map (fun kb => (fst kb, None)) s) = []).
      { unfold pending. clear. induction s as [|[k ob] t IH]; simpl; [reflexivity|]. apply IH. }
      rewrite E0. simpl. clear. unfold pending.
      induction s as [|[k [b|]] t IH]; simpl; [reflexivity| |assumption].
      rewrite concat_app, emit_concat, !cnt_app. now rewrite IH.
Qed.

Lemma brun_conserve cap ops : forall s, keys_nodup s ->
  keys_nodup (fst (brun cap s ops)) /\
  forall x, cnt (pending (fst (brun cap s ops)) ++ concat (snd (brun cap s ops))) x
          = cnt (pending s ++ flat_map added ops) x.
Proof.
  induction ops as [|o t IH]; intros s Hnd; simpl.
  - split; [assumption|reflexivity].
  - pose proof (bstep_conserve cap s o Hnd) as [Hnd1 P1].
    destruct (bstep cap s o) as [s1 e1]. simpl in *.
    specialize (IH s1 Hnd1). destruct (brun cap s1 t) as [s2 e2]. simpl in *. destruct IH as [Hnd2 P2].
    split; [assumption|]. intros x. specialize (P1 x). specialize (P2 x).
    rewrite concat_app. rewrite !cnt_app in *. lia.
Qed.

Lemma flush_leaves_nothing_l cap s : pending (fst (bstep cap s Flush)) = [] /\
  forall k, getb (fst (bstep cap s Flush)) k = None.
Proof.
  simpl. split.
  - unfold pending. induction s as [|[k ob] t IH]; simpl; [reflexivity|assumption].
  - intros k. induction s as [|[k' ob] t IH]; simpl; [reflexivity|].
    destruct (Nat.eqb k' k); [reflexivity|assumption].
Qed.

(* ---------- invariants of open buckets and of emitted instances ---------- *)
Definition bucket_ok (cap k : nat) (b : bucket) : Prop :=
  (forall it, In it b -> i_key it = k) /\
  (bsize b <= cap \/ length b <= 1) /\
  (forall x y, In x b -> In y b -> i_dtype x = i_dtype y).

Definition state_ok (cap : nat) (s : bstate) : Prop :=
  forall k b, getb s k = Some b -> bucket_ok cap k b.

Definition emitted_ok (cap : nat) (b : bucket) : Prop :=
  b <> [] /\ exists k, bucket_ok cap k b.

Lemma bsize_app b it : bsize (b ++ [it]) = bsize b + i_bytes it.
Proof. induction b as [|x b IH]; simpl; lia. Qed.

Lemma same_dtype_spec b it : same_dtype b it = true ->
  (forall x y, In x b -> In y b -> i_dtype x = i_dtype y) ->
  forall x, In x b -> i_dtype x = i_dtype it.
Proof.
  destruct b as [|h t]; simpl; intros E H x Hx; [destruct Hx|].
  apply Nat.eqb_eq in E. rewrite <- E. apply H; [assumption|now left].
Qed.

Lemma getb_In s k b : getb s k = Some b -> In (k, Some b) s.
Proof.
  induction s as [|[k' ob] t IH]; simpl; [discriminate|].
  destruct (Nat.eqb_spec k' k) as [->|]; [intros ->; now left|intros H; right; now apply IH].
Qed.

Lemma In_getb s k ob : keys_nodup s -> In (k, ob) s -> getb s k = ob.
Proof.
  unfold keys_nodup. induction s as [|[k' ob'] t IH]; simpl; intros Hnd Hin; [destruct Hin|].
  inversion Hnd as [|? ? Hnotin Hnd']; subst.
  destruct Hin as [E|Hin].
  - inversion E; subst. now rewrite Nat.eqb_refl.
  - destruct (Nat.eqb_spec k' k) as [->|]; [|now apply IH].
    exfalso. apply Hnotin. apply in_map_iff. exists (k, ob). now split.
Qed.

Lemma bucket_ok_single cap it : bucket_ok cap (i_key it) [it].
Proof.
  unfold bucket_ok. split; [|split].
  - intros x Hx. destruct Hx as [Hx|Hx]; [now subst|destruct Hx].
  - right. simpl. lia.
  - intros x y Hx Hy. destruct Hx as [Hx|Hx]; [|destruct Hx]. destruct Hy as [Hy|Hy]; [|destruct Hy]. now subst.
Qed.

Lemma bucket_ok_nil cap k : bucket_ok cap k [].
Proof. unfold bucket_ok. split; [intros x []|split; [right; simpl; lia|intros x y []]]. Qed.

Lemma bucket_ok_snoc cap b it : bucket_ok cap (i_key it) b ->
  bsize b + i_bytes it <= cap -> same_dtype b it = true -> bucket_ok cap (i_key it) (b ++ [it]).
Proof.
  intros (Hk & Hsz & Hdt) Hcap Edt. unfold bucket_ok. split; [|split].
  - intros x Hx. apply in_app_or in Hx. destruct Hx as [Hx|Hx]; [now apply Hk|].
    destruct Hx as [Hx|Hx]; [now subst|destruct Hx].
  - left. now rewrite bsize_app.
  - pose proof (same_dtype_spec b it Edt Hdt) as Hs.
    intros x y Hx Hy. apply in_app_or in Hx. apply in_app_or in Hy.
    destruct Hx as [Hx|Hx]; destruct Hy as [Hy|Hy].
    + now apply Hdt.
    + destruct Hy as [Hy|Hy]; [subst; now apply Hs|destruct Hy].
    + destruct Hx as [Hx|Hx]; [subst; symmetry; now apply Hs|destruct Hx].
    + destruct Hx as [Hx|Hx]; [|destruct Hx]. destruct Hy as [Hy|Hy]; [|destruct Hy]. now subst.
Qed.

Lemma state_ok_setb cap s k b : state_ok cap s -> bucket_ok cap k b -> state_ok cap (setb s k (Some b)).
Proof.
  intros Hok Hb k2 b2 H2. destruct (Nat.eq_dec k2 k) as [->|Hne].
  - rewrite getb_setb_same in H2. inversion H2; subst. exact Hb.
  - rewrite getb_setb_other in H2 by assumption. now apply Hok.
Qed.

Lemma emit_ok cap k b : bucket_ok cap k b -> forall b2, In b2 (emit b) -> emitted_ok cap b2.
Proof.
  intros Hb b2 Hin. destruct b as [|h t]; simpl in Hin; [destruct Hin|].
  destruct Hin as [Hin|Hin]; [|destruct Hin]. subst b2. split; [discriminate|]. exists k. exact Hb.
Qed.

Lemma cur_ok cap s k : state_ok cap s -> bucket_ok cap k (cur s k).
Proof.
  intros Hok. unfold cur. destruct (getb s k) as [b0|] eqn:E; [now apply Hok|apply bucket_ok_nil].
Qed.

Lemma bstep_ok cap s o : keys_nodup s -> state_ok cap s ->
  state_ok cap (fst (bstep cap s o)) /\ (forall b, In b (snd (bstep cap s o)) -> emitted_ok cap b).
Proof.
  intros Hnd Hok. destruct o as [gsize it|]; simpl.
  - destruct (Nat.eqb gsize 1); simpl; [split; [assumption|intros ? []]|].
    pose proof (cur_ok cap s (i_key it) Hok) as Hb.
    destruct (Nat.ltb cap (bsize (cur s (i_key it)) + i_bytes it)) eqn:Ecap; simpl.
    + split; [apply state_ok_setb; [assumption|apply bucket_ok_single]|eapply emit_ok; eassumption].
    + apply Nat.ltb_ge in Ecap. destruct (same_dtype (cur s (i_key it)) it) eqn:Edt; simpl.
      * split; [|intros ? []]. apply state_ok_setb; [assumption|]. now apply bucket_ok_snoc.
      * split; [apply state_ok_setb; [assumption|apply bucket_ok_single]|eapply emit_ok; eassumption].
  - split.
    + intros k b H. exfalso. clear -H. induction s as [|[k' ob] t IH]; simpl in H; [discriminate|].
      destruct (Nat.eqb k' k); [discriminate|now apply IH].
    + intros b Hin. apply in_flat_map in Hin as ([k ob] & Hkb & Hb). simpl in Hb.
      destruct ob as [b0|]; [|destruct Hb].
      apply (emit_ok cap k b0); [apply Hok; apply In_getb; assumption|exact Hb].
Qed.

Lemma brun_ok cap ops : forall s, keys_nodup s -> state_ok cap s ->
  state_ok cap (fst (brun cap s ops)) /\ (forall b, In b (snd (brun cap s ops)) -> emitted_ok cap b).
Proof.
  induction ops as [|o t IH]; intros s Hnd Hok; simpl; [split; [assumption|intros ? []]|].
  pose proof (bstep_ok cap s o Hnd Hok) as [H1 H2].
  pose proof (bstep_conserve cap s o Hnd) as [Hnd1 _].
  destruct (bstep cap s o) as [s1 e1]. simpl in *.
  specialize (IH s1 Hnd1 H1). destruct (brun cap s1 t) as [s2 e2]. simpl in *. destruct IH as [H3 H4].
  split; [assumption|]. intros b Hin. apply in_app_or in Hin as [Hin|Hin]; auto.
Qed.

(* ---------- values: slicing the fused reduced buffer = reducing each tensor ---------- *)
Lemma zipadd_length a b : length a = length b -> length (zipadd a b) = length a.
Proof. revert b; induction a as [|x a IH]; intros [|y b] H; simpl in *; try lia. f_equal. apply IH. lia. Qed.

Lemma zipadd_app a1 a2 b1 b2 : length a1 = length b1 ->
  zipadd (a1 ++ a2) (b1 ++ b2) = zipadd a1 b1 ++ zipadd a2 b2.
Proof.
  revert b1; induction a1 as [|x a1 IH]; intros [|y b1] H; simpl in *; try lia; [reflexivity|].
  f_equal. apply IH. lia.
Qed.

Lemma sumlists_length n ls : (forall l, In l ls -> length l = n) -> length (sumlists n ls) = n.
Proof.
  unfold sumlists. induction ls as [|l ls IH]; simpl; intros H; [apply repeat_length|].
  rewrite zipadd_length; [apply H; now left|].
  rewrite IH; [apply H; now left|]. intros; apply H; now right.
Qed.

Lemma sumlists_app n1 n2 (ls1 ls2 : list (list Z)) :
  length ls1 = length ls2 ->
  (forall l, In l ls1 -> length l = n1) -> (forall l, In l ls2 -> length l = n2) ->
  sumlists (n1 + n2) (map (fun p => fst p ++ snd p) (combine ls1 ls2)) = sumlists n1 ls1 ++ sumlists n2 ls2.
Proof.
  revert ls2. induction ls1 as [|l1 ls1 IH]; intros [|l2 ls2] HL H1 H2; simpl in *; try lia.
  - unfold sumlists. simpl. apply repeat_app.
  - assert (E1 : length l1 = length (sumlists n1 ls1)).
    { rewrite sumlists_length; [apply H1; now left|]. intros l Hl. apply H1. now right. }
    specialize (IH ls2 ltac:(lia) (fun l Hl => H1 l (or_intror Hl)) (fun l Hl => H2 l (or_intror Hl))).
    unfold sumlists in *. simpl. rewrite IH. apply zipadd_app. exact E1.
Qed.

Definition total_numel (b : bucket) : nat := fold_right (fun it acc => i_numel it + acc) 0 b.

Lemma flatten_length vals b : (forall it, In it b -> length (vals (i_tid it)) = i_numel it) ->
  length (flatten vals b) = total_numel b.
Proof.
  unfold flatten. induction b as [|it b IH]; simpl; intros H; [reflexivity|].
  rewrite app_length, IH by (intros; apply H; now right). rewrite H by (now left). reflexivity.
Qed.

Lemma combine_map {A B C} (f : A -> B) (g : A -> C) l :
  combine (map f l) (map g l) = map (fun x => (f x, g x)) l.
Proof. induction l; simpl; congruence. Qed.

(* the fused reduced buffer is the concatenation of the per-tensor reductions *)
Lemma fused_is_concat ranks (vals : nat -> nat -> list Z) b :
  (forall r it, In r ranks -> In it b -> length (vals r (i_tid it)) = i_numel it) ->
  sumlists (total_numel b) (map (fun r => flatten (vals r) b) ranks)
  = flat_map (fun it => sumlists (i_numel it) (map (fun r => vals r (i_tid it)) ranks)) b.
Proof.
  induction b as [|it b IH]; intros H; simpl.
  - clear. unfold flatten, sumlists. simpl. induction ranks as [|r ranks IHr]; simpl; [reflexivity|]. reflexivity.
  - rewrite <- IH by (intros; apply H; [assumption|now right]).
    rewrite <- (sumlists_app (i_numel it) (total_numel b)
                  (map (fun r => vals r (i_tid it)) ranks) (map (fun r => flatten (vals r) b) ranks)).
    + f_equal. rewrite combine_map, map_map. reflexivity.
    + now rewrite !map_length.
    + intros l Hl. apply in_map_iff in Hl as (r & <- & Hr). apply H; [assumption|now left].
    + intros l Hl. apply in_map_iff in Hl as (r & <- & Hr). apply flatten_length.
      intros; apply H; [assumption|now right].
Qed.

Lemma slice_app_skip pre l off len : length pre = off -> slice off len (pre ++ l) = firstn len l.
Proof.
  intros <-. unfold slice. rewrite skipn_app, Nat.sub_diag, skipn_all. reflexivity.
Qed.

Lemma slice_concat (pre x post : list Z) : slice (length pre) (length x) (pre ++ x ++ post) = x.
Proof.
  rewrite slice_app_skip by reflexivity. rewrite firstn_app, Nat.sub_diag, firstn_all. simpl. apply app_nil_r.
Qed.

(* main value lemma: for the entry (tid, off, numel) of offsets b 0 the slice of
   the fused reduced buffer is the unbucketed reduction of that tensor *)
Lemma bucket_transparent_l ranks (vals : nat -> nat -> list Z) b :
  (forall r it, In r ranks -> In it b -> length (vals r (i_tid it)) = i_numel it) ->
  forall pre it post, b = pre ++ it :: post ->
    bucketed_value ranks vals b (total_numel pre) (i_numel it)
    = unbucketed_value ranks vals (i_tid it) (i_numel it).
Proof.
  intros H pre it post ->. unfold bucketed_value, unbucketed_value.
  change (fold_right (fun it0 acc => i_numel it0 + acc) 0 (pre ++ it :: post)) with (total_numel (pre ++ it :: post)).
  rewrite fused_is_concat by assumption.
  rewrite flat_map_app. simpl.
  set (P := flat_map (fun it0 => sumlists (i_numel it0) (map (fun r => vals r (i_tid it0)) ranks)) pre).
  set (X := sumlists (i_numel it) (map (fun r => vals r (i_tid it)) ranks)).
  assert (HP : length P = total_numel pre).
  { unfold P. clear -H. induction pre as [|x pre IH]; simpl; [reflexivity|].
    rewrite app_length, IH.
    - rewrite sumlists_length; [reflexivity|].
      intros l Hl. apply in_map_iff in Hl as (r & <- & Hr). apply H; [assumption|]. apply in_or_app. left. now left.
    - intros r it0 Hr Hin. apply H; [assumption|]. apply in_app_or in Hin as [Hin|Hin]; apply in_or_app; [left; now right|right; assumption]. }
  assert (HX : length X = i_numel it).
  { unfold X. apply sumlists_length. intros l Hl. apply in_map_iff in Hl as (r & <- & Hr).
    apply H; [assumption|]. apply in_or_app. right. now left. }
  rewrite <- HP, <- HX. apply slice_concat.
Qed.

Lemma offsets_spec b : forall off pre it post, b = pre ++ it :: post ->
  In (i_tid it, off + total_numel pre, i_numel it) (offsets b off).
Proof.
  induction b as [|x b IH]; intros off pre it post E; [destruct pre; discriminate|].
  destruct pre as [|p pre]; simpl in *.
  - inversion E; subst. left. f_equal. f_equal. lia.
  - inversion E; subst. right. replace (off + (i_numel p + total_numel pre)) with ((off + i_numel p) + total_numel pre) by lia.
    eapply IH. reflexivity.
Qed.

(* ---- a capacity at least as large as everything that is ever added behaves like any other such capacity
   (the OCaml driver clamps the capacity to total bytes + 1 before converting it to a unary natural) ---- *)
Definition ops_bytes (ops : list bop) : nat :=
  fold_right (fun o acc => match o with Add _ it => i_bytes it + acc | Flush => acc end) 0 ops.

Lemma cur_setb s k b k2 : cur (setb s k (Some b)) k2 = if Nat.eqb k k2 then b else cur s k2.
Proof.
  unfold cur. destruct (Nat.eqb_spec k k2) as [->|Hne].
  - now rewrite getb_setb_same.
  - rewrite getb_setb_other by congruence. reflexivity.
Qed.

Lemma getb_flush s k : getb (map (fun kb : nat * option bucket => (fst kb, @None bucket)) s) k = None.
Proof. induction s as [|[k' ob] t IH]; simpl; [reflexivity|]. destruct (Nat.eqb k' k); [reflexivity|exact IH]. Qed.

Lemma brun_cap_irrelevant_l cap cap2 ops : forall s B,
  (forall k, bsize (cur s k) <= B) -> B + ops_bytes ops <= cap -> B + ops_bytes ops <= cap2 ->
  brun cap s ops = brun cap2 s ops.
Proof.
  induction ops as [|o t IH]; intros s B Hs H1 H2; [reflexivity|].
  cbn [brun]. destruct o as [g it|].
  - cbn [ops_bytes fold_right] in H1, H2. fold (ops_bytes t) in H1, H2.
    cbn [bstep]. destruct (Nat.eqb g 1).
    + rewrite (IH s B Hs) by lia. reflexivity.
    + pose proof (Hs (i_key it)) as Hb.
      assert (E1 : Nat.ltb cap (bsize (cur s (i_key it)) + i_bytes it) = false) by (apply Nat.ltb_ge; lia).
      assert (E2 : Nat.ltb cap2 (bsize (cur s (i_key it)) + i_bytes it) = false) by (apply Nat.ltb_ge; lia).
      rewrite E1, E2. cbn [orb].
      destruct (negb (same_dtype (cur s (i_key it)) it)).
      * rewrite (IH (setb s (i_key it) (Some [it])) (B + i_bytes it)); [reflexivity| |lia|lia].
        intros k. rewrite cur_setb. destruct (Nat.eqb (i_key it) k); [cbn; lia|]. specialize (Hs k). lia.
      * rewrite (IH (setb s (i_key it) (Some (cur s (i_key it) ++ [it]))) (B + i_bytes it)); [reflexivity| |lia|lia].
        intros k. rewrite cur_setb. destruct (Nat.eqb (i_key it) k); [rewrite bsize_app; lia|]. specialize (Hs k). lia.
  - cbn [ops_bytes fold_right] in H1, H2. fold (ops_bytes t) in H1, H2.
    cbn [bstep]. rewrite (IH _ B); [reflexivity| |lia|lia].
    intros k. unfold cur. rewrite getb_flush. cbn. lia.
Qed.
