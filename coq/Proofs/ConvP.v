From Coq Require Import List Arith Bool Lia Reals Lra.
Import ListNotations.
From KV Require Import Model.Mat Model.Conv Proofs.MatP.
Local Open Scope R_scope.

(* ---------- index arithmetic (any element type) ---------- *)
Lemma decode_encode (g : geom) c i j : (i < gkh g)%nat -> (j < gkw g)%nat ->
  let f := (c * (gkh g * gkw g) + (i * gkw g + j))%nat in
  dec_c g f = c /\ dec_i g f = i /\ dec_j g f = j.
Proof.
  intros Hi Hj f. unfold dec_c, dec_i, dec_j.
  assert (Hr : (i * gkw g + j < gkh g * gkw g)%nat) by nia.
  assert (Hk : (0 < gkh g * gkw g)%nat) by nia.
  assert (E : f = ((c * gkh g + i) * gkw g + j)%nat) by (unfold f; nia).
  repeat split.
  - unfold f. rewrite Nat.div_add_l by lia. rewrite Nat.div_small by assumption. lia.
  - rewrite E. rewrite Nat.div_add_l by lia. rewrite (Nat.div_small j) by assumption.
    rewrite Nat.add_0_r. rewrite Nat.add_comm, Nat.mod_add by lia. now apply Nat.mod_small.
  - rewrite E. rewrite Nat.add_comm, Nat.mod_add by lia. now apply Nat.mod_small.
Qed.

Lemma patches_are_windows_l {T} (O : ops T) (g : geom) (x : t4) b p q c i j :
  (i < gkh g)%nat -> (j < gkw g)%nat ->
  extract_patches O g x b p q (c * (gkh g * gkw g) + (i * gkw g + j))%nat
  = pad O g x b c (p * gsh g + i)%nat (q * gsw g + j)%nat.
Proof.
  intros Hi Hj. unfold extract_patches, view4, permute, unfold3, unfold2.
  destruct (decode_encode g c i j Hi Hj) as (-> & -> & ->). reflexivity.
Qed.

Lemma pad_inside {T} (O : ops T) (g : geom) (x : t4) b c h w : (h < gH g)%nat -> (w < gW g)%nat ->
  pad O g x b c (gph g + h)%nat (gpw g + w)%nat = x b c h w.
Proof.
  intros Hh Hw. unfold pad.
  replace (Nat.leb (gph g) (gph g + h)) with true by (symmetry; apply Nat.leb_le; lia).
  replace (Nat.ltb (gph g + h) (gph g + gH g)) with true by (symmetry; apply Nat.ltb_lt; lia).
  replace (Nat.leb (gpw g) (gpw g + w)) with true by (symmetry; apply Nat.leb_le; lia).
  replace (Nat.ltb (gpw g + w) (gpw g + gW g)) with true by (symmetry; apply Nat.ltb_lt; lia).
  simpl. f_equal; lia.
Qed.

Lemma pad_outside {T} (O : ops T) (g : geom) (x : t4) b c h w :
  (h < gph g \/ gph g + gH g <= h \/ w < gpw g \/ gpw g + gW g <= w)%nat ->
  pad O g x b c h w = o0 O.
Proof.
  intros H. unfold pad.
  destruct (Nat.leb_spec (gph g) h); simpl; [|reflexivity].
  destruct (Nat.ltb_spec h (gph g + gH g)); simpl; [|reflexivity].
  destruct (Nat.leb_spec (gpw g) w); simpl; [|reflexivity].
  destruct (Nat.ltb_spec w (gpw g + gW g)); simpl; [|reflexivity]. lia.
Qed.

(* ---------- sums over product index ranges ---------- *)
Lemma sumR_split n m f : sumR (n + m) f = sumR n f + sumR m (fun y => f (n + y)%nat).
Proof.
  induction m as [|m IH]; [rewrite Nat.add_0_r; simpl; lra|].
  rewrite Nat.add_succ_r, !sumR_S, IH. lra.
Qed.

Lemma sumR_prod a b f : sumR (a * b) f = sumR a (fun x => sumR b (fun y => f (x * b + y)%nat)).
Proof.
  induction a as [|a IH]; [reflexivity|].
  rewrite Nat.mul_succ_l, sumR_split, IH, sumR_S. reflexivity.
Qed.

Notation conv_fwdR := (conv_fwd ops_R).
Notation extract_patchesR := (extract_patches ops_R).
Notation wmatR := (@wmat R).
Notation grad_matrixR := (grad_matrix ops_R).
Notation patch_rowR := (patch_row ops_R).
Notation padR := (pad ops_R).

(* the feature sum as a triple sum *)
Lemma feat_sum (g : geom) (F : nat -> R) :
  sumR (nfeat g) F =
  sumR (gC g) (fun c => sumR (gkh g) (fun i => sumR (gkw g) (fun j =>
     F (c * (gkh g * gkw g) + (i * gkw g + j))%nat))).
Proof.
  unfold nfeat. rewrite sumR_prod. apply sumR_ext. intros c _.
  rewrite sumR_prod. reflexivity.
Qed.

(* conv2d = patches x view(weight)^T + bias *)
Lemma conv_is_patch_matmul_l (g : geom) w bias x b o p q :
  conv_fwdR g w bias x b o p q =
  sumR (nfeat g) (fun f => extract_patchesR g x b p q f * wmatR g w o f) + bias o.
Proof.
  unfold conv_fwd. simpl. f_equal. rewrite feat_sum.
  apply sumR_ext. intros c _. apply sumR_ext. intros i Hi. apply sumR_ext. intros j Hj.
  rewrite patches_are_windows_l by assumption. unfold wmat.
  destruct (decode_encode g c i j Hi Hj) as (-> & -> & ->). lra.
Qed.

(* adjoint identity: <go, conv(w, bias, x)> = <GM[:, :F], view(w)> + <GM[:, F], bias>
   where GM = grad_matrix; this characterises the parameter gradients of the
   (linear in (w, bias)) map without calculus *)
Definition inner4 (B O_ P Q : nat) (u v : nat -> nat -> nat -> nat -> R) : R :=
  sumR B (fun b => sumR O_ (fun o => sumR P (fun p => sumR Q (fun q => u b o p q * v b o p q)))).

Lemma sum4_to_o B O_ P Q (F : nat -> nat -> nat -> nat -> R) :
  sumR B (fun b => sumR O_ (fun o => sumR P (fun p => sumR Q (fun q => F b o p q))))
  = sumR O_ (fun o => sumR B (fun b => sumR P (fun p => sumR Q (fun q => F b o p q)))).
Proof. apply sumR_exchange. Qed.

Lemma adjoint_identity_l (g : geom) w bias x go :
  inner4 (gB g) (gO g) (out_h g) (out_w g) go (conv_fwdR g w bias x)
  = sumR (gO g) (fun o => sumR (nfeat g) (fun f => grad_matrixR g true go x o f * wmatR g w o f))
    + sumR (gO g) (fun o => grad_matrixR g true go x o (nfeat g) * bias o).
Proof.
  unfold inner4. rewrite sum4_to_o. rewrite <- sumR_add. apply sumR_ext. intros o _.
  (* per output channel *)
  rewrite (sumR_ext (gB g) _ (fun b => sumR (out_h g) (fun p => sumR (out_w g) (fun q =>
      sumR (nfeat g) (fun f => go b o p q * extract_patchesR g x b p q f * wmatR g w o f) + go b o p q * bias o)))).
  2:{ intros b _. apply sumR_ext. intros p _. apply sumR_ext. intros q _.
      rewrite conv_is_patch_matmul_l. rewrite Rmult_plus_distr_l. f_equal.
      rewrite <- sumR_scal_l. apply sumR_ext. intros f _. lra. }
  unfold grad_matrix, patch_row. simpl.
  (* bias column: f = nfeat is not < nfeat *)
  rewrite Nat.ltb_irrefl.
  (* split the b,p,q sum *)
  assert (S3 : forall (U V : nat -> nat -> nat -> R),
     sumR (gB g) (fun b => sumR (out_h g) (fun p => sumR (out_w g) (fun q => U b p q + V b p q)))
     = sumR (gB g) (fun b => sumR (out_h g) (fun p => sumR (out_w g) (fun q => U b p q)))
       + sumR (gB g) (fun b => sumR (out_h g) (fun p => sumR (out_w g) (fun q => V b p q)))).
  { intros U V. rewrite <- sumR_add. apply sumR_ext. intros b _. rewrite <- sumR_add. apply sumR_ext. intros p _.
    now rewrite <- sumR_add. }
  rewrite S3. f_equal.
  - (* move the feature sum outside *)
    rewrite (sumR_ext (nfeat g) _ (fun f =>
       sumR (gB g) (fun b => sumR (out_h g) (fun p => sumR (out_w g) (fun q =>
          go b o p q * extract_patchesR g x b p q f * wmatR g w o f))))).
    2:{ intros f Hf. apply Nat.ltb_lt in Hf. rewrite Hf. rewrite <- sumR_scal_r. apply sumR_ext. intros b _.
        rewrite <- sumR_scal_r. apply sumR_ext. intros p _. rewrite <- sumR_scal_r. reflexivity. }
    rewrite (sumR_exchange (nfeat g) (gB g)). apply sumR_ext. intros b _.
    rewrite (sumR_exchange (nfeat g) (out_h g)). apply sumR_ext. intros p _.
    rewrite (sumR_exchange (nfeat g) (out_w g)). reflexivity.
  - rewrite <- sumR_scal_r. apply sumR_ext. intros b _. rewrite <- sumR_scal_r. apply sumR_ext. intros p _.
    rewrite <- sumR_scal_r. apply sumR_ext. intros q _. lra.
Qed.

(* linear layers *)
Lemma lin_adjoint_l rows nin nout w bias (go a : @mat R) :
  sumR rows (fun r => sumR nout (fun o => go r o * lin_fwd ops_R nin w bias a r o))
  = sumR nout (fun o => sumR nin (fun f => lin_grad_matrix ops_R rows nin true go a o f * w o f))
    + sumR nout (fun o => lin_grad_matrix ops_R rows nin true go a o nin * bias o).
Proof.
  rewrite sumR_exchange. rewrite <- sumR_add. apply sumR_ext. intros o _.
  unfold lin_fwd, lin_grad_matrix. simpl. rewrite Nat.ltb_irrefl.
  rewrite (sumR_ext rows _ (fun r => sumR nin (fun i => go r o * a r i * w o i) + go r o * bias o)).
  2:{ intros r _. rewrite Rmult_plus_distr_l. f_equal. rewrite <- sumR_scal_l. apply sumR_ext. intros; lra. }
  rewrite sumR_add. f_equal.
  - rewrite sumR_exchange. apply sumR_ext. intros f Hf. apply Nat.ltb_lt in Hf. rewrite Hf.
    rewrite <- sumR_scal_r. apply sumR_ext. intros; lra.
  - rewrite <- sumR_scal_r. apply sumR_ext. intros; lra.
Qed.
