From Coq Require Import List Arith Bool Lia.
Import ListNotations.
From KV Require Import Model.NeoxCkpt.

Lemma dict_get_In d n v : dict_get d n = Some v -> In (n, v) d.
Proof.
  induction d as [|[k x] t IH]; simpl; [discriminate|].
  destruct (dict_get t n) as [y|] eqn:E.
  - intros H. inversion H; subst. right. now apply IH.
  - destruct (Nat.eqb_spec k n) as [->|]; [|discriminate]. intros H. inversion H; subst. now left.
Qed.

Lemma dict_get_unique d n v : In (n, v) d -> (forall v', In (n, v') d -> v' = v) -> dict_get d n = Some v.
Proof.
  induction d as [|[k x] t IH]; intros Hin Hu; [destruct Hin|].
  cbn [dict_get]. destruct Hin as [Heq|Hin].
  - inversion Heq; subst. destruct (dict_get t n) as [y|] eqn:E.
    + apply dict_get_In in E. assert (y = v) by (apply Hu; right; exact E). now subst.
    + now rewrite Nat.eqb_refl.
  - rewrite IH; [reflexivity|assumption|]. intros v' Hv'. apply Hu. right. exact Hv'.
Qed.

Lemma dict_get_none d n : (forall v, ~ In (n, v) d) -> dict_get d n = None.
Proof.
  induction d as [|[k x] t IH]; simpl; intros H; [reflexivity|].
  rewrite IH by (intros v Hv; apply (H v); now right).
  destruct (Nat.eqb_spec k n) as [->|]; [|reflexivity]. exfalso. apply (H x). now left.
Qed.

Lemma partition_In sl held r n f :
  In (n, f) (partition sl held r) <-> exists l, In l (sl r) /\ l_name l = n /\ l_inv l = r /\ held r n = Some f.
Proof.
  unfold partition. rewrite in_flat_map. split.
  - intros (l & Hl & Hin). destruct (Nat.eqb_spec (l_inv l) r) as [Hr|]; [|destruct Hin].
    destruct (held r (l_name l)) as [f0|] eqn:E; [|destruct Hin].
    destruct Hin as [H|[]]. inversion H; subst. exists l. tauto.
  - intros (l & Hl & <- & Hr & Hh). exists l. split; [assumption|].
    rewrite Hr, Nat.eqb_refl, Hh. now left.
Qed.

Lemma gathered_In W sl held n f :
  In (n, f) (gathered W sl held) <-> exists r l, r < W /\ In l (sl r) /\ l_name l = n /\ l_inv l = r /\ held r n = Some f.
Proof.
  unfold gathered. rewrite in_flat_map. split.
  - intros (r & Hr & Hin). apply in_seq in Hr. apply partition_In in Hin as (l & H). exists r, l. split; [lia|tauto].
  - intros (r & l & Hr & H). exists r. split; [apply in_seq; lia|]. apply partition_In. exists l. tauto.
Qed.

(* well-formed world: names identify layers; all ranks of a stage agree on the inverse worker *)
Definition wf_world (W : nat) (sl : nat -> list nlayer) : Prop :=
  forall r r' l l', r < W -> r' < W -> In l (sl r) -> In l' (sl r') -> l_name l = l_name l' -> l_inv l = l_inv l'.

(* the gathered state contains every layer exactly as held by its inverse worker *)
Lemma gathered_state_complete_l W sl held r l f : wf_world W sl ->
  r < W -> In l (sl r) -> l_inv l < W -> In l (sl (l_inv l)) -> held (l_inv l) (l_name l) = Some f ->
  dict_get (gathered W sl held) (l_name l) = Some f.
Proof.
  intros Hwf Hr Hl Hiw Hown Hh. apply dict_get_unique.
  - apply gathered_In. exists (l_inv l), l. tauto.
  - intros v' Hv'. apply gathered_In in Hv' as (r' & l' & Hr' & Hl' & Hn & Hi & Hh').
    assert (H : l_inv l' = l_inv l) by exact (Hwf r' (l_inv l) l' l Hr' Hiw Hl' Hown Hn).
    rewrite <- Hi, H in Hh'. congruence.
Qed.

(* and nothing else *)
Lemma gathered_only_layers_l W sl held n f :
  dict_get (gathered W sl held) n = Some f -> exists r l, r < W /\ In l (sl r) /\ l_name l = n /\ l_inv l = r /\ held r n = Some f.
Proof. intros H. apply dict_get_In in H. now apply gathered_In. Qed.

(* after loading, exactly the factor workers of a layer hold the saved factors *)
Lemma load_restores_on_factor_workers_l fw sl saved held r n f :
  dict_get saved n = Some f ->
  (existsb (fun l => Nat.eqb (l_name l) n) (sl r) = true -> fw r n = r -> load fw sl saved held r n = Some f) /\
  ((existsb (fun l => Nat.eqb (l_name l) n) (sl r) = false \/ fw r n <> r) -> load fw sl saved held r n = held r n).
Proof.
  intros Hs. unfold load. split.
  - intros He Hf. rewrite He, Hf, Nat.eqb_refl, Hs. reflexivity.
  - intros [He|Hf]; [now rewrite He|].
    destruct (Nat.eqb_spec (fw r n) r); [contradiction|]. now rewrite andb_false_r.
Qed.

Lemma recomputes_iff fw sl saved compute r n :
  recomputes fw sl saved compute r n = true <->
  compute = true /\ existsb (fun l => Nat.eqb (l_name l) n) (sl r) = true /\ fw r n = r /\ exists f, dict_get saved n = Some f.
Proof.
  unfold recomputes. rewrite !andb_true_iff, Nat.eqb_eq. split.
  - intros (((H1 & H2) & H3) & H4). destruct (dict_get saved n) as [f|]; [|discriminate]. repeat split; eauto.
  - intros (H1 & H2 & H3 & f & H4). rewrite H4. tauto.
Qed.

(* all ranks take part in the same collectives while saving and loading *)
Lemma ckpt_comm_rank_independent dir : forall (r r' : nat), save_comm dir = save_comm dir /\ load_comm dir = load_comm dir.
Proof. intros; split; reflexivity. Qed.

(* ---- directory save: when state_dict() has returned on ANY rank, EVERY rank has written its files ---- *)
Definition dsafe (s : dpcs) : Prop := (exists pc, In pc s /\ 3 <= pc) -> forall pc, In pc s -> 2 <= pc.
Definition dbounded (s : dpcs) : Prop := forall pc, In pc s -> pc <= 3.

Lemma bump_in s : forall r pc, In pc (bump s r) -> In pc s \/ (exists q, nth_error s r = Some q /\ pc = S q).
Proof.
  induction s as [|q t IH]; intros r pc H; [destruct r; destruct H|].
  destruct r as [|r']; cbn [bump] in H.
  - destruct H as [<-|H]; [right; exists q; split; reflexivity|left; now right].
  - destruct H as [<-|H]; [left; now left|]. destruct (IH r' pc H) as [H1|(q' & H1 & H2)]; [left; now right|right; exists q'; split; assumption].
Qed.

Lemma bump_mono s : forall r pc, In pc s -> exists pc', In pc' (bump s r) /\ pc <= pc'.
Proof.
  induction s as [|q t IH]; intros r pc H; [destruct H|].
  destruct r as [|r']; cbn [bump].
  - destruct H as [<-|H]; [exists (S q); split; [now left|lia]|exists pc; split; [now right|lia]].
  - destruct H as [<-|H]; [exists q; split; [now left|lia]|]. destruct (IH r' pc H) as (pc' & H1 & H2). exists pc'; split; [now right|exact H2].
Qed.

Lemma all_reached_spec k s : all_reached k s = true <-> forall pc, In pc s -> k <= pc.
Proof. unfold all_reached. rewrite forallb_forall. split; intros H pc Hp; specialize (H pc Hp); [now apply Nat.leb_le|now apply Nat.leb_le]. Qed.

(* stronger invariant that is inductive: either nobody has returned, or everybody has written *)
Definition dinv (s : dpcs) : Prop := (forall pc, In pc s -> pc <= 2) \/ (forall pc, In pc s -> 2 <= pc).

Lemma dinv_safe s : dinv s -> dsafe s.
Proof. intros [H|H] (pc & Hp & H3); [specialize (H pc Hp); lia|exact H]. Qed.

Lemma dstep_inv s r : dinv s -> dstep_ok true s r = true -> dinv (bump s r).
Proof.
  intros Hi Hok. unfold dstep_ok in Hok. destruct (nth_error s r) as [q|] eqn:E; [|discriminate].
  destruct q as [|[|[|q]]]; try discriminate.
  - (* 0 -> 1 *) destruct Hi as [H|H].
    + left. intros pc Hp. apply bump_in in Hp as [Hp|(q' & E' & ->)]; [now apply H|]. rewrite E in E'. injection E' as <-. lia.
    + exfalso. apply nth_error_In in E. specialize (H 0 E). lia.
  - (* 1 -> 2 *) destruct Hi as [H|H].
    + left. intros pc Hp. apply bump_in in Hp as [Hp|(q' & E' & ->)]; [now apply H|]. rewrite E in E'. injection E' as <-. lia.
    + exfalso. apply nth_error_In in E. specialize (H 1 E). lia.
  - (* 2 -> 3: the closing barrier *) right. change (all_reached 2 s = true) in Hok. pose proof (proj1 (all_reached_spec 2 s) Hok) as Hall. clear Hok; rename Hall into Hok.
    intros pc Hp. apply bump_in in Hp as [Hp|(q' & E' & ->)]; [now apply Hok|]. rewrite E in E'. injection E' as <-. lia.
Qed.

Lemma drun_inv sched : forall s, dinv s -> dinv (drun true s sched).
Proof.
  induction sched as [|r t IH]; intros s Hi; cbn [drun]; [exact Hi|].
  apply IH. destruct (dstep_ok true s r) eqn:E; [now apply dstep_inv|exact Hi].
Qed.

Lemma dinit_inv n : dinv (dinit n).
Proof. left. intros pc Hp. unfold dinit in Hp. apply repeat_spec in Hp. lia. Qed.

Lemma dir_save_complete_when_returned_l n sched : dsafe (drun true (dinit n) sched).
Proof. apply dinv_safe, drun_inv, dinit_inv. Qed.
