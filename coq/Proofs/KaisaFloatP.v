(* The fraction rule of KAISAAssignment in IEEE-754 binary64, for EVERY world size below 2^31
   (not only the finite sweep of Proofs/KaisaP.v): the float computation the constructor performs
   on k / W recovers k for every divisor k of W.  Through Flocq's specification of Coq's
   primitive floats: two correctly rounded operations give |W * fl(k / W) - k| <= k (2u + u^2),
   u = 2^-53, which is below 2^-20 < 1e-6 and below 1/2. *)
From Coq Require Import ZArith Reals Lia Lra Bool Arith Psatz.
From Coq Require Import Floats.
From Flocq Require Import Core BinarySingleNaN Relative.
From Flocq Require IEEE754.PrimFloat.
From KV Require Import Model.Greedy Model.Kaisa Proofs.SchedFloatP.
Local Open Scope R_scope.

Local Existing Instance vexp.
Local Existing Instance vrnd.

Definition u : R := / 2 * bpow radix2 (- prec + 1).

Lemma u_val : u = bpow radix2 (-53).
Proof. unfold u, prec. change (/ 2) with (/ bpow radix2 1). rewrite <- bpow_opp, <- bpow_plus. reflexivity. Qed.

Lemma rnd_err x : bpow radix2 (-1022) <= Rabs x -> Rabs (rnd x - x) <= u * Rabs x.
Proof.
  intros H. unfold rnd, u.
  exact (relative_error_N_FLT radix2 (3 - emax - prec) prec FP.Hprec (fun z => negb (Z.even z)) x H).
Qed.

Lemma rnd_int n : (0 <= n < 2 ^ 53)%Z -> rnd (IZR n) = IZR n.
Proof.
  intros Hn. apply round_generic; [typeclasses eauto|].
  replace (IZR n) with (@F2R radix2 {| Fnum := n; Fexp := 0 |}) by (unfold F2R; cbn [Fnum Fexp bpow]; lra).
  apply generic_format_F2R. intros Hnz. unfold cexp, fexp, FLT_exp, emin.
  assert (Hm : (mag radix2 (@F2R radix2 {| Fnum := n; Fexp := 0 |}) <= 53)%Z).
  { apply mag_le_bpow.
    - unfold F2R; cbn [Fnum Fexp bpow]. rewrite Rmult_1_r. apply IZR_neq. exact Hnz.
    - unfold F2R; cbn [Fnum Fexp]. change (bpow radix2 0) with 1. rewrite Rmult_1_r. rewrite Rabs_pos_eq by (apply IZR_le; lia).
      rewrite <- (IZR_Zpower radix2 53) by lia. apply IZR_lt. change (Z.pow (radix_val radix2) 53) with (2 ^ 53)%Z. lia. }
  unfold prec, emax. lia.
Qed.

Lemma f_of_nat_spec n : (Z.of_nat n < 2 ^ 53)%Z -> fin (f_of_nat n) /\ RF (f_of_nat n) = IZR (Z.of_nat n).
Proof.
  intros Hn. unfold f_of_nat. destruct (conv_nat n ltac:(lia)) as [F R]. cbv zeta in F, R.
  split; [exact F|]. rewrite R. apply rnd_int. lia.
Qed.

Lemma f_of_Z_spec z : (0 <= z < 2 ^ 53)%Z -> fin (f_of_Z z) /\ RF (f_of_Z z) = IZR z.
Proof.
  intros Hz. unfold f_of_Z. destruct (Z.ltb_spec z 0) as [H|H]; [lia|].
  pose proof (f_of_nat_spec (Z.to_nat z)) as P. unfold f_of_nat in P. rewrite Z2Nat.id in P by lia. apply P. lia.
Qed.

(* ---- reading a finite positive float through its mantissa and exponent ---- *)
Lemma RF_SF x : RF x = SF2R radix2 (Prim2SF x).
Proof. unfold RF, FP.Prim2B. apply B2R_SF2B. Qed.

Lemma fin_SF x : fin x -> 0 < RF x -> exists m e, Prim2SF x = S754_finite false m e /\ RF x = IZR (Zpos m) * bpow radix2 e.
Proof.
  intros F Hpos. rewrite RF_SF in *. unfold fin, FP.Prim2B in F. rewrite is_finite_SF2B in F.
  destruct (Prim2SF x) as [s|s| |s m e]; cbn in F, Hpos |- *; try lra; try discriminate.
  destruct s.
  - exfalso. unfold F2R in Hpos. cbn [Fnum Fexp cond_Zopp] in Hpos.
    assert (0 < bpow radix2 e) by apply bpow_gt_0. assert (IZR (- Z.pos m) < 0) by (apply IZR_lt; lia). nra.
  - exists m, e. split; [reflexivity|]. unfold F2R. reflexivity.
Qed.

(* the integer nearest to a float that is within 1/2 of the integer z (no tie) *)
Lemma round_half_even_near x z : fin x -> 0 < RF x -> Rabs (RF x - IZR z) < / 2 -> round_half_even x = Some z.
Proof.
  intros F Hpos Hnear. destruct (fin_SF x F Hpos) as (m & e & E & Rx).
  unfold round_half_even. rewrite E. rewrite Rx in Hnear. f_equal.
  destruct (Z.leb_spec 0 e) as [He|He].
  - (* an integer *)
    rewrite <- (IZR_Zpower radix2 e He), <- mult_IZR, <- minus_IZR in Hnear.
    change (Z.pow (radix_val radix2) e) with (2 ^ e)%Z in Hnear.
    apply Rabs_def2 in Hnear as [H1 H2].
    assert (Z.pos m * 2 ^ e - z < 1)%Z by (apply lt_IZR; lra).
    assert (-1 < Z.pos m * 2 ^ e - z)%Z by (apply lt_IZR; lra).
    lia.
  - set (d := (2 ^ (- e))%Z).
    assert (Hd : (0 < d)%Z) by (apply Z.pow_pos_nonneg; lia).
    assert (Hb : bpow radix2 e = / IZR d).
    { replace e with (- (- e))%Z by lia. rewrite bpow_opp. f_equal. unfold d. rewrite <- (IZR_Zpower radix2) by lia. reflexivity. }
    rewrite Hb in Hnear.
    assert (Hd' : 0 < IZR d) by (apply IZR_lt; lia).
    (* |m / d - z| < 1/2  <->  |2m - 2zd| < d *)
    assert (Hint : (- d < 2 * Z.pos m - 2 * z * d < d)%Z).
    { apply Rabs_def2 in Hnear as [H1 H2].
      assert (A1 : IZR (Z.pos m) - IZR z * IZR d < / 2 * IZR d).
      { apply (Rmult_lt_compat_r (IZR d)) in H1; [|exact Hd']. rewrite Rmult_minus_distr_r, Rmult_assoc, Rinv_l in H1 by lra. lra. }
      assert (A2 : - (/ 2 * IZR d) < IZR (Z.pos m) - IZR z * IZR d).
      { apply (Rmult_lt_compat_r (IZR d)) in H2; [|exact Hd']. rewrite Rmult_minus_distr_r, Rmult_assoc, Rinv_l in H2 by lra. lra. }
      split; apply lt_IZR; rewrite ?opp_IZR, minus_IZR, !mult_IZR; lra. }
    pose proof (Z.div_mod (Z.pos m) d ltac:(lia)) as Hdm.
    pose proof (Z.mod_pos_bound (Z.pos m) d Hd) as Hr.
    set (q := (Z.pos m / d)%Z) in *. set (r := (Z.pos m mod d)%Z) in *.
    destruct (Z.ltb_spec (2 * r) d) as [C1|C1]; [nia|].
    destruct (Z.ltb_spec d (2 * r)) as [C2|C2]; [nia|].
    exfalso. assert (E2 : (2 * r = d)%Z) by lia.
    assert (T1 : (d * (q - z) < 0)%Z) by nia. assert (T2 : (- d < d * (q - z))%Z) by nia.
    assert (q - z < 0)%Z by nia. assert (-1 < q - z)%Z by nia. lia.
Qed.

(* ---- the constructor's computation on k / W ---- *)
Lemma RF_tol : fin tol /\ bpow radix2 (-20) <= RF tol.
Proof.
  split.
  - unfold fin, FP.Prim2B. rewrite is_finite_SF2B. vm_compute. reflexivity.
  - rewrite RF_SF.
    replace (Prim2SF tol) with (S754_finite false 4722366482869645 (-72)) by (vm_compute; reflexivity).
    cbn [SF2R cond_Zopp]. unfold F2R. cbn [Fnum Fexp].
    replace (-20)%Z with (52 + -72)%Z by lia. rewrite bpow_plus.
    apply Rmult_le_compat_r; [apply bpow_ge_0|].
    rewrite <- (IZR_Zpower radix2 52) by lia. apply IZR_le. vm_compute. discriminate.
Qed.

Lemma IZR_pow31 : IZR (2 ^ 31) = bpow radix2 31.
Proof. rewrite <- (IZR_Zpower radix2 31) by lia. reflexivity. Qed.

Lemma two_u_small : IZR (2 ^ 31) * (2 * u + u * u) <= bpow radix2 (-20).
Proof.
  rewrite u_val, IZR_pow31.
  replace (2 * bpow radix2 (-53)) with (bpow radix2 (-52)) by (change 2 with (bpow radix2 1); rewrite <- bpow_plus; reflexivity).
  rewrite <- bpow_plus, Rmult_plus_distr_l, <- !bpow_plus.
  replace (31 + -52)%Z with (-21)%Z by lia. replace (31 + (-53 + -53))%Z with (-75)%Z by lia.
  replace (bpow radix2 (-20)) with (bpow radix2 (-21) + bpow radix2 (-21))
    by (replace (-20)%Z with (1 + -21)%Z by lia; rewrite bpow_plus; change (bpow radix2 1) with 2; lra).
  apply Rplus_le_compat_l. apply bpow_le. lia.
Qed.

Lemma half_gt : bpow radix2 (-20) < / 2.
Proof. change (/ 2) with (/ bpow radix2 1). rewrite <- bpow_opp. apply bpow_lt. lia. Qed.

Lemma fraction_accepted_l (W k : nat) :
  (0 < k)%nat -> (0 < W)%nat -> (Z.of_nat W < 2 ^ 31)%Z -> (W mod k = 0)%nat ->
  grad_workers_of W (frac_of k W) = Some (Z.of_nat k).
Proof.
  intros Hk HW0 HW Hdiv.
  assert (HkW : (k <= W)%nat).
  { apply Nat.mod_divides in Hdiv; [|lia]. destruct Hdiv as [c Hc]. destruct c; nia. }
  set (Wr := IZR (Z.of_nat W)). set (kr := IZR (Z.of_nat k)).
  assert (HWr : 1 <= Wr <= IZR (2 ^ 31)) by (unfold Wr; split; [change 1 with (IZR 1)|]; apply IZR_le; lia).
  assert (Hkr : 1 <= kr <= Wr) by (unfold kr, Wr; split; [change 1 with (IZR 1)|]; apply IZR_le; lia).
  destruct (f_of_nat_spec W ltac:(lia)) as [FW RW]. destruct (f_of_nat_spec k ltac:(lia)) as [Fk Rk].
  fold Wr in RW. fold kr in Rk.
  destruct RF_one as [R1 F1]. destruct RF_zero as [R0 F0].
  (* frac = fl(k / W) *)
  set (frac := frac_of k W).
  assert (Hfrac : fin frac /\ RF frac = rnd (kr / Wr)).
  { unfold frac, frac_of, fin, RF in *. rewrite FP.div_equiv.
    pose proof (Bdiv_correct prec emax FP.Hprec FP.Hmax mode_NE (FP.Prim2B (f_of_nat k)) (FP.Prim2B (f_of_nat W))) as H.
    rewrite RW, Rk in H. specialize (H ltac:(lra)). fold (rnd (kr / Wr)) in H.
    assert (Hq : 0 <= kr / Wr <= 1).
    { split; [apply Rlt_le, Rdiv_lt_0_compat; lra|]. apply (Rmult_le_reg_r Wr); [lra|]. unfold Rdiv. rewrite Rmult_assoc, Rinv_l by lra. lra. }
    rewrite Rlt_bool_true in H.
    - destruct H as (H1 & H2 & _). rewrite H2. split; [exact Fk|exact H1].
    - rewrite Rabs_pos_eq by (apply rnd_ge0; lra). apply Rle_lt_trans with 1; [apply rnd_le1; lra|].
      change 1 with (bpow radix2 0). apply bpow_lt. unfold emax; lia. }
  destruct Hfrac as [Ffrac Rfrac].
  assert (Hq : / IZR (2 ^ 31) <= kr / Wr <= 1).
  { split.
    - unfold Rdiv. apply Rle_trans with (1 * / Wr); [rewrite Rmult_1_l; apply Rinv_le_contravar; lra|].
      apply Rmult_le_compat_r; [apply Rlt_le, Rinv_0_lt_compat; lra|lra].
    - apply (Rmult_le_reg_r Wr); [lra|]. unfold Rdiv. rewrite Rmult_assoc, Rinv_l by lra. lra. }
  assert (Hqpos : 0 < kr / Wr) by (apply Rdiv_lt_0_compat; lra).
  assert (Hfr01 : 0 <= RF frac <= 1) by (rewrite Rfrac; split; [apply rnd_ge0; lra|apply rnd_le1; lra]).
  assert (Herr1 : Rabs (RF frac - kr / Wr) <= u * (kr / Wr)).
  { rewrite Rfrac. rewrite <- (Rabs_pos_eq (kr / Wr)) at 3 by lra. apply rnd_err.
    rewrite Rabs_pos_eq by lra. apply Rle_trans with (/ IZR (2 ^ 31)); [|apply Hq].
    rewrite IZR_pow31, <- bpow_opp. apply bpow_le. lia. }
  (* the two range tests on the fraction *)
  unfold grad_workers_of. fold frac.
  rewrite (ltb_real frac 0%float Ffrac F0), R0.
  rewrite (ltb_real 1%float frac F1 Ffrac), R1.
  rewrite (Rlt_bool_false (RF frac) 0) by lra. rewrite (Rlt_bool_false 1 (RF frac)) by lra. cbn [orb].
  (* x = fl(W * frac) *)
  set (x := (f_of_nat W * frac)%float).
  set (p := Wr * RF frac).
  assert (Hp : Rabs (p - kr) <= u * kr).
  { unfold p. replace (Wr * RF frac - kr) with (Wr * (RF frac - kr / Wr)) by (field; lra).
    rewrite Rabs_mult, (Rabs_pos_eq Wr) by lra.
    apply Rle_trans with (Wr * (u * (kr / Wr))); [apply Rmult_le_compat_l; lra|]. apply Req_le. field. lra. }
  assert (Hu : 0 < u < / 4).
  { rewrite u_val. split; [apply bpow_gt_0|]. change (/ 4) with (/ bpow radix2 2). rewrite <- bpow_opp. apply bpow_lt. lia. }
  assert (Hpb : kr * (1 - u) <= p <= kr * (1 + u)) by (pose proof (Rabs_le_inv _ _ Hp); lra).
  assert (Hx : fin x /\ RF x = rnd p).
  { unfold x, fin, RF in *. rewrite FP.mul_equiv.
    pose proof (Bmult_correct prec emax FP.Hprec FP.Hmax mode_NE (FP.Prim2B (f_of_nat W)) (FP.Prim2B frac)) as H.
    rewrite RW in H. fold p in H. fold (rnd p) in H.
    rewrite Rlt_bool_true in H.
    - destruct H as (H1 & H2 & _). rewrite H2, FW, Ffrac. split; [reflexivity|exact H1].
    - apply no_overflow. rewrite Rabs_pos_eq by nra.
      apply Rle_trans with (IZR (2 ^ 31) * 2); [nra|].
      rewrite IZR_pow31. change 2 with (bpow radix2 1). rewrite <- bpow_plus. apply bpow_le. lia. }
  destruct Hx as [Fx Rx].
  assert (Herr2 : Rabs (RF x - p) <= u * p).
  { rewrite Rx. rewrite <- (Rabs_pos_eq p) at 3 by nra. apply rnd_err. rewrite Rabs_pos_eq by nra.
    apply Rle_trans with (/ 2); [change (/ 2) with (/ bpow radix2 1); rewrite <- bpow_opp; apply bpow_le; lia|nra]. }
  set (E := kr * (2 * u + u * u)).
  assert (HE : Rabs (RF x - kr) <= E).
  { replace (RF x - kr) with ((RF x - p) + (p - kr)) by ring. eapply Rle_trans; [apply Rabs_triang|]. unfold E. nra. }
  assert (HEs : E <= bpow radix2 (-20)).
  { unfold E. apply Rle_trans with (IZR (2 ^ 31) * (2 * u + u * u)); [apply Rmult_le_compat_r; nra|apply two_u_small]. }
  pose proof half_gt as Hhalf.
  (* gw = max(1, x) *)
  rewrite (ltb_real 1%float x F1 Fx), R1.
  set (gw := if Rlt_bool 1 (RF x) then x else 1%float).
  assert (Hgw : fin gw /\ 1 <= RF gw /\ Rabs (RF gw - kr) <= E).
  { unfold gw. destruct (Rlt_bool_spec 1 (RF x)) as [H|H].
    - split; [exact Fx|]. split; [lra|exact HE].
    - split; [exact F1|]. rewrite R1. split; [lra|].
      (* x <= 1 forces k = 1 *)
      assert (kr < 2) by (pose proof (Rabs_le_inv _ _ HE); lra).
      assert (Z.of_nat k < 2)%Z by (apply lt_IZR; exact H0).
      assert (kr = 1) by (unfold kr; replace (Z.of_nat k) with 1%Z by lia; reflexivity).
      rewrite H2. replace (1 - 1) with 0 by ring. rewrite Rabs_R0. unfold E. nra. }
  destruct Hgw as (Fgw & Hgw1 & Hgwk).
  rewrite (round_half_even_near gw (Z.of_nat k) Fgw ltac:(lra) ltac:(fold kr; lra)).
  (* the tolerance test *)
  destruct (f_of_Z_spec (Z.of_nat k) ltac:(lia)) as [FkZ RkZ]. fold kr in RkZ.
  set (t := (gw - f_of_Z (Z.of_nat k))%float).
  assert (Ht : fin t /\ Rabs (RF t) <= bpow radix2 (-20)).
  { unfold t, fin, RF in *. rewrite FP.sub_equiv.
    pose proof (Bminus_correct prec emax FP.Hprec FP.Hmax mode_NE (FP.Prim2B gw) (FP.Prim2B (f_of_Z (Z.of_nat k))) Fgw FkZ) as H.
    rewrite RkZ in H. fold (rnd (B2R (FP.Prim2B gw) - kr)) in H.
    assert (Hb : Rabs (rnd (B2R (FP.Prim2B gw) - kr)) <= bpow radix2 (-20)).
    { apply abs_round_le_generic; [typeclasses eauto|typeclasses eauto|apply fmt_bpow; lia|lra]. }
    rewrite Rlt_bool_true in H.
    - destruct H as (H1 & H2 & _). split; [exact H2|rewrite H1; exact Hb].
    - eapply Rle_lt_trans; [exact Hb|]. apply bpow_lt. unfold emax; lia. }
  destruct Ht as [Ft Rt].
  assert (Fabs : fin (abs t) /\ RF (abs t) = Rabs (RF t)).
  { unfold fin, RF. rewrite FP.abs_equiv. split; [rewrite is_finite_Babs; exact Ft|apply B2R_Babs]. }
  destruct Fabs as [Fa Ra]. destruct RF_tol as [Ftol Rtol].
  rewrite (ltb_real tol (abs t) Ftol Fa), Ra.
  rewrite Rlt_bool_false by lra.
  (* the result *)
  destruct (Z.leb_spec (Z.of_nat k) 0) as [Hc|Hc]; [lia|].
  rewrite Nat2Z.id, Hdiv. reflexivity.
Qed.
