From Coq Require Import List Arith Bool Lia.
Import ListNotations.
From KV Require Import Model.Triu Model.Placement Model.Coll Model.Kaisa Model.Bucket Model.Kfac Model.KfacComm.
From KV Require Import Proofs.KaisaP Proofs.CollP.

(* a KAISA grid: k gradient workers per layer, p = W / k columns, W = k * p *)
Definition wf_grid (c : pcfg) : Prop := 0 < pp c /\ 0 < pk c /\ pW c = pk c * pp c.

Lemma kcols_length p k : length (kcols_pk p k) = p.
Proof. unfold kcols_pk. now rewrite map_length, seq_length. Qed.
Lemma krows_length p k : length (krows_pk p k) = k.
Proof. unfold krows_pk. now rewrite map_length, seq_length. Qed.

Lemma mem_world c : mem_of (kmembers c) 0 = seq 0 (pW c).
Proof. reflexivity. Qed.
Lemma mem_col c j : j < pp c -> mem_of (kmembers c) (g_col c j) = kcol (pp c) (pk c) j.
Proof.
  intros Hj. unfold mem_of, kmembers, g_col. cbn [Nat.add nth].
  rewrite app_nth1 by (rewrite kcols_length; exact Hj). now apply nth_kcols.
Qed.
Lemma mem_row c j : j < pk c -> mem_of (kmembers c) (g_row c j) = krow (pp c) j.
Proof.
  intros Hj. unfold mem_of, kmembers, g_row. cbn [Nat.add nth].
  rewrite app_nth2 by (rewrite kcols_length; lia). rewrite kcols_length.
  replace (pp c + j - pp c) with j by lia. now apply nth_krows.
Qed.

Lemma existsb_eqb_In r l : existsb (Nat.eqb r) l = true <-> In r l.
Proof.
  rewrite existsb_exists. split.
  - intros (x & Hx & E). apply Nat.eqb_eq in E. now subst.
  - intros H. exists r. split; [exact H|apply Nat.eqb_refl].
Qed.

Lemma bool_eq (a b : bool) : (a = true <-> b = true) -> a = b.
Proof. destruct a, b; intuition congruence. Qed.

Lemma memb_world c r : r < pW c -> memb (kmembers c) r 0 = true.
Proof. intros H. unfold memb. rewrite mem_world. apply existsb_eqb_In, in_seq. lia. Qed.

Lemma memb_col c r j : wf_grid c -> r < pW c -> j < pp c ->
  memb (kmembers c) r (g_col c j) = Nat.eqb (r mod pp c) j.
Proof.
  intros (Hp & Hk & HW) Hr Hj. unfold memb. rewrite (mem_col c j Hj). apply bool_eq.
  rewrite existsb_eqb_In, Nat.eqb_eq. split.
  - intros H. now apply (kcol_mod (pp c) (pk c) j r Hj) in H.
  - intros <-. apply in_own_col; [exact Hp|lia].
Qed.

Lemma memb_row c r j : wf_grid c -> r < pW c -> j < pk c ->
  memb (kmembers c) r (g_row c j) = Nat.eqb (r / pp c) j.
Proof.
  intros (Hp & Hk & HW) Hr Hj. unfold memb. rewrite (mem_row c j Hj). apply bool_eq.
  rewrite existsb_eqb_In, Nat.eqb_eq. split.
  - intros H. now apply (krow_div (pp c) j r Hp) in H.
  - intros <-. now apply in_own_row.
Qed.

(* ---------- projections ---------- *)
Lemma mine_app M a b r : mine M (a ++ b) r = mine M a r ++ mine M b r.
Proof. unfold mine. apply filter_app. Qed.

Lemma mine_world c l r : r < pW c -> (forall i, In i l -> igrp i = 0) -> mine (kmembers c) l r = l.
Proof.
  intros Hr. induction l as [|i t IH]; intros H; [reflexivity|].
  unfold mine in *. cbn [filter]. rewrite (H i (or_introl eq_refl)), (memb_world c r Hr).
  f_equal. apply IH. intros x Hx. apply H. now right.
Qed.

Lemma fac_add_world c cap bs n : forall i, In i (snd (fac_add c cap bs n)) -> igrp i = 0.
Proof.
  unfold fac_add. destruct (Nat.eqb (pW c) 1); [intros i []|].
  destruct cap as [cp|].
  - destruct (bstep cp bs (Add (pW c) (fac_item c n))) as [bs' em]. cbn [snd].
    intros i Hi. apply in_map_iff in Hi as (b & <- & _). reflexivity.
  - cbn. intros i [<-|[]]. reflexivity.
Qed.

Lemma fac_adds_world c cap ns : forall bs i, In i (snd (fac_adds c cap bs ns)) -> igrp i = 0.
Proof.
  induction ns as [|n t IH]; intros bs i; [intros []|].
  cbn [fac_adds]. pose proof (fac_add_world c cap bs n) as H1.
  destruct (fac_add c cap bs n) as [bs1 o1].
  specialize (IH bs1). destruct (fac_adds c cap bs1 t) as [bs2 o2]. cbn [snd] in *.
  intros Hi. apply in_app_or in Hi as [Hi|Hi]; [now apply H1|now apply IH].
Qed.

Lemma fac_flush_world cap bs : forall i, In i (snd (fac_flush cap bs)) -> igrp i = 0.
Proof.
  unfold fac_flush. destruct cap as [cp|]; [|intros i []].
  destruct (bstep cp bs Flush) as [bs' em]. cbn [snd].
  intros i Hi. apply in_map_iff in Hi as (b & <- & _). reflexivity.
Qed.

Lemma filter_same_group M r g (l : list inst) : (forall i, In i l -> igrp i = g) ->
  filter (fun i => memb M r (igrp i)) l = if memb M r g then l else [].
Proof.
  induction l as [|i t IH]; intros H; [now destruct (memb M r g)|].
  cbn [filter]. rewrite (H i (or_introl eq_refl)).
  rewrite IH by (intros x Hx; apply H; now right). now destruct (memb M r g).
Qed.

Lemma pcol_lt c l : 0 < pp c -> pcol c l < pp c.
Proof. intros H. unfold pcol. apply Nat.mod_upper_bound. lia. Qed.

Lemma inv_proj c r ls : wf_grid c -> r < pW c -> mine (kmembers c) (inv_all c ls) r = inv_rank c r ls.
Proof.
  intros Hwf Hr. unfold inv_all, inv_rank. destruct (bcast_inv c); [|reflexivity].
  induction ls as [|l t IH]; [reflexivity|].
  cbn [flat_map]. rewrite mine_app, IH. f_equal.
  unfold mine. rewrite (filter_same_group _ r (g_col c (pcol c l))).
  - rewrite (memb_col c r (pcol c l) Hwf Hr (pcol_lt c l (proj1 Hwf))). reflexivity.
  - intros i Hi. unfold inv_layer in Hi. apply in_map_iff in Hi as (m & <- & _). reflexivity.
Qed.

Lemma filter_eq_seq q : forall n a, a <= q < a + n -> filter (fun j => Nat.eqb q j) (seq a n) = [q].
Proof.
  induction n as [|n IH]; intros a H; [lia|].
  cbn [seq filter]. destruct (Nat.eqb_spec q a) as [->|Hne].
  - f_equal. clear. generalize (S a) (Nat.lt_succ_diag_r a). induction n as [|n IH]; intros b Hb; [reflexivity|].
    cbn [seq filter]. destruct (Nat.eqb_spec a b); [lia|]. apply IH. lia.
  - apply IH. lia.
Qed.

Lemma filter_map {A B} (f : A -> B) (P : B -> bool) l : filter P (map f l) = map f (filter (fun x => P (f x)) l).
Proof. induction l as [|x t IH]; [reflexivity|]. cbn. destruct (P (f x)); cbn; now rewrite IH. Qed.

Lemma filter_ext_in' {A} (f g : A -> bool) l : (forall x, In x l -> f x = g x) -> filter f l = filter g l.
Proof. apply filter_ext_in. Qed.

Lemma div_lt_k c r : wf_grid c -> r < pW c -> r / pp c < pk c.
Proof. intros (Hp & Hk & HW) Hr. apply Nat.div_lt_upper_bound; lia. Qed.

Lemma grad_proj c r ls : wf_grid c -> r < pW c -> mine (kmembers c) (grad_all c ls) r = grad_rank c r ls.
Proof.
  intros Hwf Hr. unfold grad_all, grad_rank. destruct (bcast_grad c); [|reflexivity].
  induction ls as [|l t IH]; [reflexivity|].
  cbn [flat_map map]. rewrite mine_app, IH. clear IH.
  change (?a :: ?b) with ([a] ++ b). f_equal.
  unfold mine. rewrite filter_map.
  rewrite (filter_ext_in' _ (fun j => Nat.eqb (r / pp c) j)).
  - rewrite filter_eq_seq by (pose proof (div_lt_k c r Hwf Hr); lia). reflexivity.
  - intros j Hj. apply in_seq in Hj. cbn [igrp bc]. apply memb_row; [exact Hwf|exact Hr|lia].
Qed.

(* ---------- one event, a whole run ---------- *)
Lemma cstep_state c cap ls who bs e : fst (cstep c cap ls who bs e) = fst (cstep c cap ls None bs e).
Proof. destruct e; reflexivity. Qed.

Lemma cstep_proj c cap ls r bs e : wf_grid c -> r < pW c ->
  snd (cstep c cap ls (Some r) bs e) = mine (kmembers c) (snd (cstep c cap ls None bs e)) r.
Proof.
  intros Hwf Hr. destruct e; cbn [cstep snd].
  - symmetry. apply mine_world; [exact Hr|apply fac_adds_world].
  - symmetry. apply mine_world; [exact Hr|apply fac_adds_world].
  - symmetry. apply mine_world; [exact Hr|apply fac_adds_world].
  - symmetry. apply mine_world; [exact Hr|apply fac_flush_world].
  - symmetry. now apply inv_proj.
  - symmetry. now apply inv_proj.
  - symmetry. now apply grad_proj.
  - symmetry. apply mine_world; [exact Hr|]. destruct (Nat.eqb (pW c) 1); [intros i []|].
    intros i Hi. apply in_map_iff in Hi as (n & <- & _). reflexivity.
Qed.

Lemma crun_proj c cap ls r es : wf_grid c -> r < pW c -> forall bs,
  fst (crun c cap ls (Some r) bs es) = fst (crun c cap ls None bs es) /\
  snd (crun c cap ls (Some r) bs es) = mine (kmembers c) (snd (crun c cap ls None bs es)) r.
Proof.
  intros Hwf Hr. induction es as [|e t IH]; intros bs; [split; reflexivity|].
  cbn [crun].
  pose proof (cstep_state c cap ls (Some r) bs e) as Hs.
  pose proof (cstep_proj c cap ls r bs e Hwf Hr) as Hp.
  destruct (cstep c cap ls (Some r) bs e) as [b1 o1]. destruct (cstep c cap ls None bs e) as [b1' o1'].
  cbn [fst snd] in Hs, Hp. subst b1.
  specialize (IH b1'). destruct (crun c cap ls (Some r) b1' t) as [b2 o2]. destruct (crun c cap ls None b1' t) as [b2' o2'].
  cbn [fst snd] in *. destruct IH as [-> ->]. split; [reflexivity|]. rewrite mine_app. now rewrite Hp.
Qed.

(* K-FAC programs are projections of ONE global order, for every grid, method, layer table,
   bucket capacity and history of the control machine *)
Lemma kfac_comm_proj_l cfg c cap ls h r : wf_grid c -> r < pW c ->
  kfac_issues cfg c cap ls r h = mine (kmembers c) (kfac_order cfg c cap ls h) r.
Proof. intros Hwf Hr. unfold kfac_issues, kfac_order. now apply crun_proj. Qed.

(* every member of every group is a rank of the world *)
Lemma kmembers_in_world c g r : wf_grid c -> In r (mem_of (kmembers c) g) -> r < pW c.
Proof.
  intros (Hp & Hk & HW) H. unfold mem_of, kmembers in H. destruct g as [|g].
  - cbn in H. apply in_seq in H. lia.
  - cbn [nth] in H. destruct (Nat.lt_ge_cases g (pp c)) as [Hg|Hg].
    + rewrite app_nth1 in H by (now rewrite kcols_length). rewrite nth_kcols in H by exact Hg.
      apply (kcol_mod _ _ _ _ Hg) in H. lia.
    + rewrite app_nth2 in H by (now rewrite kcols_length). rewrite kcols_length in H.
      destruct (Nat.lt_ge_cases (g - pp c) (pk c)) as [Hj|Hj].
      * rewrite nth_krows in H by exact Hj. apply krow_In in H. nia.
      * rewrite nth_overflow in H by (rewrite krows_length; exact Hj). destruct H.
Qed.

(* roots: the inverse workers of a layer lie in its column (C06), the source of a row lies in the row *)
Definition wf_roots (c : pcfg) (ls : list player) : Prop :=
  forall l, In l ls -> wa l < pW c /\ wg l < pW c /\ wg l mod pp c = wa l mod pp c.

Lemma inv_all_roots c ls : wf_grid c -> wf_roots c ls -> forall i, In i (inv_all c ls) -> root_ok (kmembers c) i = true.
Proof.
  intros Hwf Hl i. unfold inv_all. destruct (bcast_inv c); [|intros []].
  intros Hi. apply in_flat_map in Hi as (l & Hin & Hi). destruct (Hl l Hin) as (Ha & Hg & Hc).
  unfold inv_layer in Hi. apply in_map_iff in Hi as ((n & root) & <- & Hm). cbn [fst snd].
  unfold root_ok, bc. cbn [iroot igrp].
  assert (Hroot : root = wa l \/ root = wg l).
  { unfold inv_msgs in Hm. destruct (pmeth c); cbn in Hm; intuition congruence. }
  pose proof (pcol_lt c l (proj1 Hwf)) as Hc'.
  destruct Hroot as [-> | ->].
  - rewrite (memb_col c (wa l) (pcol c l) Hwf Ha Hc'). unfold pcol. apply Nat.eqb_refl.
  - rewrite (memb_col c (wg l) (pcol c l) Hwf Hg Hc'). unfold pcol. rewrite Hc. apply Nat.eqb_refl.
Qed.

Lemma grad_all_roots c ls : wf_grid c -> forall i, In i (grad_all c ls) -> root_ok (kmembers c) i = true.
Proof.
  intros Hwf i. unfold grad_all. destruct (bcast_grad c); [|intros []].
  intros Hi. apply in_flat_map in Hi as (l & _ & Hi). apply in_map_iff in Hi as (j & <- & Hj). apply in_seq in Hj.
  unfold root_ok, bc. cbn [iroot igrp]. destruct Hwf as (Hp & Hk & HW).
  pose proof (pcol_lt c l Hp) as Hc.
  assert (Hlt : pcol c l + j * pp c < pW c) by nia.
  rewrite memb_row by (repeat split; auto; lia).
  apply Nat.eqb_eq. rewrite Nat.div_add by lia. rewrite Nat.div_small by exact Hc. reflexivity.
Qed.

Lemma world_roots c l : (forall i, In i l -> igrp i = 0 /\ iroot i = 0) -> forall i, In i l -> root_ok (kmembers c) i = true.
Proof. intros H i Hi. unfold root_ok. now rewrite (proj2 (H i Hi)). Qed.

Lemma fac_add_noroot c cap bs n : forall i, In i (snd (fac_add c cap bs n)) -> iroot i = 0.
Proof.
  unfold fac_add. destruct (Nat.eqb (pW c) 1); [intros i []|].
  destruct cap as [cp|].
  - destruct (bstep cp bs (Add (pW c) (fac_item c n))) as [bs' em]. cbn [snd].
    intros i Hi. apply in_map_iff in Hi as (b & <- & _). reflexivity.
  - cbn. intros i [<-|[]]. reflexivity.
Qed.
Lemma fac_adds_noroot c cap ns : forall bs i, In i (snd (fac_adds c cap bs ns)) -> iroot i = 0.
Proof.
  induction ns as [|n t IH]; intros bs i; [intros []|].
  cbn [fac_adds]. pose proof (fac_add_noroot c cap bs n) as H1.
  destruct (fac_add c cap bs n) as [bs1 o1].
  specialize (IH bs1). destruct (fac_adds c cap bs1 t) as [bs2 o2]. cbn [snd] in *.
  intros Hi. apply in_app_or in Hi as [Hi|Hi]; [now apply H1|now apply IH].
Qed.
Lemma fac_flush_noroot cap bs : forall i, In i (snd (fac_flush cap bs)) -> iroot i = 0.
Proof.
  unfold fac_flush. destruct cap as [cp|]; [|intros i []].
  destruct (bstep cp bs Flush) as [bs' em]. cbn [snd].
  intros i Hi. apply in_map_iff in Hi as (b & <- & _). reflexivity.
Qed.

Lemma wf_roots_rev c ls : wf_roots c ls -> wf_roots c (rev ls).
Proof. intros H l Hl. apply H. now apply in_rev. Qed.

Lemma cstep_roots c cap ls bs e : wf_grid c -> wf_roots c ls ->
  forall i, In i (snd (cstep c cap ls None bs e)) -> root_ok (kmembers c) i = true.
Proof.
  intros Hwf Hl i. destruct e; cbn [cstep snd]; intros Hi.
  - unfold root_ok. now rewrite (fac_adds_noroot _ _ _ _ _ Hi).
  - unfold root_ok. now rewrite (fac_adds_noroot _ _ _ _ _ Hi).
  - unfold root_ok. now rewrite (fac_adds_noroot _ _ _ _ _ Hi).
  - unfold root_ok. now rewrite (fac_flush_noroot _ _ _ Hi).
  - apply (inv_all_roots c (rev ls) Hwf (wf_roots_rev c ls Hl) i Hi).
  - apply (inv_all_roots c ls Hwf Hl i Hi).
  - apply (grad_all_roots c (rev ls) Hwf i Hi).
  - destruct (Nat.eqb (pW c) 1); [destruct Hi|]. apply in_map_iff in Hi as (n & <- & _). reflexivity.
Qed.

Lemma crun_roots c cap ls es : wf_grid c -> wf_roots c ls -> forall bs i,
  In i (snd (crun c cap ls None bs es)) -> root_ok (kmembers c) i = true.
Proof.
  intros Hwf Hl. induction es as [|e t IH]; intros bs i; [intros []|].
  cbn [crun]. pose proof (cstep_roots c cap ls bs e Hwf Hl) as H1.
  destruct (cstep c cap ls None bs e) as [b1 o1]. specialize (IH b1).
  destruct (crun c cap ls None b1 t) as [b2 o2]. cbn [snd] in *.
  intros Hi. apply in_app_or in Hi as [Hi|Hi]; [now apply H1|now apply IH].
Qed.
