From Coq Require Import List Arith ZArith Bool Lia.
Import ListNotations.
From KV Require Import Model.Trace.

(* abstract specification: a total map name -> samples, no ordering, no dict *)
Definition amap := nat -> list Z.
Definition astep (m : amap) (o : op) : amap :=
  match o with
  | Call name d (Ret _) => fun n => if Nat.eqb n name then m n ++ [d] else m n
  | Call _ _ (Raise _) => m
  | Get _ _ => m
  | Clear => fun _ => []
  end.

Definition samples (t : table) (name : nat) : list Z :=
  match find (fun p => Nat.eqb (fst p) name) t with Some (_, ds) => ds | None => [] end.

Definition wf (t : table) : Prop := NoDup (map fst t) /\ forall n ds, In (n, ds) t -> ds <> [].

Lemma samples_record t name d n :
  samples (record t name d) n = if Nat.eqb n name then samples t n ++ [d] else samples t n.
Proof.
  unfold samples. induction t as [|[m ds] rest IH]; simpl.
  - destruct (Nat.eqb_spec name n), (Nat.eqb_spec n name); subst; try reflexivity; congruence.
  - destruct (Nat.eqb_spec m name) as [->|Hne]; simpl.
    + destruct (Nat.eqb_spec name n) as [->|Hn].
      * now rewrite Nat.eqb_refl.
      * destruct (Nat.eqb_spec n name); [congruence|reflexivity].
    + destruct (Nat.eqb_spec m n) as [->|Hn].
      * destruct (Nat.eqb_spec n name); [congruence|reflexivity].
      * exact IH.
Qed.

Lemma record_names t name d x : In x (map fst (record t name d)) <-> x = name \/ In x (map fst t).
Proof.
  induction t as [|[m ds] rest IH]; simpl; [intuition (subst; auto)|].
  destruct (Nat.eqb_spec m name) as [->|Hne]; simpl; [intuition (subst; auto)|]. rewrite IH. intuition (subst; auto).
Qed.

Lemma record_wf t name d : wf t -> wf (record t name d).
Proof.
  intros [Hnd Hne]. split.
  - clear Hne. induction t as [|[m ds] rest IH]; simpl; [repeat constructor; simpl; tauto|].
    inversion Hnd as [|? ? Hnotin Hnd']; subst.
    destruct (Nat.eqb_spec m name) as [->|Hm]; simpl; [constructor; assumption|].
    constructor; [|now apply IH]. rewrite record_names. intros [->|H]; [congruence|contradiction].
  - clear Hnd. induction t as [|[m ds] rest IH]; simpl; intros n ds' Hin.
    + destruct Hin as [E|[]]. inversion E. discriminate.
    + destruct (Nat.eqb_spec m name) as [->|Hm]; simpl in Hin.
      * destruct Hin as [E|Hin]; [inversion E; subst; now destruct ds|].
        eapply Hne; right; eassumption.
      * destruct Hin as [E|Hin]; [inversion E; subst; eapply Hne; left; reflexivity|].
        eapply IH; [|eassumption]. intros; eapply Hne; right; eassumption.
Qed.

(* refinement: each concrete step commutes with the abstraction *)
Lemma step_refines t o n : samples (fst (step t o)) n = astep (samples t) o n.
Proof.
  destruct o as [name d [v|e]|av mh|]; simpl; try reflexivity.
  apply samples_record.
Qed.

Lemma step_wf t o : wf t -> wf (fst (step t o)).
Proof.
  destruct o as [name d [v|e]|av mh|]; simpl; intros H; try assumption.
  - now apply record_wf.
  - split; [constructor|intros ? ? []].
Qed.

Lemma run_fst t ops : fst (run t ops) = fold_left (fun s o => fst (step s o)) ops t.
Proof.
  revert t. induction ops as [|o rest IH]; intros t; simpl; [reflexivity|].
  destruct (step t o) as [t' ob] eqn:E. destruct (run t' rest) as [t'' obs] eqn:E2. simpl.
  rewrite <- IH, E2. reflexivity.
Qed.

Lemma run_refines ops : forall t n,
  samples (fst (run t ops)) n = fold_left astep ops (samples t) n.
Proof.
  induction ops as [|o rest IH]; intros t n; simpl; [reflexivity|].
  destruct (step t o) as [t' ob] eqn:E. destruct (run t' rest) as [t'' obs] eqn:E2. simpl.
  change t'' with (fst (t'', obs)). rewrite <- E2, IH.
  assert (Hext : forall m1 m2, (forall x, m1 x = m2 x) -> forall x, fold_left astep rest m1 x = fold_left astep rest m2 x).
  { clear. induction rest as [|o rest IH]; intros m1 m2 H x; simpl; [apply H|].
    apply IH. intros y. destruct o as [name d [v|e]|av mh|]; simpl; try apply H; try reflexivity.
    now rewrite H. }
  apply Hext. intros x. change t' with (fst (t', ob)). rewrite <- E. apply step_refines.
Qed.

Lemma run_wf ops : forall t, wf t -> wf (fst (run t ops)).
Proof.
  induction ops as [|o rest IH]; intros t H; simpl; [assumption|].
  destruct (step t o) as [t' ob] eqn:E. destruct (run t' rest) as [t'' obs] eqn:E2. simpl.
  change t'' with (fst (t'', obs)). rewrite <- E2. apply IH.
  change t' with (fst (t', ob)). rewrite <- E. now apply step_wf.
Qed.

(* ---- transparency ---- *)
Lemma call_transparent t name d o :
  snd (step t (Call name d o)) = match o with Ret v => Returned v | Raise e => Raised e end.
Proof. destruct o; reflexivity. Qed.

Lemma one_sample t name d v n :
  samples (fst (step t (Call name d (Ret v))) ) n = if Nat.eqb n name then samples t n ++ [d] else samples t n.
Proof. apply samples_record. Qed.

Lemma raise_records_nothing t name d e : fst (step t (Call name d (Raise e))) = t.
Proof. reflexivity. Qed.

(* ---- statistics ---- *)
Lemma lastn_length {A} m (l : list A) : m <= length l -> length (lastn m l) = m.
Proof. intros H. unfold lastn. rewrite skipn_length. lia. Qed.

Lemma lastn_suffix {A} m (l : list A) : exists pre, l = pre ++ lastn m l.
Proof. exists (firstn (length l - m) l). unfold lastn. symmetry. apply firstn_skipn. Qed.

Lemma window_spec mh times :
  match mh with
  | None => window mh times = times
  | Some m => 1 <= m -> window mh times = lastn (Nat.min m (length times)) times
  end.
Proof.
  destruct mh as [m|]; [|reflexivity]. intros Hm. unfold window.
  destruct (Nat.ltb_spec m (length times)) as [Hlt|Hge].
  - destruct (Nat.eqb_spec m 0); [lia|]. now rewrite Nat.min_l by lia.
  - rewrite Nat.min_r by lia. unfold lastn. now rewrite Nat.sub_diag.
Qed.

Lemma get_spec t av mh :
  snd (step t (Get av mh)) = Stats (map (fun p => (fst p, stat av mh (snd p))) t) /\
  fst (step t (Get av mh)) = t.
Proof. split; reflexivity. Qed.

Lemma get_names t av mh s : snd (step t (Get av mh)) = Stats s -> map fst s = map fst t.
Proof. simpl. intros E. inversion E. rewrite map_map. reflexivity. Qed.

Lemma get_value t av mh s n times : wf t -> snd (step t (Get av mh)) = Stats s ->
  In (n, times) t -> In (n, stat av mh times) s /\ samples t n = times.
Proof.
  intros [Hnd _] E Hin. simpl in E. inversion E; subst. split.
  - apply in_map_iff. exists (n, times). split; [reflexivity|assumption].
  - unfold samples. induction t as [|[m ds] rest IH]; [destruct Hin|]. simpl.
    inversion Hnd as [|? ? Hnotin Hnd']; subst.
    destruct Hin as [E'|Hin]; [inversion E'; subst; now rewrite Nat.eqb_refl|].
    destruct (Nat.eqb_spec m n) as [->|Hne]; [|apply IH; try assumption; reflexivity].
    exfalso. apply Hnotin. apply in_map_iff. exists (n, times). split; [reflexivity|assumption].
Qed.

Lemma clear_empties t av mh : fst (step t Clear) = [] /\
  snd (step (fst (step t Clear)) (Get av mh)) = Stats [].
Proof. split; reflexivity. Qed.

Lemma max_history_zero times : times <> [] -> window (Some 0) times = times.
Proof. intros H. unfold window. destruct times; [contradiction|reflexivity]. Qed.

(* the window is a non-empty suffix of a non-empty sample list, whatever max_history is *)
Lemma window_suffix mh times : exists pre, times = pre ++ window mh times.
Proof.
  unfold window. destruct mh as [m|]; [|exists []; reflexivity].
  destruct (Nat.ltb m (length times)); [|exists []; reflexivity].
  destruct (Nat.eqb m 0); [exists []; reflexivity|apply lastn_suffix].
Qed.

Lemma window_nonempty mh times : times <> [] -> window mh times <> [].
Proof.
  intros Hne. unfold window. destruct mh as [m|]; [|exact Hne].
  destruct (Nat.ltb m (length times)) eqn:E; [|exact Hne].
  destruct (Nat.eqb m 0) eqn:E0; [exact Hne|].
  apply Nat.ltb_lt in E. apply Nat.eqb_neq in E0.
  intro H. assert (L : length (lastn m times) = m) by (apply lastn_length; lia).
  rewrite H in L. simpl in L. lia.
Qed.

(* in every table reached from the empty one, every reported average has a
   divisor >= 1 (no division by zero), the divisor never exceeds the number of
   samples, and the reported sum is over a suffix of the samples *)
Lemma average_divisor ops mh s n sm dv :
  snd (step (fst (run [] ops)) (Get true mh)) = Stats s -> In (n, (sm, dv)) s ->
  1 <= dv <= length (samples (fst (run [] ops)) n) /\
  exists pre, samples (fst (run [] ops)) n = pre ++ window mh (samples (fst (run [] ops)) n) /\
              sm = zsum (window mh (samples (fst (run [] ops)) n)) /\
              dv = length (window mh (samples (fst (run [] ops)) n)).
Proof.
  set (t := fst (run [] ops)). intros E Hin.
  assert (Hwf : wf t) by (apply run_wf; split; [constructor|intros ? ? []]).
  simpl in E. injection E as E. subst s.
  apply in_map_iff in Hin as ((n', times) & Heq & Hin). simpl in Heq.
  unfold stat in Heq. injection Heq as Hn Hs Hd. subst n'.
  assert (Hsam : samples t n = times).
  { destruct (get_value t true mh _ n times Hwf eq_refl Hin) as [_ H]. exact H. }
  rewrite Hsam. destruct Hwf as [_ Hne]. specialize (Hne n times Hin).
  destruct (window_suffix mh times) as [pre Hpre].
  pose proof (window_nonempty mh times Hne) as Hw.
  split.
  - subst dv. split.
    + destruct (window mh times); [congruence|simpl; lia].
    + rewrite Hpre at 2. rewrite app_length. lia.
  - exists pre. repeat split; [exact Hpre|symmetry; exact Hs|symmetry; exact Hd].
Qed.
