(* memory_usage() (a flush) at a step boundary issues nothing: step() ends with a flush, and a flush after a flush is
   silent - so it may be called on any subset of ranks. *)
From Coq Require Import List Arith Bool Lia.
Import ListNotations.
From KV Require Import Model.Triu Model.Placement Model.Coll Model.Kaisa Model.Bucket Model.Kfac Model.KfacComm.

Lemma flush_twice_l cp (s : bstate) : snd (bstep cp (fst (bstep cp s Flush)) Flush) = [].
Proof.
  cbn [bstep fst snd]. induction s as [|[k ob] t IH]; [reflexivity|]. cbn [map flat_map fst snd]. exact IH.
Qed.

Lemma flush_after_flush_silent_l c cap ls who bs :
  snd (cstep c cap ls who (fst (cstep c cap ls who bs CFlush)) CFlush) = [].
Proof.
  cbn [cstep]. unfold fac_flush. destruct cap as [cp|]; [|reflexivity].
  destruct (bstep cp bs Flush) as [b1 e1] eqn:E1. cbn [fst].
  pose proof (flush_twice_l cp bs) as H. rewrite E1 in H. cbn [fst] in H.
  destruct (bstep cp b1 Flush) as [b2 e2]. cbn [snd] in *. now rewrite H.
Qed.

(* the communication events of a step() always end with a flush *)
Lemma step_ends_with_flush hook acts : exists pre, cev_of hook Step acts = pre ++ [CFlush].
Proof.
  unfold cev_of. set (a := if negb hook && has_update acts then [CFacStep] else []).
  destruct (has_pre acts), (has_inv acts).
  - exists (a ++ [CFlush] ++ [CInv; CFlush] ++ [CGrad]). now rewrite <- !app_assoc.
  - exists (a ++ [CFlush] ++ [CGrad]). now rewrite <- !app_assoc.
  - exists (a ++ [CFlush] ++ [CInv]). now rewrite <- !app_assoc.
  - exists a. now rewrite !app_nil_r.
Qed.
