(* dtype tags of the generated collectives: second-order data travels in the
   inverse dtype, preconditioned gradients in the gradient dtype, factors (direct
   or as a flat bucket) in the factor dtype. *)
From Coq Require Import List Arith Bool Lia.
Import ListNotations.
From KV Require Import Model.Triu Model.Placement Model.Coll Model.Kaisa Model.Bucket Model.Kfac Model.KfacComm.

Lemma inv_all_dtype c ls i : In i (inv_all c ls) -> idtype i = pidt c /\ ikind i = 2.
Proof.
  unfold inv_all. destruct (bcast_inv c); [|intros []].
  intros Hi. apply in_flat_map in Hi as (l & _ & Hi). unfold inv_layer in Hi.
  apply in_map_iff in Hi as (m & <- & _). split; reflexivity.
Qed.

Lemma inv_rank_dtype c r ls i : In i (inv_rank c r ls) -> idtype i = pidt c /\ ikind i = 2.
Proof.
  unfold inv_rank. destruct (bcast_inv c); [|intros []].
  intros Hi. apply in_flat_map in Hi as (l & _ & Hi). destruct (is_gw c r l); [|destruct Hi].
  unfold inv_layer in Hi. apply in_map_iff in Hi as (m & <- & _). split; reflexivity.
Qed.

Lemma grad_all_dtype c ls i : In i (grad_all c ls) -> idtype i = pgdt c /\ ikind i = 2.
Proof.
  unfold grad_all. destruct (bcast_grad c); [|intros []].
  intros Hi. apply in_flat_map in Hi as (l & _ & Hi). apply in_map_iff in Hi as (j & <- & _). split; reflexivity.
Qed.

Lemma grad_rank_dtype c r ls i : In i (grad_rank c r ls) -> idtype i = pgdt c /\ ikind i = 2.
Proof.
  unfold grad_rank. destruct (bcast_grad c); [|intros []].
  intros Hi. apply in_map_iff in Hi as (l & <- & _). split; reflexivity.
Qed.

(* every bucket the factor path ever holds or emits contains factor items only *)
Definition fac_only (c : pcfg) (b : bucket) : Prop := forall it, In it b -> i_dtype it = pfdt c.

Lemma bdt_fac c b : b <> [] -> fac_only c b -> bdt b = pfdt c.
Proof. destruct b as [|it t]; [congruence|]. intros _ H. apply H. now left. Qed.

Definition st_fac (c : pcfg) (s : bstate) : Prop := forall k b, In (k, Some b) s -> fac_only c b.

Lemma in_setb s k ob x : In x (setb s k ob) -> x = (k, ob) \/ In x s.
Proof.
  induction s as [|[k' ob'] t IH]; cbn [setb].
  - intros [<-|[]]. now left.
  - destruct (Nat.eqb_spec k' k) as [->|_].
    + intros [<-|H]; [now left|right; now right].
    + intros [<-|H]; [right; now left|]. destruct (IH H) as [->|H2]; [now left|right; now right].
Qed.

Lemma cur_fac c s k : st_fac c s -> fac_only c (cur s k).
Proof.
  intros H. unfold cur. destruct (getb s k) as [b|] eqn:E; [|intros it []].
  (* getb s k = Some b -> In (k, Some b) s *)
  assert (Hin : In (k, Some b) s).
  { clear H. induction s as [|[k' ob'] t IH]; cbn [getb] in E; [discriminate|].
    destruct (Nat.eqb_spec k' k) as [->|_]; [subst ob'; now left|right; auto]. }
  exact (H k b Hin).
Qed.

Lemma emit_in b b2 : In b2 (emit b) -> b2 = b /\ b <> [].
Proof. destruct b as [|x t]; cbn [emit]; [intros []|]. intros [<-|[]]. split; [reflexivity|discriminate]. Qed.

(* one bucket operation of the factor path *)
Lemma bstep_fac c cp s o : st_fac c s ->
  (match o with Add _ it => i_dtype it = pfdt c | Flush => True end) ->
  st_fac c (fst (bstep cp s o)) /\ forall b, In b (snd (bstep cp s o)) -> bdt b = pfdt c.
Proof.
  intros Hs Ho. destruct o as [gs it|]; cbn [bstep].
  - destruct (Nat.eqb gs 1); [split; [exact Hs|intros b []]|].
    pose proof (cur_fac c s (i_key it) Hs) as Hc.
    destruct (Nat.ltb cp (bsize (cur s (i_key it)) + i_bytes it) || negb (same_dtype (cur s (i_key it)) it)); cbn [fst snd].
    + split.
      * intros k b Hin. apply in_setb in Hin as [E|Hin]; [|exact (Hs k b Hin)].
        injection E as _ ->. intros x [<-|[]]. exact Ho.
      * intros b Hb. apply emit_in in Hb as [-> Hne]. now apply bdt_fac.
    + split; [|intros b []].
      intros k b Hin. apply in_setb in Hin as [E|Hin]; [|exact (Hs k b Hin)].
      injection E as _ ->. intros x Hx. apply in_app_or in Hx as [Hx|[<-|[]]]; [now apply Hc|exact Ho].
  - cbn [fst snd]. split.
    + intros k b Hin. apply in_map_iff in Hin as ([k' ob] & E & _). cbn [fst] in E. discriminate.
    + intros b Hb. apply in_flat_map in Hb as ([k ob] & Hin & Hb). cbn [snd] in Hb. destruct ob as [b0|]; [|destruct Hb].
      apply emit_in in Hb as [-> Hne]. apply bdt_fac; [exact Hne|exact (Hs k b0 Hin)].
Qed.

Lemma fac_add_dtype c cap bs n : st_fac c bs ->
  st_fac c (fst (fac_add c cap bs n)) /\ forall i, In i (snd (fac_add c cap bs n)) -> idtype i = pfdt c /\ ikind i = 1.
Proof.
  intros Hs. unfold fac_add. destruct (Nat.eqb (pW c) 1); [split; [exact Hs|intros i []]|].
  destruct cap as [cp|]; cbn [fst snd].
  - pose proof (bstep_fac c cp bs (Add (pW c) (fac_item c n)) Hs eq_refl) as [H1 H2].
    destruct (bstep cp bs (Add (pW c) (fac_item c n))) as [bs' em]. cbn [fst snd] in *. split; [exact H1|].
    intros i Hi. apply in_map_iff in Hi as (b & <- & Hb). split; [exact (H2 b Hb)|reflexivity].
  - split; [exact Hs|]. intros i [<-|[]]. split; reflexivity.
Qed.

Lemma fac_adds_dtype c cap ns : forall bs, st_fac c bs ->
  st_fac c (fst (fac_adds c cap bs ns)) /\ forall i, In i (snd (fac_adds c cap bs ns)) -> idtype i = pfdt c /\ ikind i = 1.
Proof.
  induction ns as [|n t IH]; intros bs Hs; cbn [fac_adds]; [split; [exact Hs|intros i []]|].
  pose proof (fac_add_dtype c cap bs n Hs) as [H1 H2]. destruct (fac_add c cap bs n) as [bs1 o1]. cbn [fst snd] in *.
  pose proof (IH bs1 H1) as [H3 H4]. destruct (fac_adds c cap bs1 t) as [bs2 o2]. cbn [fst snd] in *.
  split; [exact H3|]. intros i Hi. apply in_app_or in Hi as [Hi|Hi]; auto.
Qed.

Lemma fac_flush_dtype c cap bs : st_fac c bs ->
  st_fac c (fst (fac_flush cap bs)) /\ forall i, In i (snd (fac_flush cap bs)) -> idtype i = pfdt c /\ ikind i = 1.
Proof.
  intros Hs. unfold fac_flush. destruct cap as [cp|]; [|split; [exact Hs|intros i []]].
  pose proof (bstep_fac c cp bs Flush Hs I) as [H1 H2]. destruct (bstep cp bs Flush) as [bs' em]. cbn [fst snd] in *.
  split; [exact H1|]. intros i Hi. apply in_map_iff in Hi as (b & <- & Hb). split; [exact (H2 b Hb)|reflexivity].
Qed.

(* the dtype and the kind every collective of an event carries *)
Definition ev_dt (c : pcfg) (e : cev) : nat :=
  match e with
  | CFacA | CFacG | CFacStep | CFlush => pfdt c
  | CInv | CInvLoad => pidt c
  | CGrad | CUser _ => pgdt c
  end.
Definition ev_kind (e : cev) : nat := match e with CInv | CInvLoad | CGrad => 2 | _ => 1 end.

Lemma cstep_dtype c cap ls who bs e : st_fac c bs ->
  st_fac c (fst (cstep c cap ls who bs e)) /\
  forall i, In i (snd (cstep c cap ls who bs e)) -> idtype i = ev_dt c e /\ ikind i = ev_kind e.
Proof.
  intros Hs. destruct e; cbn [cstep ev_dt ev_kind].
  - apply fac_adds_dtype; exact Hs.
  - apply fac_adds_dtype; exact Hs.
  - apply fac_adds_dtype; exact Hs.
  - apply fac_flush_dtype; exact Hs.
  - cbn [fst snd]. split; [exact Hs|]. destruct who as [r|]; [apply inv_rank_dtype|apply inv_all_dtype].
  - cbn [fst snd]. split; [exact Hs|]. destruct who as [r|]; [apply inv_rank_dtype|apply inv_all_dtype].
  - cbn [fst snd]. split; [exact Hs|]. destruct who as [r|]; [apply grad_rank_dtype|apply grad_all_dtype].
  - cbn [fst snd]. split; [exact Hs|]. destruct (Nat.eqb (pW c) 1); [intros i []|].
    intros i Hi. apply in_map_iff in Hi as (n & <- & _). split; reflexivity.
Qed.

Lemma crun_dtype c cap ls who es : forall bs, st_fac c bs ->
  forall i, In i (snd (crun c cap ls who bs es)) -> exists e, In e es /\ idtype i = ev_dt c e /\ ikind i = ev_kind e.
Proof.
  induction es as [|e t IH]; intros bs Hs i; cbn [crun]; [intros []|].
  pose proof (cstep_dtype c cap ls who bs e Hs) as [H1 H2]. destruct (cstep c cap ls who bs e) as [bs1 o1]. cbn [fst snd] in *.
  specialize (IH bs1 H1 i). destruct (crun c cap ls who bs1 t) as [bs2 o2]. cbn [fst snd] in *.
  intros Hi. apply in_app_or in Hi as [Hi|Hi].
  - exists e. split; [now left|exact (H2 i Hi)].
  - destruct (IH Hi) as (e' & He' & Hd). exists e'. split; [now right|exact Hd].
Qed.

Lemma st_fac_nil c : st_fac c [].
Proof. intros k b []. Qed.
