(* The greedy rule only compares sums of costs: multiplying every cost by the
   same positive constant does not change the assignment.  (The correspondence
   feeds the implementation integer costs and the same costs scaled by exact
   powers of two; this is the model-side justification.) *)
From Coq Require Import List Arith ZArith Bool Lia.
Import ListNotations.
From KV Require Import Model.Greedy Proofs.GreedyP.
Local Open Scope Z_scope.

Definition scale_layer (k : Z) (fs : layerw) : layerw := map (fun fc => (fst fc, k * snd fc)) fs.
Definition scale_work (k : Z) (work : list layerw) : list layerw := map (scale_layer k) work.
Definition scaled (k : Z) (L' L : loads) : Prop := forall r, L' r = k * L r.

Section Scale.
Variable k : Z.
Hypothesis Hk : 0 < k.

Lemma ltb_scale a b : (k * a <? k * b) = (a <? b).
Proof. destruct (Z.ltb_spec a b), (Z.ltb_spec (k * a) (k * b)); try reflexivity; nia. Qed.
Lemma eqb_scale a b : (k * a =? k * b) = (a =? b).
Proof. destruct (Z.eqb_spec a b), (Z.eqb_spec (k * a) (k * b)); try reflexivity; nia. Qed.

Lemma sumcost_scale fs : sumcost (scale_layer k fs) = k * sumcost fs.
Proof.
  induction fs as [|[f c] t IH]; [cbn; lia|].
  change (sumcost (scale_layer k ((f, c) :: t))) with (k * c + sumcost (scale_layer k t)).
  change (sumcost ((f, c) :: t)) with (c + sumcost t). rewrite IH. lia.
Qed.

Lemma argmin_aux_scale l : forall i bi b, argmin_aux (map (Z.mul k) l) i bi (k * b) = argmin_aux l i bi b.
Proof.
  induction l as [|x t IH]; intros i bi b; [reflexivity|]. cbn [map argmin_aux]. rewrite ltb_scale.
  destruct (x <? b); apply IH.
Qed.
Lemma argmin_scale l : argmin (map (Z.mul k) l) = argmin l.
Proof. destruct l as [|x t]; [reflexivity|]. cbn [map argmin]. apply argmin_aux_scale. Qed.

Lemma map_scaled L' L (g : list nat) : scaled k L' L -> map L' g = map (Z.mul k) (map L g).
Proof. intros H. rewrite map_map. apply map_ext. intros r. apply H. Qed.

Lemma gload_scaled L' L g : scaled k L' L -> gload L' g = k * gload L g.
Proof.
  intros H. induction g as [|r t IH]; [cbn; lia|].
  change (gload L' (r :: t)) with (L' r + gload L' t). change (gload L (r :: t)) with (L r + gload L t).
  rewrite IH, H. lia.
Qed.

Lemma pick_worker_scaled L' L g : scaled k L' L -> pick_worker L' g = pick_worker L g.
Proof. intros H. unfold pick_worker. rewrite (map_scaled L' L g H), argmin_scale. reflexivity. Qed.

Lemma pick_group_scaled L' L groups : scaled k L' L -> pick_group L' groups = pick_group L groups.
Proof.
  intros H. unfold pick_group.
  replace (map (gload L') groups) with (map (Z.mul k) (map (gload L) groups)); [now rewrite argmin_scale|].
  rewrite map_map. apply map_ext. intros g. symmetry. now apply gload_scaled.
Qed.

Lemma upd_scaled L' L w c : scaled k L' L -> scaled k (upd L' w (k * c)) (upd L w c).
Proof. intros H r. unfold upd. destruct (Nat.eqb r w); rewrite H; lia. Qed.

(* ---- sorting commutes with scaling ---- *)
Lemma factor_lt_scale a b : factor_lt (fst a, k * snd a) (fst b, k * snd b) = factor_lt a b.
Proof. unfold factor_lt. cbn [fst snd]. now rewrite ltb_scale, eqb_scale. Qed.

Lemma insert_factor_scale x l :
  insert_factor (fst x, k * snd x) (scale_layer k l) = scale_layer k (insert_factor x l).
Proof.
  induction l as [|y t IH]; [reflexivity|]. cbn [scale_layer map insert_factor].
  rewrite factor_lt_scale. destruct (factor_lt y x); [reflexivity|].
  cbn [map]. f_equal. exact IH.
Qed.

Lemma sort_factors_scale fs : sort_factors (scale_layer k fs) = scale_layer k (sort_factors fs).
Proof.
  unfold sort_factors.
  assert (G : forall l acc, fold_left (fun a x => insert_factor x a) (scale_layer k l) (scale_layer k acc)
                          = scale_layer k (fold_left (fun a x => insert_factor x a) l acc)).
  { induction l as [|x t IH]; intros acc; [reflexivity|]. cbn [scale_layer map fold_left].
    fold (scale_layer k t). rewrite insert_factor_scale. apply IH. }
  exact (G fs []).
Qed.

Definition scale_il (l : list (nat * layerw)) : list (nat * layerw) := map (fun x => (fst x, scale_layer k (snd x))) l.

Lemma insert_layer_scale x l :
  insert_layer (fst x, scale_layer k (snd x)) (scale_il l) = scale_il (insert_layer x l).
Proof.
  induction l as [|y t IH]; [reflexivity|]. cbn [scale_il map insert_layer fst snd].
  rewrite !sumcost_scale, ltb_scale. destruct (sumcost (snd y) <? sumcost (snd x)); [reflexivity|].
  cbn [map]. f_equal. exact IH.
Qed.

Lemma sort_layers_scale l : sort_layers (scale_il l) = scale_il (sort_layers l).
Proof.
  unfold sort_layers.
  assert (G : forall l acc, fold_left (fun a x => insert_layer x a) (scale_il l) (scale_il acc)
                          = scale_il (fold_left (fun a x => insert_layer x a) l acc)).
  { induction l0 as [|x t IH]; intros acc; [reflexivity|]. cbn [scale_il map fold_left].
    fold (scale_il t). rewrite insert_layer_scale. apply IH. }
  exact (G l []).
Qed.

Lemma index_from_scale work : forall i, index_from i (scale_work k work) = scale_il (index_from i work).
Proof. induction work as [|fs t IH]; intros i; [reflexivity|]. cbn [scale_work map index_from scale_il fst snd]. f_equal. apply IH. Qed.

(* ---- placement ---- *)
Lemma place_factors_scaled g : forall fs L' L, scaled k L' L ->
  snd (place_factors L' g (scale_layer k fs)) = snd (place_factors L g fs) /\
  scaled k (fst (place_factors L' g (scale_layer k fs))) (fst (place_factors L g fs)).
Proof.
  induction fs as [|[f c] t IH]; intros L' L H; [split; [reflexivity|exact H]|].
  cbn [scale_layer map place_factors fst snd]. fold (scale_layer k t).
  rewrite (pick_worker_scaled L' L g H).
  specialize (IH (upd L' (pick_worker L g) (k * c)) (upd L (pick_worker L g) c) (upd_scaled L' L _ c H)).
  destruct (place_factors (upd L' (pick_worker L g) (k * c)) g (scale_layer k t)) as [L1' a'].
  destruct (place_factors (upd L (pick_worker L g) c) g t) as [L1 a]. cbn [fst snd] in *.
  destruct IH as [-> Hs]. split; [reflexivity|exact Hs].
Qed.

Lemma map_fst_scale (w : nat) fs :
  map (fun fc : nat * Z => (fst fc, w)) (scale_layer k fs) = map (fun fc : nat * Z => (fst fc, w)) fs.
Proof. unfold scale_layer. rewrite map_map. reflexivity. Qed.

Lemma place_layer_scaled colocate groups fs L' L : scaled k L' L ->
  snd (place_layer colocate L' groups (scale_layer k fs)) = snd (place_layer colocate L groups fs) /\
  scaled k (fst (place_layer colocate L' groups (scale_layer k fs))) (fst (place_layer colocate L groups fs)).
Proof.
  intros H. unfold place_layer. rewrite (pick_group_scaled L' L groups H). destruct colocate.
  - rewrite (pick_worker_scaled L' L _ H). cbn [fst snd]. split; [apply map_fst_scale|].
    rewrite sumcost_scale. now apply upd_scaled.
  - rewrite sort_factors_scale. now apply place_factors_scaled.
Qed.

Lemma place_all_scaled colocate groups : forall ls L' L, scaled k L' L ->
  place_all colocate L' groups (scale_il ls) = place_all colocate L groups ls.
Proof.
  induction ls as [|[i fs] t IH]; intros L' L H; [reflexivity|].
  cbn [scale_il map place_all fst snd]. fold (scale_il t).
  destruct (place_layer_scaled colocate groups fs L' L H) as [Ha Hs].
  destruct (place_layer colocate L' groups (scale_layer k fs)) as [L1' a'].
  destruct (place_layer colocate L groups fs) as [L1 a]. cbn [fst snd] in *. subst a'.
  f_equal. now apply IH.
Qed.

Lemma greedy_scale_invariant_l work groups colocate :
  greedy (scale_work k work) groups colocate = greedy work groups colocate.
Proof.
  unfold greedy. rewrite index_from_scale, sort_layers_scale. apply place_all_scaled. intros r. lia.
Qed.
End Scale.
