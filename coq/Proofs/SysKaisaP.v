(* Every KAISA grid yields an assignment that satisfies the well-formedness hypothesis of the transparency
   theorem (C02, Model/Sys.v): C06's grid facts discharge C02's premise. *)
From Coq Require Import List Arith Bool Lia.
Import ListNotations.
From KV Require Import Model.Sys.

(* the answers of a KAISA assignment for one layer whose inverse workers wa, wg lie in column c *)
Definition kaisa_asg (p k c wa wg : nat) : asg :=
  {| a_wa := wa; a_wg := wg;
     a_gw := fun r => Nat.eqb (r mod p) c;
     a_src := fun r => c + (r / p) * p;
     a_binv := Nat.ltb 1 k;
     a_bgrad := Nat.ltb k (k * p) |}.

Lemma kaisa_asg_wf_l p k c wa wg : 0 < p -> 0 < k -> c < p ->
  wa < k * p -> wg < k * p -> wa mod p = c -> wg mod p = c ->
  wf_asg (k * p) (kaisa_asg p k c wa wg).
Proof.
  intros Hp Hk Hc Ha Hg Ea Eg. unfold wf_asg, kaisa_asg. cbn [a_wa a_wg a_gw a_src a_binv a_bgrad].
  split; [exact Ha|]. split; [exact Hg|]. split; [now apply Nat.eqb_eq|]. split; [now apply Nat.eqb_eq|].
  split; [|split].
  - intros r Hr. assert (Hq : r / p < k) by (apply Nat.div_lt_upper_bound; lia). split.
    + nia.
    + apply Nat.eqb_eq. rewrite Nat.mod_add by lia. now apply Nat.mod_small.
  - intros Hb r Hr Hgw. apply Nat.ltb_ge in Hb. assert (k = 1) by lia. subst k.
    apply Nat.eqb_eq in Hgw. rewrite Nat.mul_1_l in *.
    rewrite Nat.mod_small in Hgw, Ea, Eg by lia. lia.
  - intros Hb r Hr. apply Nat.ltb_ge in Hb. assert (p = 1) by nia. subst p.
    apply Nat.eqb_eq. rewrite Nat.mod_1_r. lia.
Qed.
