From Coq Require Import List Arith Bool Lia.
Import ListNotations.
From KV Require Import Model.Frame.

Lemma step_frame_l newval idt E :
  fbuffers (step_env newval idt E) = fbuffers E /\
  length (fparams (step_env newval idt E)) = length (fparams E) /\
  forall i e, nth_error (fparams E) i = Some e ->
    exists e', nth_error (fparams (step_env newval idt E)) i = Some e' /\
      e_value e' = e_value e /\ e_layer e' = e_layer e /\ e_bias e' = e_bias e /\
      (touched e = false -> e' = e).
Proof.
  split; [reflexivity|]. split; [unfold step_env; simpl; now rewrite map_length|].
  intros i e H. exists (write_grad newval idt e). split.
  - unfold step_env. simpl. rewrite nth_error_map, H. reflexivity.
  - destruct e as [[l|] b v [[g m]|]]; unfold write_grad, touched; simpl; repeat split; try reflexivity; discriminate.
Qed.

Lemma meta_preserved_l newval idt e l g m : e_layer e = Some l -> e_grad e = Some (g, m) ->
  exists g' m', e_grad (write_grad newval idt e) = Some (g', m') /\
    g' = newval l (e_bias e) /\ t_shape m' = t_shape m /\ t_dtype m' = t_dtype m /\
    t_device m' = t_device m /\ t_contig m' = true.
Proof.
  intros Hl Hg. unfold write_grad. rewrite Hl, Hg. simpl. eexists. eexists. repeat split; reflexivity.
Qed.
