From Coq Require Import List Arith Lia Bool PeanoNat.
Import ListNotations.
From KV Require Import Model.Coll.

Section Progress.
Variable members : list (list nat).
Variable nr : nat.
Variable P : nat -> list act.
Variable L : list inst.

Local Notation memb := (Coll.memb members).
Local Notation mem_of := (Coll.mem_of members).
Local Notation mine := (Coll.mine members L).
Local Notation done_ := (Coll.done_ P).
Local Notation rest := (Coll.rest P).
Local Notation cnt := (Coll.cnt P).
Local Notation wait_ok := (Coll.wait_ok members P).
Local Notation enabledb := (Coll.enabledb members P).

(* members are ranks of the world *)
Hypothesis Hmem : forall g r, In r (mem_of g) -> r < nr.
(* global-order condition: the issues of rank r are exactly the instances of L
   whose group contains r, in order *)
Hypothesis Hproj : forall r, r < nr -> issues (P r) = mine r.
(* every wait comes after the issue it waits for *)
Hypothesis Hwait : forall r, r < nr -> forall pre g k post,
  P r = pre ++ Wait g k :: post -> k < length (ong g (issues pre)).

Definition unfinished (s : st) r := s r < length (P r).

(* ---------- list lemmas ---------- *)
Lemma issues_app a b : issues (a ++ b) = issues a ++ issues b.
Proof. induction a as [|[i|g k] a IH]; simpl; rewrite ?IH; reflexivity. Qed.

Lemma filter_firstn_prefix {A} (f:A->bool) (l:list A) n :
  exists m, firstn n (filter f l) = filter f (firstn m l) /\ m <= length l.
Proof.
  revert n; induction l as [|x l IH]; intros n.
  - exists 0; destruct n; simpl; auto.
  - simpl. destruct (f x) eqn:E.
    + destruct n as [|n]; [exists 0; simpl; split; [reflexivity|lia]|].
      destruct (IH n) as (m & Hm & Hl). exists (S m); simpl. rewrite E, Hm. split; [reflexivity|lia].
    + destruct (IH n) as (m & Hm & Hl). exists (S m); simpl. rewrite E. split; [exact Hm|lia].
Qed.

Lemma ong_filter_mine r g l : memb r g = true ->
  ong g (filter (fun i => memb r (igrp i)) l) = ong g l.
Proof.
  intros Hm. unfold ong. induction l as [|x l IH]; simpl; [reflexivity|].
  destruct (memb r (igrp x)) eqn:E; simpl.
  - destruct (igrp x =? g); rewrite IH; reflexivity.
  - destruct (igrp x =? g) eqn:E2; [|exact IH].
    apply Nat.eqb_eq in E2. rewrite E2 in E. congruence.
Qed.

Lemma ong_mine r g : memb r g = true -> ong g (mine r) = ong g L.
Proof. intros Hm. unfold Coll.mine. now apply ong_filter_mine. Qed.

Lemma ong_firstn_mono g l a b : a <= b -> length (ong g (firstn a l)) <= length (ong g (firstn b l)).
Proof.
  revert a b; induction l as [|x l IH]; intros a b Hab.
  - rewrite !firstn_nil; simpl; lia.
  - destruct a, b; simpl; try lia.
    destruct (igrp x =? g); simpl; specialize (IH a b ltac:(lia)); lia.
Qed.

Lemma ong_firstn_le g l a : length (ong g (firstn a l)) <= length (ong g l).
Proof.
  rewrite <- (firstn_all l) at 2.
  destruct (le_lt_dec a (length l)); [apply ong_firstn_mono; assumption|].
  rewrite firstn_all2 by lia. rewrite firstn_all. lia.
Qed.

(* front position of a rank in L *)
Lemma done_prefix s r : P r = done_ s r ++ rest s r.
Proof. unfold Coll.done_, Coll.rest. symmetry; apply firstn_skipn. Qed.

Lemma front_exists s r : r < nr ->
  exists f, issues (done_ s r) = filter (fun i => memb r (igrp i)) (firstn f L) /\ f <= length L.
Proof.
  intros Hr. pose proof (Hproj r Hr) as Hp. rewrite (done_prefix s r), issues_app in Hp.
  destruct (filter_firstn_prefix (fun i => memb r (igrp i)) L (length (issues (done_ s r)))) as (m & Hm & Hl).
  exists m. split; [|exact Hl]. rewrite <- Hm. fold (mine r). rewrite <- Hp.
  rewrite firstn_app, Nat.sub_diag, firstn_all. simpl. rewrite app_nil_r. reflexivity.
Qed.

Lemma cnt_front s r g f : memb r g = true ->
  issues (done_ s r) = filter (fun i => memb r (igrp i)) (firstn f L) ->
  cnt s r g = length (ong g (firstn f L)).
Proof. intros Hm Hf. unfold Coll.cnt. rewrite Hf, ong_filter_mine by assumption. reflexivity. Qed.

Lemma memb_In r g : memb r g = true <-> In r (mem_of g).
Proof.
  unfold Coll.memb. rewrite existsb_exists. split.
  - intros (x & Hx & E). apply Nat.eqb_eq in E. subst; assumption.
  - intros H. exists r. split; [assumption|apply Nat.eqb_refl].
Qed.

(* a rank that waits on (g,k) is a member of g and has k < cnt *)
Lemma waiter_member s r g k tl : r < nr -> rest s r = Wait g k :: tl ->
  k < cnt s r g /\ memb r g = true.
Proof.
  intros Hr Hrest. pose proof (done_prefix s r) as Hp. rewrite Hrest in Hp.
  pose proof (Hwait r Hr _ _ _ _ Hp) as Hk. split; [exact Hk|].
  (* some issued instance on g is in mine r *)
  unfold Coll.cnt in *. destruct (ong g (issues (done_ s r))) as [|x xs] eqn:E; [simpl in Hk; lia|].
  assert (Hin : In x (ong g (issues (done_ s r)))) by (rewrite E; left; reflexivity).
  unfold ong in Hin. apply filter_In in Hin as [Hin Hg]. apply Nat.eqb_eq in Hg.
  assert (In x (mine r)).
  { rewrite <- (Hproj r Hr), Hp, issues_app. apply in_or_app; left; exact Hin. }
  unfold Coll.mine in H. apply filter_In in H as [_ H]. rewrite Hg in H. exact H.
Qed.

(* key lemma: a blocked waiter is blocked by an unfinished rank strictly behind it *)
Lemma blocked_descends s r g k tl f :
  r < nr -> rest s r = Wait g k :: tl -> wait_ok s g k = false ->
  issues (done_ s r) = filter (fun i => memb r (igrp i)) (firstn f L) ->
  exists r' f', r' < nr /\ unfinished s r' /\ f' < f /\
    issues (done_ s r') = filter (fun i => memb r' (igrp i)) (firstn f' L).
Proof.
  intros Hr Hrest Hblk Hf.
  destruct (waiter_member s r g k tl Hr Hrest) as [Hk Hm].
  unfold Coll.wait_ok in Hblk.
  assert (exists r', In r' (mem_of g) /\ cnt s r' g <= k) as (r' & Hin & Hle).
  { clear -Hblk. induction (mem_of g) as [|x l IH]; simpl in Hblk; [discriminate|].
    apply andb_false_iff in Hblk as [H|H].
    - exists x; split; [left; reflexivity|]. apply Nat.ltb_ge in H; exact H.
    - destruct (IH H) as (r' & Hin & Hle). exists r'; split; [right; exact Hin|exact Hle]. }
  assert (Hr' : r' < nr) by (eapply Hmem; exact Hin).
  assert (Hm' : memb r' g = true) by (apply memb_In; exact Hin).
  destruct (front_exists s r' Hr') as (f' & Hf' & Hl').
  rewrite (cnt_front s r g f Hm Hf) in Hk.
  rewrite (cnt_front s r' g f' Hm' Hf') in Hle.
  exists r', f'. repeat split; try assumption.
  - (* unfinished *)
    unfold unfinished. destruct (le_lt_dec (length (P r')) (s r')) as [Hge|Hlt]; [|exact Hlt].
    exfalso. assert (done_ s r' = P r') by (unfold Coll.done_; apply firstn_all2; exact Hge).
    assert (cnt s r' g = length (ong g L)).
    { unfold Coll.cnt. rewrite H, (Hproj r' Hr'), ong_mine by assumption. reflexivity. }
    rewrite (cnt_front s r' g f' Hm' Hf') in H0.
    pose proof (ong_firstn_le g L f). lia.
  - destruct (le_lt_dec f f') as [Hge|Hlt]; [|exact Hlt].
    pose proof (ong_firstn_mono g L f f' Hge). lia.
Qed.

Lemma rest_nonempty s r : unfinished s r -> rest s r <> [].
Proof.
  unfold unfinished, Coll.rest. intros H E.
  assert (length (skipn (s r) (P r)) = 0) by (rewrite E; reflexivity).
  rewrite skipn_length in H0. lia.
Qed.

(* progress: if some rank is unfinished, some rank is enabled *)
Theorem progress s : (exists r, r < nr /\ unfinished s r) -> exists r, r < nr /\ enabledb s r = true.
Proof.
  intros (r & Hr & Hu).
  destruct (front_exists s r Hr) as (f & Hf & _).
  revert r Hr Hu Hf. induction f as [f IH] using lt_wf_ind. intros r Hr Hu Hf.
  destruct (enabledb s r) eqn:En; [exists r; auto|].
  unfold Coll.enabledb in En. destruct (rest s r) as [|[i|g k] tl] eqn:Hrest.
  - exfalso; eapply rest_nonempty; eassumption.
  - discriminate.
  - destruct (blocked_descends s r g k tl f Hr Hrest En Hf) as (r' & f' & Hr' & Hu' & Hlt & Hf').
    exact (IH f' Hlt r' Hr' Hu' Hf').
Qed.
End Progress.

(* ---------- consequences of the global-order condition ---------- *)
Section Matching.
Variable members : list (list nat).
Variable nr : nat.
Variable P : nat -> list act.
Variable L : list inst.
Local Notation memb := (Coll.memb members).
Local Notation mem_of := (Coll.mem_of members).
Hypothesis Hproj : forall r, r < nr -> issues (P r) = Coll.mine members L r.
Hypothesis Hmem : forall g r, In r (mem_of g) -> r < nr.

(* all members of a group issue the same sequence of collectives on it, with
   equal kind / element count / dtype / root *)
Lemma members_match g r1 r2 : In r1 (mem_of g) -> In r2 (mem_of g) ->
  ong g (issues (P r1)) = ong g (issues (P r2)).
Proof.
  intros H1 H2. rewrite (Hproj r1 (Hmem g r1 H1)), (Hproj r2 (Hmem g r2 H2)).
  unfold Coll.mine. rewrite !(ong_filter_mine members) by (apply (memb_In members); assumption).
  reflexivity.
Qed.

(* no rank issues on a group it does not belong to *)
Lemma issuer_is_member r i : r < nr -> In i (issues (P r)) -> memb r (igrp i) = true.
Proof.
  intros Hr Hin. rewrite (Hproj r Hr) in Hin. unfold Coll.mine in Hin.
  apply filter_In in Hin. tauto.
Qed.
End Matching.

(* ---------- every maximal execution completes ---------- *)
Section Completion.
Variable members : list (list nat).
Variable nr : nat.
Variable P : nat -> list act.
Variable L : list inst.
Hypothesis Hmem : forall g r, In r (Coll.mem_of members g) -> r < nr.
Hypothesis Hproj : forall r, r < nr -> issues (P r) = Coll.mine members L r.
Hypothesis Hwait : forall r, r < nr -> forall pre g k post,
  P r = pre ++ Wait g k :: post -> k < length (ong g (issues pre)).

Inductive steps : st -> st -> Prop :=
| steps_refl s : steps s s
| steps_step s r s' : r < nr -> Coll.enabledb members P s r = true -> steps (advance s r) s' -> steps s s'.

Definition finished (s : st) : Prop := forall r, r < nr -> length (P r) <= s r.

Fixpoint remaining (s : st) (n : nat) : nat :=
  match n with 0 => 0 | S m => (length (P m) - s m) + remaining s m end.

Lemma remaining_zero s n : remaining s n = 0 -> forall r, r < n -> length (P r) <= s r.
Proof.
  induction n as [|n IH]; simpl; intros H r Hr; [lia|].
  destruct (Nat.eq_dec r n) as [->|]; [lia|]. apply IH; lia.
Qed.

Lemma remaining_ext s s' n : (forall m, m < n -> s m = s' m) -> remaining s n = remaining s' n.
Proof.
  induction n as [|n IH]; simpl; intros H; [reflexivity|].
  rewrite (H n) by lia. rewrite IH; [reflexivity|]. intros; apply H; lia.
Qed.

Lemma remaining_advance s r n : r < n -> s r < length (P r) ->
  remaining (advance s r) n < remaining s n.
Proof.
  induction n as [|n IH]; simpl; intros Hr Hlt; [lia|].
  destruct (Nat.eq_dec r n) as [->|Hne].
  - rewrite (remaining_ext (advance s n) s n).
    + unfold advance. rewrite Nat.eqb_refl. lia.
    + intros m Hm. unfold advance. destruct (Nat.eqb_spec m n); [lia|reflexivity].
  - assert (Hr' : r < n) by lia. specialize (IH Hr' Hlt).
    unfold advance at 1. destruct (Nat.eqb_spec n r); [lia|]. lia.
Qed.

Lemma enabled_unfinished s r : Coll.enabledb members P s r = true -> s r < length (P r).
Proof.
  unfold Coll.enabledb, Coll.rest. intros H.
  destruct (le_lt_dec (length (P r)) (s r)) as [Hge|Hlt]; [|exact Hlt].
  rewrite skipn_all2 in H by exact Hge. discriminate.
Qed.

(* from every state the system can run to completion, and it can never get
   stuck before: every started operation completes under every interleaving
   (any maximal execution is finite and ends with all ranks finished) *)
Lemma run_to_completion : forall s, exists s', steps s s' /\ finished s'.
Proof.
  intros s. remember (remaining s nr) as m eqn:Em. revert s Em.
  induction m as [m IH] using lt_wf_ind. intros s Em.
  destruct (Nat.eq_dec (remaining s nr) 0) as [E0|Hne].
  - exists s. split; [constructor|]. intros r Hr. now apply (remaining_zero s nr E0).
  - assert (Hex : exists r, r < nr /\ unfinished P s r).
    { clear -Hne. induction nr as [|n IHn]; simpl in Hne; [lia|].
      destruct (Nat.eq_dec (length (P n) - s n) 0) as [Ez|Hnz].
      - destruct IHn as (r & Hr & Hu); [lia|]. exists r. split; [lia|assumption].
      - exists n. split; [lia|]. unfold unfinished. lia. }
    destruct (progress members nr P L Hmem Hproj Hwait s Hex) as (r & Hr & Hen).
    pose proof (enabled_unfinished s r Hen) as Hlt.
    pose proof (remaining_advance s r nr Hr Hlt) as Hdec.
    destruct (IH (remaining (advance s r) nr) ltac:(lia) (advance s r) eq_refl) as (s' & Hs & Hf).
    exists s'. split; [econstructor; eassumption|assumption].
Qed.

Lemma never_stuck s : ~ finished s -> exists r, r < nr /\ Coll.enabledb members P s r = true.
Proof.
  intros Hnf. apply (progress members nr P L Hmem Hproj Hwait s).
  assert (Hne : remaining s nr <> 0) by (intros E; apply Hnf; intros r Hr; now apply (remaining_zero s nr E)).
  clear -Hne. induction nr as [|n IHn]; simpl in Hne; [lia|].
  destruct (Nat.eq_dec (length (P n) - s n) 0) as [Ez|Hnz].
  - destruct IHn as (r & Hr & Hu); [lia|]. exists r. split; [lia|assumption].
  - exists n. split; [lia|]. unfold unfinished. lia.
Qed.
End Completion.

(* ---------- soundness of the global-order checker ---------- *)
Section Checker.
Variable members : list (list nat).
Local Notation memb := (Coll.memb members).
Local Notation mem_of := (Coll.mem_of members).

Lemma inst_eqb_eq a b : inst_eqb a b = true -> a = b.
Proof.
  unfold inst_eqb. rewrite !andb_true_iff, !Nat.eqb_eq. destruct a, b; simpl. intuition congruence.
Qed.

Lemma head_is_spec i l : head_is i l = true -> exists t, l = i :: t.
Proof. destruct l as [|x t]; simpl; [discriminate|]. intros H. apply inst_eqb_eq in H. subst. eauto. Qed.

Lemma pop_from_length logs g base : length (pop_from members logs g base) = length logs.
Proof. revert base. induction logs as [|l t IH]; intros base; simpl; [reflexivity|now rewrite IH]. Qed.

Lemma pop_from_nth logs g : forall base r, r < length logs ->
  nth r (pop_from members logs g base) [] =
    if memb (base + r) g then tl (nth r logs []) else nth r logs [].
Proof.
  induction logs as [|l t IH]; intros base r Hr; simpl in *; [lia|].
  destruct r as [|r]; [now rewrite Nat.add_0_r|].
  rewrite IH by lia. now replace (S base + r) with (base + S r) by lia.
Qed.

Lemma find_ready_spec all : forall logs base i,
  find_ready members logs all base = Some i ->
  exists r, ready members all r i = true.
Proof.
  induction logs as [|l t IH]; intros base i H; simpl in H; [discriminate|].
  destruct l as [|x l']; [now apply IH in H|].
  destruct (ready members all base x) eqn:E; [inversion H; subst; eauto|now apply IH in H].
Qed.

Definition proj_inv (orig logs : list (list inst)) (acc : list inst) : Prop :=
  length logs = length orig /\
  forall r, r < length orig ->
    filter (fun i => memb r (igrp i)) (rev acc) ++ nth r logs [] = nth r orig [].

Lemma all_nil_spec logs : all_nil logs = true -> forall r, nth r logs [] = [].
Proof.
  unfold all_nil. rewrite forallb_forall. intros H r.
  destruct (le_lt_dec (length logs) r) as [Hge|Hlt]; [now apply nth_overflow|].
  specialize (H (nth r logs []) (nth_In _ _ Hlt)). now destruct (nth r logs []).
Qed.

Lemma merge_sound orig : forall fuel logs acc L,
  proj_inv orig logs acc -> (forall i, In i acc -> root_ok members i = true) ->
  merge members fuel logs acc = Some L ->
  (forall r, r < length orig -> nth r orig [] = Coll.mine members L r) /\
  (forall i, In i L -> root_ok members i = true).
Proof.
  assert (Hend : forall logs acc L, proj_inv orig logs acc ->
            (forall i, In i acc -> root_ok members i = true) ->
            (if all_nil logs then Some (rev acc) else None) = Some L ->
            (forall r, r < length orig -> nth r orig [] = Coll.mine members L r) /\
            (forall i, In i L -> root_ok members i = true)).
  { intros logs acc L [Hlen Hinv] Hroot H. destruct (all_nil logs) eqn:E; [|discriminate].
    inversion H; subst. split.
    - intros r Hr. rewrite <- (Hinv r Hr), (all_nil_spec logs E r), app_nil_r. reflexivity.
    - intros i Hi. apply Hroot. now apply in_rev. }
  induction fuel as [|fuel IH]; intros logs acc L Hinv Hroot H; simpl in H; [eapply Hend; eassumption|].
  destruct (find_ready members logs logs 0) as [i|] eqn:Ef; [|eapply Hend; eassumption].
  destruct (find_ready_spec logs logs 0 i Ef) as (r0 & Hready).
  unfold ready in Hready. apply andb_true_iff in Hready as [Hrm Hall]. apply andb_true_iff in Hrm as [_ Hroot_i].
  rewrite forallb_forall in Hall.
  apply (IH _ _ _ ) in H; [assumption| |].
  - destruct Hinv as [Hlen Hinv]. split; [now rewrite pop_from_length|].
    intros r Hr. rewrite pop_from_nth by lia. simpl.
    rewrite filter_app. simpl.
    destruct (memb r (igrp i)) eqn:Em.
    + assert (Hin : In r (mem_of (igrp i))) by (apply (memb_In members); exact Em).
      destruct (head_is_spec i _ (Hall r Hin)) as (t & Ht).
      rewrite <- (Hinv r Hr), Ht. simpl. now rewrite <- app_assoc.
    + rewrite app_nil_r. now apply Hinv.
  - intros j [<-|Hj]; [assumption|now apply Hroot].
Qed.

Lemma proj_ok_sound_l logs : proj_ok_b members logs = true ->
  exists L, (forall r, r < length logs -> nth r logs [] = Coll.mine members L r) /\
            (forall i, In i L -> root_ok members i = true).
Proof.
  unfold proj_ok_b, global_order. intros H.
  destruct (merge members _ logs []) as [L|] eqn:E; [|discriminate].
  exists L. eapply merge_sound; [| |exact E].
  - split; [reflexivity|]. intros r Hr. reflexivity.
  - intros i [].
Qed.
End Checker.
