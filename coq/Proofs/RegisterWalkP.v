(* The memoised pre-order walk (torch.nn.Module.named_modules) enumerates exactly
   the modules reachable from the root, each under the name of a genuine path,
   and S (length g) units of fuel always suffice on a well-formed graph. *)
From Coq Require Import List Arith Bool Lia.
Import ListNotations.
From KV Require Import Model.Register Proofs.RegisterP.

Definition child (g : graph) (x : nat) (nm c : nat) : Prop := In (nm, Some c) (n_children (nth x g dummy)).

(* a path from x: names of the edges taken, first edge first *)
Inductive rpath (g : graph) : nat -> path -> nat -> Prop :=
| rp_nil x : rpath g x [] x
| rp_cons x nm c suf y : child g x nm c -> rpath g c suf y -> rpath g x (nm :: suf) y.

Definition reach (g : graph) (x y : nat) : Prop := exists p, rpath g x p y.

Definition wf_graph (g : graph) : Prop := forall x nm c, x < length g -> child g x nm c -> c < length g.

(* ---------- soundness: every listed (name, module) is a genuine path ---------- *)
Lemma walk_sound g : forall fuel memo prefix id q x,
  In (q, x) (snd (walk fuel g memo prefix id)) -> exists suf, q = prefix ++ suf /\ rpath g id suf x.
Proof.
  induction fuel as [|fuel IH]; intros memo prefix id q x; cbn [walk]; [intros []|].
  destruct (memb id memo); [intros []|].
  assert (G : forall kids (acc : list nat * list (path * nat)),
    (forall nm c, In (nm, Some c) kids -> child g id nm c) ->
    (forall q x, In (q, x) (snd acc) -> exists suf, q = prefix ++ suf /\ rpath g id suf x) ->
    forall q x, In (q, x) (snd (fold_left
          (fun acc ch => match snd ch with
                         | None => acc
                         | Some c => let '(m', o') := walk fuel g (fst acc) (prefix ++ [fst ch]) c in
                                     (m', snd acc ++ o') end) kids acc)) ->
    exists suf, q = prefix ++ suf /\ rpath g id suf x).
  { induction kids as [|[nm [c|]] kids IHk]; intros acc Hk Hacc q' x'; cbn [fold_left snd fst].
    - apply Hacc.
    - destruct (walk fuel g (fst acc) (prefix ++ [nm]) c) as [m' o'] eqn:Ew. cbv beta iota.
      apply IHk.
      + intros nm' c' H. apply Hk. now right.
      + cbn [snd]. intros q2 x2 Hin. apply in_app_or in Hin as [Hin|Hin]; [now apply Hacc|].
        specialize (IH (fst acc) (prefix ++ [nm]) c q2 x2). rewrite Ew in IH. destruct (IH Hin) as (suf & -> & Hp).
        exists (nm :: suf). split; [now rewrite <- app_assoc|].
        econstructor; [apply Hk; now left|exact Hp].
    - apply IHk; [intros nm' c' H; apply Hk; now right|exact Hacc]. }
  apply G.
  - intros nm c H. exact H.
  - cbn [snd]. intros q' x' [H|[]]. inversion H; subst. exists []. split; [now rewrite app_nil_r|constructor].
Qed.

(* ---------- fuel: the number of graph nodes not yet in the memo ---------- *)
Definition unvisited (g : graph) (memo : list nat) : nat :=
  length (filter (fun i => negb (memb i memo)) (seq 0 (length g))).

Lemma filter_length_le {A} (f h : A -> bool) l : (forall x, f x = true -> h x = true) ->
  length (filter f l) <= length (filter h l).
Proof.
  intros H. induction l as [|a t IH]; [reflexivity|]. cbn [filter].
  destruct (f a) eqn:Ef; [rewrite (H a Ef); cbn; lia|]. destruct (h a); cbn; lia.
Qed.
Lemma filter_length_lt {A} (f h : A -> bool) l a : (forall x, f x = true -> h x = true) ->
  In a l -> h a = true -> f a = false -> length (filter f l) < length (filter h l).
Proof.
  intros H. induction l as [|b t IH]; intros Hin Hh Hf; [destruct Hin|]. cbn [filter].
  destruct Hin as [->|Hin].
  - rewrite Hh, Hf. cbn [length]. pose proof (filter_length_le f h t H). lia.
  - specialize (IH Hin Hh Hf). destruct (f b) eqn:Ef; [rewrite (H b Ef); cbn; lia|]. destruct (h b); cbn; lia.
Qed.

Lemma filter_len {A} (f : A -> bool) l : length (filter f l) <= length l.
Proof. induction l as [|a t IH]; [reflexivity|]. cbn [filter]. destruct (f a); cbn [length]; lia. Qed.

Lemma memb_false x l : memb x l = false <-> ~ In x l.
Proof. rewrite <- memb_In. destruct (memb x l); intuition congruence. Qed.

Lemma unvisited_incl g memo memo' : incl memo memo' -> unvisited g memo' <= unvisited g memo.
Proof.
  intros H. apply filter_length_le. intros x Hx. apply negb_true_iff in Hx. apply negb_true_iff.
  apply memb_false. apply memb_false in Hx. intros Hin. apply Hx. now apply H.
Qed.
Lemma unvisited_cons g memo id : id < length g -> ~ In id memo -> unvisited g (id :: memo) < unvisited g memo.
Proof.
  intros Hid Hn. apply (filter_length_lt _ _ _ id).
  - intros x Hx. apply negb_true_iff in Hx. apply negb_true_iff. apply memb_false. apply memb_false in Hx.
    intros Hin. apply Hx. now right.
  - apply in_seq. lia.
  - apply negb_true_iff. now apply memb_false.
  - apply negb_false_iff. apply memb_In. now left.
Qed.

(* ---------- completeness invariant ---------- *)
Definition ids (o : list (path * nat)) : list nat := map snd o.

Definition complete_inv (g : graph) (memo : list nat) (id : nat) (res : list nat * list (path * nat)) : Prop :=
  (forall x, In x (fst res) <-> In x memo \/ In x (ids (snd res))) /\
  In id (fst res) /\
  (forall x, In x (ids (snd res)) -> forall nm c, child g x nm c -> In c (fst res)).

Lemma walk_complete g : wf_graph g -> forall fuel memo prefix id,
  id < length g -> unvisited g memo < fuel -> complete_inv g memo id (walk fuel g memo prefix id).
Proof.
  intros Hwf. induction fuel as [|fuel IH]; intros memo prefix id Hid Hfuel; [lia|].
  cbn [walk]. destruct (memb id memo) eqn:Em.
  - unfold complete_inv, ids; cbn [fst snd map In]. split; [intros x; tauto|]. split; [now apply memb_In|intros x []].
  - assert (Hfresh : ~ In id memo) by now apply memb_false.
    pose proof (unvisited_cons g memo id Hid Hfresh) as Hu.
    assert (G : forall todo done (acc : list nat * list (path * nat)),
      n_children (nth id g dummy) = done ++ todo ->
      incl (id :: memo) (fst acc) ->
      (forall x, In x (fst acc) <-> In x memo \/ In x (ids (snd acc))) ->
      In id (ids (snd acc)) ->
      (forall x, In x (ids (snd acc)) -> x <> id -> forall nm c, child g x nm c -> In c (fst acc)) ->
      (forall nm c, In (nm, Some c) done -> In c (fst acc)) ->
      complete_inv g memo id (fold_left
          (fun acc ch => match snd ch with
                         | None => acc
                         | Some c => let '(m', o') := walk fuel g (fst acc) (prefix ++ [fst ch]) c in
                                     (m', snd acc ++ o') end) todo acc)).
    { induction todo as [|[nm [c|]] todo IHt]; intros done acc Hsplit Hincl I1 I2 I3 I4; cbn [fold_left snd fst].
      - rewrite app_nil_r in Hsplit. unfold complete_inv. split; [exact I1|]. split; [apply Hincl; now left|].
        intros x Hx nm c Hc. destruct (Nat.eq_dec x id) as [->|Hne].
        + apply (I4 nm c). unfold child in Hc. now rewrite Hsplit in Hc.
        + now apply (I3 x Hx Hne nm c).
      - assert (Hc : child g id nm c) by (unfold child; rewrite Hsplit; apply in_or_app; right; now left).
        assert (Hclt : c < length g) by (apply (Hwf id nm c Hid Hc)).
        assert (Hf : unvisited g (fst acc) < fuel).
        { pose proof (unvisited_incl g (id :: memo) (fst acc) Hincl). lia. }
        pose proof (IH (fst acc) (prefix ++ [nm]) c Hclt Hf) as (J1 & J2 & J3).
        destruct (walk fuel g (fst acc) (prefix ++ [nm]) c) as [m' o'] eqn:Ew. cbn [fst snd] in J1, J2, J3. cbv beta iota.
        assert (Hmono : incl (fst acc) m') by (intros x Hx; apply J1; now left).
        apply (IHt (done ++ [(nm, Some c)])); cbn [fst snd].
        + rewrite <- app_assoc. exact Hsplit.
        + eapply incl_tran; eassumption.
        + intros x. unfold ids. rewrite map_app, in_app_iff. rewrite J1, I1. unfold ids. tauto.
        + unfold ids. rewrite map_app. apply in_or_app. now left.
        + intros x Hx Hne nm' c' Hch. unfold ids in Hx. rewrite map_app in Hx. apply in_app_or in Hx as [Hx|Hx].
          * apply Hmono. now apply (I3 x Hx Hne nm' c').
          * now apply (J3 x Hx nm' c').
        + intros nm' c' Hin. apply in_app_or in Hin as [Hin|[Hin|[]]].
          * apply Hmono. now apply (I4 nm' c').
          * inversion Hin; subst. exact J2.
      - apply (IHt (done ++ [(nm, None)])); try assumption.
        + rewrite <- app_assoc. exact Hsplit.
        + intros nm' c' Hin. apply in_app_or in Hin as [Hin|[Hin|[]]]; [now apply (I4 nm' c')|discriminate]. }
    apply (G (n_children (nth id g dummy)) []); unfold ids; cbn [fst snd map].
    + reflexivity.
    + apply incl_refl.
    + intros x. cbn [In]. tauto.
    + now left.
    + intros x [<-|[]] Hne. congruence.
    + intros nm c [].
Qed.

(* ---------- the characterisation ---------- *)
Lemma named_modules_sound g root p x : In (p, x) (named_modules g root) -> rpath g root p x.
Proof.
  unfold named_modules. intros H. apply walk_sound in H as (suf & -> & Hp). exact Hp.
Qed.

Lemma named_modules_complete g root x : wf_graph g -> root < length g ->
  reach g root x -> exists p, In (p, x) (named_modules g root).
Proof.
  intros Hwf Hroot (q & Hq). unfold named_modules.
  assert (Hfuel : unvisited g [] < S (length g)).
  { unfold unvisited. apply Nat.lt_succ_r. rewrite <- (seq_length (length g) 0) at 2. apply filter_len. }
  destruct (walk_complete g Hwf (S (length g)) [] [] root Hroot Hfuel) as (K1 & K2 & K3).
  set (res := walk (S (length g)) g [] [] root) in *.
  assert (Hall : forall a suf b, rpath g a suf b -> In a (ids (snd res)) -> In b (ids (snd res))).
  { intros a suf b Hp. induction Hp as [a|a nm c suf b Hc Hp IHp]; intros Ha; [exact Ha|].
    apply IHp. pose proof (K3 a Ha nm c Hc) as Hin. apply K1 in Hin as [[]|Hin]. exact Hin. }
  assert (Hr : In root (ids (snd res))) by (apply K1 in K2 as [[]|H]; exact H).
  pose proof (Hall root q x Hq Hr) as Hx. unfold ids in Hx. apply in_map_iff in Hx as ([p y] & Hy & Hin).
  cbn in Hy. subst y. now exists p.
Qed.
