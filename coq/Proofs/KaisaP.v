From Coq Require Import List Arith ZArith Bool Lia Permutation.
Import ListNotations.
From KV Require Import Model.Greedy Model.Kaisa Proofs.GreedyP Proofs.TriuP.

(* ---------- arithmetic of the grid ---------- *)
Definition kcol (p k i : nat) := map (fun j => i + j * p) (seq 0 k).
Definition krow (p j : nat) := seq (j * p) p.

Lemma kcols_In p k g : In g (kcols_pk p k) <-> exists i, i < p /\ g = kcol p k i.
Proof.
  unfold kcols_pk. rewrite in_map_iff. split.
  - intros (i & <- & Hi). apply in_seq in Hi. exists i. split; [lia|reflexivity].
  - intros (i & Hi & ->). exists i. split; [reflexivity|apply in_seq; lia].
Qed.

Lemma krows_In p k g : In g (krows_pk p k) <-> exists j, j < k /\ g = krow p j.
Proof.
  unfold krows_pk. rewrite in_map_iff. split.
  - intros (j & <- & Hj). apply in_seq in Hj. exists j. split; [lia|reflexivity].
  - intros (j & Hj & ->). exists j. split; [reflexivity|apply in_seq; lia].
Qed.

Lemma kcol_In p k i r : In r (kcol p k i) <-> exists j, j < k /\ r = i + j * p.
Proof.
  unfold kcol. rewrite in_map_iff. split.
  - intros (j & <- & Hj). apply in_seq in Hj. exists j. split; [lia|reflexivity].
  - intros (j & Hj & ->). exists j. split; [reflexivity|apply in_seq; lia].
Qed.

Lemma krow_In p j r : In r (krow p j) <-> j * p <= r < j * p + p.
Proof. unfold krow. rewrite in_seq. lia. Qed.

Lemma kcol_mod p k i r : i < p -> In r (kcol p k i) -> r mod p = i /\ r < k * p.
Proof.
  intros Hi H. apply kcol_In in H as (j & Hj & ->). split.
  - rewrite Nat.mod_add by lia. apply Nat.mod_small; assumption.
  - nia.
Qed.

Lemma krow_div p j r : 0 < p -> In r (krow p j) -> r / p = j.
Proof.
  intros Hp H. apply krow_In in H. symmetry.
  apply (Nat.div_unique r p j (r - j * p)); lia.
Qed.

Lemma divmod_decomp p r : 0 < p -> r = r mod p + (r / p) * p.
Proof. intros Hp. pose proof (Nat.div_mod r p ltac:(lia)). lia. Qed.

Lemma in_own_col p k r : 0 < p -> r < k * p -> In r (kcol p k (r mod p)).
Proof.
  intros Hp Hr. apply kcol_In. exists (r / p). split; [|apply divmod_decomp; assumption].
  apply Nat.div_lt_upper_bound; lia.
Qed.

Lemma in_own_row p r : 0 < p -> In r (krow p (r / p)).
Proof.
  intros Hp. apply krow_In. pose proof (divmod_decomp p r Hp).
  pose proof (Nat.mod_upper_bound r p ltac:(lia)). lia.
Qed.

Lemma kcol_nodup p k i : 0 < p -> NoDup (kcol p k i).
Proof.
  intros Hp. unfold kcol. apply FinFun.Injective_map_NoDup; [|apply seq_NoDup].
  intros x y H. nia.
Qed.

Lemma kcol_length p k i : length (kcol p k i) = k.
Proof. unfold kcol. now rewrite map_length, seq_length. Qed.
Lemma krow_length p j : length (krow p j) = p.
Proof. unfold krow. now rewrite seq_length. Qed.

Lemma cols_wf p k : 0 < p -> wf_groups (kcols_pk p k).
Proof.
  intros Hp. split.
  - intros g Hg. apply kcols_In in Hg as (i & Hi & ->). now apply kcol_nodup.
  - intros g1 g2 H1 H2 Hne r Hr1 Hr2.
    apply kcols_In in H1 as (i1 & Hi1 & ->). apply kcols_In in H2 as (i2 & Hi2 & ->).
    destruct (kcol_mod _ _ _ _ Hi1 Hr1) as [E1 _]. destruct (kcol_mod _ _ _ _ Hi2 Hr2) as [E2 _].
    apply Hne. congruence.
Qed.

Lemma rows_wf p k : 0 < p -> wf_groups (krows_pk p k).
Proof.
  intros Hp. split.
  - intros g Hg. apply krows_In in Hg as (j & Hj & ->). apply seq_NoDup.
  - intros g1 g2 H1 H2 Hne r Hr1 Hr2.
    apply krows_In in H1 as (j1 & Hj1 & ->). apply krows_In in H2 as (j2 & Hj2 & ->).
    apply Hne. rewrite <- (krow_div p j1 r Hp Hr1), <- (krow_div p j2 r Hp Hr2). reflexivity.
Qed.

Lemma cols_partition_l p k : 0 < p ->
  wf_groups (kcols_pk p k) /\ length (kcols_pk p k) = p /\
  (forall g, In g (kcols_pk p k) -> length g = k) /\
  (forall r, r < k * p <-> exists g, In g (kcols_pk p k) /\ In r g).
Proof.
  intros Hp. split; [now apply cols_wf|]. split; [unfold kcols_pk; now rewrite map_length, seq_length|].
  split.
  - intros g Hg. apply kcols_In in Hg as (i & _ & ->). apply kcol_length.
  - intros r. split.
    + intros Hr. exists (kcol p k (r mod p)). split; [|now apply in_own_col].
      apply kcols_In. exists (r mod p). split; [apply Nat.mod_upper_bound; lia|reflexivity].
    + intros (g & Hg & Hr). apply kcols_In in Hg as (i & Hi & ->).
      now destruct (kcol_mod _ _ _ _ Hi Hr).
Qed.

Lemma rows_partition_l p k : 0 < p ->
  wf_groups (krows_pk p k) /\ length (krows_pk p k) = k /\
  (forall g, In g (krows_pk p k) -> length g = p) /\
  (forall r, r < k * p <-> exists g, In g (krows_pk p k) /\ In r g).
Proof.
  intros Hp. split; [now apply rows_wf|]. split; [unfold krows_pk; now rewrite map_length, seq_length|].
  split.
  - intros g Hg. apply krows_In in Hg as (j & _ & ->). apply krow_length.
  - intros r. split.
    + intros Hr. exists (krow p (r / p)). split; [|now apply in_own_row].
      apply krows_In. exists (r / p). split; [apply Nat.div_lt_upper_bound; lia|reflexivity].
    + intros (g & Hg & Hr). apply krows_In in Hg as (j & Hj & ->).
      apply krow_In in Hr. nia.
Qed.

Lemma row_col_singleton_l p k gc gr : 0 < p ->
  In gc (kcols_pk p k) -> In gr (krows_pk p k) ->
  exists x, forall r, (In r gc /\ In r gr) <-> r = x.
Proof.
  intros Hp Hc Hr. apply kcols_In in Hc as (i & Hi & ->). apply krows_In in Hr as (j & Hj & ->).
  exists (i + j * p). intros r. split.
  - intros [H1 H2]. apply kcol_In in H1 as (j' & Hj' & ->). apply krow_In in H2.
    assert (j' = j) by nia. now subst.
  - intros ->. split; [apply kcol_In; eauto|apply krow_In; lia].
Qed.

Lemma kcols_eq W p k : 0 < k -> W = k * p -> kcols W k = kcols_pk p k /\ krows W k = krows_pk p k.
Proof. intros Hk ->. unfold kcols, krows. rewrite (Nat.mul_comm k p), Nat.div_mul by lia. tauto. Qed.

Lemma nth_kcols p k c : c < p -> nth c (kcols_pk p k) [] = kcol p k c.
Proof.
  intros Hc. unfold kcols_pk.
  rewrite nth_map' with (d':=0) by (now rewrite seq_length).
  rewrite seq_nth by assumption. reflexivity.
Qed.

Lemma nth_krows p k j : j < k -> nth j (krows_pk p k) [] = krow p j.
Proof.
  intros Hj. unfold krows_pk.
  rewrite nth_map' with (d':=0) by (now rewrite seq_length).
  rewrite seq_nth by assumption. reflexivity.
Qed.

(* ---------- the assignment ---------- *)
Lemma rev_head_In {A} (l : list A) x t : rev l = x :: t -> In x l.
Proof. intros H. apply in_rev. rewrite H. now left. Qed.

Lemma inv_workers_in_one_column_l p k work colocate a : 0 < p ->
  greedy_ok_b work (kcols_pk p k) colocate a = true ->
  forall l fs, nth_error work l = Some fs -> fs <> [] ->
  exists c, c < p /\ layer_col p a work l = Some c /\
    forall f cst, In (f, cst) fs ->
      exists w, lookup2 a l f = Some w /\ w < k * p /\ w mod p = c /\ In w (kcol p k c).
Proof.
  intros Hp Hok l fs Hn Hne.
  destruct (greedy_complete_confined_l _ _ _ _ Hok l fs Hn Hne) as (g & Hg & Hall).
  apply kcols_In in Hg as (c & Hc & ->). exists c. split; [assumption|]. split.
  - unfold layer_col, any_worker. rewrite (nth_error_nth work l [] Hn).
    destruct (rev fs) as [|[f cst] t] eqn:E.
    + exfalso. apply Hne. apply (f_equal (@rev _)) in E. now rewrite rev_involutive in E.
    + destruct (Hall f cst (rev_head_In _ _ _ E)) as (w & -> & Hw). simpl.
      now destruct (kcol_mod _ _ _ _ Hc Hw) as [-> _].
  - intros f cst Hin. destruct (Hall f cst Hin) as (w & Hl & Hw). exists w.
    destruct (kcol_mod _ _ _ _ Hc Hw). tauto.
Qed.

Lemma src_spec_l p k work a l c r : 0 < p -> c < p -> layer_col p a work l = Some c -> r < k * p ->
  exists s, src_grad_worker p a work r l = Some s /\
    s < k * p /\ s mod p = c /\ s / p = r / p /\
    In s (kcol p k c) /\ In s (krow p (r / p)) /\
    grad_worker_group p k a work l = Some (kcol p k c) /\
    grad_receiver_group p k r = krow p (r / p) /\
    (forall s', In s' (kcol p k c) -> In s' (krow p (r / p)) -> s' = s) /\
    (is_grad_worker p a work r l = true <-> In r (kcol p k c)) /\
    (is_grad_worker p a work r l = true -> s = r).
Proof.
  intros Hp Hc Hl Hr.
  assert (Hj : r / p < k) by (apply Nat.div_lt_upper_bound; lia).
  exists (c + r / p * p). unfold src_grad_worker, grad_worker_group, grad_receiver_group, is_grad_worker, rank_row.
  rewrite Hl. simpl.
  assert (Hmod : (c + r / p * p) mod p = c) by (rewrite Nat.mod_add by lia; now apply Nat.mod_small).
  assert (Hdiv : (c + r / p * p) / p = r / p) by (rewrite Nat.div_add by lia; rewrite Nat.div_small by assumption; reflexivity).
  repeat split; try assumption; try reflexivity.
  - nia.
  - apply kcol_In. eauto.
  - apply krow_In. lia.
  - now rewrite nth_kcols.
  - now apply nth_krows.
  - intros s' H1 H2. apply kcol_In in H1 as (j' & Hj' & ->). apply krow_In in H2.
    assert (j' = r / p) by nia. now subst.
  - intros E. apply Nat.eqb_eq in E. rewrite <- E. now apply in_own_col.
  - intros H. apply Nat.eqb_eq. now destruct (kcol_mod _ _ _ _ Hc H).
  - intros E. apply Nat.eqb_eq in E. rewrite <- E. symmetry. now apply divmod_decomp.
Qed.

Lemma broadcast_flags_l p k : 0 < p -> 0 < k ->
  (broadcast_gradients (k * p) k = true <-> 1 < p) /\ (broadcast_inverses k = true <-> 1 < k).
Proof.
  intros Hp Hk. unfold broadcast_gradients, broadcast_inverses. rewrite !Nat.ltb_lt. split; [|tauto].
  split; intros H; nia.
Qed.

(* ---------- the fraction rule: finite domain, decided by computation ---------- *)
Lemma fraction_accepted_gen Wmax : all_fractions_accepted Wmax = true ->
  forall W k, 0 < k -> 0 < W -> W <= Wmax -> W mod k = 0 ->
  grad_workers_of W (frac_of k W) = Some (Z.of_nat k).
Proof.
  intros H W k Hk HW0 HW Hdiv. unfold all_fractions_accepted in H.
  rewrite forallb_forall in H.
  apply Nat.mod_divides in Hdiv as [m Hm]; [|lia].
  assert (Hm1 : 1 <= m) by nia.
  assert (HkW : k <= W) by nia.
  assert (Hkin : In k (seq 1 Wmax)) by (apply in_seq; lia).
  specialize (H k Hkin). rewrite forallb_forall in H.
  assert (Hmin : In m (seq 1 (Wmax / k))).
  { apply in_seq. split; [lia|]. assert (m <= Wmax / k); [|lia].
    apply Nat.div_le_lower_bound; [lia|]. rewrite <- Hm. exact HW. }
  specialize (H m Hmin). unfold fraction_ok in H. rewrite <- Hm in H.
  destruct (grad_workers_of W (frac_of k W)) as [r|]; [|discriminate].
  apply Z.eqb_eq in H. now subst.
Qed.

Definition WMAX : nat := Eval vm_compute in N.to_nat 4096.

Lemma fractions_WMAX : all_fractions_accepted WMAX = true.
Proof. vm_compute. reflexivity. Qed.
