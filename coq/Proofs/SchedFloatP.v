(* IEEE-754 binary64 reading of exp_decay_factor_averaging (Model/Sched.v, exp_decay_f over
   Coq's primitive floats): range and monotonicity in the step, proved through Flocq's
   specification of the primitive operations (correct rounding to nearest-even is monotone). *)
From Coq Require Import ZArith Reals Lia Lra Bool Arith.
From Coq Require Import Floats.
From Flocq Require Import Core BinarySingleNaN.
From Flocq Require IEEE754.PrimFloat.
From KV Require Import Model.Sched.
Module FP := Flocq.IEEE754.PrimFloat.
Local Open Scope R_scope.

Definition rnd (x : R) : R := round radix2 (fexp prec emax) (round_mode mode_NE) x.
Definition RF (x : PrimFloat.float) : R := B2R (FP.Prim2B x).
Definition fin (x : PrimFloat.float) : Prop := is_finite (FP.Prim2B x) = true.

Local Instance vexp : Valid_exp (fexp prec emax) := fexp_correct prec emax FP.Hprec.
Local Instance vrnd : Valid_rnd (round_mode mode_NE) := valid_rnd_round_mode mode_NE.

Lemma rnd_le x y : x <= y -> rnd x <= rnd y.
Proof. apply round_le; typeclasses eauto. Qed.

Lemma fmt_bpow e : (-1022 <= e <= 1023)%Z -> generic_format radix2 (fexp prec emax) (bpow radix2 e).
Proof.
  intros H. apply generic_format_bpow. unfold fexp, FLT_exp, emin, prec, emax. lia.
Qed.

Lemma rnd_bpow e : (-1022 <= e <= 1023)%Z -> rnd (bpow radix2 e) = bpow radix2 e.
Proof. intros H. apply round_generic; [typeclasses eauto|now apply fmt_bpow]. Qed.

Lemma rnd_1 : rnd 1 = 1.
Proof. exact (rnd_bpow 0 ltac:(lia)). Qed.
Lemma rnd_0 : rnd 0 = 0.
Proof. apply round_0. typeclasses eauto. Qed.

Lemma rnd_ge0 v : 0 <= v -> 0 <= rnd v.
Proof. intros H. pose proof (rnd_le 0 v H) as P. now rewrite rnd_0 in P. Qed.
Lemma rnd_le1 v : v <= 1 -> rnd v <= 1.
Proof. intros H. pose proof (rnd_le v 1 H) as P. now rewrite rnd_1 in P. Qed.
Lemma rnd_ge1 v : 1 <= v -> 1 <= rnd v.
Proof. intros H. pose proof (rnd_le 1 v H) as P. now rewrite rnd_1 in P. Qed.

Lemma no_overflow v : Rabs v <= bpow radix2 63 -> Rabs (rnd v) < bpow radix2 emax.
Proof.
  intros H. apply Rle_lt_trans with (bpow radix2 63).
  - apply abs_round_le_generic; [typeclasses eauto|typeclasses eauto|apply fmt_bpow; lia|exact H].
  - apply bpow_lt. unfold emax. lia.
Qed.

(* ---- the three primitive operations of exp_decay_f ---- *)
Lemma RF_one : RF 1%float = 1 /\ fin 1%float.
Proof.
  unfold RF, fin. change 1%float with one. rewrite FP.one_equiv, FP.Prim2B_B2Prim.
  split; [apply Bone_correct|apply is_finite_Bone].
Qed.

Lemma conv_nat (n : nat) : (Z.of_nat n < 2 ^ 63)%Z ->
  let x := of_uint63 (Uint63.of_Z (Z.of_nat n)) in fin x /\ RF x = rnd (IZR (Z.of_nat n)).
Proof.
  intros Hn x. unfold fin, RF, x. rewrite FP.of_int63_equiv.
  assert (Ez : Uint63.to_Z (Uint63.of_Z (Z.of_nat n)) = Z.of_nat n).
  { rewrite Uint63.of_Z_spec. apply Z.mod_small. change Uint63.wB with (2 ^ 63)%Z. lia. }
  rewrite Ez.
  pose proof (binary_normalize_correct prec emax FP.Hprec FP.Hmax mode_NE (Z.of_nat n) 0 false) as H.
  cbv zeta in H.
  assert (EF : @F2R radix2 {| Fnum := Z.of_nat n; Fexp := 0 |} = IZR (Z.of_nat n)).
  { unfold F2R. cbn [Fnum Fexp bpow]. lra. }
  rewrite EF in H.
  rewrite Rlt_bool_true in H.
  - destruct H as (H1 & H2 & _). split; [exact H2|exact H1].
  - apply no_overflow. rewrite Rabs_pos_eq by (apply IZR_le; lia).
    change (bpow radix2 63) with (IZR (2 ^ 63)). apply IZR_le. lia.
Qed.

Lemma div_one x : fin x -> 1 <= RF x ->
  fin (1 / x)%float /\ RF (1 / x)%float = rnd (1 / RF x) /\ 0 <= RF (1 / x)%float <= 1.
Proof.
  intros Fx Hx. destruct RF_one as [R1 F1]. unfold fin, RF in *. rewrite FP.div_equiv.
  pose proof (Bdiv_correct prec emax FP.Hprec FP.Hmax mode_NE (FP.Prim2B 1%float) (FP.Prim2B x)) as H.
  assert (Hnz : B2R (FP.Prim2B x) <> 0) by lra.
  specialize (H Hnz). rewrite R1 in H.
  assert (Hq : 0 <= 1 / B2R (FP.Prim2B x) <= 1).
  { split; [apply Rlt_le, Rdiv_lt_0_compat; lra|]. apply (Rmult_le_reg_r (B2R (FP.Prim2B x))); [lra|]. field_simplify; lra. }
  assert (Hr : 0 <= rnd (1 / B2R (FP.Prim2B x)) <= 1).
  { split; [apply rnd_ge0; lra|apply rnd_le1; lra]. }
  fold (rnd (1 / B2R (FP.Prim2B x))) in H.
  rewrite Rlt_bool_true in H.
  - destruct H as (H1 & H2 & _). rewrite H2. split; [exact F1|]. split; [exact H1|]. rewrite H1. exact Hr.
  - rewrite Rabs_pos_eq by lra. apply Rle_lt_trans with 1; [lra|]. change 1 with (bpow radix2 0). apply bpow_lt. unfold emax; lia.
Qed.

Lemma sub_one d : fin d -> 0 <= RF d <= 1 ->
  fin (1 - d)%float /\ RF (1 - d)%float = rnd (1 - RF d) /\ 0 <= RF (1 - d)%float <= 1.
Proof.
  intros Fd Hd. destruct RF_one as [R1 F1]. unfold fin, RF in *. rewrite FP.sub_equiv.
  pose proof (Bminus_correct prec emax FP.Hprec FP.Hmax mode_NE (FP.Prim2B 1%float) (FP.Prim2B d) F1 Fd) as H.
  rewrite R1 in H. fold (rnd (1 - B2R (FP.Prim2B d))) in H.
  assert (Hr : 0 <= rnd (1 - B2R (FP.Prim2B d)) <= 1).
  { split; [apply rnd_ge0; lra|apply rnd_le1; lra]. }
  rewrite Rlt_bool_true in H.
  - destruct H as (H1 & H2 & _). split; [exact H2|]. split; [exact H1|]. rewrite H1. exact Hr.
  - rewrite Rabs_pos_eq by lra. apply Rle_lt_trans with 1; [lra|]. change 1 with (bpow radix2 0). apply bpow_lt. unfold emax; lia.
Qed.

(* a (k) = 1 - 1 / float(max k 1), as computed *)
Definition aval (k : nat) : PrimFloat.float :=
  PrimFloat.sub 1%float (PrimFloat.div 1%float (of_uint63 (Uint63.of_Z (Z.of_nat (Nat.max k 1))))).

Lemma aval_spec k : (Z.of_nat (Nat.max k 1) < 2 ^ 63)%Z ->
  fin (aval k) /\ 0 <= RF (aval k) <= 1 /\
  RF (aval k) = rnd (1 - rnd (1 / rnd (IZR (Z.of_nat (Nat.max k 1))))).
Proof.
  intros Hk. unfold aval. set (n := Nat.max k 1) in *.
  destruct (conv_nat n Hk) as [Fx Rx]. cbv zeta in Fx, Rx.
  assert (H1 : 1 <= RF (of_uint63 (Uint63.of_Z (Z.of_nat n)))).
  { rewrite Rx. apply rnd_ge1. change 1 with (IZR 1). apply IZR_le. unfold n. lia. }
  destruct (div_one _ Fx H1) as (Fd & Rd & Hd).
  destruct (sub_one _ Fd Hd) as (Fs & Rs & Hs).
  split; [exact Fs|]. split; [exact Hs|]. rewrite Rs, Rd, Rx. reflexivity.
Qed.

Lemma aval_mono k : (Z.of_nat (Nat.max (S k) 1) < 2 ^ 63)%Z -> RF (aval k) <= RF (aval (S k)).
Proof.
  intros Hk.
  assert (Hk0 : (Z.of_nat (Nat.max k 1) < 2 ^ 63)%Z) by lia.
  destruct (aval_spec k Hk0) as (_ & _ & ->). destruct (aval_spec (S k) Hk) as (_ & _ & ->).
  apply rnd_le. apply Rplus_le_compat_l, Ropp_le_contravar. apply rnd_le.
  assert (Hx : rnd (IZR (Z.of_nat (Nat.max k 1))) <= rnd (IZR (Z.of_nat (Nat.max (S k) 1)))) by (apply rnd_le, IZR_le; lia).
  assert (H1 : 1 <= rnd (IZR (Z.of_nat (Nat.max k 1)))) by (apply rnd_ge1; change 1 with (IZR 1); apply IZR_le; lia).
  unfold Rdiv. rewrite !Rmult_1_l. apply Rinv_le_contravar; lra.
Qed.

(* ---- the schedule ---- *)
Lemma exp_decay_f_eq cap k : exp_decay_f cap k =
  if PrimFloat.leb cap 0%float then None else Some (if PrimFloat.ltb cap (aval k) then cap else aval k).
Proof. reflexivity. Qed.

Lemma RF_zero : RF 0%float = 0 /\ fin 0%float.
Proof. unfold RF, fin. change 0%float with zero. rewrite FP.zero_equiv, FP.Prim2B_B2Prim. split; reflexivity. Qed.

Lemma ltb_real x y : fin x -> fin y -> PrimFloat.ltb x y = Rlt_bool (RF x) (RF y).
Proof. intros Fx Fy. rewrite FP.ltb_equiv. now apply Bltb_correct. Qed.
Lemma leb_real x y : fin x -> fin y -> PrimFloat.leb x y = Rle_bool (RF x) (RF y).
Proof. intros Fx Fy. rewrite FP.leb_equiv. now apply Bleb_correct. Qed.

(* value of the schedule as a real number: min (a k) cap *)
Lemma exp_decay_f_value cap k v : fin cap -> (Z.of_nat (Nat.max k 1) < 2 ^ 63)%Z ->
  exp_decay_f cap k = Some v ->
  0 < RF cap /\ fin v /\ RF v = Rmin (RF (aval k)) (RF cap).
Proof.
  intros Fc Hk. rewrite exp_decay_f_eq. destruct RF_zero as [R0 F0].
  rewrite (leb_real cap 0%float Fc F0), R0.
  destruct (Rle_bool_spec (RF cap) 0) as [Hle|Hlt]; [discriminate|].
  destruct (aval_spec k Hk) as (Fa & Ha & _).
  rewrite (ltb_real cap (aval k) Fc Fa).
  destruct (Rlt_bool_spec (RF cap) (RF (aval k))) as [H|H]; intros E; inversion E; subst v.
  - split; [exact Hlt|]. split; [exact Fc|]. rewrite Rmin_right; lra.
  - split; [exact Hlt|]. split; [exact Fa|]. rewrite Rmin_left; lra.
Qed.

Lemma exp_decay_f_range_l cap k v : fin cap -> (Z.of_nat (Nat.max k 1) < 2 ^ 63)%Z ->
  exp_decay_f cap k = Some v -> 0 <= RF v <= RF cap.
Proof.
  intros Fc Hk E. destruct (exp_decay_f_value cap k v Fc Hk E) as (Hc & _ & ->).
  destruct (aval_spec k Hk) as (_ & Ha & _).
  split; [apply Rmin_glb; lra|apply Rmin_r].
Qed.

Lemma exp_decay_f_monotone_l cap k a b : fin cap -> (Z.of_nat (S k) < 2 ^ 63)%Z ->
  exp_decay_f cap k = Some a -> exp_decay_f cap (S k) = Some b ->
  RF a <= RF b /\ PrimFloat.leb a b = true.
Proof.
  intros Fc Hk Ea Eb.
  assert (H1 : (Z.of_nat (Nat.max (S k) 1) < 2 ^ 63)%Z) by lia.
  assert (H0 : (Z.of_nat (Nat.max k 1) < 2 ^ 63)%Z) by lia.
  destruct (exp_decay_f_value cap k a Fc H0 Ea) as (_ & Fa & Ra).
  destruct (exp_decay_f_value cap (S k) b Fc H1 Eb) as (_ & Fb & Rb).
  assert (Hle : RF a <= RF b).
  { rewrite Ra, Rb. apply Rle_min_compat_r. now apply aval_mono. }
  split; [exact Hle|]. rewrite (leb_real a b Fa Fb). now apply Rle_bool_true.
Qed.

(* step 0 and step 1 give exactly 0 *)
Lemma exp_decay_f_step01 cap v k : (k <= 1)%nat -> fin cap -> exp_decay_f cap k = Some v -> RF v = 0.
Proof.
  intros Hk Fc E.
  assert (Hm : Nat.max k 1 = 1%nat) by lia.
  assert (H0 : (Z.of_nat (Nat.max k 1) < 2 ^ 63)%Z) by (rewrite Hm; cbn; lia).
  destruct (exp_decay_f_value cap k v Fc H0 E) as (Hc & _ & ->).
  destruct (aval_spec k H0) as (_ & _ & ->). rewrite Hm.
  change (IZR (Z.of_nat 1)) with 1. rewrite rnd_1. replace (1 / 1) with 1 by lra. rewrite rnd_1.
  replace (1 - 1) with 0 by lra. rewrite rnd_0. apply Rmin_left. lra.
Qed.
