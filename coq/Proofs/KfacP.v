From Coq Require Import List Arith Bool Lia.
Import ListNotations.
From KV Require Import Model.Kfac.

Ltac dkfac :=
  repeat match goal with
  | |- context [if ?b then _ else _] => destruct b eqn:?
  | |- context [match ?x with FNone => _ | FVer _ _ => _ end] => destruct x eqn:?
  | |- context [match ?x with Some _ => _ | None => _ end] => destruct x eqn:?
  | |- context [let '(_, _) := ?x in _] => destruct x eqn:?
  end.

Lemma upd_a_steps s : steps (fst (upd_a s)) = steps s /\ inv (fst (upd_a s)) = inv s /\ mini (fst (upd_a s)) = mini s
  /\ fus (fst (upd_a s)) = fus s /\ ius (fst (upd_a s)) = ius s /\ fg (fst (upd_a s)) = fg s.
Proof. unfold upd_a. destruct (Nat.eqb (a_cnt s) 0); simpl; tauto. Qed.
Lemma upd_g_steps s : steps (fst (upd_g s)) = steps s /\ inv (fst (upd_g s)) = inv s /\ mini (fst (upd_g s)) = mini s
  /\ fus (fst (upd_g s)) = fus s /\ ius (fst (upd_g s)) = ius s /\ fa (fst (upd_g s)) = fa s.
Proof. unfold upd_g. destruct (Nat.eqb (g_cnt s) 0); simpl; tauto. Qed.

(* ---- the step counter ---- *)
Lemma steps_step cfg cks s e :
  steps (fst (kstep cfg cks s e)) =
    match e with
    | Step => S (steps s)
    | Load ck _ => match nth_error cks ck with Some c => k_steps c | None => steps s end
    | Fresh => 0
    | _ => steps s
    end.
Proof.
  destruct e as [[|]|[|]| | |incl|ck comp|v|v|]; unfold kstep, upd_a, upd_g, set_inv; simpl;
    repeat (dkfac; simpl); try reflexivity;
    repeat match goal with H : (_, _) = (_, _) |- _ => inversion H; clear H; subst end; simpl; try reflexivity.
Qed.

Definition count_steps (h : list event) : nat := length (filter (fun e => match e with Step => true | _ => false end) h).
Definition no_load (h : list event) : Prop := forall e, In e h -> match e with Load _ _ | Fresh => False | _ => True end.

Lemma count_steps_cons e t :
  count_steps (e :: t) = (match e with Step => 1 | _ => 0 end) + count_steps t.
Proof. unfold count_steps. simpl. destruct e; reflexivity. Qed.

Lemma krun_steps cfg h : forall cks s, no_load h ->
  steps (fst (krun cfg cks s h)) = steps s + count_steps h.
Proof.
  induction h as [|e t IH]; intros cks s Hnl; simpl; [unfold count_steps; simpl; lia|].
  pose proof (steps_step cfg cks s e) as Hs.
  destruct (kstep cfg cks s e) as [s1 acts] eqn:E. simpl in Hs.
  set (cks1 := cks ++ flat_map (fun a => match a with Saved c => [c] | _ => [] end) acts).
  specialize (IH cks1 s1 (fun e' H' => Hnl e' (or_intror H'))).
  destruct (krun cfg cks1 s1 t) as [s2 rest]. simpl in *. rewrite IH, Hs, count_steps_cons.
  pose proof (Hnl e (or_introl eq_refl)) as He.
  destruct e; simpl in He; try lia; try contradiction.
Qed.

(* ---- eval-mode passes are inert ---- *)
Lemma eval_inert_l cfg cks s : kstep cfg cks s (Fwd false) = (s, []) /\ kstep cfg cks s (Bwd false) = (s, []).
Proof. split; reflexivity. Qed.

(* ---- factors change only on factor-update steps ---- *)
Lemma off_step_inert_l cfg cks s e : is_update_step s = false ->
  match e with Load _ _ | Fresh => True | _ => fa (fst (kstep cfg cks s e)) = fa s /\ fg (fst (kstep cfg cks s e)) = fg s end.
Proof.
  intros H. destruct e as [[|]|[|]| | |incl|ck comp|v|v|]; unfold kstep; simpl; try rewrite H; simpl; try tauto.
  rewrite andb_false_r. unfold set_inv. repeat (dkfac; simpl); tauto.
Qed.

(* ---- second-order data is recomputed only by a step on a multiple of the interval ---- *)
Lemma inv_only_on_step cfg cks s e :
  match e with Step | Load _ _ | Fresh => True | _ => inv (fst (kstep cfg cks s e)) = inv s end.
Proof.
  destruct e as [[|]|[|]| | |incl|ck comp|v|v|]; unfold kstep, upd_a, upd_g; simpl; try tauto;
    repeat (dkfac; simpl); reflexivity.
Qed.

Definition after_updates (cfg : config) (s : kstate) : kstate :=
  if negb (c_hook cfg) && is_update_step s then
    fst (upd_g (fst (upd_a {| steps := steps s; fus := fus s; ius := ius s; mini := 0; a_cnt := a_cnt s; g_cnt := g_cnt s;
                              fa := fa s; fg := fg s; inv := inv s |})))
  else s.

Lemma after_updates_frame cfg s :
  steps (after_updates cfg s) = steps s /\ inv (after_updates cfg s) = inv s /\
  fus (after_updates cfg s) = fus s /\ ius (after_updates cfg s) = ius s.
Proof.
  unfold after_updates. destruct (negb (c_hook cfg) && is_update_step s); [|tauto].
  set (s0 := {| steps := steps s; fus := fus s; ius := ius s; mini := 0; a_cnt := a_cnt s; g_cnt := g_cnt s;
                fa := fa s; fg := fg s; inv := inv s |}).
  destruct (upd_a_steps s0) as (A1 & A2 & _ & A4 & A5 & _).
  destruct (upd_g_steps (fst (upd_a s0))) as (B1 & B2 & _ & B4 & B5 & _).
  rewrite B1, B2, B4, B5, A1, A2, A4, A5. simpl. tauto.
Qed.

Lemma is_inv_step_after cfg s : is_inv_step (after_updates cfg s) = is_inv_step s.
Proof. unfold is_inv_step. destruct (after_updates_frame cfg s) as (E1 & _ & _ & E4). now rewrite E1, E4. Qed.

Lemma step_shape cfg cks s :
  let s1 := after_updates cfg s in
  exists act1,
  kstep cfg cks s Step =
    (let '(s2, act2) :=
        if is_inv_step s1 then
          match fa s1, fg s1 with
          | FNone, _ | _, FNone => (s1, [ErrNoInverse])
          | a, g => (set_inv s1 (Some {| s_a := a; s_g := g; s_step := steps s1 |}), [ComputeInv a g (steps s1)])
          end
        else (s1, []) in
     ({| steps := S (steps s2); fus := fus s2; ius := ius s2; mini := 0; a_cnt := a_cnt s2; g_cnt := g_cnt s2;
         fa := fa s2; fg := fg s2; inv := inv s2 |},
      act1 ++ act2 ++ match inv s2 with Some d => [Precondition d (steps s2)] | None => [ErrNoInverse] end)).
Proof.
  cbv zeta. unfold after_updates. simpl.
  destruct (negb (c_hook cfg) && is_update_step s).
  - destruct (upd_a {| steps := steps s; fus := fus s; ius := ius s; mini := 0; a_cnt := a_cnt s; g_cnt := g_cnt s;
                      fa := fa s; fg := fg s; inv := inv s |}) as [sa aa] eqn:Ea.
    cbn [fst]. destruct (upd_g sa) as [sg ag] eqn:Eg. cbn [fst].
    exists (aa ++ ag). reflexivity.
  - exists []. reflexivity.
Qed.

Lemma inverse_refresh_l cfg cks s :
  (is_inv_step s = false -> inv (fst (kstep cfg cks s Step)) = inv s) /\
  (is_inv_step s = true -> forall a g, fa (after_updates cfg s) = a -> fg (after_updates cfg s) = g ->
     a <> FNone -> g <> FNone ->
     inv (fst (kstep cfg cks s Step)) = Some {| s_a := a; s_g := g; s_step := steps s |}).
Proof.
  destruct (step_shape cfg cks s) as (act1 & E). cbv zeta in E. rewrite E. clear E.
  rewrite is_inv_step_after. destruct (after_updates_frame cfg s) as (E1 & E2 & _).
  split; intros H.
  - rewrite H. simpl. exact E2.
  - intros a g Ha Hg Na Ng. rewrite H, Ha, Hg, E1.
    destruct a; [contradiction|]. destruct g; [contradiction|]. reflexivity.
Qed.

(* step 0 always refreshes (0 mod n = 0 for every positive interval) *)
Lemma refresh_at_step_zero s : steps s = 0 -> hval (ius s) 0 <> 0 -> is_inv_step s = true.
Proof.
  intros H0 Hn. unfold is_inv_step. rewrite H0. destruct (hval (ius s) 0) as [|n]; [contradiction|].
  rewrite Nat.mod_0_l by lia. reflexivity.
Qed.

(* the last action of a step preconditions with the second-order data held after
   the (possible) refresh, i.e. the most recently computed one; the damping the
   plain eigen path reads is that of the current step *)
Lemma step_last_l cfg cks s d : inv (fst (kstep cfg cks s Step)) = Some d ->
  exists pre, snd (kstep cfg cks s Step) = pre ++ [Precondition d (steps s)].
Proof.
  destruct (step_shape cfg cks s) as (act1 & E). cbv zeta in E. rewrite E. clear E.
  destruct (after_updates_frame cfg s) as (E1 & E2 & _).
  set (s1 := after_updates cfg s) in *.
  destruct (is_inv_step s1).
  - destruct (fa s1) as [|oa ua] eqn:Fa.
    + simpl. intros H. rewrite H. exists (act1 ++ [ErrNoInverse]). rewrite E1, <- app_assoc. reflexivity.
    + destruct (fg s1) as [|og ug] eqn:Fg.
      * simpl. intros H. rewrite H. exists (act1 ++ [ErrNoInverse]). rewrite E1, <- app_assoc. reflexivity.
      * simpl. intros H. inversion H; subst. rewrite E1.
        exists (act1 ++ [ComputeInv (FVer oa ua) (FVer og ug) (steps s)]). rewrite <- app_assoc. reflexivity.
  - simpl. intros H. rewrite H. exists act1. rewrite E1. reflexivity.
Qed.

Lemma mini_steps_reset_l cfg cks s : mini (fst (kstep cfg cks s Step)) = 0.
Proof.
  destruct (step_shape cfg cks s) as (act1 & E). cbv zeta in E. rewrite E. clear E.
  destruct (is_inv_step (after_updates cfg s)); [|reflexivity].
  destruct (fa (after_updates cfg s)); [reflexivity|]. destruct (fg (after_updates cfg s)); reflexivity.
Qed.

(* hyper-parameters given as functions are evaluated at the current step count *)
Lemma params_at_current_step s :
  is_update_step s = (match hval (fus s) (steps s) with 0 => false | n => Nat.eqb (steps s mod n) 0 end) /\
  is_inv_step s = (match hval (ius s) (steps s) with 0 => false | n => Nat.eqb (steps s mod n) 0 end).
Proof. split; reflexivity. Qed.

(* ---------- checkpoints (C09) ---------- *)
Definition at_boundary (s : kstate) : Prop := mini s = 0 /\ a_cnt s = 0 /\ g_cnt s = 0.

Definition saved_of (s : kstate) (incl : bool) : ckpt :=
  {| k_steps := steps s; k_fus := hp_const (fus s); k_ius := hp_const (ius s);
     k_factors := if incl then Some (fa s, fg s) else None |}.

Lemma save_is_pure cfg cks s incl : kstep cfg cks s (Save incl) = (s, [Saved (saved_of s incl)]).
Proof. reflexivity. Qed.

(* loading the saved state into a freshly constructed, identically configured
   preconditioner restores the step count, the constant hyper-parameters and
   the factors; with compute_inverses the second-order data is recomputed from
   them with the damping of the restored step *)
Definition same_kind (h h' : hp) : Prop :=
  match h, h' with HConst _, HConst _ => True | HFn f, HFn f' => f = f' | _, _ => False end.

Lemma load_restores_l cfg s f0 i0 comp :
  same_kind (fus s) f0 -> same_kind (ius s) i0 ->
  let s' := fst (kstep cfg [saved_of s true] (init f0 i0) (Load 0 comp)) in
  steps s' = steps s /\ fus s' = fus s /\ ius s' = ius s /\ fa s' = fa s /\ fg s' = fg s /\
  mini s' = 0 /\ a_cnt s' = 0 /\ g_cnt s' = 0 /\
  inv s' = (if comp then match fa s, fg s with
                         | FNone, _ | _, FNone => None
                         | a, g => Some {| s_a := a; s_g := g; s_step := steps s |} end
            else None).
Proof.
  intros Hf Hi. cbv zeta. simpl.
  assert (Ef : (match hp_const (fus s) with Some v => HConst v | None => f0 end) = fus s).
  { destruct (fus s), f0; simpl in *; try tauto; congruence. }
  assert (Ei : (match hp_const (ius s) with Some v => HConst v | None => i0 end) = ius s).
  { destruct (ius s), i0; simpl in *; try tauto; congruence. }
  destruct comp; destruct (fa s) eqn:Fa; destruct (fg s) eqn:Fg; simpl; rewrite ?Ef, ?Ei; repeat split; reflexivity.
Qed.

(* resuming: two states that differ only in the second-order data behave
   identically from the next step on if that step refreshes it *)
Definition same_but_inv (s1 s2 : kstate) : Prop :=
  steps s1 = steps s2 /\ fus s1 = fus s2 /\ ius s1 = ius s2 /\ mini s1 = mini s2 /\
  a_cnt s1 = a_cnt s2 /\ g_cnt s1 = g_cnt s2 /\ fa s1 = fa s2 /\ fg s1 = fg s2.

Lemma same_but_inv_eq s1 s2 : same_but_inv s1 s2 -> inv s1 = inv s2 -> s1 = s2.
Proof.
  destruct s1, s2. unfold same_but_inv. simpl. intros (-> & -> & -> & -> & -> & -> & -> & ->) ->. reflexivity.
Qed.

Lemma set_inv_same s i : same_but_inv s (set_inv s i).
Proof. unfold same_but_inv, set_inv. simpl. tauto. Qed.

Lemma resume_refresh_l cfg cks s1 s2 : same_but_inv s1 s2 -> is_inv_step s1 = true ->
  fa (after_updates cfg s1) <> FNone -> fg (after_updates cfg s1) <> FNone ->
  kstep cfg cks s1 Step = kstep cfg cks s2 Step.
Proof.
  intros H Hi Na Ng.
  assert (Hset : s2 = set_inv s1 (inv s2)).
  { destruct s1, s2. unfold same_but_inv in H. simpl in H. destruct H as (-> & -> & -> & -> & -> & -> & -> & ->). reflexivity. }
  rewrite Hset. clear Hset. generalize (inv s2). intros i2.
  (* both steps: updates do not look at inv; the refresh overwrites it *)
  unfold kstep.
  assert (Eu : is_update_step (set_inv s1 i2) = is_update_step s1) by reflexivity.
  assert (Ei2 : forall x, is_inv_step (set_inv x i2) = is_inv_step x) by reflexivity.
  rewrite Eu.
  destruct (negb (c_hook cfg) && is_update_step s1) eqn:Eb.
  - unfold after_updates in Na, Ng. rewrite Eb in Na, Ng. simpl in *.
    unfold upd_a in *. simpl in *. destruct (Nat.eqb (a_cnt s1) 0) eqn:Ea; simpl in *;
      unfold upd_g in *; simpl in *; destruct (Nat.eqb (g_cnt s1) 0) eqn:Eg; simpl in *;
      unfold is_inv_step in *; simpl in *; rewrite Hi;
      repeat match goal with
      | |- context [match ?x with FNone => _ | FVer _ _ => _ end] => destruct x eqn:?; try contradiction
      end; reflexivity.
  - unfold after_updates in Na, Ng. rewrite Eb in Na, Ng.
    rewrite (Ei2 s1), Hi. simpl.
    destruct (fa s1) eqn:Fa; [contradiction|]. destruct (fg s1) eqn:Fg; [contradiction|]. reflexivity.
Qed.

(* loading a state WITH factors and constant intervals, with compute_inverses, overwrites everything a later run depends on:
   the result does not depend on what the target object had done before (fresh or already used), beyond the batch counters *)
Lemma load_forgets_the_target_l : forall cfg cks s s' ck c a g vf vi,
  nth_error cks ck = Some c -> k_factors c = Some (a, g) -> a <> FNone -> g <> FNone ->
  k_fus c = Some vf -> k_ius c = Some vi ->
  mini s = mini s' -> a_cnt s = a_cnt s' -> g_cnt s = g_cnt s' ->
  kstep cfg cks s (Load ck true) = kstep cfg cks s' (Load ck true).
Proof.
  intros cfg cks s s' ck c a g vf vi Hn Hf Ha Hg Hfu Hiu Hm Hac Hgc.
  cbn [kstep]. rewrite Hn, Hf, Hfu, Hiu, Hm, Hac, Hgc.
  destruct a; [congruence|]; destruct g; [congruence|]; reflexivity.
Qed.

(* a rank that restores its own factor-less state (load_state_dict(state_dict(include_factors=False))): nothing changes, nothing is emitted *)
Lemma own_factorless_state_is_noop_l : forall cfg s comp,
  kstep cfg [saved_of s false] s (Load 0 comp) = (s, []).
Proof.
  intros cfg s comp. destruct s as [st f i mi ac gc a g iv]. unfold saved_of. cbn.
  destruct f, i; cbn; reflexivity.
Qed.
