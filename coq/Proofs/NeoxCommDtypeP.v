(* dtype tags of the GPT-NeoX generator: factor allreduces carry the factor dtype; gathers, scatters, broadcasts and the
   loop's own allreduces the dtype of activations / parameters. *)
From Coq Require Import List Arith Bool Lia.
Import ListNotations.
From KV Require Import Model.Triu Model.Coll Model.Greedy Model.Neox Model.Shard Model.NeoxComm.

Definition nx_dt_ok (c : nxcfg) (fac : bool) (i : inst) : Prop :=
  (ikind i = 1 /\ fac = true /\ idtype i = nfdt c) \/ ((ikind i <> 1 \/ fac = false) /\ idtype i = nxdt c).

Ltac inl := repeat match goal with
  | H : In _ (_ ++ _) |- _ => apply in_app_or in H as [H|H]
  | H : In _ (if ?b then _ else _) |- _ => destruct b
  | H : In _ (match ?p with ParInput => _ | ParOutput => _ end) |- _ => destruct p
  | H : In _ [] |- _ => destruct H
  | H : In _ [_] |- _ => destruct H as [<-|[]]
  | H : In _ (_ :: _) |- _ => destruct H as [<-|H]
  | H : In _ (map _ _) |- _ => apply in_map_iff in H as (? & <- & _)
  end.

Lemma fwd_all_dt c p l i : In i (fwd_all c p l) -> nx_dt_ok c true i.
Proof. unfold fwd_all. intros H. inl; unfold nx_dt_ok, ins; cbn; first [left; repeat split; reflexivity | right; split; [left; discriminate|reflexivity]]. Qed.
Lemma bwd_all_dt c p l i : In i (bwd_all c p l) -> nx_dt_ok c true i.
Proof. unfold bwd_all. intros H. inl; unfold nx_dt_ok, ins; cbn; first [left; repeat split; reflexivity | right; split; [left; discriminate|reflexivity]]. Qed.
Lemma fwd_rank_dt c r l i : In i (fwd_rank c r l) -> nx_dt_ok c true i.
Proof. unfold fwd_rank. intros H. inl; unfold nx_dt_ok, ins; cbn; first [left; repeat split; reflexivity | right; split; [left; discriminate|reflexivity]]. Qed.
Lemma bwd_rank_dt c r l i : In i (bwd_rank c r l) -> nx_dt_ok c true i.
Proof. unfold bwd_rank. intros H. inl; unfold nx_dt_ok, ins; cbn; first [left; repeat split; reflexivity | right; split; [left; discriminate|reflexivity]]. Qed.

Lemma pre_msgs_dt c l g pr i : In i (pre_msgs c l g pr) -> ikind i <> 1 /\ idtype i = nxdt c.
Proof. unfold pre_msgs. intros H. inl; unfold ins; cbn; split; try discriminate; reflexivity. Qed.
Lemma grad_all_dt c p l i : In i (NeoxComm.grad_all c p l) -> ikind i <> 1 /\ idtype i = nxdt c.
Proof.
  unfold NeoxComm.grad_all. intros H. apply in_app_or in H as [H|H]; [exact (pre_msgs_dt _ _ _ _ _ H)|].
  inl; unfold ins; cbn; split; try discriminate; reflexivity.
Qed.
Lemma grad_rank_dt c r l i : In i (NeoxComm.grad_rank c r l) -> ikind i <> 1 /\ idtype i = nxdt c.
Proof.
  unfold NeoxComm.grad_rank. intros H. apply in_app_or in H as [H|H].
  - destruct (Nat.eqb _ _); [exact (pre_msgs_dt _ _ _ _ _ H)|destruct H].
  - inl; unfold ins; cbn; split; try discriminate; reflexivity.
Qed.

(* the dtype every collective of an event carries: the factor dtype for the allreduces of hook events, the activation /
   parameter dtype for everything else *)
Definition nxev_fac (e : nxev) : bool := match e with NFwd _ | NBwd _ => true | _ => false end.

Lemma nx_all_dt c layers e i : In i (nx_all c layers e) -> nx_dt_ok c (nxev_fac e) i.
Proof.
  unfold nx_all. intros H. apply in_flat_map in H as (p & _ & H). destruct e as [k|k| |ns]; cbn [nxev_fac].
  - destruct (nth_error (layers p) k); [exact (fwd_all_dt _ _ _ _ H)|destruct H].
  - destruct (nth_error (layers p) k); [exact (bwd_all_dt _ _ _ _ H)|destruct H].
  - apply in_flat_map in H as (l & _ & H). destruct (grad_all_dt _ _ _ _ H) as [Hk Hd]. right. split; [now left|exact Hd].
  - destruct (Nat.ltb 1 (nD c)); [|destruct H]. apply in_flat_map in H as (n & _ & H). apply in_map_iff in H as (m & <- & _).
    right. split; [now right|reflexivity].
Qed.

Lemma nx_rank_dt c layers r e i : In i (nx_rank c layers r e) -> nx_dt_ok c (nxev_fac e) i.
Proof.
  unfold nx_rank. intros H. destruct e as [k|k| |ns]; cbn [nxev_fac].
  - destruct (nth_error (layers (pc c r)) k); [exact (fwd_rank_dt _ _ _ _ H)|destruct H].
  - destruct (nth_error (layers (pc c r)) k); [exact (bwd_rank_dt _ _ _ _ H)|destruct H].
  - apply in_flat_map in H as (l & _ & H). destruct (grad_rank_dt _ _ _ _ H) as [Hk Hd]. right. split; [now left|exact Hd].
  - destruct (Nat.ltb 1 (nD c)); [|destruct H]. apply in_map_iff in H as (n & <- & _). right. split; [now right|reflexivity].
Qed.

Lemma neox_order_dt c layers h i : In i (neox_order c layers h) -> exists e, In e h /\ nx_dt_ok c (nxev_fac e) i.
Proof. unfold neox_order. intros H. apply in_flat_map in H as (e & He & H). exists e. split; [exact He|exact (nx_all_dt _ _ _ _ H)]. Qed.
Lemma neox_issues_dt c layers r h i : In i (neox_issues c layers r h) -> exists e, In e h /\ nx_dt_ok c (nxev_fac e) i.
Proof. unfold neox_issues. intros H. apply in_flat_map in H as (e & He & H). exists e. split; [exact He|exact (nx_rank_dt _ _ _ _ _ H)]. Qed.
