From Coq Require Import List Arith Bool Lia Reals Lra.
Import ListNotations.
From KV Require Import Model.Mat Model.Clip Model.Precond Proofs.MatP.
Local Open Scope R_scope.

Notation nuR := (nu ops_R).
Notation vg_sumR := (vg_sum ops_R).
Notation innerR := (inner ops_R).

Lemma oeq0_R s : oeq0 ops_R s = true <-> s = 0.
Proof. simpl. destruct (Req_EM_T s 0); split; congruence. Qed.

Lemma nu_zero_l kl s : s = 0 -> nuR kl s = 1.
Proof. intros ->. unfold nu. simpl. destruct (Req_EM_T 0 0); [reflexivity|contradiction]. Qed.

Lemma nu_nonzero kl s : s <> 0 -> nuR kl s = Rmin 1 (sqrt (kl / Rabs s)).
Proof. intros H. unfold nu. simpl. destruct (Req_EM_T s 0); [contradiction|reflexivity]. Qed.

Lemma nu_range_l kl s : 0 < kl -> 0 < nuR kl s <= 1.
Proof.
  intros Hk. destruct (Req_dec s 0) as [->|Hs].
  - rewrite nu_zero_l by reflexivity. lra.
  - rewrite nu_nonzero by assumption.
    assert (0 < kl / Rabs s) by (apply Rdiv_lt_0_compat; [assumption|now apply Rabs_pos_lt]).
    pose proof (sqrt_lt_R0 _ H). split; [apply Rmin_glb_lt; lra|apply Rmin_l].
Qed.

Lemma nu_bound_l kl s : 0 < kl -> nuR kl s * nuR kl s * Rabs s <= kl.
Proof.
  intros Hk. destruct (Req_dec s 0) as [->|Hs].
  - rewrite Rabs_R0. lra.
  - rewrite nu_nonzero by assumption.
    assert (Ha : 0 < Rabs s) by now apply Rabs_pos_lt.
    assert (Hx : 0 < kl / Rabs s) by now apply Rdiv_lt_0_compat.
    set (x := kl / Rabs s) in *. set (y := Rmin 1 (sqrt x)).
    assert (Hy0 : 0 <= y) by (unfold y; apply Rmin_glb; [lra|apply sqrt_pos]).
    assert (Hy : y <= sqrt x) by apply Rmin_r.
    assert (Hyy : y * y <= x).
    { rewrite <- (sqrt_sqrt x) by lra. apply Rmult_le_compat; try assumption. }
    assert (E : x * Rabs s = kl) by (unfold x; field; lra).
    rewrite <- E. apply Rmult_le_compat_r; lra.
Qed.

Lemma nu_tight_l kl s : 0 < kl -> kl < Rabs s -> nuR kl s * nuR kl s * Rabs s = kl.
Proof.
  intros Hk Hgt.
  assert (Hs : s <> 0) by (intros ->; rewrite Rabs_R0 in Hgt; lra).
  rewrite nu_nonzero by assumption.
  assert (Ha : 0 < Rabs s) by lra.
  set (x := kl / Rabs s).
  assert (Hx0 : 0 < x) by (unfold x; now apply Rdiv_lt_0_compat).
  assert (Hx1 : x < 1).
  { unfold x. apply (Rmult_lt_reg_r (Rabs s)); [assumption|]. field_simplify; lra. }
  assert (Hsq : sqrt x < 1) by (rewrite <- sqrt_1; apply sqrt_lt_1; lra).
  rewrite Rmin_right by lra. rewrite sqrt_sqrt by lra. unfold x. field. lra.
Qed.

(* the clip scale is exactly min(1, sqrt(kl / |s|)) *)
Lemma nu_formula_l kl s : s <> 0 -> nuR kl s = Rmin 1 (sqrt (kl / Rabs s)).
Proof. exact (nu_nonzero kl s). Qed.

(* vg_sum = lr^2 * sum over layers of <V, D> (weight columns and bias column) *)
Definition layer_inner (l : @clayer R) : R :=
  innerR (cm l) (cnw l) (cV l) (cD l)
  + (if cbias l then sumR (cm l) (fun i => cV l i (cnw l) * cD l i (cnw l)) else 0).

Lemma weight_sum_R lr2 l : weight_sum ops_R lr2 l = lr2 * innerR (cm l) (cnw l) (cV l) (cD l).
Proof.
  unfold weight_sum, inner. simpl. rewrite <- sumR_scal_l. apply sumR_ext. intros i _.
  rewrite <- sumR_scal_l. apply sumR_ext. intros j _. lra.
Qed.

Lemma bias_sum_R lr2 l : bias_sum ops_R lr2 l = lr2 * sumR (cm l) (fun i => cV l i (cnw l) * cD l i (cnw l)).
Proof. unfold bias_sum. simpl. rewrite <- sumR_scal_l. apply sumR_ext. intros i _. lra. Qed.

Lemma vg_sum_R lr layers :
  vg_sumR lr layers = lr * lr * fold_right (fun l acc => layer_inner l + acc) 0 layers.
Proof.
  unfold vg_sum. simpl.
  assert (G : forall acc, fold_left (fun a l =>
             let a1 := a + weight_sum ops_R (lr * lr) l in
             if cbias l then a1 + bias_sum ops_R (lr * lr) l else a1) layers acc
           = acc + lr * lr * fold_right (fun l a => layer_inner l + a) 0 layers).
  { induction layers as [|l t IH]; intros acc; simpl; [lra|].
    rewrite IH. unfold layer_inner. rewrite weight_sum_R. destruct (cbias l); [rewrite bias_sum_R|]; lra. }
  rewrite G. lra.
Qed.

(* <[W|b], [W'|b']> over n+1 columns = <W, W'> + <b, b'> : the code sums the two parts *)
Lemma inner_split_l m n (A B : @mat R) :
  innerR m (S n) A B = innerR m n A B + sumR m (fun i => A i n * B i n).
Proof.
  unfold inner. simpl. rewrite <- sumR_add. apply sumR_ext. intros i _. reflexivity.
Qed.

(* the final gradients are a single scalar multiple of the preconditioned ones *)
Lemma only_rescales_l (s : R) (V : @mat R) i j : final_grad ops_R (Some s) V i j = s * V i j.
Proof. reflexivity. Qed.
Lemma clip_none_identity_l (V : @mat R) i j : final_grad ops_R None V i j = V i j.
Proof. reflexivity. Qed.
Lemma grad_scale_none_l lr (layers : list (@clayer R)) : grad_scale ops_R None lr layers = None.
Proof. reflexivity. Qed.
