(* The deterministic greedy function (first-minimum tie-breaks, the function the
   correspondence compares the code with) is accepted by the relational checker:
   every theorem about accepted assignments holds for the function's result. *)
From Coq Require Import List Arith ZArith Bool Lia Permutation.
Import ListNotations.
From KV Require Import Model.Greedy Proofs.GreedyP.
Local Open Scope Z_scope.

(* ---------- argmin ---------- *)
Lemma argmin_aux_ok : forall l pre i besti best d,
  length pre = i -> (besti < i)%nat -> nth besti pre d = best -> (forall y, In y pre -> best <= y) ->
  (argmin_aux l i besti best < i + length l)%nat /\
  (forall y, In y (pre ++ l) -> nth (argmin_aux l i besti best) (pre ++ l) d <= y).
Proof.
  induction l as [|x t IH]; intros pre i besti best d Hlen Hb Hnth Hmin.
  - cbn [argmin_aux length]. split; [lia|]. rewrite app_nil_r. intros y Hy. rewrite Hnth. now apply Hmin.
  - cbn [argmin_aux]. destruct (Z.ltb_spec x best) as [Hlt|Hge].
    + specialize (IH (pre ++ [x]) (S i) i x d).
      destruct IH as [H1 H2].
      * rewrite app_length. cbn. lia.
      * lia.
      * rewrite app_nth2 by lia. rewrite Hlen, Nat.sub_diag. reflexivity.
      * intros y Hy. apply in_app_or in Hy as [Hy|[<-|[]]]; [specialize (Hmin y Hy); lia|lia].
      * rewrite <- app_assoc in H2. cbn [app] in H2. split; [cbn [length]; lia|exact H2].
    + specialize (IH (pre ++ [x]) (S i) besti best d).
      destruct IH as [H1 H2].
      * rewrite app_length. cbn. lia.
      * lia.
      * rewrite app_nth1 by lia. exact Hnth.
      * intros y Hy. apply in_app_or in Hy as [Hy|[<-|[]]]; [now apply Hmin|lia].
      * rewrite <- app_assoc in H2. cbn [app] in H2. split; [cbn [length]; lia|exact H2].
Qed.

Lemma argmin_ok l d : l <> [] ->
  (argmin l < length l)%nat /\ (forall y, In y l -> nth (argmin l) l d <= y).
Proof.
  destruct l as [|x t]; [congruence|]. intros _. unfold argmin.
  destruct (argmin_aux_ok t [x] 1%nat 0%nat x d eq_refl ltac:(lia) eq_refl) as [H1 H2].
  - intros y [<-|[]]. lia.
  - split; [cbn [length]; lia|exact H2].
Qed.

(* ---------- picking ---------- *)
Lemma pick_group_ok L groups : groups <> [] ->
  In (pick_group L groups) groups /\ is_min_in (gload L (pick_group L groups)) (map (gload L) groups) = true.
Proof.
  intros Hne. unfold pick_group.
  assert (Hm : map (gload L) groups <> []) by (destruct groups; [congruence|discriminate]).
  destruct (argmin_ok (map (gload L) groups) (gload L []) Hm) as [H1 H2]. rewrite map_length in H1.
  split; [now apply nth_In|].
  apply is_min_in_spec. intros y Hy. specialize (H2 y Hy). now rewrite map_nth in H2.
Qed.

Lemma pick_worker_ok L g : g <> [] ->
  In (pick_worker L g) g /\ is_min_in (L (pick_worker L g)) (map L g) = true.
Proof.
  intros Hne. unfold pick_worker.
  assert (Hm : map L g <> []) by (destruct g; [congruence|discriminate]).
  destruct (argmin_ok (map L g) (L 0%nat) Hm) as [H1 H2]. rewrite map_length in H1.
  split; [now apply nth_In|].
  apply is_min_in_spec. intros y Hy. specialize (H2 y Hy). now rewrite map_nth in H2.
Qed.

(* the first group containing w is THE group containing w when groups are pairwise disjoint *)
Lemma find_group_unique groups g w : wf_groups groups -> In g groups -> In w g -> find (memb w) groups = Some g.
Proof.
  intros [_ Hdis] Hg Hw.
  destruct (find (memb w) groups) as [g'|] eqn:E.
  - apply find_memb_spec in E as [Hg' Hw']. f_equal.
    destruct (list_eq_dec Nat.eq_dec g' g) as [->|Hne]; [reflexivity|].
    exfalso. exact (Hdis g' g Hg' Hg Hne w Hw' Hw).
  - exfalso. pose proof (find_none _ _ E g Hg) as Hc. apply memb_spec in Hw. congruence.
Qed.

(* ---------- lookup in the assignment under construction ---------- *)
Lemma find_app_notin {A} (f : A -> bool) pre post : (forall x, In x pre -> f x = false) -> find f (pre ++ post) = find f post.
Proof.
  induction pre as [|x t IH]; intros H; [reflexivity|].
  cbn [app find]. rewrite (H x (or_introl eq_refl)). apply IH. intros y Hy. apply H. now right.
Qed.

Lemma lookup2_here pre i fl post f : (forall x, In x pre -> fst x <> i) ->
  lookup2 (pre ++ (i, fl) :: post) i f =
  match find (fun q => Nat.eqb (fst q) f) fl with Some (_, w) => Some w | None => None end.
Proof.
  intros H. unfold lookup2. rewrite find_app_notin.
  - cbn [find fst]. now rewrite Nat.eqb_refl.
  - intros x Hx. apply Nat.eqb_neq. now apply H.
Qed.

(* ---------- factors of one layer (not colocated) ---------- *)
Lemma check_place_factors g i pre post : g <> [] ->
  (forall x, In x pre -> fst x <> i) ->
  forall fs L done,
    NoDup (map fst (done ++ map (fun fc => (fst fc, 0%nat)) fs)) ->
    check_factors L g i fs (pre ++ (i, done ++ snd (place_factors L g fs)) :: post)
    = Some (fst (place_factors L g fs)).
Proof.
  intros Hg Hpre. induction fs as [|[f c] t IH]; intros L done Hnd; [reflexivity|].
  cbn [check_factors place_factors].
  destruct (place_factors (upd L (pick_worker L g) c) g t) as [L' a] eqn:E. cbn [fst snd].
  rewrite lookup2_here by exact Hpre.
  assert (Hf : find (fun q : nat * nat => Nat.eqb (fst q) f) (done ++ (f, pick_worker L g) :: a) = Some (f, pick_worker L g)).
  { rewrite find_app_notin.
    - cbn [find fst]. now rewrite Nat.eqb_refl.
    - intros x Hx. apply Nat.eqb_neq. intros Heq.
      rewrite map_app in Hnd. cbn [map fst] in Hnd. apply NoDup_remove_2 in Hnd. apply Hnd.
      apply in_or_app. left. apply in_map_iff. exists x. split; [exact Heq|exact Hx]. }
  rewrite Hf.
  destruct (pick_worker_ok L g Hg) as [Hin Hmin].
  assert (Hm : memb (pick_worker L g) g = true) by now apply memb_spec.
  rewrite Hm, Hmin. cbn [andb].
  specialize (IH (upd L (pick_worker L g) c) (done ++ [(f, pick_worker L g)])).
  rewrite E in IH. cbn [fst snd] in IH.
  replace ((done ++ [(f, pick_worker L g)]) ++ a) with (done ++ (f, pick_worker L g) :: a) in IH
    by (rewrite <- app_assoc; reflexivity).
  apply IH.
  rewrite <- app_assoc. cbn [app]. rewrite map_app in *. cbn [map fst] in *. exact Hnd.
Qed.

Lemma find_const_worker (w : nat) (l : list (nat * Z)) f c : In (f, c) l ->
  exists c', find (fun q : nat * nat => Nat.eqb (fst q) f) (map (fun fc : nat * Z => (fst fc, w)) l) = Some (c', w).
Proof.
  induction l as [|x l IH]; intros Hin; [destruct Hin|]. destruct x as [f1 c1].
  cbn [map find fst]. destruct (Nat.eqb_spec f1 f) as [->|Hn]; [eexists; reflexivity|].
  apply IH. destruct Hin as [H|H]; [inversion H; congruence|exact H].
Qed.

(* ---------- one layer ---------- *)
Definition codes_nodup (fs : layerw) : Prop := NoDup (map fst fs).

Lemma sort_factors_codes fs : codes_nodup fs -> codes_nodup (sort_factors fs).
Proof.
  unfold codes_nodup. intros H. eapply Permutation_NoDup; [|exact H].
  apply Permutation_map. apply sort_factors_perm.
Qed.

Lemma map_fst_pair (fs : layerw) : map fst (map (fun fc : factor => (fst fc, 0%nat)) fs) = map fst fs.
Proof. rewrite map_map. reflexivity. Qed.

Lemma check_place_layer colocate groups i fs pre post L :
  wf_groups groups -> groups <> [] -> (forall g, In g groups -> g <> []) ->
  fs <> [] -> codes_nodup fs -> (forall x, In x pre -> fst x <> i) ->
  check_layer colocate L groups i fs (pre ++ (i, snd (place_layer colocate L groups fs)) :: post)
  = Some (fst (place_layer colocate L groups fs)).
Proof.
  intros Hwf Hne Hgne Hfs Hcodes Hpre.
  destruct (pick_group_ok L groups Hne) as [Hgin Hgmin].
  pose proof (Hgne _ Hgin) as Hg.
  destruct (pick_worker_ok L (pick_group L groups) Hg) as [Hwin Hwmin].
  unfold check_layer, place_layer. destruct colocate.
  - destruct fs as [|[f0 c0] t]; [congruence|]. cbn [fst snd].
    rewrite lookup2_here by exact Hpre. cbn [map find fst]. rewrite Nat.eqb_refl.
    rewrite (find_group_unique groups _ _ Hwf Hgin Hwin). rewrite Hgmin, Hwmin. cbn [andb].
    match goal with |- (if forallb ?F ?l then _ else _) = _ => assert (Hall : forallb F l = true) end.
    { apply forallb_forall. intros [f c] Hin. rewrite lookup2_here by exact Hpre.
      set (w := pick_worker L (pick_group L groups)).
      destruct (find_const_worker w ((f0, c0) :: t) f c Hin) as (c' & Hfind). cbn [fst]. cbn [map fst] in Hfind. rewrite Hfind.
      apply Nat.eqb_refl. }
    rewrite Hall. reflexivity.
  - pose proof (sort_factors_codes fs Hcodes) as Hsc.
    assert (Hsne : sort_factors fs <> []).
    { intros E. pose proof (sort_factors_perm fs) as P. rewrite E in P. apply Permutation_sym, Permutation_nil in P. congruence. }
    destruct (sort_factors fs) as [|[f0 c0] t] eqn:Es; [congruence|].
    pose proof (check_place_factors (pick_group L groups) i pre post Hg Hpre ((f0, c0) :: t) L []) as Hcf.
    cbn [app] in Hcf. rewrite map_fst_pair in Hcf. specialize (Hcf Hsc).
    (* first factor: lookup and group *)
    rewrite lookup2_here by exact Hpre.
    cbn [place_factors] in *. destruct (place_factors (upd L (pick_worker L (pick_group L groups)) c0) (pick_group L groups) t) as [L' a] eqn:E.
    cbn [snd fst find] in *. rewrite Nat.eqb_refl.
    rewrite (find_group_unique groups _ _ Hwf Hgin Hwin). rewrite Hgmin. exact Hcf.
Qed.

(* ---------- all layers ---------- *)
Lemma place_all_fst colocate groups : forall ls L x, In x (place_all colocate L groups ls) -> In (fst x) (map fst ls).
Proof.
  induction ls as [|[i fs] t IH]; intros L x; [intros []|].
  cbn [place_all]. destruct (place_layer colocate L groups fs) as [L' a]. intros [<-|H]; [now left|].
  right. now apply (IH L').
Qed.

Lemma check_place_all colocate groups :
  wf_groups groups -> groups <> [] -> (forall g, In g groups -> g <> []) ->
  forall ls L pre,
    NoDup (map fst ls) -> (forall x, In x pre -> ~ In (fst x) (map fst ls)) ->
    (forall i fs, In (i, fs) ls -> fs <> [] /\ codes_nodup fs) ->
    check_all colocate L groups ls (pre ++ place_all colocate L groups ls) = true.
Proof.
  intros Hwf Hne Hgne. induction ls as [|[i fs] t IH]; intros L pre Hnd Hpre Hfs; [reflexivity|].
  cbn [check_all place_all].
  destruct (place_layer colocate L groups fs) as [L' a] eqn:E.
  destruct (Hfs i fs (or_introl eq_refl)) as [Hf1 Hf2].
  pose proof (check_place_layer colocate groups i fs pre (place_all colocate L' groups t) L Hwf Hne Hgne Hf1 Hf2) as Hc.
  rewrite E in Hc. cbn [fst snd] in Hc. rewrite Hc.
  - change (pre ++ (i, a) :: place_all colocate L' groups t) with (pre ++ [(i, a)] ++ place_all colocate L' groups t).
    rewrite app_assoc. apply IH.
    + cbn [map fst] in Hnd. now inversion Hnd.
    + intros x Hx. apply in_app_or in Hx as [Hx|[<-|[]]].
      * intros Hin. apply (Hpre x Hx). now right.
      * cbn [map fst] in Hnd. now inversion Hnd.
    + intros j fj Hj. apply (Hfs j fj). now right.
  - intros x Hx Heq. apply (Hpre x Hx). left. now symmetry.
Qed.

Lemma index_from_fst {A} (l : list A) : forall k, map fst (index_from k l) = seq k (length l).
Proof. induction l as [|x t IH]; intros k; [reflexivity|]. cbn. now rewrite IH. Qed.

(* the function is in the relation *)
Lemma greedy_accepts_l work groups colocate :
  wf_groups groups -> groups <> [] -> (forall g, In g groups -> g <> []) ->
  (forall fs, In fs work -> fs <> [] /\ NoDup (map fst fs)) ->
  greedy_ok_b work groups colocate (greedy work groups colocate) = true.
Proof.
  intros Hwf Hne Hgne Hwork. unfold greedy_ok_b, greedy.
  apply (check_place_all colocate groups Hwf Hne Hgne (sort_layers (index_from 0 work)) (fun _ => 0) []).
  - eapply Permutation_NoDup; [apply Permutation_map, sort_layers_perm|].
    rewrite index_from_fst. apply seq_NoDup.
  - intros x [].
  - intros i fs Hin. apply Hwork.
    apply (Permutation_in _ (Permutation_sym (sort_layers_perm _))) in Hin.
    apply index_from_In in Hin as [_ Hj]. apply nth_error_In in Hj. exact Hj.
Qed.
