From Coq Require Import List Arith Bool Lia Reals Lra.
Import ListNotations.
From KV Require Import Model.Mat Model.Precond Proofs.MatP.
Local Open Scope R_scope.

Notation pre_inverseR := (pre_inverse ops_R).
Notation pre_eigenR := (pre_eigen ops_R).
Notation pre_eigen_predivR := (pre_eigen_prediv ops_R).
Notation dampedR := (damped ops_R).
Notation clampR := (clamp ops_R).
Notation psd_partR := (psd_part ops_R).

Ltac mstep H := eapply meq_trans; [H|].

(* (A B) C = A (B C) as meq, both directions *)
Lemma massoc m n k l A B C : meq m n (mmulR l (mmulR k A B) C) (mmulR k A (mmulR l B C)).
Proof. intros i j _ _. apply mmul_assoc. Qed.

(* ---- inverse method ---- *)
Lemma inverse_solves_l m n (Gd Ad Ginv Ainv D : @mat R) :
  meq m m (mmulR m Gd Ginv) midR -> meq n n (mmulR n Ainv Ad) midR ->
  meq m n (mmulR n (mmulR m Gd (pre_inverseR m n Ginv Ainv D)) Ad) D.
Proof.
  intros HG HA. unfold pre_inverse.
  set (X := mmulR m Ginv D).
  (* Gd (X Ainv) = (Gd X) Ainv *)
  eapply meq_trans.
  { apply mmul_meq_l with (A':=mmulR n (mmulR m Gd X) Ainv). apply meq_sym, massoc. }
  eapply meq_trans; [apply massoc|].
  eapply meq_trans; [apply mmul_meq_r, HA|].
  eapply meq_trans; [apply mmul_id_r|].
  unfold X. eapply meq_trans; [apply meq_sym, massoc|].
  eapply meq_trans; [apply mmul_meq_l, HG|]. apply mmul_id_l.
Qed.

Lemma solution_unique_l m n (Gd Ad Ginv Ainv X Y : @mat R) :
  meq m m (mmulR m Ginv Gd) midR -> meq n n (mmulR n Ad Ainv) midR ->
  meq m n (mmulR n (mmulR m Gd X) Ad) (mmulR n (mmulR m Gd Y) Ad) -> meq m n X Y.
Proof.
  intros HG HA H.
  assert (R1 : forall Z, meq m n (mmulR n (mmulR m Ginv (mmulR n (mmulR m Gd Z) Ad)) Ainv) Z).
  { intros Z.
    eapply meq_trans.
    { apply mmul_meq_l with (A':=mmulR n (mmulR m (mmulR m Ginv Gd) Z) Ad).
      eapply meq_trans; [apply meq_sym, massoc|]. apply mmul_meq_l. apply meq_sym, massoc. }
    eapply meq_trans; [apply massoc|].
    eapply meq_trans; [apply mmul_meq_r, HA|].
    eapply meq_trans; [apply mmul_id_r|].
    eapply meq_trans; [apply mmul_meq_l, HG|]. apply mmul_id_l. }
  eapply meq_trans; [apply meq_sym, (R1 X)|].
  eapply meq_trans; [|apply (R1 Y)].
  apply mmul_meq_l. apply mmul_meq_r. exact H.
Qed.

(* ---- eigen method ---- *)
Section Eigen.
Variables m n : nat.
Variables Qg Qa : @mat R.
Hypothesis Hg1 : meq m m (mmulR m (mTR Qg) Qg) midR.
Hypothesis Hg2 : meq m m (mmulR m Qg (mTR Qg)) midR.
Hypothesis Ha1 : meq n n (mmulR n (mTR Qa) Qa) midR.
Hypothesis Ha2 : meq n n (mmulR n Qa (mTR Qa)) midR.

Definition sand (X : @mat R) : @mat R := mmulR n (mmulR m Qg X) (mTR Qa).

Lemma sand_meq X Y : meq m n X Y -> meq m n (sand X) (sand Y).
Proof. intros H. unfold sand. apply mmul_meq_l. apply mmul_meq_r. exact H. Qed.

Lemma sand_lin X Y c : meq m n (maddR (sand X) (mscaleR c (sand Y))) (sand (maddR X (mscaleR c Y))).
Proof.
  intros i j Hi Hj. unfold sand.
  assert (E : meq m n (mmulR m Qg (maddR X (mscaleR c Y)))
                      (maddR (mmulR m Qg X) (mscaleR c (mmulR m Qg Y)))).
  { intros a b _ _. rewrite mmul_madd_r, mmul_mscale_r. reflexivity. }
  rewrite (mmul_meq_l m n n _ _ (mTR Qa) E i j Hi Hj).
  rewrite mmul_madd_l, mmul_mscale_l. reflexivity.
Qed.

(* Qg (Qg^T D Qa) Qa^T = D *)
Lemma sand_back D : meq m n (sand (mmulR n (mmulR m (mTR Qg) D) Qa)) D.
Proof.
  unfold sand.
  eapply meq_trans.
  { apply mmul_meq_l with (A':=mmulR n (mmulR m Qg (mmulR m (mTR Qg) D)) Qa). apply meq_sym, massoc. }
  eapply meq_trans; [apply massoc|].
  eapply meq_trans; [apply mmul_meq_r, Ha2|].
  eapply meq_trans; [apply mmul_id_r|].
  eapply meq_trans; [apply meq_sym, massoc|].
  eapply meq_trans; [apply mmul_meq_l, Hg2|]. apply mmul_id_l.
Qed.

(* (Qg diag(dg) Qg^T) (Qg X Qa^T) (Qa diag(da) Qa^T) = Qg (diag(dg) X diag(da)) Qa^T *)
Lemma sand_factors dg da X :
  meq m n (mmulR n (mmulR m (mmulR m (mmulR m Qg (mdiagR dg)) (mTR Qg)) (sand X))
                 (mmulR n (mmulR n Qa (mdiagR da)) (mTR Qa)))
          (sand (fun i j => dg i * X i j * da j)).
Proof.
  unfold sand.
  set (Gd := mmulR m Qg (mdiagR dg)). set (Adg := mmulR n Qa (mdiagR da)).
  (* left: (Gd Qg^T)((Qg X) Qa^T) = (Gd ((Qg^T Qg) X)) Qa^T = (Gd X) Qa^T *)
  assert (L1 : meq m n (mmulR m (mmulR m Gd (mTR Qg)) (mmulR n (mmulR m Qg X) (mTR Qa)))
                       (mmulR n (mmulR m Gd X) (mTR Qa))).
  { eapply meq_trans; [apply meq_sym, massoc|]. apply mmul_meq_l.
    eapply meq_trans; [apply massoc|]. apply mmul_meq_r.
    eapply meq_trans; [apply meq_sym, massoc|].
    eapply meq_trans; [apply mmul_meq_l, Hg1|]. apply mmul_id_l. }
  eapply meq_trans; [apply mmul_meq_l, L1|].
  (* right: ((Gd X) Qa^T)((Qa diag) Qa^T) = ((Gd X) diag) Qa^T *)
  eapply meq_trans; [apply meq_sym, massoc|]. apply mmul_meq_l.
  eapply meq_trans; [apply massoc|].
  eapply meq_trans.
  { apply mmul_meq_r with (B':=mdiagR da). unfold Adg.
    eapply meq_trans; [apply meq_sym, massoc|].
    eapply meq_trans; [apply mmul_meq_l, Ha1|]. apply mmul_id_l. }
  (* (Qg diag(dg)) X diag(da) = Qg (diag X diag) *)
  unfold Gd. intros i j Hi Hj.
  rewrite mmul_diag_r by assumption. rewrite mmul_assoc.
  unfold mmul at 1 3. simpl. rewrite <- sumR_scal_r. apply sumR_ext. intros t Ht.
  rewrite mmul_diag_l by assumption. lra.
Qed.

Lemma eigen_core dg da lam D :
  (forall i, (i < m)%nat -> 0 <= dg i) -> (forall j, (j < n)%nat -> 0 <= da j) -> 0 < lam ->
  let Dt := mmulR n (mmulR m (mTR Qg) D) Qa in
  let Vt := (fun i j => Dt i j / (dg i * da j + lam)) in
  meq m n (maddR (mmulR n (mmulR m (mmulR m (mmulR m Qg (mdiagR dg)) (mTR Qg)) (sand Vt))
                         (mmulR n (mmulR n Qa (mdiagR da)) (mTR Qa)))
                 (mscaleR lam (sand Vt))) D.
Proof.
  intros Hdg Hda Hl Dt Vt.
  eapply meq_trans.
  { intros i j Hi Hj. unfold madd. simpl. rewrite (sand_factors dg da Vt i j Hi Hj). reflexivity. }
  eapply meq_trans; [apply (sand_lin (fun i j => dg i * Vt i j * da j) Vt lam)|].
  eapply meq_trans; [|apply (sand_back D)].
  apply sand_meq. intros i j Hi Hj. unfold madd, mscale, Vt. simpl. fold Dt.
  assert (0 <= dg i * da j) by (apply Rmult_le_pos; auto). field. lra.
Qed.
End Eigen.

Lemma clamp_nonneg d i : 0 <= clampR d i.
Proof. unfold clamp. simpl. apply Rmax_r. Qed.

Lemma clamp_id d i : 0 <= d i -> clampR d i = d i.
Proof. intros H. unfold clamp. simpl. now apply Rmax_left. Qed.

Lemma eigen_solves_l m n Qg Qa dg da lam D :
  meq m m (mmulR m (mTR Qg) Qg) midR -> meq m m (mmulR m Qg (mTR Qg)) midR ->
  meq n n (mmulR n (mTR Qa) Qa) midR -> meq n n (mmulR n Qa (mTR Qa)) midR -> 0 < lam ->
  let V := pre_eigenR m n Qg (clampR dg) Qa (clampR da) lam D in
  meq m n (maddR (mmulR n (mmulR m (psd_partR m Qg dg) V) (psd_partR n Qa da)) (mscaleR lam V)) D.
Proof.
  intros Hg1 Hg2 Ha1 Ha2 Hl V.
  pose proof (eigen_core m n Qg Qa Hg1 Hg2 Ha1 Ha2 (clampR dg) (clampR da) lam D
                (fun i _ => clamp_nonneg dg i) (fun j _ => clamp_nonneg da j) Hl) as H.
  cbv zeta in H.
  set (Dt := mmulR n (mmulR m (mTR Qg) D) Qa) in *.
  set (Vt := fun i j => Dt i j / (clampR dg i * clampR da j + lam)) in *.
  assert (HV : meq m n V (sand m n Qg Qa Vt)).
  { unfold V, pre_eigen, sand. apply mmul_meq_l. apply mmul_meq_r.
    eapply meq_trans; [apply tab_eq|]. intros i j Hi Hj. unfold Vt. simpl.
    rewrite (tab_eq m n _ i j Hi Hj). reflexivity. }
  eapply meq_trans; [|exact H].
  intros i j Hi Hj. unfold madd, mscale. simpl. f_equal.
  - unfold psd_part. apply (mmul_meq_l m n n); [|assumption|assumption].
    apply mmul_meq_r. exact HV.
  - f_equal. now apply HV.
Qed.

(* pre-divided eigenvalues: same solution, with the damping lam0 that was in
   force when the outer product was pre-divided *)
Lemma eigen_prediv_same m n Qg Qa dg da lam0 D :
  meq m n (pre_eigen_predivR m n Qg Qa (dgda_of ops_R (clampR dg) (clampR da) lam0) D)
          (pre_eigenR m n Qg (clampR dg) Qa (clampR da) lam0 D).
Proof.
  unfold pre_eigen_prediv, pre_eigen. apply mmul_meq_l. apply mmul_meq_r.
  eapply meq_trans; [apply tab_eq|]. eapply meq_trans; [|apply meq_sym, tab_eq].
  intros i j Hi Hj. unfold dgda_of. simpl. unfold Rdiv. lra.
Qed.

Lemma psd_projection_id_l k Q d : (forall i, (i < k)%nat -> 0 <= d i) ->
  meq k k (psd_partR k Q d) (mmulR k (mmulR k Q (mdiagR d)) (mTR Q)).
Proof.
  intros H. unfold psd_part. apply mmul_meq_l. apply mmul_meq_r.
  intros i j Hi Hj. unfold mdiag. destruct (Nat.eqb i j); [|reflexivity]. now apply clamp_id, H.
Qed.

(* ---- combined gradient layout ---- *)
Lemma writeback_roundtrip_l nw (Wg : @mat R) (bg : @vec R) :
  (forall i j, (j < nw)%nat -> set_grad_w true nw (get_grad true nw Wg bg) i j = Wg i j) /\
  (forall i, set_grad_b nw (get_grad true nw Wg bg) i = bg i) /\
  (forall i j, set_grad_w false nw (get_grad false nw Wg bg) i j = Wg i j).
Proof.
  unfold set_grad_w, set_grad_b, get_grad, hcat, last_col. repeat split.
  - intros i j Hj. apply Nat.ltb_lt in Hj. now rewrite Hj.
  - intros i. now rewrite Nat.ltb_irrefl.
Qed.

Lemma combine_split_l nw (M : @mat R) : forall i j, (j <= nw)%nat ->
  get_grad true nw (set_grad_w true nw M) (set_grad_b nw M) i j = M i j.
Proof.
  intros i j Hj. unfold get_grad, hcat, set_grad_w, set_grad_b, last_col.
  destruct (Nat.ltb_spec j nw); [reflexivity|]. assert (j = nw) by lia. now subst.
Qed.
