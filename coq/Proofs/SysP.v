From Coq Require Import List Arith Bool Lia.
Import ListNotations.
From KV Require Import Model.Sys.

Section SysP.
Variable D : Type.
Variable ema : D -> D -> D.
Variable avg : list D -> D.
Variable inv : D -> D.
Variable pre : D -> D -> D -> D.
(* averaging the per-rank running-average updates = updating with the rank mean
   (C04 rank_mean proves this law for real matrices, entrywise) *)
Hypothesis rank_mean : forall P (Ms : list D), Ms <> [] -> avg (map (ema P) Ms) = ema P (avg Ms).

Lemma new_fA_replicated W (st : nat -> rstate D) mA FA : 0 < W ->
  (forall r, r < W -> fA D (st r) = FA) ->
  new_fA D ema avg W st mA = single_fA D ema avg W FA mA.
Proof.
  intros HW Hrep. unfold new_fA, single_fA, ranks.
  rewrite (map_ext_in _ (fun q => ema FA (mA q))).
  2:{ intros q Hq. apply in_seq in Hq. rewrite Hrep by lia. reflexivity. }
  rewrite <- (map_map mA (ema FA)). apply rank_mean.
  destruct W; [lia|]. simpl. discriminate.
Qed.

Lemma new_fG_replicated W (st : nat -> rstate D) mG FG : 0 < W ->
  (forall r, r < W -> fG D (st r) = FG) ->
  new_fG D ema avg W st mG = single_fA D ema avg W FG mG.
Proof.
  intros HW Hrep. unfold new_fG, single_fA, ranks.
  rewrite (map_ext_in _ (fun q => ema FG (mG q))).
  2:{ intros q Hq. apply in_seq in Hq. rewrite Hrep by lia. reflexivity. }
  rewrite <- (map_map mG (ema FG)). apply rank_mean.
  destruct W; [lia|]. simpl. discriminate.
Qed.

(* every gradient worker holds the second-order data of the NEW replicated factors *)
Lemma workers_hold_new_sod W a (st : nat -> rstate D) mA mG r :
  wf_asg W a -> r < W -> a_gw a r = true ->
  let st' := iter_state D ema avg inv W a st mA mG in
  sA D (st' r) = Some (inv (new_fA D ema avg W st mA)) /\ sG D (st' r) = Some (inv (new_fG D ema avg W st mG)).
Proof.
  intros (Hwa & Hwg & Hgwa & Hgwg & Hsrc & Hbinv & Hbgrad) Hr Hgw. cbv zeta. unfold iter_state. simpl.
  destruct (a_binv a) eqn:B; simpl.
  - rewrite Hgw. destruct (Nat.eqb r (a_wa a)), (Nat.eqb r (a_wg a)); tauto.
  - destruct (Hbinv eq_refl r Hr Hgw) as [E1 E2]. rewrite <- E1, <- E2 at 1. rewrite !Nat.eqb_refl. tauto.
Qed.

(* main theorem of one iteration: with replicated factors before, after the
   iteration the factors are again replicated and equal the single-process
   ones, and EVERY rank holds the single-process preconditioned gradient —
   whatever the (well-formed) assignment is *)
Lemma iteration_transparent_l W a (st : nat -> rstate D) mA mG g FA FG :
  0 < W -> wf_asg W a ->
  (forall r, r < W -> fA D (st r) = FA) -> (forall r, r < W -> fG D (st r) = FG) ->
  let st' := iter_state D ema avg inv W a st mA mG in
  (forall r, r < W -> fA D (st' r) = single_fA D ema avg W FA mA /\ fG D (st' r) = single_fA D ema avg W FG mG) /\
  (forall r, r < W -> final_grad D pre W a st' g r = Some (single_grad D ema avg inv pre W FA FG mA mG g)).
Proof.
  intros HW Hwf HA HG. cbv zeta. split.
  - intros r Hr. unfold iter_state. simpl.
    rewrite (new_fA_replicated W st mA FA HW HA), (new_fG_replicated W st mG FG HW HG). tauto.
  - intros r Hr. unfold final_grad, single_grad.
    pose proof Hwf as (Hwa & Hwg & Hgwa & Hgwg & Hsrc & Hbinv & Hbgrad).
    assert (Hworker : forall q, q < W -> a_gw a q = true ->
              worker_grad D pre (iter_state D ema avg inv W a st mA mG q) g
              = Some (pre (inv (single_fA D ema avg W FA mA)) (inv (single_fA D ema avg W FG mG)) g)).
    { intros q Hq Hgw. unfold worker_grad.
      destruct (workers_hold_new_sod W a st mA mG q Hwf Hq Hgw) as [E1 E2]. cbv zeta in E1, E2.
      rewrite E1, E2, (new_fA_replicated W st mA FA HW HA), (new_fG_replicated W st mG FG HW HG). reflexivity. }
    destruct (a_bgrad a) eqn:B.
    + destruct (Hsrc r Hr) as [Hs1 Hs2]. now apply Hworker.
    + apply Hworker; [assumption|]. now apply Hbgrad.
Qed.
End SysP.
