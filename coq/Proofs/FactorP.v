From Coq Require Import List Arith Bool Lia Reals Lra.
Import ListNotations.
From KV Require Import Model.Mat Model.Conv Model.Factor Proofs.MatP.
Local Open Scope R_scope.

Notation covR := (cov ops_R).
Notation momentR := (moment ops_R).
Notation emaR := (ema ops_R).

Lemma cov_sym rows k X i j : covR rows k X i j = covR rows k X j i.
Proof. unfold cov. apply sumR_ext. intros r _. simpl. unfold Rdiv. lra. Qed.

Lemma moment_is_cov rows k X i j : momentR rows k X i j = covR rows k X i j.
Proof. unfold moment, two. simpl. rewrite (cov_sym rows k X j i). lra. Qed.

Lemma moment_sym_l rows k X i j : momentR rows k X i j = momentR rows k X j i.
Proof. rewrite !moment_is_cov. apply cov_sym. Qed.

(* quadratic form of a k x k matrix *)
Definition qform (k : nat) (M : @mat R) (v : nat -> R) : R :=
  sumR k (fun i => sumR k (fun j => v i * M i j * v j)).

Lemma sumR_mul n m f g : sumR n f * sumR m g = sumR n (fun i => sumR m (fun j => f i * g j)).
Proof.
  rewrite <- sumR_scal_r. apply sumR_ext. intros i _. rewrite <- sumR_scal_l. reflexivity.
Qed.

Lemma sumR_exchange3 a b c (F : nat -> nat -> nat -> R) :
  sumR a (fun i => sumR b (fun j => sumR c (fun r => F i j r)))
  = sumR c (fun r => sumR a (fun i => sumR b (fun j => F i j r))).
Proof.
  rewrite (sumR_ext a _ (fun i => sumR c (fun r => sumR b (fun j => F i j r)))).
  2:{ intros i _. apply sumR_exchange. }
  apply sumR_exchange.
Qed.

Lemma moment_qform rows k X v : (0 < rows)%nat ->
  qform k (momentR rows k X) v = / INR rows * sumR rows (fun r => (sumR k (fun i => X r i * v i)) * (sumR k (fun i => X r i * v i))).
Proof.
  intros Hr. unfold qform.
  transitivity (sumR k (fun i => sumR k (fun j => sumR rows (fun r => / INR rows * ((X r i * v i) * (X r j * v j)))))).
  { apply sumR_ext. intros i _. apply sumR_ext. intros j _. rewrite moment_is_cov. unfold cov. simpl.
    transitivity (sumR rows (fun r => v i * (X r i * (X r j / INR rows)) * v j)).
    { rewrite <- sumR_scal_l, <- sumR_scal_r. reflexivity. }
    apply sumR_ext. intros r _. unfold Rdiv. lra. }
  rewrite sumR_exchange3. rewrite <- sumR_scal_l. apply sumR_ext. intros r _.
  rewrite sumR_mul. rewrite <- sumR_scal_l. apply sumR_ext. intros i _.
  rewrite <- sumR_scal_l. reflexivity.
Qed.

Lemma moment_psd_l rows k X v : (0 < rows)%nat -> 0 <= qform k (momentR rows k X) v.
Proof.
  intros Hr. rewrite moment_qform by assumption.
  apply Rmult_le_pos.
  - left. apply Rinv_0_lt_compat. apply lt_0_INR. assumption.
  - apply sumR_nonneg. intros r _. apply Rle_0_sqr.
Qed.

(* running average keeps symmetry and positive semi-definiteness *)
Definition msym (k : nat) (M : @mat R) : Prop := forall i j, (i < k)%nat -> (j < k)%nat -> M i j = M j i.
Definition mpsd (k : nat) (M : @mat R) : Prop := forall v, 0 <= qform k M v.

Lemma qform_ema k alpha P M v :
  qform k (emaR alpha P M) v = alpha * qform k P v + (1 - alpha) * qform k M v.
Proof.
  unfold qform, ema, madd, mscale. simpl.
  rewrite <- !sumR_scal_l, <- sumR_add. apply sumR_ext. intros i _.
  rewrite <- !sumR_scal_l, <- sumR_add. apply sumR_ext. intros j _. lra.
Qed.

Lemma ema_sym_psd_l k alpha P M : 0 < alpha <= 1 ->
  msym k P -> mpsd k P -> msym k M -> mpsd k M ->
  msym k (emaR alpha P M) /\ mpsd k (emaR alpha P M).
Proof.
  intros Ha HsP HpP HsM HpM. split.
  - intros i j Hi Hj. unfold ema, madd, mscale. simpl. rewrite (HsP i j), (HsM i j) by assumption. reflexivity.
  - intros v. rewrite qform_ema. specialize (HpP v). specialize (HpM v).
    assert (0 <= alpha * qform k P v) by (apply Rmult_le_pos; lra).
    assert (0 <= (1 - alpha) * qform k M v) by (apply Rmult_le_pos; lra). lra.
Qed.

Lemma id_sym_psd k : msym k midR /\ mpsd k midR.
Proof.
  split.
  - intros i j _ _. unfold mid, mdiag. rewrite (Nat.eqb_sym j i). destruct (Nat.eqb i j); reflexivity.
  - intros v. unfold qform.
    apply sumR_nonneg. intros i Hi.
    rewrite (sumR_ext k _ (fun j => (v i * v i) * (if Nat.eqb i j then 1 else 0))).
    2:{ intros j _. unfold mid, mdiag. simpl. destruct (Nat.eqb_spec i j); [subst; lra|lra]. }
    rewrite sumR_scal_l. rewrite (sumR_ext k _ (fun t => (if Nat.eqb i t then 1 else 0) * 1)) by (intros; lra).
    rewrite (sumR_delta_l k i (fun _ => 1) Hi). nra.
Qed.

(* closed form after a list of updates (alpha_1, M_1), ..., (alpha_t, M_t) *)
Fixpoint run_ema (F : @mat R) (ups : list (R * @mat R)) : @mat R :=
  match ups with [] => F | (a, M) :: t => run_ema (emaR a F M) t end.
Fixpoint prod_alpha (ups : list (R * @mat R)) : R :=
  match ups with [] => 1 | (a, _) :: t => a * prod_alpha t end.
Fixpoint weighted (ups : list (R * @mat R)) : @mat R :=
  match ups with
  | [] => fun _ _ => 0
  | (a, M) :: t => fun i j => (1 - a) * prod_alpha t * M i j + weighted t i j
  end.

Lemma closed_form_gen ups : forall F i j,
  run_ema F ups i j = prod_alpha ups * F i j + weighted ups i j.
Proof.
  induction ups as [|[a M] t IH]; intros F i j; simpl; [lra|].
  rewrite IH. unfold ema, madd, mscale. simpl. lra.
Qed.

Lemma factor_closed_form_l ups i j :
  run_ema midR ups i j = prod_alpha ups * midR i j + weighted ups i j.
Proof. apply closed_form_gen. Qed.

Lemma reachable_sym_psd k ups :
  (forall a M, In (a, M) ups -> 0 < a <= 1 /\ msym k M /\ mpsd k M) ->
  msym k (run_ema midR ups) /\ mpsd k (run_ema midR ups).
Proof.
  assert (G : forall F, msym k F -> mpsd k F ->
     (forall a M, In (a, M) ups -> 0 < a <= 1 /\ msym k M /\ mpsd k M) ->
     msym k (run_ema F ups) /\ mpsd k (run_ema F ups)).
  { induction ups as [|[a M] t IH]; intros F Hs Hp H; simpl; [tauto|].
    destruct (H a M (or_introl eq_refl)) as (Ha & HsM & HpM).
    destruct (ema_sym_psd_l k a F M Ha Hs Hp HsM HpM) as [Hs' Hp'].
    apply IH; try assumption. intros a' M' Hin. apply H. now right. }
  intros H. destruct (id_sym_psd k). now apply G.
Qed.

(* cross-rank averaging of the per-rank updates = update with the mean over ranks *)
Lemma sum_fold (Ms : list (@mat R)) (m : @mat R) i j :
  fold_left (fun acc x => maddR acc x) Ms m i j = m i j + fold_right (fun x acc => x i j + acc) 0 Ms.
Proof.
  revert m. induction Ms as [|x t IH]; intros m; simpl; [lra|]. rewrite IH. unfold madd. simpl. lra.
Qed.

Definition msum (Ms : list (@mat R)) i j : R := fold_right (fun x acc => x i j + acc) 0 Ms.

Lemma rank_avg_val (Ms : list (@mat R)) i j : Ms <> [] ->
  rank_avg ops_R Ms i j = / INR (length Ms) * msum Ms i j.
Proof.
  intros Hne. destruct Ms as [|m t]; [contradiction|].
  unfold rank_avg, mscale. simpl. rewrite sum_fold. unfold msum. simpl. unfold Rdiv. lra.
Qed.

Lemma msum_ema alpha P Ms i j :
  msum (map (fun M => emaR alpha P M) Ms) i j = INR (length Ms) * (alpha * P i j) + (1 - alpha) * msum Ms i j.
Proof.
  induction Ms as [|x t IH]; [simpl; lra|].
  change (msum (map (fun M => emaR alpha P M) (x :: t)) i j)
    with (emaR alpha P x i j + msum (map (fun M => emaR alpha P M) t) i j).
  change (msum (x :: t) i j) with (x i j + msum t i j).
  rewrite IH. change (length (x :: t)) with (S (length t)). rewrite S_INR.
  unfold ema, madd, mscale. simpl. lra.
Qed.

Lemma rank_mean_l alpha (P : @mat R) (Ms : list (@mat R)) i j : Ms <> [] ->
  rank_avg ops_R (map (fun M => emaR alpha P M) Ms) i j
  = emaR alpha P (rank_avg ops_R Ms) i j.
Proof.
  intros Hne.
  rewrite rank_avg_val by (destruct Ms; [contradiction|discriminate]).
  rewrite map_length, msum_ema.
  unfold ema at 1. unfold madd, mscale. simpl. rewrite (rank_avg_val Ms i j Hne).
  assert (Hn : INR (length Ms) <> 0) by (apply not_0_INR; destruct Ms; [contradiction|simpl; lia]).
  field. exact Hn.
Qed.

(* division of the output gradients by the loss scale: moment(g / s) = moment(g) / s^2 *)
Lemma unscale_l rows k (X : @mat R) s i j : s <> 0 -> (0 < rows)%nat ->
  momentR rows k (fun r f => X r f / s) i j = momentR rows k X i j / (s * s).
Proof.
  intros Hs Hr. rewrite !moment_is_cov. unfold cov. simpl.
  change (sumR rows (fun r => X r i * (X r j / INR rows)) / (s * s))
    with (sumR rows (fun r => X r i * (X r j / INR rows)) * / (s * s)).
  rewrite <- sumR_scal_r. apply sumR_ext. intros r _.
  assert (INR rows <> 0) by (apply not_0_INR; lia). field. tauto.
Qed.

(* moment of the row-concatenation of W equally sized batches = mean of the moments:
   this is why single-process K-FAC on the union batch sees the averaged factors *)
From KV Require Import Proofs.ConvP.
Lemma moment_union_l W rows k (Xs : nat -> @mat R) i j : (0 < rows)%nat -> (0 < W)%nat ->
  momentR (W * rows) k (fun r f => Xs (r / rows)%nat (r mod rows)%nat f) i j
  = / INR W * sumR W (fun w => momentR rows k (Xs w) i j).
Proof.
  intros Hr HW. rewrite moment_is_cov.
  rewrite (sumR_ext W _ (fun w => covR rows k (Xs w) i j)) by (intros; apply moment_is_cov).
  unfold cov. simpl.
  rewrite sumR_prod. rewrite <- sumR_scal_l. apply sumR_ext. intros w _.
  rewrite <- sumR_scal_l. apply sumR_ext. intros y Hy.
  rewrite Nat.div_add_l by lia. rewrite (Nat.div_small y) by assumption. rewrite Nat.add_0_r.
  rewrite Nat.add_comm, Nat.mod_add by lia. rewrite Nat.mod_small by assumption.
  rewrite mult_INR.
  assert (INR W <> 0) by (apply not_0_INR; lia). assert (INR rows <> 0) by (apply not_0_INR; lia).
  field. tauto.
Qed.
