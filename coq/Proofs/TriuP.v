From Coq Require Import List Arith Bool Lia.
Import ListNotations.
From KV Require Import Model.Triu.

Lemma nth_map' {A B} (f : A -> B) l n d d' :
  n < length l -> nth n (map f l) d = f (nth n l d').
Proof.
  revert n; induction l as [|x l IH]; intros [|n] H; simpl in *; try lia; auto.
  apply IH; lia.
Qed.

Lemma triu_row_length n i : length (triu_row n i) = n - i.
Proof. unfold triu_row. now rewrite map_length, seq_length. Qed.

Lemma triu_row_nth n i t : t < n - i -> nth t (triu_row n i) (0,0) = (i, i + t).
Proof.
  intros H. unfold triu_row.
  rewrite nth_indep with (d':=(fun j => (i, j)) 0)
    by (rewrite map_length, seq_length; lia).
  rewrite map_nth, seq_nth by assumption. reflexivity.
Qed.

Lemma rowstart_S n a : rowstart n (S a) = rowstart n a + (n - a).
Proof. reflexivity. Qed.

Lemma rowstart_mono n a b : a <= b -> rowstart n a <= rowstart n b.
Proof. induction 1; [lia|]. rewrite rowstart_S. lia. Qed.

Lemma triu_rows_length n i k : i + k <= n ->
  length (triu_rows n i k) + rowstart n i = rowstart n (i + k).
Proof.
  revert i. induction k as [|k IH]; intros i H; simpl.
  - now rewrite Nat.add_0_r.
  - rewrite app_length, triu_row_length.
    specialize (IH (S i) ltac:(lia)).
    replace (i + S k) with (S i + k) by lia.
    rewrite rowstart_S in IH. lia.
Qed.

(* nth of the rows starting at row i: the element at offset
   (rowstart a - rowstart i) + (b - a) is (a, b). *)
Lemma triu_rows_nth n i k a b :
  i <= a -> a < i + k -> i + k <= n -> a <= b -> b < n ->
  nth (rowstart n a - rowstart n i + (b - a)) (triu_rows n i k) (0,0) = (a, b).
Proof.
  revert i. induction k as [|k IH]; intros i Hia Hak Hn Hab Hbn; [lia|].
  simpl. destruct (Nat.eq_dec a i) as [->|Hne].
  - rewrite Nat.sub_diag. simpl.
    rewrite app_nth1 by (rewrite triu_row_length; lia).
    rewrite triu_row_nth by lia. f_equal. lia.
  - assert (Hmono : rowstart n (S i) <= rowstart n a) by (apply rowstart_mono; lia).
    rewrite rowstart_S in Hmono.
    rewrite app_nth2 by (rewrite triu_row_length; lia).
    rewrite triu_row_length.
    replace (rowstart n a - rowstart n i + (b - a) - (n - i))
      with (rowstart n a - rowstart n (S i) + (b - a)) by (rewrite rowstart_S; lia).
    apply IH; lia.
Qed.

Lemma triu_idx_nth n a b : a <= b -> b < n ->
  nth (triu_pos n a b) (triu_idx n) (0,0) = (a, b).
Proof.
  intros Hab Hb. unfold triu_pos, triu_idx.
  pose proof (triu_rows_nth n 0 n a b) as H. simpl in H.
  rewrite Nat.sub_0_r in H. apply H; lia.
Qed.

Lemma rowstart_closed n a : a <= n -> 2 * rowstart n a + a * a = 2 * a * n + a.
Proof.
  induction a as [|a IH]; intros H; simpl; [lia|].
  specialize (IH ltac:(lia)). nia.
Qed.

Lemma triu_len_twice n : 2 * length (triu_idx n) = n * (n + 1).
Proof.
  unfold triu_idx. pose proof (triu_rows_length n 0 n ltac:(lia)) as H.
  simpl in H. rewrite Nat.add_0_r in H.
  pose proof (rowstart_closed n n ltac:(lia)). nia.
Qed.

Lemma triu_len n : length (triu_idx n) = n * (n + 1) / 2.
Proof.
  pose proof (triu_len_twice n) as H.
  rewrite <- H, (Nat.mul_comm 2), Nat.div_mul by lia. reflexivity.
Qed.

Lemma triu_pos_lt n a b : a <= b -> b < n -> triu_pos n a b < length (triu_idx n).
Proof.
  intros Hab Hb. unfold triu_pos, triu_idx.
  pose proof (triu_rows_length n 0 n ltac:(lia)) as HL. simpl in HL.
  rewrite Nat.add_0_r in HL. rewrite HL.
  assert (Hs : rowstart n (S a) <= rowstart n n) by (apply rowstart_mono; lia).
  rewrite rowstart_S in Hs. lia.
Qed.

(* every element of triu_idx is an upper pair *)
Lemma triu_rows_In n i k p : In p (triu_rows n i k) -> i + k <= n ->
  i <= fst p /\ fst p < i + k /\ fst p <= snd p /\ snd p < n.
Proof.
  revert i. induction k as [|k IH]; intros i Hin Hn; simpl in Hin; [tauto|].
  apply in_app_or in Hin as [Hin|Hin].
  - unfold triu_row in Hin. apply in_map_iff in Hin as (j & <- & Hj).
    apply in_seq in Hj. simpl. lia.
  - specialize (IH (S i) Hin ltac:(lia)). lia.
Qed.

Lemma triu_sound n p : In p (triu_idx n) -> fst p <= snd p /\ snd p < n.
Proof. intros H. apply triu_rows_In in H; [|lia]. tauto. Qed.

Lemma triu_complete n a b : a <= b -> b < n -> In (a, b) (triu_idx n).
Proof.
  intros Hab Hb. rewrite <- (triu_idx_nth n a b Hab Hb).
  apply nth_In. apply triu_pos_lt; assumption.
Qed.

(* positions are injective on upper pairs, hence NoDup *)
Lemma triu_pos_of_nth n t : t < length (triu_idx n) ->
  let p := nth t (triu_idx n) (0,0) in triu_pos n (fst p) (snd p) = t.
Proof.
  unfold triu_idx. intros Ht.
  assert (G : forall k i t, i + k <= n -> t < length (triu_rows n i k) ->
     let p := nth t (triu_rows n i k) (0,0) in
     rowstart n (fst p) - rowstart n i + (snd p - fst p) = t /\ i <= fst p).
  { induction k as [|k IH]; intros i t0 Hn Hlt; simpl in Hlt; [lia|].
    simpl. rewrite app_length, triu_row_length in Hlt.
    destruct (lt_dec t0 (n - i)) as [Hl|Hl].
    - rewrite app_nth1 by (rewrite triu_row_length; lia).
      rewrite triu_row_nth by lia. simpl. lia.
    - rewrite app_nth2 by (rewrite triu_row_length; lia).
      rewrite triu_row_length.
      destruct (IH (S i) (t0 - (n - i)) ltac:(lia) ltac:(lia)) as [E Hle].
      cbv zeta in E, Hle.
      set (p := nth (t0 - (n - i)) (triu_rows n (S i) k) (0,0)) in *.
      split; [|lia].
      assert (Hmono : rowstart n (S i) <= rowstart n (fst p)) by (apply rowstart_mono; lia).
      rewrite rowstart_S in E, Hmono. lia. }
  destruct (G n 0 t ltac:(lia) Ht) as [E _]. cbv zeta in E. simpl in E.
  cbv zeta. unfold triu_pos. lia.
Qed.

Lemma triu_nodup n : NoDup (triu_idx n).
Proof.
  apply (proj2 (NoDup_nth (triu_idx n) (0,0))).
  intros i j Hi Hj E.
  rewrite <- (triu_pos_of_nth n i Hi), <- (triu_pos_of_nth n j Hj).
  cbv zeta. now rewrite E.
Qed.

Lemma get_triu_nth {A} (d : A) n (M : nat -> nat -> A) a b : a <= b -> b < n ->
  nth (triu_pos n a b) (get_triu n M) d = M a b.
Proof.
  intros Hab Hb. unfold get_triu.
  rewrite nth_map' with (d':=(0,0)) by (apply triu_pos_lt; assumption).
  rewrite triu_idx_nth by assumption. reflexivity.
Qed.

Definition symmetric_on {A} (n : nat) (M : nat -> nat -> A) : Prop :=
  forall i j, i < n -> j < n -> M i j = M j i.

Lemma triu_roundtrip_l {A} (d : A) n (M : nat -> nat -> A) :
  symmetric_on n M ->
  forall i j, i < n -> j < n -> fill_triu d n (get_triu n M) i j = M i j.
Proof.
  intros Hs i j Hi Hj. unfold fill_triu, fill_pos.
  destruct (i <=? j) eqn:E.
  - apply Nat.leb_le in E. apply get_triu_nth; lia.
  - apply Nat.leb_gt in E. rewrite get_triu_nth by lia. apply Hs; assumption.
Qed.

(* the upper triangle round-trips even without symmetry *)
Lemma triu_roundtrip_upper_l {A} (d : A) n (M : nat -> nat -> A) i j :
  i <= j -> j < n -> fill_triu d n (get_triu n M) i j = M i j.
Proof.
  intros Hij Hj. unfold fill_triu, fill_pos.
  apply Nat.leb_le in Hij as E. rewrite E. apply get_triu_nth; lia.
Qed.

Lemma fill_symmetric_l {A} (d : A) n (v : list A) i j :
  fill_triu d n v i j = fill_triu d n v j i.
Proof.
  unfold fill_triu, fill_pos.
  destruct (i <=? j) eqn:E1, (j <=? i) eqn:E2; try reflexivity.
  - apply Nat.leb_le in E1, E2. assert (i = j) by lia. now subst.
  - apply Nat.leb_gt in E1, E2. lia.
Qed.

(* get_triu of a filled matrix gives back the vector: the other round trip *)
Lemma get_fill_l {A} (d : A) n (v : list A) : length v = length (triu_idx n) ->
  get_triu n (fill_triu d n v) = v.
Proof.
  intros HL. apply nth_ext with (d:=d) (d':=d).
  - unfold get_triu. now rewrite map_length.
  - intros t Ht. unfold get_triu in *. rewrite map_length in Ht.
    rewrite nth_map' with (d':=(0,0)) by assumption.
    pose proof (triu_pos_of_nth n t Ht) as Hp. cbv zeta in Hp.
    assert (Hin : In (nth t (triu_idx n) (0,0)) (triu_idx n)) by (apply nth_In; assumption).
    apply triu_sound in Hin as [Hle _].
    unfold fill_triu, fill_pos. apply Nat.leb_le in Hle. rewrite Hle, Hp. reflexivity.
Qed.

(* Value semantics of a collective on a group of ranks: an elementwise
   combination of the members' contributions. Symmetric communication
   (pack, combine elementwise, unpack) equals dense communication
   (combine elementwise) on symmetric inputs. *)
Section CommValues.
  Context {A : Type} (d : A).
  Variable ranks : list nat.
  Variable combine : list A -> A.   (* e.g. sum, average, pick the root's *)

  Definition dense_comm (n : nat) (Ms : nat -> nat -> nat -> A) : nat -> nat -> A :=
    fun i j => combine (map (fun r => Ms r i j) ranks).

  Definition packed_comm (n : nat) (Ms : nat -> nat -> nat -> A) : list A :=
    map (fun t => combine (map (fun r => nth t (get_triu n (Ms r)) d) ranks))
        (seq 0 (length (triu_idx n))).

  Lemma symmetric_comm_equals_dense_l n Ms :
    (forall r, In r ranks -> symmetric_on n (Ms r)) ->
    forall i j, i < n -> j < n ->
      fill_triu d n (packed_comm n Ms) i j = dense_comm n Ms i j.
  Proof.
    intros Hs i j Hi Hj. unfold fill_triu, packed_comm, dense_comm.
    assert (Hlt : fill_pos n i j < length (triu_idx n)).
    { unfold fill_pos. destruct (i <=? j) eqn:E.
      - apply Nat.leb_le in E. apply triu_pos_lt; lia.
      - apply Nat.leb_gt in E. apply triu_pos_lt; lia. }
    rewrite nth_map' with (d':=0) by (now rewrite seq_length).
    rewrite seq_nth by assumption. simpl.
    f_equal. apply map_ext_in. intros r Hr.
    change (nth (fill_pos n i j) (get_triu n (Ms r)) d) with (fill_triu d n (get_triu n (Ms r)) i j).
    apply triu_roundtrip_l; auto.
  Qed.
End CommValues.

(* shape guard *)
Lemma nonsquare_rejected_first_l gsize shape :
  gsize <> 1 -> is_square2d shape = false ->
  sym_comm_outcome gsize true shape = RaiseNonSquare.
Proof.
  intros Hg Hs. unfold sym_comm_outcome.
  destruct (gsize =? 1) eqn:E; [apply Nat.eqb_eq in E; contradiction|].
  now rewrite Hs.
Qed.

Lemma is_square2d_spec shape :
  is_square2d shape = true <-> exists n, shape = [n; n].
Proof.
  split.
  - destruct shape as [|r [|c [|x t]]]; simpl; try discriminate.
    intros E. apply Nat.eqb_eq in E. subst. now exists c.
  - intros [n ->]. simpl. apply Nat.eqb_refl.
Qed.

Lemma square_sends_triangle_l gsize n :
  gsize <> 1 -> sym_comm_outcome gsize true [n; n] = Communicate (n * (n + 1) / 2).
Proof.
  intros Hg. unfold sym_comm_outcome.
  destruct (gsize =? 1) eqn:E; [apply Nat.eqb_eq in E; contradiction|].
  simpl. rewrite Nat.eqb_refl. now rewrite triu_len.
Qed.
