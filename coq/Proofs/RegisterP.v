From Coq Require Import List Arith Bool Lia.
Import ListNotations.
From KV Require Import Model.Register.

Lemma memb_In x l : memb x l = true <-> In x l.
Proof.
  unfold memb. rewrite existsb_exists. split.
  - intros (y & Hy & E). apply Nat.eqb_eq in E. now subst.
  - intros H. exists x. split; [assumption|apply Nat.eqb_refl].
Qed.

Lemma NoDup_app_intro {A} (l1 l2 : list A) :
  NoDup l1 -> NoDup l2 -> (forall x, In x l1 -> In x l2 -> False) -> NoDup (l1 ++ l2).
Proof.
  induction l1 as [|a l1 IH]; simpl; intros H1 H2 Hd; [assumption|].
  inversion H1; subst. constructor.
  - intros Hin. apply in_app_or in Hin as [Hin|Hin]; [contradiction|]. eapply Hd; [now left|eassumption].
  - apply IH; try assumption. intros x Hx1 Hx2. eapply Hd; [right; eassumption|eassumption].
Qed.

(* invariant of the walk: new ids are fresh w.r.t. the incoming memo, recorded
   in the outgoing memo, and duplicate-free *)
Definition walk_inv (memo : list nat) (res : list nat * list (path * nat)) : Prop :=
  incl memo (fst res) /\
  NoDup (map snd (snd res)) /\
  (forall x, In x (map snd (snd res)) -> ~ In x memo /\ In x (fst res)).

Lemma walk_ok fuel g : forall memo prefix id, walk_inv memo (walk fuel g memo prefix id).
Proof.
  induction fuel as [|fuel IH]; intros memo prefix id; simpl.
  - unfold walk_inv; simpl; split; [apply incl_refl|split; [constructor|intros x []]].
  - destruct (memb id memo) eqn:Em.
    + unfold walk_inv; simpl; split; [apply incl_refl|split; [constructor|intros x []]].
    + assert (Hfresh : ~ In id memo) by (rewrite <- memb_In; congruence).
      (* generalise over the accumulator of the fold *)
      assert (G : forall kids acc,
        incl (id :: memo) (fst acc) -> NoDup (map snd (snd acc)) ->
        (forall x, In x (map snd (snd acc)) -> ~ In x memo /\ In x (fst acc)) ->
        walk_inv memo (fold_left
          (fun acc ch => match snd ch with
                         | None => acc
                         | Some c => let '(m', o') := walk fuel g (fst acc) (prefix ++ [fst ch]) c in
                                     (m', snd acc ++ o') end) kids acc)).
      { induction kids as [|[nm [c|]] kids IHk]; intros acc Hincl Hnd Hin; simpl.
        - unfold walk_inv. split; [intros x Hx; apply Hincl; now right|split; assumption].
        - destruct (walk fuel g (fst acc) (prefix ++ [nm]) c) as [m' o'] eqn:Ew.
          pose proof (IH (fst acc) (prefix ++ [nm]) c) as [Hi [Hn Hf]]. rewrite Ew in Hi, Hn, Hf. simpl in *.
          apply IHk; simpl.
          + eapply incl_tran; eassumption.
          + rewrite map_app. apply NoDup_app_intro; try assumption.
            intros x Hx1 Hx2. destruct (Hin x Hx1) as [_ Hacc]. destruct (Hf x Hx2) as [Hnot _]. contradiction.
          + intros x Hx. rewrite map_app in Hx. apply in_app_or in Hx as [Hx|Hx].
            * destruct (Hin x Hx). split; [assumption|]. now apply Hi.
            * destruct (Hf x Hx) as [Hnot Hm]. split; [|assumption].
              intros Hmemo. apply Hnot. apply Hincl. now right.
        - apply IHk; assumption. }
      apply G; simpl.
      * apply incl_refl.
      * constructor; [intros []|constructor].
      * intros x [<-|[]]. split; [assumption|now left].
Qed.


Lemma named_modules_nodup g root : NoDup (map snd (named_modules g root)).
Proof. unfold named_modules. now destruct (walk_ok (S (length g)) g [] [] root) as (_ & H & _). Qed.

(* registration = the eligible entries of the walk, in walk order *)
Lemma filter_kind_In g sn sc l p id k :
  In (p, id, k) (filter_kind g sn sc l) <-> In (p, id) l /\ eligible g sn sc (p, id) = Some k.
Proof.
  induction l as [|[p0 id0] t IH]; simpl; [tauto|].
  destruct (eligible g sn sc (p0, id0)) as [k0|] eqn:E; simpl.
  - rewrite IH. split.
    + intros [H|H]; [inversion H; subst; tauto|tauto].
    + intros [[H|H] H2]; [inversion H; subst; left; congruence|right; tauto].
  - rewrite IH. split; [tauto|]. intros [[H|H] H2]; [inversion H; subst; congruence|tauto].
Qed.

Lemma filter_kind_ids_sub g sn sc l :
  exists keep, map (fun r => snd (fst r)) (filter_kind g sn sc l) = map snd (filter keep l).
Proof.
  exists (fun e => match eligible g sn sc e with Some _ => true | None => false end).
  induction l as [|e t IH]; simpl; [reflexivity|].
  destruct (eligible g sn sc e); simpl; [now rewrite IH|assumption].
Qed.

Lemma NoDup_map_filter {A B} (f : A -> B) (keep : A -> bool) l :
  NoDup (map f l) -> NoDup (map f (filter keep l)).
Proof.
  induction l as [|a l IH]; simpl; intros H; [constructor|]. inversion H; subst.
  destruct (keep a); simpl; [|now apply IH]. constructor; [|now apply IH].
  intros Hin. apply in_map_iff in Hin as (x & Hx & Hf). apply filter_In in Hf as [Hf _].
  apply H2. rewrite <- Hx. now apply in_map.
Qed.

Lemma registered_once_l g sn sc root : NoDup (map (fun r => snd (fst r)) (register g sn sc root)).
Proof.
  unfold register. destruct (filter_kind_ids_sub g sn sc (named_modules g root)) as [keep ->].
  apply NoDup_map_filter, named_modules_nodup.
Qed.

Lemma eligible_spec g sn sc p id k :
  eligible g sn sc (p, id) = Some k <->
  let nd := nth id g dummy in
  is_leaf nd = true /\ sn p = false /\ sc (n_cls nd) = false /\
  (forall b, In b (n_params nd) -> b = true) /\
  (k = KLinear /\ n_linear nd = true \/ k = KConv /\ n_linear nd = false /\ n_conv nd = true).
Proof.
  unfold eligible. simpl. set (nd := nth id g dummy).
  assert (Hf : forallb (fun b => b) (n_params nd) = true <-> (forall b, In b (n_params nd) -> b = true))
    by apply forallb_forall.
  rewrite <- Hf. clear Hf.
  destruct (is_leaf nd), (sn p), (sc (n_cls nd)), (forallb (fun b => b) (n_params nd)),
           (n_linear nd), (n_conv nd), k; simpl; intuition congruence.
Qed.

Lemma hooks_spec g sn sc root id :
  hooks g sn sc root id =
    if existsb (fun r => Nat.eqb (snd (fst r)) id) (register g sn sc root) then (1, 1) else (0, 0).
Proof.
  unfold hooks. pose proof (registered_once_l g sn sc root) as Hnd.
  induction (register g sn sc root) as [|r t IH]; simpl; [reflexivity|].
  inversion Hnd as [|? ? Hnotin Hnd']; subst.
  destruct (Nat.eqb_spec (snd (fst r)) id) as [E|E]; simpl.
  - assert (Ht : filter (fun r0 => Nat.eqb (snd (fst r0)) id) t = []).
    { clear -Hnotin E. induction t as [|x t IH]; simpl; [reflexivity|].
      destruct (Nat.eqb_spec (snd (fst x)) id) as [E2|E2].
      - exfalso. apply Hnotin. simpl. left. congruence.
      - apply IH. intros H. apply Hnotin. now right. }
    rewrite Ht. reflexivity.
  - now apply IH.
Qed.
