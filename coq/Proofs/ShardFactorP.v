From Coq Require Import List Arith Bool Lia.
Import ListNotations.
From KV Require Import Model.Mat Model.Factor Model.Shard Model.ShardFactor Proofs.MatP Proofs.ShardP.

Section P.
Context {T : Type} (O : ops T).
Local Notation mat := (@mat T).

Lemma sumn_ext_any n (f g : nat -> T) : (forall r, r < n -> f r = g r) -> sumn O n f = sumn O n g.
Proof. induction n as [|n IH]; intros H; [reflexivity|]. cbn [sumn]. rewrite IH by (intros r Hr; apply H; lia). now rewrite (H n) by lia. Qed.

Lemma cov_ext rows k (X Y : mat) : (forall r f, X r f = Y r f) -> forall i j, cov O rows k X i j = cov O rows k Y i j.
Proof. intros H i j. unfold cov. apply sumn_ext_any. intros r _. now rewrite !H. Qed.

Lemma moment_ext rows k (X Y : mat) : (forall r f, X r f = Y r f) -> forall i j, moment O rows k X i j = moment O rows k Y i j.
Proof. intros H i j. unfold moment. now rewrite (cov_ext rows k X Y H i j), (cov_ext rows k X Y H j i). Qed.

Lemma aug_ext hb n (X Y : mat) : (forall r f, X r f = Y r f) -> forall r f, aug O hb n X r f = aug O hb n Y r f.
Proof. intros H r f. unfold aug. destruct hb; [destruct (Nat.ltb f n)|]; now rewrite ?H. Qed.

(* the factor the primary computes from the gathered shards IS the factor of the unsharded layer *)
Lemma sharded_a_factor_l w rows nin hb (X : mat) i j : 0 < w ->
  neox_a_factor O ParInput w rows nin hb (fun q => split_cols w q X) i j = lin_a O rows nin hb X i j.
Proof.
  intros Hw. unfold neox_a_factor, lin_a. apply moment_ext. apply aug_ext.
  intros r f. now apply gather_split_cols.
Qed.

Lemma sharded_g_factor_l w rows nout (G : mat) i j : 0 < w ->
  neox_g_factor O ParOutput w rows nout (fun q => split_cols w q G) i j = lin_g O rows nout G i j.
Proof.
  intros Hw. unfold neox_g_factor, lin_g. apply moment_ext. intros r f. now apply gather_split_cols.
Qed.
End P.
