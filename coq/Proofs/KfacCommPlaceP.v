(* Placement facts (C13) restated on the communication generator that C03 ties EXACTLY to the code. *)
From Coq Require Import List Arith Bool Lia.
Import ListNotations.
From KV Require Import Model.Triu Model.Placement Model.Coll Model.Kaisa Model.Bucket Model.Kfac Model.KfacComm.

Lemma fac_add_w1 c cap bs n : pW c = 1 -> fac_add c cap bs n = (bs, []).
Proof. intros H. unfold fac_add. now rewrite H. Qed.
Lemma fac_adds_w1 c cap ns : pW c = 1 -> forall bs, fac_adds c cap bs ns = (bs, []).
Proof. intros H. induction ns as [|n t IH]; intros bs; [reflexivity|]. cbn [fac_adds]. rewrite (fac_add_w1 c cap bs n H), IH. reflexivity. Qed.

(* nothing is communicated in a world of one, whatever the history *)
Lemma comm_world_one_l c cap ls who es : pW c = 1 -> pk c = 1 -> snd (crun c cap ls who [] es) = [].
Proof.
  intros HW Hk.
  assert (G : forall es, crun c cap ls who [] es = ([], [])).
  { induction es0 as [|e t IH]; [reflexivity|]. cbn [crun].
    assert (E : cstep c cap ls who [] e = ([], [])).
    { destruct e; cbn [cstep]; rewrite ?(fac_adds_w1 c cap _ HW); try reflexivity.
      - unfold fac_flush. destruct cap; reflexivity.
      - unfold inv_rank, inv_all, bcast_inv. rewrite Hk. now destruct who.
      - unfold inv_rank, inv_all, bcast_inv. rewrite Hk. now destruct who.
      - unfold grad_rank, grad_all, bcast_grad. rewrite Hk, HW. now destruct who.
      - now rewrite HW. }
    rewrite E, IH. reflexivity. }
  now rewrite G.
Qed.

(* inverse broadcasts: only on the rank's own gradient-worker column; gradient broadcasts: only on its own receiver row *)
Lemma inv_rank_own_column c r ls i : In i (inv_rank c r ls) ->
  ikind i = 2 /\ igrp i = g_col c (r mod pp c) /\ bcast_inv c = true.
Proof.
  unfold inv_rank. destruct (bcast_inv c); [|intros []]. intros H.
  apply in_flat_map in H as (l & _ & H). unfold is_gw in H. destruct (Nat.eqb_spec (r mod pp c) (pcol c l)) as [E|]; [|destruct H].
  unfold inv_layer in H. apply in_map_iff in H as (m & <- & _). cbn. now rewrite E.
Qed.

Lemma grad_rank_own_row c r ls i : In i (grad_rank c r ls) ->
  ikind i = 2 /\ igrp i = g_row c (r / pp c) /\ bcast_grad c = true.
Proof.
  unfold grad_rank. destruct (bcast_grad c); [|intros []]. intros H.
  apply in_map_iff in H as (l & <- & _). cbn. auto.
Qed.

(* a symmetric n x n factor travels as n (n + 1) / 2 elements when it is sent alone *)
Lemma fac_add_direct c bs n : pW c <> 1 -> snd (fac_add c None bs n) = [ar (pfdt c) n].
Proof. intros H. unfold fac_add. destruct (Nat.eqb_spec (pW c) 1); [contradiction|reflexivity]. Qed.
