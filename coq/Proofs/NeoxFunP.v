(* The deterministic stage greedy of the GPT-NeoX model (first least-loaded peer) is accepted by the relational
   checker neox_ok_b, so C12's theorems about accepted assignments hold for it on every input. *)
From Coq Require Import List Arith ZArith Bool Lia Permutation.
Import ListNotations.
From KV Require Import Model.Greedy Model.Neox Proofs.GreedyP Proofs.GreedyFunP Proofs.NeoxP.

Lemma neox_accepts_l peers names work :
  NoDup peers -> peers <> [] ->
  (forall fs, In fs work -> fs <> [] /\ NoDup (map fst fs)) ->
  neox_ok_b peers names work (neox_greedy peers names work) = true.
Proof.
  intros Hnd Hne Hwork. unfold neox_ok_b, neox_greedy.
  apply (check_place_all true [peers]) with (pre := []).
  - split.
    + intros g [<-|[]]. exact Hnd.
    + intros g1 g2 [<-|[]] [<-|[]] Hneq; congruence.
  - discriminate.
  - intros g [<-|[]]. exact Hne.
  - unfold neox_processing. eapply Permutation_NoDup; [apply Permutation_map, sort_neox_perm|].
    rewrite index_from_fst. apply seq_NoDup.
  - intros x [].
  - intros i fs Hin. apply Hwork. unfold neox_processing in Hin.
    apply (Permutation_in _ (Permutation_sym (sort_neox_perm names _))) in Hin.
    apply index_from_In in Hin as [_ Hj]. apply nth_error_In in Hj. exact Hj.
Qed.
