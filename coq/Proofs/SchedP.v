From Coq Require Import List Arith ZArith QArith Qminmax Bool Lia Lra Lqa.
Import ListNotations.
From KV Require Import Model.Sched.

Lemma upd_spec trunc p f s :
  upd trunc p f s =
    match f, p with
    | Some f, PConst v => PConst (if trunc then qtrunc (v * f s) else Qred (v * f s))
    | _, _ => p
    end.
Proof. reflexivity. Qed.

Lemma upd_none trunc p s : upd trunc p None s = p.
Proof. reflexivity. Qed.

Lemma upd_fn trunc f s : upd trunc PFn f s = PFn.
Proof. destruct f; reflexivity. Qed.

(* ctor: refuses iff some scheduled parameter is callable *)
Lemma ctor_refuses_callable_l p l :
  ctor_ok p l = false <->
  (is_some (l_fus l) = true /\ p_fus p = PFn) \/ (is_some (l_ius l) = true /\ p_ius p = PFn) \/
  (is_some (l_damping l) = true /\ p_damping p = PFn) \/ (is_some (l_decay l) = true /\ p_decay p = PFn) \/
  (is_some (l_kl l) = true /\ p_kl p = PFn) \/ (is_some (l_lr l) = true /\ p_lr p = PFn).
Proof.
  unfold ctor_ok. rewrite negb_false_iff, !orb_true_iff, !andb_true_iff.
  assert (F : forall q, is_fn q = true <-> q = PFn) by (intros [v|]; simpl; split; congruence).
  rewrite !F. tauto.
Qed.

(* value of a parameter after a history: left fold of the factors *)
Definition step_used (e : option nat) (steps : nat) : nat := match e with Some x => x | None => steps end.

Fixpoint fold_field (trunc : bool) (f : option (nat -> Q)) (p : param) (steps : nat) (ops : list sop) : param :=
  match ops with
  | [] => p
  | SchedStep e :: rest => fold_field trunc f (upd trunc p f (step_used e steps)) steps rest
  | PrecondStep :: rest => fold_field trunc f p (S steps) rest
  end.

Lemma fold_left_sstep l ops : forall st,
  let final := fold_left (sstep l) ops st in
  p_fus (fst final) = fold_field true (l_fus l) (p_fus (fst st)) (snd st) ops /\
  p_ius (fst final) = fold_field true (l_ius l) (p_ius (fst st)) (snd st) ops /\
  p_damping (fst final) = fold_field false (l_damping l) (p_damping (fst st)) (snd st) ops /\
  p_decay (fst final) = fold_field false (l_decay l) (p_decay (fst st)) (snd st) ops /\
  p_kl (fst final) = fold_field false (l_kl l) (p_kl (fst st)) (snd st) ops /\
  p_lr (fst final) = fold_field false (l_lr l) (p_lr (fst st)) (snd st) ops /\
  snd final = (snd st + length (filter (fun o => match o with PrecondStep => true | _ => false end) ops))%nat.
Proof.
  induction ops as [|o rest IH]; intros [p steps]; simpl.
  - repeat split; lia.
  - destruct o as [e|]; simpl.
    + specialize (IH (sched_step l e steps p, steps)). simpl in IH. exact IH.
    + specialize (IH (p, S steps)). simpl in IH.
      destruct IH as (H1 & H2 & H3 & H4 & H5 & H6 & H7). repeat split; try assumption. lia.
Qed.

(* ---- exp_decay over Q ---- *)
Lemma exp_decay_errors_l cap k : (cap <= 0)%Q -> exp_decay_q cap k = None.
Proof. intros H. unfold exp_decay_q. apply Qle_bool_iff in H. now rewrite H. Qed.

Definition a_of (k : nat) : Q := 1 - 1 / inject_Z (Z.of_nat (Nat.max k 1)).

Lemma exp_decay_val cap k : (0 < cap)%Q ->
  exp_decay_q cap k = Some (if Qle_bool (a_of k) cap then a_of k else cap).
Proof.
  intros H. unfold exp_decay_q, a_of.
  destruct (Qle_bool cap 0) eqn:E; [apply Qle_bool_iff in E; lra|reflexivity].
Qed.

Lemma one_le_inj z : (1 <= z)%Z -> (1 <= inject_Z z)%Q.
Proof. intros H. change 1%Q with (inject_Z 1). now rewrite <- Zle_Qle. Qed.

Lemma inv_pos_nat n : (1 <= n)%nat -> (0 < 1 / inject_Z (Z.of_nat n) <= 1)%Q.
Proof.
  intros H. assert (Hq : (1 <= inject_Z (Z.of_nat n))%Q).
  { apply one_le_inj. lia. }
  split.
  - apply Qlt_shift_div_l; lra.
  - apply Qle_shift_div_r; lra.
Qed.

Lemma a_of_range k : (0 <= a_of k < 1)%Q.
Proof.
  unfold a_of. pose proof (inv_pos_nat (Nat.max k 1) ltac:(lia)) as H.
  set (x := (1 / inject_Z (Z.of_nat (Nat.max k 1)))%Q) in *. lra.
Qed.

Lemma inv_antitone a b : (0 < a)%Q -> (a <= b)%Q -> (1 / b <= 1 / a)%Q.
Proof.
  intros Ha Hab. apply Qle_shift_div_r; [lra|].
  assert (E : (1 / a * b == b / a)%Q) by (field; lra).
  rewrite E. apply Qle_shift_div_l; lra.
Qed.

Lemma a_of_mono k : (a_of k <= a_of (S k))%Q.
Proof.
  unfold a_of.
  assert (H1 : (1 <= inject_Z (Z.of_nat (Nat.max k 1)))%Q) by (apply one_le_inj; lia).
  assert (H2 : (inject_Z (Z.of_nat (Nat.max k 1)) <= inject_Z (Z.of_nat (Nat.max (S k) 1)))%Q)
    by (rewrite <- Zle_Qle; lia).
  assert (H0 : (0 < inject_Z (Z.of_nat (Nat.max k 1)))%Q) by lra.
  pose proof (inv_antitone _ _ H0 H2) as H3.
  set (x := (1 / inject_Z (Z.of_nat (Nat.max k 1)))%Q) in *.
  set (y := (1 / inject_Z (Z.of_nat (Nat.max (S k) 1)))%Q) in *.
  unfold Qminus. apply Qplus_le_r. apply Qopp_le_compat. exact H3.
Qed.

Lemma exp_decay_range_l cap k v : (0 < cap)%Q -> exp_decay_q cap k = Some v -> (0 <= v <= cap)%Q.
Proof.
  intros Hc E. rewrite (exp_decay_val cap k Hc) in E. inversion E; subst.
  pose proof (a_of_range k). destruct (Qle_bool (a_of k) cap) eqn:B.
  - apply Qle_bool_iff in B. lra.
  - lra.
Qed.

Lemma exp_decay_monotone_l cap k v v' : (0 < cap)%Q ->
  exp_decay_q cap k = Some v -> exp_decay_q cap (S k) = Some v' -> (v <= v')%Q.
Proof.
  intros Hc E E'. rewrite (exp_decay_val cap k Hc) in E. rewrite (exp_decay_val cap (S k) Hc) in E'.
  inversion E; inversion E'; subst.
  pose proof (a_of_mono k).
  destruct (Qle_bool (a_of k) cap) eqn:B, (Qle_bool (a_of (S k)) cap) eqn:B'.
  - assumption.
  - apply Qle_bool_iff in B. assumption.
  - apply Qle_bool_iff in B'. assert (~ (a_of k <= cap)%Q) by (rewrite <- Qle_bool_iff; congruence). lra.
  - lra.
Qed.

Lemma exp_decay_step0_l cap : (0 < cap)%Q ->
  exists v0 v1, exp_decay_q cap 0 = Some v0 /\ exp_decay_q cap 1 = Some v1 /\ (v0 == 0)%Q /\ (v1 == 0)%Q.
Proof.
  intros Hc. rewrite !(exp_decay_val _ _ Hc).
  assert (A0 : (a_of 0 == 0)%Q) by reflexivity. assert (A1 : (a_of 1 == 0)%Q) by reflexivity.
  assert (B0 : Qle_bool (a_of 0) cap = true) by (apply Qle_bool_iff; lra).
  assert (B1 : Qle_bool (a_of 1) cap = true) by (apply Qle_bool_iff; lra).
  rewrite B0, B1. exists (a_of 0), (a_of 1). repeat split; assumption.
Qed.

Lemma exp_decay_is_min cap k v : (0 < cap)%Q -> exp_decay_q cap k = Some v ->
  (v == Qmin (a_of k) cap)%Q.
Proof.
  intros Hc E. rewrite (exp_decay_val _ _ Hc) in E. inversion E; subst.
  destruct (Qle_bool (a_of k) cap) eqn:B.
  - apply Qle_bool_iff in B. symmetry. now apply Q.min_l.
  - assert (~ (a_of k <= cap)%Q) by (rewrite <- Qle_bool_iff; congruence).
    symmetry. apply Q.min_r. lra.
Qed.
