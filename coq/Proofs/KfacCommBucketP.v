(* With bucketing, the factor traffic of the generator between two flushes carries every factor element exactly once
   (C13's "each factor allreduced once per factor-update step", at the level of the generator C03 ties to the code),
   through the conservation theorem of the bucket machine (C08). *)
From Coq Require Import List Arith Bool Lia Permutation.
Import ListNotations.
From KV Require Import Model.Triu Model.Placement Model.Coll Model.Kaisa Model.Bucket Model.Kfac Model.KfacComm Proofs.BucketP.

Definition isum (l : list item) : nat := fold_right (fun it acc => i_numel it + acc) 0 l.
Definition osum (l : list inst) : nat := fold_right (fun i acc => inumel i + acc) 0 l.

Lemma isum_app a b : isum (a ++ b) = isum a + isum b.
Proof. induction a as [|x t IH]; [reflexivity|]. cbn [app isum fold_right]. fold (isum (t ++ b)) (isum t). rewrite IH. lia. Qed.
Lemma osum_app a b : osum (a ++ b) = osum a + osum b.
Proof. induction a as [|x t IH]; [reflexivity|]. cbn [app osum fold_right]. fold (osum (t ++ b)) (osum t). rewrite IH. lia. Qed.

Lemma isum_perm a b : Permutation a b -> isum a = isum b.
Proof. induction 1; cbn [isum fold_right] in *; try fold (isum l) (isum l'); try lia. Qed.

Lemma isum_cnt a b : (forall x, cnt a x = cnt b x) -> isum a = isum b.
Proof. intros H. apply isum_perm. apply (Permutation_count_occ item_eq_dec). exact H. Qed.

Lemma bnumel_isum b : bnumel b = isum b.
Proof. reflexivity. Qed.

Lemma osum_emitted (em : list bucket) : osum (map bar em) = isum (concat em).
Proof.
  induction em as [|b t IH]; [reflexivity|]. cbn [map osum fold_right concat]. fold (osum (map bar t)).
  rewrite isum_app, IH. reflexivity.
Qed.

Lemma brun_app cp a b : forall s,
  brun cp s (a ++ b) = (fst (brun cp (fst (brun cp s a)) b), snd (brun cp s a) ++ snd (brun cp (fst (brun cp s a)) b)).
Proof.
  induction a as [|o t IH]; intros s.
  - cbn [app brun fst snd]. now destruct (brun cp s b).
  - cbn [app brun]. destruct (bstep cp s o) as [s1 e1]. rewrite (IH s1).
    destruct (brun cp s1 t) as [s2 e2]. cbn [fst snd]. now rewrite app_assoc.
Qed.

(* fac_adds is brun on the corresponding Add operations *)
Lemma fac_adds_brun c cp ns : pW c <> 1 -> forall bs,
  fac_adds c (Some cp) bs ns =
  (fst (brun cp bs (map (fun n => Add (pW c) (fac_item c n)) ns)),
   map bar (snd (brun cp bs (map (fun n => Add (pW c) (fac_item c n)) ns)))).
Proof.
  intros HW. induction ns as [|n t IH]; intros bs; [reflexivity|].
  cbn [fac_adds map brun]. unfold fac_add. destruct (Nat.eqb_spec (pW c) 1) as [E|_]; [contradiction|].
  destruct (bstep cp bs (Add (pW c) (fac_item c n))) as [bs1 e1]. rewrite (IH bs1).
  destruct (brun cp bs1 (map (fun n0 => Add (pW c) (fac_item c n0)) t)) as [bs2 e2]. cbn [fst snd]. now rewrite map_app.
Qed.

Lemma added_adds c ns : pW c <> 1 -> flat_map added (map (fun n => Add (pW c) (fac_item c n)) ns) = map (fac_item c) ns.
Proof.
  intros HW. induction ns as [|n t IH]; [reflexivity|]. cbn [map flat_map added].
  destruct (Nat.eqb_spec (pW c) 1); [contradiction|]. cbn [app]. now rewrite IH.
Qed.

Lemma isum_items c ns : isum (map (fac_item c) ns) = fold_right Nat.add 0 ns.
Proof. induction ns as [|n t IH]; [reflexivity|]. cbn [map isum fold_right fac_item i_numel]. fold (isum (map (fac_item c) t)). now rewrite IH. Qed.

(* every factor element is sent exactly once between the start of an update and the flush that follows it *)
Lemma factor_elements_once_l c cp ns : pW c <> 1 ->
  let '(bs1, o1) := fac_adds c (Some cp) [] ns in
  let '(bs2, o2) := fac_flush (Some cp) bs1 in
  osum (o1 ++ o2) = fold_right Nat.add 0 ns /\ pending bs2 = [].
Proof.
  intros HW. rewrite (fac_adds_brun c cp ns HW []).
  set (ops := map (fun n => Add (pW c) (fac_item c n)) ns).
  assert (Hnd0 : keys_nodup []) by (unfold keys_nodup; constructor).
  pose proof (brun_conserve cp (ops ++ [Flush]) [] Hnd0) as [_ Hc].
  assert (Esplit : brun cp [] (ops ++ [Flush]) =
                   (fst (bstep cp (fst (brun cp [] ops)) Flush), snd (brun cp [] ops) ++ snd (bstep cp (fst (brun cp [] ops)) Flush))).
  { rewrite brun_app. destruct (brun cp [] ops) as [s1 e1]. cbn [fst snd brun].
    destruct (bstep cp s1 Flush) as [s2 e2]. cbn [fst snd]. now rewrite app_nil_r. }
  rewrite Esplit in Hc. cbn [fst snd] in Hc.
  destruct (brun cp [] ops) as [bs1 em1] eqn:E1. cbn [fst snd] in *.
  unfold fac_flush. destruct (bstep cp bs1 Flush) as [bs2 em2] eqn:E2. cbn [fst snd] in *.
  pose proof (flush_leaves_nothing_l cp bs1) as [Hp _]. rewrite E2 in Hp. cbn [fst] in Hp.
  split; [|exact Hp].
  rewrite osum_app, !osum_emitted, <- isum_app, <- concat_app.
  rewrite Hp in Hc. cbn [app] in Hc.
  etransitivity; [exact (isum_cnt _ _ Hc)|]. cbn [pending app]. rewrite flat_map_app. cbn [flat_map added app]. rewrite app_nil_r.
  unfold ops. rewrite (added_adds c ns HW). apply isum_items.
Qed.
