From Coq Require Import List Arith ZArith Bool Lia Permutation.
Import ListNotations.
From KV Require Import Model.Greedy.
Local Open Scope Z_scope.

(* ---------- small facts ---------- *)
Lemma is_min_in_spec x l : is_min_in x l = true <-> (forall y, In y l -> x <= y).
Proof.
  unfold is_min_in. rewrite forallb_forall. split; intros H y Hy.
  - apply Z.leb_le, H, Hy.
  - apply Z.leb_le, H, Hy.
Qed.

Lemma memb_spec r g : memb r g = true <-> In r g.
Proof.
  unfold memb. rewrite existsb_exists. split.
  - intros (x & Hx & E). apply Nat.eqb_eq in E. now subst.
  - intros H. exists r. split; [assumption|apply Nat.eqb_refl].
Qed.

Lemma find_memb_spec w groups g : find (memb w) groups = Some g -> In g groups /\ In w g.
Proof. intros H. apply find_some in H as [H1 H2]. split; [assumption|now apply memb_spec]. Qed.

Lemma upd_same L w c : upd L w c w = L w + c.
Proof. unfold upd. now rewrite Nat.eqb_refl. Qed.
Lemma upd_other L w c r : r <> w -> upd L w c r = L r.
Proof. unfold upd. intros H. apply Nat.eqb_neq in H. now rewrite H. Qed.

Lemma gload_upd_notin L w c g : ~ In w g -> gload (upd L w c) g = gload L g.
Proof.
  induction g as [|r g IH]; simpl; intros H; [reflexivity|].
  rewrite upd_other by (intros ->; apply H; now left). rewrite IH; [reflexivity|].
  intros H'; apply H; now right.
Qed.

Lemma gload_upd_in L w c g : NoDup g -> In w g -> gload (upd L w c) g = gload L g + c.
Proof.
  induction g as [|r g IH]; simpl; intros Hnd Hin; [tauto|].
  inversion Hnd as [|? ? Hnotin Hnd']; subst.
  destruct Hin as [->|Hin].
  - rewrite upd_same, gload_upd_notin by assumption. lia.
  - rewrite upd_other by (intros ->; contradiction). rewrite IH by assumption. lia.
Qed.

(* ---------- sorting facts ---------- *)
Lemma insert_layer_perm x l : Permutation (x :: l) (insert_layer x l).
Proof.
  induction l as [|y t IH]; simpl; [apply Permutation_refl|].
  destruct (sumcost (snd y) <? sumcost (snd x)); [apply Permutation_refl|].
  eapply perm_trans; [apply perm_swap|]. now apply perm_skip.
Qed.

Lemma sort_layers_perm l : Permutation l (sort_layers l).
Proof.
  unfold sort_layers.
  assert (G : forall acc, Permutation (acc ++ l) (fold_left (fun a x => insert_layer x a) l acc)).
  { induction l as [|x l IH]; intros acc; simpl; [rewrite app_nil_r; apply Permutation_refl|].
    eapply perm_trans; [|apply IH].
    eapply perm_trans; [apply Permutation_sym, Permutation_middle|].
    change (x :: acc ++ l) with ((x :: acc) ++ l).
    apply Permutation_app_tail, insert_layer_perm. }
  apply (G []).
Qed.

Definition layers_desc (l : list (nat * layerw)) : Prop :=
  forall i j, (i < j < length l)%nat ->
    sumcost (snd (nth j l (0%nat, []))) <= sumcost (snd (nth i l (0%nat, []))).

Inductive DescL : list (nat * layerw) -> Prop :=
| DescL_nil : DescL []
| DescL_cons x l : (forall y, In y l -> sumcost (snd y) <= sumcost (snd x)) -> DescL l -> DescL (x :: l).

Lemma insert_layer_desc x l : DescL l -> DescL (insert_layer x l).
Proof.
  induction 1 as [|y t Hy Ht IH]; simpl.
  - constructor; [intros ? []|constructor].
  - destruct (sumcost (snd y) <? sumcost (snd x)) eqn:E.
    + apply Z.ltb_lt in E. constructor; [|constructor; assumption].
      intros z [<-|Hz]; [lia|]. specialize (Hy z Hz). lia.
    + apply Z.ltb_ge in E. constructor; [|assumption].
      intros z Hz. apply (Permutation_in _ (Permutation_sym (insert_layer_perm x t))) in Hz.
      destruct Hz as [<-|Hz]; [assumption|apply Hy, Hz].
Qed.

Lemma sort_layers_desc l : DescL (sort_layers l).
Proof.
  unfold sort_layers.
  assert (G : forall acc, DescL acc -> DescL (fold_left (fun a x => insert_layer x a) l acc)).
  { induction l as [|x l IH]; intros acc H; simpl; [assumption|]. apply IH, insert_layer_desc, H. }
  apply G. constructor.
Qed.

Lemma insert_factor_perm x l : Permutation (x :: l) (insert_factor x l).
Proof.
  induction l as [|y t IH]; simpl; [apply Permutation_refl|].
  destruct (factor_lt y x); [apply Permutation_refl|].
  eapply perm_trans; [apply perm_swap|]. now apply perm_skip.
Qed.

Lemma sort_factors_perm l : Permutation l (sort_factors l).
Proof.
  unfold sort_factors.
  assert (G : forall acc, Permutation (acc ++ l) (fold_left (fun a x => insert_factor x a) l acc)).
  { induction l as [|x l IH]; intros acc; simpl; [rewrite app_nil_r; apply Permutation_refl|].
    eapply perm_trans; [|apply IH].
    eapply perm_trans; [apply Permutation_sym, Permutation_middle|].
    change (x :: acc ++ l) with ((x :: acc) ++ l).
    apply Permutation_app_tail, insert_factor_perm. }
  apply (G []).
Qed.

Inductive DescF : list factor -> Prop :=
| DescF_nil : DescF []
| DescF_cons x l : (forall y, In y l -> snd y <= snd x) -> DescF l -> DescF (x :: l).

Lemma factor_lt_false_le y x : factor_lt y x = false -> snd x <= snd y.
Proof.
  unfold factor_lt. intros H. apply orb_false_iff in H as [H1 H2].
  apply Z.ltb_ge in H1. assumption.
Qed.
Lemma factor_lt_true_le y x : factor_lt y x = true -> snd y <= snd x.
Proof.
  unfold factor_lt. intros H. apply orb_true_iff in H as [H|H].
  - apply Z.ltb_lt in H. lia.
  - apply andb_true_iff in H as [H _]. apply Z.eqb_eq in H. lia.
Qed.

Lemma insert_factor_desc x l : DescF l -> DescF (insert_factor x l).
Proof.
  induction 1 as [|y t Hy Ht IH]; simpl.
  - constructor; [intros ? []|constructor].
  - destruct (factor_lt y x) eqn:E.
    + apply factor_lt_true_le in E. constructor; [|constructor; assumption].
      intros z [<-|Hz]; [lia|]. specialize (Hy z Hz). lia.
    + apply factor_lt_false_le in E. constructor; [|assumption].
      intros z Hz. apply (Permutation_in _ (Permutation_sym (insert_factor_perm x t))) in Hz.
      destruct Hz as [<-|Hz]; [assumption|apply Hy, Hz].
Qed.

Lemma sort_factors_desc l : DescF (sort_factors l).
Proof.
  unfold sort_factors.
  assert (G : forall acc, DescF acc -> DescF (fold_left (fun a x => insert_factor x a) l acc)).
  { induction l as [|x l IH]; intros acc H; simpl; [assumption|]. apply IH, insert_factor_desc, H. }
  apply G. constructor.
Qed.

Lemma sumcost_perm l l' : Permutation l l' -> sumcost l = sumcost l'.
Proof. induction 1; simpl; lia. Qed.

(* ---------- the rule as a relation ---------- *)
Section Spec.
Variable groups : list (list nat).
Variable A : nat -> nat -> option nat.    (* layer index -> factor code -> rank *)

Inductive FactorsPlaced (g : list nat) (l : nat) : loads -> list factor -> loads -> Prop :=
| FP_nil L : FactorsPlaced g l L [] L
| FP_cons L f c t w L' :
    A l f = Some w -> In w g -> (forall w', In w' g -> L w <= L w') ->
    FactorsPlaced g l (upd L w c) t L' -> FactorsPlaced g l L ((f, c) :: t) L'.

Definition min_group (L : loads) (g : list nat) : Prop :=
  In g groups /\ forall g', In g' groups -> gload L g <= gload L g'.

Inductive LayerPlaced (colocate : bool) (l : nat) (fs : layerw) : loads -> loads -> Prop :=
| LP_empty L : fs = [] -> LayerPlaced colocate l fs L L
| LP_colo L g w : colocate = true -> fs <> [] -> min_group L g ->
    In w g -> (forall w', In w' g -> L w <= L w') ->
    (forall f c, In (f, c) fs -> A l f = Some w) ->
    LayerPlaced colocate l fs L (upd L w (sumcost fs))
| LP_split L g L' : colocate = false -> fs <> [] -> min_group L g ->
    FactorsPlaced g l L (sort_factors fs) L' -> LayerPlaced colocate l fs L L'.

Inductive LayersPlaced (colocate : bool) : loads -> list (nat * layerw) -> loads -> Prop :=
| LsP_nil L : LayersPlaced colocate L [] L
| LsP_cons L i fs t L1 L2 :
    LayerPlaced colocate i fs L L1 -> LayersPlaced colocate L1 t L2 ->
    LayersPlaced colocate L ((i, fs) :: t) L2.

(* ---- consequences: every factor placed, on a rank of the chosen group ---- *)
Lemma FP_assigned g l L fs L' : FactorsPlaced g l L fs L' ->
  forall f c, In (f, c) fs -> exists w, A l f = Some w /\ In w g.
Proof.
  induction 1 as [|L f0 c0 t w L' HA Hw Hmin Hrest IH]; intros f c Hin; [destruct Hin|].
  destruct Hin as [E|Hin]; [inversion E; subst; eauto|eauto].
Qed.

Lemma LP_confined colocate l fs L L' : LayerPlaced colocate l fs L L' -> fs <> [] ->
  exists g, In g groups /\ forall f c, In (f, c) fs -> exists w, A l f = Some w /\ In w g.
Proof.
  intros H Hne. destruct H as [L E|L g w Hc _ [Hg _] Hw _ HA|L g L' Hc _ [Hg _] HF]; [contradiction| |].
  - exists g. split; [assumption|]. intros f c Hin. exists w. split; [eapply HA; eassumption|assumption].
  - exists g. split; [assumption|]. intros f c Hin.
    eapply FP_assigned; [eassumption|]. eapply Permutation_in; [apply sort_factors_perm|eassumption].
Qed.

Lemma LP_colocated l fs L L' : LayerPlaced true l fs L L' ->
  forall f c f' c', In (f, c) fs -> In (f', c') fs -> A l f = A l f'.
Proof.
  intros H f c f' c' H1 H2.
  destruct H as [L E|L g w Hc _ _ _ _ HA|L g L' Hc]; [subst; destruct H1| |discriminate].
  rewrite (HA _ _ H1), (HA _ _ H2). reflexivity.
Qed.

(* ---- frame and group-load lemmas ---- *)
Lemma FP_frame g l L fs L' : FactorsPlaced g l L fs L' -> forall r, ~ In r g -> L' r = L r.
Proof.
  induction 1 as [|L f c t w L' HA Hw Hmin Hrest IH]; intros r Hr; [reflexivity|].
  rewrite IH by assumption. apply upd_other. intros ->. contradiction.
Qed.

Lemma FP_gload g l L fs L' : NoDup g -> FactorsPlaced g l L fs L' ->
  gload L' g = gload L g + sumcost fs.
Proof.
  intros Hnd. induction 1 as [|L f c t w L' HA Hw Hmin Hrest IH]; simpl; [lia|].
  rewrite IH, gload_upd_in by assumption. lia.
Qed.

Lemma gload_ext L L' g : (forall r, In r g -> L' r = L r) -> gload L' g = gload L g.
Proof.
  induction g as [|r g IH]; simpl; intros H; [reflexivity|].
  rewrite H by now left. rewrite IH; [reflexivity|]. intros; apply H; now right.
Qed.

(* ---- balance inside a group ---- *)
Definition Bal (L : loads) (M : Z) (g : list nat) : Prop :=
  forall w1 w2, In w1 g -> In w2 g -> L w1 - L w2 <= M.

Lemma Bal_place L M g w c : 0 <= c -> Bal L M g -> In w g ->
  (forall w', In w' g -> L w <= L w') -> Bal (upd L w c) (Z.max M c) g.
Proof.
  intros Hc HB Hw Hmin w1 w2 H1 H2. unfold upd.
  destruct (Nat.eqb_spec w1 w), (Nat.eqb_spec w2 w); subst.
  - lia.
  - specialize (Hmin w2 H2). lia.
  - specialize (HB w1 w H1 Hw). lia.
  - specialize (HB w1 w2 H1 H2). lia.
Qed.

Lemma Bal_mono L M M' g : M <= M' -> Bal L M g -> Bal L M' g.
Proof. intros H HB w1 w2 H1 H2. specialize (HB w1 w2 H1 H2). lia. Qed.

Lemma Bal_ext L L' M g : (forall r, In r g -> L' r = L r) -> Bal L M g -> Bal L' M g.
Proof. intros H HB w1 w2 H1 H2. rewrite !H by assumption. now apply HB. Qed.

Definition costs_le (fs : list factor) (M : Z) : Prop := forall f c, In (f, c) fs -> 0 <= c <= M.

Lemma FP_bal g l L fs L' M : FactorsPlaced g l L fs L' -> costs_le fs M -> Bal L M g -> Bal L' M g.
Proof.
  induction 1 as [|L f c t w L' HA Hw Hmin Hrest IH]; intros Hc HB; [assumption|].
  apply IH.
  - intros f' c' Hin. apply (Hc f' c'). now right.
  - destruct (Hc f c (or_introl eq_refl)) as [H0 HM].
    eapply Bal_mono; [|apply Bal_place; eassumption]. lia.
Qed.

Lemma sumcost_nonneg fs M : costs_le fs M -> 0 <= sumcost fs.
Proof.
  induction fs as [|[f c] t IH]; simpl; intros H; [lia|].
  destruct (H f c (or_introl eq_refl)). assert (0 <= sumcost t); [|lia].
  apply IH. intros f' c' Hin. apply (H f' c'). now right.
Qed.

Definition wf_groups : Prop :=
  (forall g, In g groups -> NoDup g) /\
  (forall g1 g2, In g1 groups -> In g2 groups -> g1 <> g2 -> forall r, In r g1 -> ~ In r g2).

(* item bound: for colocated placement the item is the layer total, otherwise a factor *)
Definition item_bound (colocate : bool) (fs : layerw) (M : Z) : Prop :=
  costs_le fs M /\ (colocate = true -> sumcost fs <= M).

Lemma LP_bal colocate l fs L L' M : wf_groups -> LayerPlaced colocate l fs L L' ->
  item_bound colocate fs M ->
  (forall g, In g groups -> Bal L M g) -> (forall g, In g groups -> Bal L' M g).
Proof.
  intros [Hnd Hdis] H [Hc Hs] HB g0 Hg0.
  destruct H as [L E|L g w Hcol Hne [Hg Hgmin] Hw Hmin HA|L g L' Hcol Hne [Hg Hgmin] HF].
  - now apply HB.
  - destruct (list_eq_dec Nat.eq_dec g0 g) as [->|Hneq].
    + eapply Bal_mono; [|apply Bal_place; try eassumption; [eapply sumcost_nonneg; eassumption|now apply HB]].
      specialize (Hs Hcol). lia.
    + eapply Bal_ext; [|now apply HB]. intros r Hr. apply upd_other. intros ->.
      exact (Hdis g g0 Hg Hg0 (fun e => Hneq (eq_sym e)) w Hw Hr).
  - destruct (list_eq_dec Nat.eq_dec g0 g) as [->|Hneq].
    + eapply FP_bal; [eassumption| |now apply HB].
      intros f c Hin. apply (Hc f c).
      eapply Permutation_in; [apply Permutation_sym, sort_factors_perm|eassumption].
    + eapply Bal_ext; [|now apply HB]. intros r Hr. eapply FP_frame; [eassumption|].
      intros Hrg. exact (Hdis g g0 Hg Hg0 (fun e => Hneq (eq_sym e)) r Hrg Hr).
Qed.

Lemma LsP_bal colocate L ls L' M : wf_groups -> LayersPlaced colocate L ls L' ->
  (forall i fs, In (i, fs) ls -> item_bound colocate fs M) ->
  (forall g, In g groups -> Bal L M g) -> (forall g, In g groups -> Bal L' M g).
Proof.
  intros Hwf. induction 1 as [|L i fs t L1 L2 H1 Hrest IH]; intros Hib HB; [assumption|].
  apply IH.
  - intros j fs' Hin. apply (Hib j fs'). now right.
  - eapply LP_bal; try eassumption. apply (Hib i fs). now left.
Qed.

(* ---- balance between groups ---- *)
Definition GBal (L : loads) (M : Z) : Prop :=
  forall g1 g2, In g1 groups -> In g2 groups -> gload L g1 - gload L g2 <= M.

Lemma LP_gload colocate l fs L L' : wf_groups -> LayerPlaced colocate l fs L L' ->
  fs = [] /\ L' = L \/
  exists g, min_group L g /\ gload L' g = gload L g + sumcost fs /\
            forall g', In g' groups -> g' <> g -> gload L' g' = gload L g'.
Proof.
  intros [Hnd Hdis] H.
  destruct H as [L E|L g w Hcol Hne Hmg Hw Hmin HA|L g L' Hcol Hne Hmg HF]; [left; tauto| |]; right; exists g.
  - destruct Hmg as [Hg Hgm]. repeat split; try assumption.
    + apply gload_upd_in; [apply Hnd|]; assumption.
    + intros g' Hg' Hneq. apply gload_upd_notin. intros Hin. exact (Hdis g g' Hg Hg' (fun e => Hneq (eq_sym e)) w Hw Hin).
  - destruct Hmg as [Hg Hgm]. repeat split; try assumption.
    + rewrite (FP_gload g l L _ L' (Hnd g Hg) HF). f_equal. symmetry. apply sumcost_perm, sort_factors_perm.
    + intros g' Hg' Hneq. apply gload_ext. intros r Hr. eapply FP_frame; [eassumption|].
      intros Hrg. exact (Hdis g g' Hg Hg' (fun e => Hneq (eq_sym e)) r Hrg Hr).
Qed.

Lemma LP_gbal colocate l fs L L' M : wf_groups -> LayerPlaced colocate l fs L L' ->
  0 <= sumcost fs <= M -> GBal L M -> GBal L' M.
Proof.
  intros Hwf H Hs HB.
  destruct (LP_gload _ _ _ _ _ Hwf H) as [[_ ->]|(g & [Hg Hmin] & Hinc & Hoth)]; [assumption|].
  intros g1 g2 H1 H2.
  destruct (list_eq_dec Nat.eq_dec g1 g) as [->|N1], (list_eq_dec Nat.eq_dec g2 g) as [->|N2].
  - lia.
  - rewrite Hinc, (Hoth g2 H2 N2). specialize (Hmin g2 H2). lia.
  - rewrite Hinc, (Hoth g1 H1 N1). specialize (HB g1 g H1 Hg). lia.
  - rewrite (Hoth g1 H1 N1), (Hoth g2 H2 N2). now apply HB.
Qed.

Lemma LsP_gbal colocate L ls L' M : wf_groups -> LayersPlaced colocate L ls L' ->
  (forall i fs, In (i, fs) ls -> 0 <= sumcost fs <= M) -> GBal L M -> GBal L' M.
Proof.
  intros Hwf. induction 1 as [|L i fs t L1 L2 H1 Hrest IH]; intros Hb HB; [assumption|].
  apply IH.
  - intros j fs' Hin. apply (Hb j fs'). now right.
  - eapply LP_gbal; try eassumption. apply (Hb i fs). now left.
Qed.

(* ---- everything in the processing list is placed ---- *)
Lemma LsP_layer colocate L ls L' : LayersPlaced colocate L ls L' ->
  forall i fs, In (i, fs) ls -> exists La Lb, LayerPlaced colocate i fs La Lb.
Proof.
  induction 1 as [|L i0 fs0 t L1 L2 H1 Hrest IH]; intros i fs Hin; [destruct Hin|].
  destruct Hin as [E|Hin]; [inversion E; subst; eauto|eauto].
Qed.
End Spec.

(* ---------- soundness of the boolean checker ---------- *)
Lemma check_factors_sound a g l fs : forall L L',
  check_factors L g l fs a = Some L' -> FactorsPlaced (lookup2 a) g l L fs L'.
Proof.
  induction fs as [|[f c] t IH]; simpl; intros L L' H.
  - inversion H; subst. constructor.
  - destruct (lookup2 a l f) as [w|] eqn:E; [|discriminate].
    destruct (memb w g && is_min_in (L w) (map L g)) eqn:E2; [|discriminate].
    apply andb_true_iff in E2 as [Hm Hmin]. apply memb_spec in Hm.
    econstructor; try eassumption.
    + intros w' Hw'. apply (proj1 (is_min_in_spec _ _) Hmin). now apply in_map.
    + now apply IH.
Qed.

Lemma check_layer_sound colocate groups a l fs L L' :
  check_layer colocate L groups l fs a = Some L' ->
  LayerPlaced groups (lookup2 a) colocate l fs L L'.
Proof.
  unfold check_layer. intros H.
  destruct (if colocate then fs else sort_factors fs) as [|[f0 c0] rest] eqn:Epfs.
  - inversion H; subst. apply LP_empty.
    destruct colocate; [assumption|].
    destruct fs as [|x t]; [reflexivity|].
    exfalso. assert (Hin : In x (sort_factors (x :: t))).
    { eapply Permutation_in; [apply sort_factors_perm|now left]. }
    rewrite Epfs in Hin. destruct Hin.
  - destruct (lookup2 a l f0) as [w0|] eqn:E0; [|discriminate].
    destruct (find (memb w0) groups) as [g|] eqn:Eg; [|discriminate].
    apply find_memb_spec in Eg as [Hg Hw0].
    destruct (is_min_in (gload L g) (map (gload L) groups)) eqn:Emin; [|discriminate].
    assert (Hmg : min_group groups L g).
    { split; [assumption|]. intros g' Hg'. apply (proj1 (is_min_in_spec _ _) Emin). now apply in_map. }
    assert (Hne : fs <> []).
    { destruct colocate; [rewrite Epfs; discriminate|].
      intros ->. discriminate Epfs. }
    destruct colocate.
    + destruct (is_min_in (L w0) (map L g) && _) eqn:E2; [|discriminate].
      apply andb_true_iff in E2 as [Hmin Hall]. inversion H; subst L'.
      eapply LP_colo; try eassumption; [reflexivity| |].
      * intros w' Hw'. apply (proj1 (is_min_in_spec _ _) Hmin). now apply in_map.
      * intros f c Hin. rewrite forallb_forall in Hall. specialize (Hall _ Hin). simpl in Hall.
        destruct (lookup2 a l f) as [w|]; [|discriminate]. apply Nat.eqb_eq in Hall. now subst.
    + eapply LP_split; try eassumption; [reflexivity|].
      rewrite Epfs. apply check_factors_sound. exact H.
Qed.

Lemma check_all_sound colocate groups a ls : forall L,
  check_all colocate L groups ls a = true ->
  exists L', LayersPlaced groups (lookup2 a) colocate L ls L'.
Proof.
  induction ls as [|[i fs] t IH]; simpl; intros L H.
  - exists L. constructor.
  - destruct (check_layer colocate L groups i fs a) as [L1|] eqn:E; [|discriminate].
    destruct (IH L1 H) as [L2 H2]. exists L2. econstructor; [|eassumption].
    now apply check_layer_sound.
Qed.

Lemma loads_all_sound colocate groups a ls : forall L L',
  loads_all colocate L groups ls a = Some L' ->
  LayersPlaced groups (lookup2 a) colocate L ls L'.
Proof.
  induction ls as [|[i fs] t IH]; simpl; intros L L' H.
  - inversion H; subst. constructor.
  - destruct (check_layer colocate L groups i fs a) as [L1|] eqn:E; [|discriminate].
    eapply LsP_cons; [apply check_layer_sound; exact E|apply IH; exact H].
Qed.

Lemma index_from_In {A} (l : list A) : forall k i x, In (i, x) (index_from k l) ->
  (k <= i)%nat /\ nth_error l (i - k) = Some x.
Proof.
  induction l as [|y t IH]; simpl; intros k i x H; [destruct H|].
  destruct H as [E|H].
  - inversion E; subst. rewrite Nat.sub_diag. split; [lia|reflexivity].
  - destruct (IH _ _ _ H) as [Hle Hn]. split; [lia|].
    replace (i - k)%nat with (S (i - S k))%nat by lia. exact Hn.
Qed.

Lemma index_from_In_rev {A} (l : list A) : forall k j x, nth_error l j = Some x ->
  In ((k + j)%nat, x) (index_from k l).
Proof.
  induction l as [|y t IH]; intros k [|j] x H; simpl in *; try discriminate.
  - inversion H; subst. left. f_equal. lia.
  - right. replace (k + S j)%nat with (S k + j)%nat by lia. now apply IH.
Qed.

(* ---------- the statements used by Properties/C17.v ---------- *)
Definition processing (work : list layerw) := sort_layers (index_from 0 work).

(* the checker is sound for the rule: layers in non-increasing total cost,
   each on a least-loaded group; inside it factors in non-increasing cost, each
   on a least-loaded worker; loads updated accordingly *)
Lemma greedy_rule_l : forall work groups colocate a,
  greedy_ok_b work groups colocate a = true ->
  (exists L', LayersPlaced groups (lookup2 a) colocate (fun _ => 0) (processing work) L') /\
  DescL (processing work) /\ Permutation (index_from 0 work) (processing work) /\
  (forall fs, DescF (sort_factors fs) /\ Permutation fs (sort_factors fs)).
Proof.
  intros work groups colocate a H. split; [exact (check_all_sound _ _ _ _ _ H)|].
  split; [apply sort_layers_desc|]. split; [apply sort_layers_perm|].
  intro fs. split; [apply sort_factors_desc|apply sort_factors_perm].
Qed.

(* every factor of every layer has a rank, all ranks of a layer lie in ONE group *)
Lemma greedy_complete_confined_l : forall work groups colocate a,
  greedy_ok_b work groups colocate a = true ->
  forall i fs, nth_error work i = Some fs -> fs <> [] ->
  exists g, In g groups /\
    forall f c, In (f, c) fs -> exists w, lookup2 a i f = Some w /\ In w g.
Proof.
  intros work groups colocate a H i fs Hn Hne.
  destruct (check_all_sound _ _ _ _ _ H) as [L' HL].
  assert (Hin : In (i, fs) (processing work)).
  { eapply Permutation_in; [apply sort_layers_perm|].
    exact (index_from_In_rev work 0%nat i fs Hn). }
  destruct (LsP_layer _ _ _ _ _ _ HL i fs Hin) as (La & Lb & HP).
  exact (LP_confined _ _ _ _ _ _ _ HP Hne).
Qed.

(* with colocate_factors all factors of a layer share one worker *)
Lemma greedy_colocated_l : forall work groups a,
  greedy_ok_b work groups true a = true ->
  forall i fs, nth_error work i = Some fs ->
  forall f c f' c', In (f, c) fs -> In (f', c') fs -> lookup2 a i f = lookup2 a i f'.
Proof.
  intros work groups a H i fs Hn f c f' c' H1 H2.
  destruct (check_all_sound _ _ _ _ _ H) as [L' HL].
  assert (Hin : In (i, fs) (processing work)).
  { eapply Permutation_in; [apply sort_layers_perm|].
    exact (index_from_In_rev work 0%nat i fs Hn). }
  destruct (LsP_layer _ _ _ _ _ _ HL i fs Hin) as (La & Lb & HP).
  exact (LP_colocated _ _ _ _ _ _ HP f c f' c' H1 H2).
Qed.

(* worker loads inside every group differ by at most the largest single item *)
Lemma balance_workers_l : forall work groups colocate a M L',
  wf_groups groups ->
  (forall fs, In fs work -> item_bound colocate fs M) -> 0 <= M ->
  loads_all colocate (fun _ => 0) groups (processing work) a = Some L' ->
  forall g, In g groups -> forall w1 w2, In w1 g -> In w2 g -> L' w1 - L' w2 <= M.
Proof.
  intros work groups colocate a M L' Hwf Hib HM HL g Hg.
  apply loads_all_sound in HL.
  refine (LsP_bal groups (lookup2 a) colocate _ _ _ M Hwf HL _ _ g Hg).
  - intros i fs Hin. apply Hib.
    apply (Permutation_in _ (Permutation_sym (sort_layers_perm _))) in Hin.
    apply index_from_In in Hin as [_ Hn]. eapply nth_error_In; eassumption.
  - intros g0 _ w1 w2 _ _. simpl. exact HM.
Qed.

(* group loads differ by at most the largest layer total *)
Lemma balance_groups_l : forall work groups colocate a M L',
  wf_groups groups ->
  (forall fs, In fs work -> 0 <= sumcost fs <= M) -> 0 <= M ->
  loads_all colocate (fun _ => 0) groups (processing work) a = Some L' ->
  forall g1 g2, In g1 groups -> In g2 groups -> gload L' g1 - gload L' g2 <= M.
Proof.
  intros work groups colocate a M L' Hwf Hb HM HL.
  apply loads_all_sound in HL.
  refine (LsP_gbal groups (lookup2 a) colocate _ _ _ M Hwf HL _ _).
  - intros i fs Hin. apply Hb.
    apply (Permutation_in _ (Permutation_sym (sort_layers_perm _))) in Hin.
    apply index_from_In in Hin as [_ Hn]. eapply nth_error_In; eassumption.
  - intros g1 g2 H1 H2.
    assert (E : forall g, gload (fun _ : nat => 0) g = 0) by (induction g; simpl; lia).
    rewrite !E. lia.
Qed.

