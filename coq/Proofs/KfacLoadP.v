(* what load_state_dict of a factor-less state does to the control machine and to the communication events (C03) *)
From Coq Require Import List Arith Bool Lia.
Import ListNotations.
From KV Require Import Model.Placement Model.Kfac Model.KfacComm.

(* a checkpoint without factors: whatever compute_inverses says, the load has no communication event and leaves the factors and the
   second-order data of the loading object alone *)
Lemma factorless_load_is_silent_l : forall cfg hook cks s ck comp c,
  nth_error cks ck = Some c -> k_factors c = None ->
  let r := kstep cfg cks s (Load ck comp) in
  cev_of hook (Load ck comp) (snd r) = [] /\
  Kfac.inv (fst r) = Kfac.inv s /\ fa (fst r) = fa s /\ fg (fst r) = fg s /\ Kfac.steps (fst r) = k_steps c.
Proof.
  intros cfg hook cks s ck comp c Hn Hf. cbn [kstep]. rewrite Hn, Hf. cbn. repeat split; reflexivity.
Qed.
