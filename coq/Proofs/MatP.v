From Coq Require Import List Arith Bool Lia Reals Lra.
Import ListNotations.
From KV Require Import Model.Mat.
Local Open Scope R_scope.

(* the real-number reading of the arithmetic record *)
Definition ops_R : ops R :=
  mkOps R 0 1 Rplus Rmult Rminus Rdiv (fun x => Rmax x 0) sqrt Rabs Rmin
        (fun x => if Req_EM_T x 0 then true else false) INR.

Notation sumR := (sumn ops_R).
Notation mmulR := (mmul ops_R).
Notation mTR := (@mT R).
Notation midR := (mid ops_R).
Notation mdiagR := (mdiag ops_R).
Notation maddR := (madd ops_R).
Notation mscaleR := (mscale ops_R).
Notation tabR := (tab ops_R).

Lemma sumR_S n f : sumR (S n) f = sumR n f + f n.
Proof. reflexivity. Qed.

Lemma sumR_ext n f g : (forall i, (i < n)%nat -> f i = g i) -> sumR n f = sumR n g.
Proof.
  induction n as [|n IH]; intros H; [reflexivity|]. rewrite !sumR_S, IH, (H n) by (intros; try apply H; lia). reflexivity.
Qed.

Lemma sumR_0 n : sumR n (fun _ => 0) = 0.
Proof. induction n as [|n IH]; [reflexivity|]. rewrite sumR_S, IH. simpl. lra. Qed.

Lemma sumR_add n f g : sumR n (fun i => f i + g i) = sumR n f + sumR n g.
Proof. induction n as [|n IH]; [simpl; lra|]. rewrite !sumR_S, IH. lra. Qed.

Lemma sumR_scal_l n c f : sumR n (fun i => c * f i) = c * sumR n f.
Proof. induction n as [|n IH]; [simpl; lra|]. rewrite !sumR_S, IH. lra. Qed.

Lemma sumR_scal_r n c f : sumR n (fun i => f i * c) = sumR n f * c.
Proof. induction n as [|n IH]; [simpl; lra|]. rewrite !sumR_S, IH. lra. Qed.

Lemma sumR_exchange m n (f : nat -> nat -> R) :
  sumR m (fun i => sumR n (fun j => f i j)) = sumR n (fun j => sumR m (fun i => f i j)).
Proof.
  induction m as [|m IH].
  - simpl. now rewrite sumR_0.
  - rewrite sumR_S, IH, <- sumR_add. apply sumR_ext. intros j _. now rewrite sumR_S.
Qed.

Lemma sumR_delta_l n i (a : nat -> R) : (i < n)%nat ->
  sumR n (fun t => (if Nat.eqb i t then 1 else 0) * a t) = a i.
Proof.
  induction n as [|n IH]; intros H; [lia|]. rewrite sumR_S.
  destruct (Nat.eq_dec i n) as [->|Hne].
  - rewrite Nat.eqb_refl. rewrite (sumR_ext n _ (fun _ => 0)), sumR_0; [lra|].
    intros t Ht. destruct (Nat.eqb_spec n t); [lia|lra].
  - rewrite IH by lia. destruct (Nat.eqb_spec i n); [lia|lra].
Qed.

Lemma sumR_delta_r n j (a : nat -> R) : (j < n)%nat ->
  sumR n (fun t => a t * (if Nat.eqb t j then 1 else 0)) = a j.
Proof.
  intros H. rewrite <- (sumR_delta_l n j a H). apply sumR_ext. intros t _.
  rewrite (Nat.eqb_sym t j). lra.
Qed.

Lemma sumR_nonneg n f : (forall i, (i < n)%nat -> 0 <= f i) -> 0 <= sumR n f.
Proof.
  induction n as [|n IH]; intros H; [simpl; lra|]. rewrite sumR_S.
  assert (0 <= sumR n f) by (apply IH; intros; apply H; lia). specialize (H n ltac:(lia)). lra.
Qed.

(* ---- matrices ---- *)
Definition meq (m n : nat) (A B : @mat R) : Prop := forall i j, (i < m)%nat -> (j < n)%nat -> A i j = B i j.

Lemma meq_refl m n A : meq m n A A. Proof. intros i j _ _. reflexivity. Qed.
Lemma meq_sym m n A B : meq m n A B -> meq m n B A. Proof. intros H i j Hi Hj. symmetry. now apply H. Qed.
Lemma meq_trans m n A B C : meq m n A B -> meq m n B C -> meq m n A C.
Proof. intros H1 H2 i j Hi Hj. rewrite H1, H2; auto. Qed.

Lemma mmul_assoc k l (A B C : @mat R) i j :
  mmulR l (mmulR k A B) C i j = mmulR k A (mmulR l B C) i j.
Proof.
  unfold mmul. simpl.
  rewrite (sumR_ext l _ (fun t => sumR k (fun s => A i s * B s t * C t j))).
  2:{ intros t _. rewrite <- sumR_scal_r. reflexivity. }
  rewrite sumR_exchange. apply sumR_ext. intros s _.
  rewrite <- sumR_scal_l. apply sumR_ext. intros t _. lra.
Qed.

Lemma mmul_meq_l m n k A A' B : meq m k A A' -> meq m n (mmulR k A B) (mmulR k A' B).
Proof. intros H i j Hi Hj. unfold mmul. apply sumR_ext. intros t Ht. simpl. now rewrite H. Qed.

Lemma mmul_meq_r m n k A B B' : meq k n B B' -> meq m n (mmulR k A B) (mmulR k A B').
Proof. intros H i j Hi Hj. unfold mmul. apply sumR_ext. intros t Ht. simpl. now rewrite H. Qed.

Lemma mmul_id_l m n (B : @mat R) : meq m n (mmulR m midR B) B.
Proof.
  intros i j Hi Hj. unfold mmul, mid, mdiag. simpl.
  rewrite <- (sumR_delta_l m i (fun t => B t j) Hi). apply sumR_ext. intros t _.
  destruct (Nat.eqb i t); simpl; lra.
Qed.

Lemma mmul_id_r m n (A : @mat R) : meq m n (mmulR n A midR) A.
Proof.
  intros i j Hi Hj. unfold mmul, mid, mdiag. simpl.
  rewrite <- (sumR_delta_r n j (fun t => A i t) Hj). apply sumR_ext. intros t _.
  destruct (Nat.eqb t j); simpl; lra.
Qed.

Lemma mT_mmul k (A B : @mat R) i j : mTR (mmulR k A B) i j = mmulR k (mTR B) (mTR A) i j.
Proof. unfold mT, mmul. apply sumR_ext. intros t _. simpl. lra. Qed.

Lemma mT_invol (A : @mat R) i j : mTR (mTR A) i j = A i j.
Proof. reflexivity. Qed.

Lemma tab_eq m n (A : @mat R) : meq m n (tabR m n A) A.
Proof.
  intros i j Hi Hj. unfold tab, of_list, to_list.
  rewrite nth_indep with (d':=map (fun j0 => A 0%nat j0) (seq 0 n)) by (now rewrite map_length, seq_length).
  rewrite (map_nth (fun i0 => map (fun j0 => A i0 j0) (seq 0 n)) (seq 0 m) 0%nat i).
  rewrite seq_nth by assumption. simpl.
  rewrite nth_indep with (d':=A i 0%nat) by (now rewrite map_length, seq_length).
  rewrite (map_nth (fun j0 => A i j0) (seq 0 n) 0%nat j), seq_nth by assumption. reflexivity.
Qed.

Lemma mmul_diag_l k (d : nat -> R) (B : @mat R) i j : (i < k)%nat ->
  mmulR k (mdiagR d) B i j = d i * B i j.
Proof.
  intros Hi. unfold mmul, mdiag. simpl.
  rewrite <- (sumR_delta_l k i (fun t => d i * B t j) Hi). apply sumR_ext. intros t _.
  destruct (Nat.eqb_spec i t); [subst; lra|lra].
Qed.

Lemma mmul_diag_r k (d : nat -> R) (A : @mat R) i j : (j < k)%nat ->
  mmulR k A (mdiagR d) i j = A i j * d j.
Proof.
  intros Hj. unfold mmul, mdiag. simpl.
  rewrite <- (sumR_delta_r k j (fun t => A i t * d j) Hj). apply sumR_ext. intros t _.
  destruct (Nat.eqb_spec t j); [subst; lra|lra].
Qed.

Lemma mmul_madd_r k (A B C : @mat R) i j :
  mmulR k A (maddR B C) i j = mmulR k A B i j + mmulR k A C i j.
Proof. unfold mmul, madd. simpl. rewrite <- sumR_add. apply sumR_ext. intros; lra. Qed.

Lemma mmul_madd_l k (A B C : @mat R) i j :
  mmulR k (maddR A B) C i j = mmulR k A C i j + mmulR k B C i j.
Proof. unfold mmul, madd. simpl. rewrite <- sumR_add. apply sumR_ext. intros; lra. Qed.

Lemma mmul_mscale_r k c (A B : @mat R) i j : mmulR k A (mscaleR c B) i j = c * mmulR k A B i j.
Proof. unfold mmul, mscale. simpl. rewrite <- sumR_scal_l. apply sumR_ext. intros; lra. Qed.

Lemma mmul_mscale_l k c (A B : @mat R) i j : mmulR k (mscaleR c A) B i j = c * mmulR k A B i j.
Proof. unfold mmul, mscale. simpl. rewrite <- sumR_scal_l. apply sumR_ext. intros; lra. Qed.
