From Coq Require Import List Arith ZArith Bool Lia Permutation.
Import ListNotations.
From KV Require Import Model.Greedy Model.Neox Proofs.GreedyP.

Section Topo.
Variables D M : nat.
Hypothesis HD : 0 < D.
Hypothesis HM : 0 < M.

Lemma rank_coords p d m : d < D -> m < M ->
  c_pipe D M (rank_of D M p d m) = p /\ c_data D M (rank_of D M p d m) = d /\ c_model M (rank_of D M p d m) = m.
Proof.
  intros Hd Hm. unfold c_pipe, c_data, c_model, rank_of.
  assert (E1 : ((p * D + d) * M + m) / M = p * D + d).
  { rewrite Nat.div_add_l by lia. rewrite Nat.div_small by lia. lia. }
  repeat split.
  - rewrite (Nat.mul_comm D M), <- Nat.div_div by lia. rewrite E1.
    rewrite Nat.div_add_l by lia. rewrite Nat.div_small by lia. lia.
  - rewrite E1. rewrite Nat.add_comm, Nat.mod_add by lia. now apply Nat.mod_small.
  - rewrite Nat.add_comm, Nat.mod_add by lia. now apply Nat.mod_small.
Qed.

Lemma coords_rank r : rank_of D M (c_pipe D M r) (c_data D M r) (c_model M r) = r.
Proof.
  unfold rank_of, c_pipe, c_data, c_model.
  pose proof (Nat.div_mod r M ltac:(lia)) as H1.
  pose proof (Nat.div_mod (r / M) D ltac:(lia)) as H2.
  rewrite (Nat.mul_comm D M), <- Nat.div_div by lia.
  remember (r / M) as a. remember (a / D) as b. remember (a mod D) as c. remember (r mod M) as e.
  clear Heqa Heqb Heqc Heqe. nia.
Qed.

Lemma coords_bounds r : c_data D M r < D /\ c_model M r < M.
Proof. unfold c_data, c_model. split; apply Nat.mod_upper_bound; lia. Qed.

Lemma pipe_bound P r : r < P * D * M -> c_pipe D M r < P.
Proof. intros H. unfold c_pipe. apply Nat.div_lt_upper_bound; nia. Qed.

Lemma rank_bound P p d m : p < P -> d < D -> m < M -> rank_of D M p d m < P * D * M.
Proof.
  intros Hp Hd Hm. unfold rank_of.
  assert (H1 : p * D + d + 1 <= P * D) by nia.
  assert (H2 : (p * D + d + 1) * M <= P * D * M) by (apply Nat.mul_le_mono_r; exact H1).
  nia.
Qed.

Lemma rank_inj p d m p' d' m' : d < D -> m < M -> d' < D -> m' < M ->
  rank_of D M p d m = rank_of D M p' d' m' -> p = p' /\ d = d' /\ m = m'.
Proof.
  intros Hd Hm Hd' Hm' E.
  destruct (rank_coords p d m Hd Hm) as (A1 & A2 & A3).
  destruct (rank_coords p' d' m' Hd' Hm') as (B1 & B2 & B3).
  rewrite E in A1, A2, A3. repeat split; congruence.
Qed.

Lemma dp_In r x : In x (dp_group D M r) <-> exists d, d < D /\ x = rank_of D M (c_pipe D M r) d (c_model M r).
Proof.
  unfold dp_group. rewrite in_map_iff. split.
  - intros (d & <- & Hd). apply in_seq in Hd. exists d. split; [lia|reflexivity].
  - intros (d & Hd & ->). exists d. split; [reflexivity|apply in_seq; lia].
Qed.

Lemma mp_In r x : In x (mp_group D M r) <-> exists m, m < M /\ x = rank_of D M (c_pipe D M r) (c_data D M r) m.
Proof.
  unfold mp_group. rewrite in_map_iff. split.
  - intros (m & <- & Hm). apply in_seq in Hm. exists m. split; [lia|reflexivity].
  - intros (m & Hm & ->). exists m. split; [reflexivity|apply in_seq; lia].
Qed.

Lemma mp_In_coords r x : In x (mp_group D M r) <-> c_pipe D M x = c_pipe D M r /\ c_data D M x = c_data D M r.
Proof.
  rewrite mp_In. destruct (coords_bounds r) as [Hd Hm]. split.
  - intros (m & Hm' & ->). destruct (rank_coords (c_pipe D M r) (c_data D M r) m Hd Hm') as (A & B & _). tauto.
  - intros [E1 E2]. exists (c_model M x). split; [apply coords_bounds|].
    rewrite <- E1, <- E2. symmetry. apply coords_rank.
Qed.

Lemma dp_In_coords r x : In x (dp_group D M r) <-> c_pipe D M x = c_pipe D M r /\ c_model M x = c_model M r.
Proof.
  rewrite dp_In. destruct (coords_bounds r) as [Hd Hm]. split.
  - intros (d & Hd' & ->). destruct (rank_coords (c_pipe D M r) d (c_model M r) Hd' Hm) as (A & _ & C). tauto.
  - intros [E1 E2]. exists (c_data D M x). split; [apply coords_bounds|].
    rewrite <- E1, <- E2. symmetry. apply coords_rank.
Qed.

Lemma peers_In r x : In x (stage_peers D M r) <-> c_pipe D M x = c_pipe D M r.
Proof.
  unfold stage_peers. rewrite in_seq. unfold c_pipe. split.
  - intros H. symmetry. apply (Nat.div_unique x (D * M) (r / (D * M)) (x - r / (D * M) * (D * M))); lia.
  - intros E. pose proof (Nat.div_mod x (D * M) ltac:(nia)) as H.
    pose proof (Nat.mod_upper_bound x (D * M) ltac:(nia)). rewrite E in H. lia.
Qed.

(* own group membership *)
Lemma self_in_groups r : In r (dp_group D M r) /\ In r (mp_group D M r) /\ In r (stage_peers D M r).
Proof. rewrite dp_In_coords, mp_In_coords, peers_In. tauto. Qed.

(* factor-gathering rank: the unique rank in my model-parallel group and in the
   inverse worker's data-parallel group *)
Lemma factor_worker_spec_l r inv : c_pipe D M inv = c_pipe D M r ->
  let fw := factor_worker D M r inv in
  In fw (mp_group D M r) /\ In fw (dp_group D M inv) /\
  (forall x, In x (mp_group D M r) -> In x (dp_group D M inv) -> x = fw).
Proof.
  intros Hst. cbv zeta. unfold factor_worker.
  destruct (coords_bounds r) as [Hd Hm]. destruct (coords_bounds inv) as [Hd' Hm'].
  destruct (rank_coords (c_pipe D M r) (c_data D M r) (c_model M inv) Hd Hm') as (A & B & C).
  repeat split.
  - apply mp_In_coords. tauto.
  - apply dp_In_coords. rewrite A, C. split; congruence.
  - intros x H1 H2. apply mp_In_coords in H1 as [E1 E2]. apply dp_In_coords in H2 as [E3 E4].
    rewrite <- (coords_rank x). congruence.
Qed.

(* gradient source: the unique rank in my data-parallel group that holds my
   model-parallel shard inside the inverse worker's model-parallel group *)
Lemma src_spec_l r inv : c_pipe D M inv = c_pipe D M r ->
  let s := src_grad_worker D M r inv in
  In s (dp_group D M r) /\ In s (mp_group D M inv) /\ c_model M s = c_model M r /\
  (forall x, In x (dp_group D M r) -> In x (mp_group D M inv) -> x = s).
Proof.
  intros Hst. cbv zeta. unfold src_grad_worker.
  destruct (coords_bounds r) as [Hd Hm]. destruct (coords_bounds inv) as [Hd' Hm'].
  destruct (rank_coords (c_pipe D M r) (c_data D M inv) (c_model M r) Hd' Hm) as (A & B & C).
  repeat split.
  - apply dp_In_coords. tauto.
  - apply mp_In_coords. rewrite A, B. split; congruence.
  - assumption.
  - intros x H1 H2. apply dp_In_coords in H1 as [E1 E2]. apply mp_In_coords in H2 as [E3 E4].
    rewrite <- (coords_rank x). congruence.
Qed.

(* exactly the model-parallel peers of the inverse worker are gradient workers *)
Lemma grad_workers_spec_l r inv :
  is_grad_worker D M r inv = true <-> In r (mp_group D M inv).
Proof.
  unfold is_grad_worker. rewrite memb_spec, !mp_In_coords. intuition congruence.
Qed.

(* which group is reused does not depend on the rank *)
Lemma set_eqb_spec a b : set_eqb a b = true <-> (forall x, In x a <-> In x b).
Proof.
  unfold set_eqb. rewrite andb_true_iff, !forallb_forall. split.
  - intros [H1 H2] x. split; intros H; [apply memb_spec, H1, H|apply memb_spec, H2, H].
  - intros H. split; intros x Hx; apply memb_spec, H, Hx.
Qed.

Lemma peers_eq_mp r : set_eqb (stage_peers D M r) (mp_group D M r) = true <-> D = 1.
Proof.
  rewrite set_eqb_spec. split.
  - intros H. destruct (Nat.eq_dec D 1) as [|Hne]; [assumption|exfalso].
    destruct (coords_bounds r) as [Hd Hm].
    set (d' := if Nat.eqb (c_data D M r) 0 then 1 else 0).
    assert (Hd' : d' < D) by (unfold d'; destruct (Nat.eqb (c_data D M r) 0); lia).
    assert (Hne' : d' <> c_data D M r).
    { unfold d'. destruct (Nat.eqb_spec (c_data D M r) 0); lia. }
    destruct (rank_coords (c_pipe D M r) d' (c_model M r) Hd' Hm) as (A & B & C).
    set (x := rank_of D M (c_pipe D M r) d' (c_model M r)) in *.
    assert (Hx : In x (stage_peers D M r)) by (apply peers_In; exact A).
    apply H in Hx. apply mp_In_coords in Hx as [_ E]. congruence.
  - intros E1 x. rewrite peers_In, mp_In_coords. split; [|tauto].
    intros E. split; [assumption|]. unfold c_data. rewrite E1. now rewrite !Nat.mod_1_r.
Qed.

Lemma peers_eq_dp r : set_eqb (stage_peers D M r) (dp_group D M r) = true <-> M = 1.
Proof.
  rewrite set_eqb_spec. split.
  - intros H. destruct (Nat.eq_dec M 1) as [|Hne]; [assumption|exfalso].
    destruct (coords_bounds r) as [Hd Hm].
    set (m' := if Nat.eqb (c_model M r) 0 then 1 else 0).
    assert (Hm' : m' < M) by (unfold m'; destruct (Nat.eqb (c_model M r) 0); lia).
    assert (Hne' : m' <> c_model M r).
    { unfold m'. destruct (Nat.eqb_spec (c_model M r) 0); lia. }
    destruct (rank_coords (c_pipe D M r) (c_data D M r) m' Hd Hm') as (A & B & C).
    set (x := rank_of D M (c_pipe D M r) (c_data D M r) m') in *.
    assert (Hx : In x (stage_peers D M r)) by (apply peers_In; exact A).
    apply H in Hx. apply dp_In_coords in Hx as [_ E]. congruence.
  - intros E1 x. rewrite peers_In, dp_In_coords. split; [|tauto].
    intros E. split; [assumption|]. unfold c_model. rewrite E1. now rewrite !Nat.mod_1_r.
Qed.

Lemma peer_group_kind_spec r :
  peer_group_kind D M r = if Nat.eqb D 1 then ReuseModel else if Nat.eqb M 1 then ReuseData else NewGroup.
Proof.
  unfold peer_group_kind.
  destruct (set_eqb (stage_peers D M r) (mp_group D M r)) eqn:E1.
  - apply peers_eq_mp in E1. rewrite E1. reflexivity.
  - assert (D <> 1) by (intros HD1; apply (peers_eq_mp r) in HD1; congruence).
    destruct (Nat.eqb_spec D 1); [contradiction|].
    destruct (set_eqb (stage_peers D M r) (dp_group D M r)) eqn:E2.
    + apply peers_eq_dp in E2. rewrite E2. reflexivity.
    + assert (M <> 1) by (intros HM1; apply (peers_eq_dp r) in HM1; congruence).
      destruct (Nat.eqb_spec M 1); [contradiction|reflexivity].
Qed.

Lemma newgroup_same_order_l P r r' : newgroup_trace P D M r = newgroup_trace P D M r'.
Proof. unfold newgroup_trace. now rewrite !peer_group_kind_spec. Qed.
End Topo.

(* before the repair the traces differ across stages: P = D = M = 2 *)
Lemma newgroup_order_old_refuted : newgroup_trace_old 2 2 0 <> newgroup_trace_old 2 2 4.
Proof. vm_compute. discriminate. Qed.

(* ---------- inverse workers ---------- *)
Lemma insert_nlayer_perm names x l : Permutation (x :: l) (insert_nlayer names x l).
Proof.
  induction l as [|y t IH]; simpl; [apply Permutation_refl|].
  destruct (nlayer_lt names y x); [apply Permutation_refl|].
  eapply perm_trans; [apply perm_swap|]. now apply perm_skip.
Qed.

Lemma sort_neox_perm names l : Permutation l (sort_neox names l).
Proof.
  unfold sort_neox.
  assert (G : forall acc, Permutation (acc ++ l) (fold_left (fun a x => insert_nlayer names x a) l acc)).
  { induction l as [|x l IH]; intros acc; simpl; [rewrite app_nil_r; apply Permutation_refl|].
    eapply perm_trans; [|apply IH].
    eapply perm_trans; [apply Permutation_sym, Permutation_middle|].
    change (x :: acc ++ l) with ((x :: acc) ++ l).
    apply Permutation_app_tail, insert_nlayer_perm. }
  apply (G []).
Qed.

Lemma nlayer_lt_false_le names y x : nlayer_lt names y x = false -> (sumcost (snd x) <= sumcost (snd y))%Z.
Proof. unfold nlayer_lt. intros H. apply orb_false_iff in H as [H _]. now apply Z.ltb_ge in H. Qed.
Lemma nlayer_lt_true_le names y x : nlayer_lt names y x = true -> (sumcost (snd y) <= sumcost (snd x))%Z.
Proof.
  unfold nlayer_lt. intros H. apply orb_true_iff in H as [H|H].
  - apply Z.ltb_lt in H. lia.
  - apply andb_true_iff in H as [H _]. apply Z.eqb_eq in H. lia.
Qed.

Lemma insert_nlayer_desc names x l : DescL l -> DescL (insert_nlayer names x l).
Proof.
  induction 1 as [|y t Hy Ht IH]; simpl.
  - constructor; [intros ? []|constructor].
  - destruct (nlayer_lt names y x) eqn:E.
    + apply nlayer_lt_true_le in E. constructor; [|constructor; assumption].
      intros z [<-|Hz]; [lia|]. specialize (Hy z Hz). lia.
    + apply nlayer_lt_false_le in E. constructor; [|assumption].
      intros z Hz. apply (Permutation_in _ (Permutation_sym (insert_nlayer_perm names x t))) in Hz.
      destruct Hz as [<-|Hz]; [assumption|apply Hy, Hz].
Qed.

Lemma sort_neox_desc names l : DescL (sort_neox names l).
Proof.
  unfold sort_neox.
  assert (G : forall acc, DescL acc -> DescL (fold_left (fun a x => insert_nlayer names x a) l acc)).
  { induction l as [|x l IH]; intros acc H; simpl; [assumption|]. apply IH, insert_nlayer_desc, H. }
  apply G. constructor.
Qed.

(* every accepted assignment puts all factors of a layer on ONE stage peer and
   follows the least-loaded rule *)
Lemma neox_stage_l peers names work a : neox_ok_b peers names work a = true ->
  (exists L', LayersPlaced [peers] (lookup2 a) true (fun _ => 0%Z) (neox_processing names work) L') /\
  DescL (neox_processing names work) /\
  forall i fs, nth_error work i = Some fs -> fs <> [] ->
    exists w, In w peers /\ forall f c, In (f, c) fs -> lookup2 a i f = Some w.
Proof.
  intros H. unfold neox_ok_b in H.
  destruct (check_all_sound _ _ _ _ _ H) as [L' HL].
  split; [eauto|]. split; [apply sort_neox_desc|].
  intros i fs Hn Hne.
  assert (Hin : In (i, fs) (neox_processing names work)).
  { eapply Permutation_in; [apply sort_neox_perm|]. exact (index_from_In_rev work 0%nat i fs Hn). }
  destruct (LsP_layer _ _ _ _ _ _ HL i fs Hin) as (La & Lb & HP).
  destruct (LP_confined _ _ _ _ _ _ _ HP Hne) as (g & Hg & Hall).
  destruct Hg as [<-|[]].
  destruct fs as [|[f0 c0] t]; [contradiction|].
  destruct (Hall f0 c0 (or_introl eq_refl)) as (w & Hw & Hwin).
  exists w. split; [assumption|]. intros f c Hin'.
  rewrite <- Hw. symmetry. eapply LP_colocated; [exact HP|now left|exact Hin'].
Qed.

Lemma neox_balance_l peers names work a Mx L' : NoDup peers ->
  (forall fs, In fs work -> item_bound true fs Mx) -> (0 <= Mx)%Z ->
  loads_all true (fun _ => 0%Z) [peers] (neox_processing names work) a = Some L' ->
  forall w1 w2, In w1 peers -> In w2 peers -> (L' w1 - L' w2 <= Mx)%Z.
Proof.
  intros Hnd Hib HM HL. apply loads_all_sound in HL.
  assert (Hwf : wf_groups [peers]).
  { split; [intros g [<-|[]]; assumption|]. intros g1 g2 [<-|[]] [<-|[]] Hne; congruence. }
  refine (LsP_bal [peers] (lookup2 a) true _ _ _ Mx Hwf HL _ _ peers (or_introl eq_refl)).
  - intros i fs Hin. apply Hib.
    apply (Permutation_in _ (Permutation_sym (sort_neox_perm names _))) in Hin.
    apply index_from_In in Hin as [_ Hn]. eapply nth_error_In; eassumption.
  - intros g0 _ w1 w2 _ _. simpl. exact HM.
Qed.
